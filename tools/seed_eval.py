#!/venv/bin/python
"""Evaluate seeded mutations: for each /tmp/seed_<ID>/<mN> apply the patch to a scratch worktree, confirm the
test suite and the demonstration, run ./check <ID> quick against that tree (VERIF_REPO), undo, and record the outcome."""
import json, os, subprocess, sys, time, shutil

def sh(cmd, **kw):
    return subprocess.run(cmd, shell=True, capture_output=True, text=True, **kw)

def rebuild(wt):
    sh("cd %s && /venv/bin/python setup.py build_ext --inplace >/dev/null 2>&1; rm -rf build" % wt)

def one(pid, mn, props=None, skip_tests=bool(os.environ.get("SEED_SKIP_TESTS"))):
    wt, sd = "/tmp/wt_" + pid, "%s%s/%s" % (os.environ.get("SEED_DIR_PREFIX", "/tmp/seed_"), pid, mn)
    out = {"property": pid, "mutation": mn}
    assert sh("git -C %s status --porcelain" % wt).stdout.strip() == "", "worktree dirty"
    patch = open(sd + "/patch.diff").read()
    isc = ".c" in [os.path.splitext(l.split()[-1])[1] for l in patch.splitlines() if l.startswith("+++ ")]
    env = dict(os.environ, PYTHONPATH=wt, PYTHONHASHSEED="0")
    r = sh("PYTHONPATH=%s /venv/bin/python %s/demo.py" % (wt, sd))
    out["demo_clean_rc"] = r.returncode
    assert sh("git -C %s apply %s/patch.diff" % (wt, sd)).returncode == 0, "patch does not apply"
    try:
        if isc:
            rebuild(wt)
        if not skip_tests:
            r = sh("cd %s && PYTHONPATH=%s /venv/bin/python -m pytest -q -p no:cacheprovider --timeout=900 2>&1 | tail -4" % (wt, wt))
            out["tests"] = r.stdout.strip().splitlines()[-1] if r.stdout.strip() else "?"
            out["tests_failed"] = [l for l in r.stdout.splitlines() if l.startswith("FAILED")]
        r = sh("PYTHONPATH=%s /venv/bin/python %s/demo.py" % (wt, sd))
        out["demo_mutated_rc"] = r.returncode
        out["demo_mutated_tail"] = (r.stdout + r.stderr).strip().splitlines()[-3:]
        out["checks"] = {}
        for p in (props or [pid]):
            t0 = time.time()
            r = sh("cd /verif && VERIF_REPO=%s VERIF_EVIDENCE_DIR=/tmp/seed_evidence_%s ./check %s quick" % (wt, pid, p))
            lines = (r.stdout + r.stderr).strip().splitlines()
            out["checks"][p] = {"rc": r.returncode, "wall": round(time.time() - t0, 1),
                                "violations": [l for l in lines if l.startswith("VIOLATION")][:5],
                                "tail": lines[-3:]}
            for l in lines:
                if l.startswith("VIOLATION") and "replay=" in l:
                    rp = l.split("replay=")[1].split()[0]
                    if os.path.exists(rp):
                        os.makedirs(sd + "/replays", exist_ok=True)
                        shutil.copy(rp, sd + "/replays/")
    finally:
        sh("git -C %s checkout -- ." % wt)
        if isc:
            rebuild(wt)
    # keep the test-suite confirmation of an earlier full run when this run skipped it
    vdir = "/verif/seeded/%s/%s" % (pid, mn)
    os.makedirs(vdir, exist_ok=True)
    old = {}
    if os.path.exists(vdir + "/result.json"):
        old = json.load(open(vdir + "/result.json"))
    for k in ("tests", "tests_failed"):
        if k not in out and k in old:
            out[k] = old[k]
    for p, c in old.get("checks", {}).items():
        out["checks"].setdefault(p, c)
    json.dump(out, open(sd + "/result.json", "w"), indent=1)
    for f in ("patch.diff", "demo.py", "meta.json"):
        shutil.copy(sd + "/" + f, vdir + "/" + f)
    json.dump(out, open(vdir + "/result.json", "w"), indent=1)
    meta = json.load(open(vdir + "/meta.json"))
    meta["confirmed"] = {"demo_exit_unchanged_tree": out.get("demo_clean_rc"), "demo_exit_changed_tree": out.get("demo_mutated_rc"),
                         "test_suite_on_changed_tree": out.get("tests")}
    meta["detected_by"] = sorted(p for p, c in out["checks"].items() if c["rc"] == 1 and c["violations"])
    meta["not_detected_by"] = sorted(p for p, c in out["checks"].items() if not (c["rc"] == 1 and c["violations"]))
    json.dump(meta, open(vdir + "/meta.json", "w"), indent=1)
    print(pid, mn, "demo", out.get("demo_clean_rc"), out.get("demo_mutated_rc"), "tests", out.get("tests"),
          {p: (c["rc"], len(c["violations"])) for p, c in out["checks"].items()}, flush=True)

if __name__ == "__main__":
    pid = sys.argv[1]
    mns = sys.argv[2].split(",")
    props = sys.argv[3].split(",") if len(sys.argv) > 3 else None
    for mn in mns:
        try:
            one(pid, mn, props)
        except Exception as ex:
            print(pid, mn, "ERROR", ex, flush=True)
