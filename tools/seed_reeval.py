#!/venv/bin/python
"""Re-evaluate the stored seeded changes of one property with the harness as it is now.

For each /verif/seeded/<ID>/<mN>: apply patch.diff to the scratch worktree /tmp/wt_<ID> (a worktree of /repo at HEAD with the C
extension built in place), run demo.py (must exit 1 on the changed tree, 0 on the unchanged one), run `./check <P> quick` with
VERIF_REPO pointing at the changed tree for every property P the stored result lists, undo the patch, and rewrite result.json
and the confirmed / detected_by / not_detected_by fields of meta.json.  The test-suite line of the first evaluation is kept.
usage: seed_reeval.py <ID> [mN,mN,...]"""
import json, os, subprocess, sys, time


def sh(cmd):
    return subprocess.run(cmd, shell=True, capture_output=True, text=True)


def rebuild(wt):
    sh("cd %s && /venv/bin/python setup.py build_ext --inplace >/dev/null 2>&1; rm -rf build" % wt)


def one(pid, mn):
    wt, sd = "/tmp/wt_" + pid, "/verif/seeded/%s/%s" % (pid, mn)
    assert sh("git -C %s status --porcelain" % wt).stdout.strip() == "", "worktree dirty"
    old = json.load(open(sd + "/result.json")) if os.path.exists(sd + "/result.json") else {}
    props = list(old.get("checks", {})) or [pid]
    if pid not in props:
        props.insert(0, pid)
    patch = open(sd + "/patch.diff").read()
    isc = ".c" in [os.path.splitext(l.split()[-1])[1] for l in patch.splitlines() if l.startswith("+++ ")]
    out = {"property": pid, "mutation": mn, "repo_head": sh("git -C %s rev-parse --short HEAD" % wt).stdout.strip()}
    out["demo_clean_rc"] = sh("PYTHONPATH=%s /venv/bin/python %s/demo.py" % (wt, sd)).returncode
    r = sh("git -C %s apply %s/patch.diff" % (wt, sd))
    assert r.returncode == 0, "patch does not apply: " + r.stderr[:200]
    try:
        if isc:
            rebuild(wt)
        r = sh("PYTHONPATH=%s /venv/bin/python %s/demo.py" % (wt, sd))
        out["demo_mutated_rc"] = r.returncode
        out["demo_mutated_tail"] = (r.stdout + r.stderr).strip().splitlines()[-3:]
        out["checks"] = {}
        for p in props:
            t0 = time.time()
            r = sh("cd /verif && VERIF_REPO=%s VERIF_EVIDENCE_DIR=/tmp/seed_evidence_%s ./check %s quick" % (wt, pid, p))
            lines = (r.stdout + r.stderr).strip().splitlines()
            out["checks"][p] = {"rc": r.returncode, "wall": round(time.time() - t0, 1),
                                "violations": [l for l in lines if l.startswith("VIOLATION")][:5], "tail": lines[-3:]}
    finally:
        sh("git -C %s checkout -- ." % wt)
        if isc:
            rebuild(wt)
    for k in ("tests", "tests_failed"):
        if k in old:
            out[k] = old[k]
    json.dump(out, open(sd + "/result.json", "w"), indent=1)
    meta = json.load(open(sd + "/meta.json"))
    meta["confirmed"] = {"demo_exit_unchanged_tree": out["demo_clean_rc"], "demo_exit_changed_tree": out["demo_mutated_rc"],
                         "test_suite_on_changed_tree": out.get("tests")}
    meta["detected_by"] = sorted(p for p, c in out["checks"].items() if c["rc"] == 1 and c["violations"])
    meta["not_detected_by"] = sorted(p for p, c in out["checks"].items() if not (c["rc"] == 1 and c["violations"]))
    json.dump(meta, open(sd + "/meta.json", "w"), indent=1)
    print(pid, mn, "demo", out["demo_clean_rc"], out["demo_mutated_rc"],
          {p: (c["rc"], len(c["violations"])) for p, c in out["checks"].items()}, flush=True)


if __name__ == "__main__":
    pid = sys.argv[1]
    mns = sys.argv[2].split(",") if len(sys.argv) > 2 else sorted(os.listdir("/verif/seeded/" + pid))
    for mn in mns:
        try:
            one(pid, mn)
        except Exception as ex:
            print(pid, mn, "ERROR", ex, flush=True)
