"""Shared machinery for C11 / C12 / C17: rebuild the C extension from /repo's sources, an exact reference of
the kernels (used to know which exp() enclosures the Coq model will need, and as a second comparison),
case generation and Gallina literals."""
import os, sys, subprocess, sysconfig, importlib.util, itertools, math
from fractions import Fraction as F
import common as C
import gens as G
from props.c05 import KIND, QUAD, BOOL, SPIN, cls_of

FNS = ["anneal_quso", "anneal_puso", "anneal_qubo", "anneal_pubo"]
CSRC = ["qubovert/sim/_canneal.c", "qubovert/sim/src/pcg_basic.c", "qubovert/sim/src/random.c",
        "qubovert/sim/src/anneal_quso.c", "qubovert/sim/src/anneal_puso.c"]


def build_extension(scratch, sanitize=False):
    """compile the extension from the current working tree of the repo into scratch"""
    inc = sysconfig.get_paths()["include"]
    out = os.path.join(scratch, "_canneal_%s.so" % ("asan" if sanitize else "plain"))
    srcs = [os.path.join(C.REPO, s) for s in CSRC]
    if sanitize:
        cmd = ["clang", "-shared", "-fPIC", "-O1", "-g", "-fno-omit-frame-pointer", "-fsanitize=address,undefined",
               "-fno-sanitize-recover=undefined", "-I", inc, "-I", os.path.join(C.REPO, "qubovert/sim/src"), "-o", out] + srcs + ["-lm"]
    else:
        cmd = ["gcc", "-shared", "-fPIC", "-O2", "-I", inc, "-I", os.path.join(C.REPO, "qubovert/sim/src"), "-o", out] + srcs + ["-lm"]
    p = subprocess.run(cmd, stdout=subprocess.PIPE, stderr=subprocess.STDOUT, text=True, timeout=600)
    if p.returncode != 0:
        raise RuntimeError("building the extension failed:\n" + p.stdout[-2000:])
    return out


def install_extension(path):
    """make qubovert.sim._canneal resolve to the freshly built module (call before importing qubovert)"""
    spec = importlib.util.spec_from_file_location("qubovert.sim._canneal", path)
    mod = importlib.util.module_from_spec(spec)
    spec.loader.exec_module(mod)
    sys.modules["qubovert.sim._canneal"] = mod
    return mod


# ----------------------------------------------------------------- reference kernels (exact arithmetic) ----
M64, M32 = 1 << 64, 1 << 32


class Pcg:
    def __init__(self, seed):
        self.state, self.inc = 0, ((54 << 1) | 1) % M64
        self.next()
        self.state = (self.state + (seed % M32)) % M64
        self.next()

    def next(self):
        old = self.state
        self.state = (old * 6364136223846793005 + self.inc) % M64
        xs = (((old >> 18) ^ old) >> 27) % M32
        rot = old >> 59
        return ((xs >> rot) | (xs << ((-rot) & 31))) % M32

    def double(self):
        return F(self.next(), M32)

    def randint(self, bound):
        thr = ((M32 - bound) % M32) % bound
        while True:
            r = self.next()
            if r >= thr:
                return r % bound


class Undecided(Exception):
    pass


class ExpTable:
    """rational enclosures of exp(-x), computed with mpmath at 60 digits and widened by 2^-40 relative"""
    def __init__(self):
        self.tab = {}

    def get(self, x):
        if x not in self.tab and x > 1000:
            # exp(-x) < 2**-1440: below the smallest positive double, and below every value the uniform draw can take except 0
            self.tab[x] = (F(0), F(1, 2 ** 1100))
        if x not in self.tab:
            import mpmath
            mpmath.mp.dps = 60
            v = mpmath.exp(-mpmath.mpf(x.numerator) / mpmath.mpf(x.denominator))
            man, ex = int(v.man), int(v.exp)
            val = F(man) * (F(2) ** ex)
            if v < 0:
                val = -val
            eps = F(1, 1 << 40)
            self.tab[x] = (val * (1 - eps), val * (1 + eps))
        return self.tab[x]

    def accept(self, rng, dE, T):
        if dE <= 0:
            return True
        if T > 0:
            u = rng.double()
            lo, hi = self.get(dE / T)
            if u < lo:
                return True
            if u > hi:
                return False
            raise Undecided()
        return False


def ref_quso(h, nb, Ts, num, in_order, init, seed, tab):
    """single-spin Metropolis with the EXACT energy difference recomputed from the model at every step
    (no cached flip energies): the specification chain of C12, run on the same random stream"""
    rng = Pcg(seed)
    N = len(h)
    res = []
    for _ in range(num):
        s = list(init) if init is not None else [1 if rng.double() < F(1, 2) else -1 for _ in range(N)]
        for T in Ts:
            for j in range(N):
                i = j if in_order else rng.randint(N)
                dE = -2 * s[i] * (h[i] + sum(J * s[n] for n, J in nb[i]))
                if tab.accept(rng, dE, T):
                    s[i] = -s[i]
        val = sum(s[i] * (h[i] + sum(J * s[n] for n, J in nb[i] if n >= i)) for i in range(N))
        res.append((s, val))
    return res


def ref_puso(N, terms, Ts, num, in_order, init, seed, tab):
    rng = Pcg(seed)
    res = []

    def prod(s, k):
        p = 1
        for i in k:
            p *= s[i]
        return p
    for _ in range(num):
        s = list(init) if init is not None else [1 if rng.double() < F(1, 2) else -1 for _ in range(N)]
        for T in Ts:
            for j in range(N):
                i = j if in_order else rng.randint(N)
                dE = -2 * sum(c * prod(s, k) * k.count(i) for k, c in terms if i in k)
                if tab.accept(rng, dE, T):
                    s[i] = -s[i]
        res.append((s, sum(c * prod(s, k) for k, c in terms)))
    return res


# ------------------------------------------------------------------------------------- case generation ----
def dy(rng):
    return F(rng.randint(-16, 16) or 1, rng.choice([1, 1, 2, 4, 8]))


def dyw(rng):
    """integers that need 25-26 significant bits, of both signs: exact in double precision (and so are the sums of a handful
    of them), not in single precision; local fields made of them nearly cancel"""
    return F(rng.choice([-1, 1]) * 2 ** 24 + rng.choice([-3, -1, 1, 3]))       # odd: never a single-precision number


def gen_model(rng, fn, uni, dy=dy):
    quad = fn in (0, 2)
    spin = fn in (0, 1)
    nv = rng.randint(1, 5)
    labs = G.labels(rng, uni, nv)
    t, seen = [], set()
    for _ in range(rng.randint(0, 6)):
        d = rng.choice([1, 2, 2]) if quad else rng.choice([1, 2, 2, 3, 3, 4])
        k = tuple(rng.sample(labs, min(d, nv)))
        ks = tuple(sorted(k, key=C.enc))
        if ks in seen:
            continue
        seen.add(ks)
        t.append((k, dy(rng)))
    if rng.random() < 0.4:
        t.append(((), dy(rng)))
    return t, labs


def gen_case(rng, tier, T_modes=("zero", "pos", "mixed", "named", "empty")):
    fn = rng.randrange(4)
    spin = fn in (0, 1)
    fam = SPIN if spin else BOOL
    form = rng.choice(["dict", "matrix", "labelled"])
    if fn in (0, 2):       # documented inputs of the quadratic functions: dict, QUSO/QUBO, QUSOMatrix/QUBOMatrix
        kind = None if form == "dict" else [k for k in fam if k in QUAD and k.endswith("Matrix") == (form == "matrix")][0]
    else:
        kind = None if form == "dict" else rng.choice([k for k in fam if k.endswith("Matrix") == (form == "matrix")])
    uni = 'int' if (kind and kind.endswith("Matrix")) else rng.choice(['int', 'pool'])
    wide = rng.random() < 0.2
    t, labs = gen_model(rng, fn, uni, dyw if wide else dy)
    if kind in QUAD:
        t = [(k, v) for k, v in t if len(k) <= 2]
    if rng.random() < 0.06:
        t = [(k, v) for k, v in t if not k]       # variable-free
    elif uni == 'int' and rng.random() < 0.05:
        t = [((0,), dy(rng))] + ([((), dy(rng))] if rng.random() < 0.5 else [])       # one variable, index 0
        labs = [0]
    big = False
    if uni == 'int' and rng.random() < 0.09:
        # more spins than a machine word has bits: a chain with fields on 33..40 variables, several anneals at T > 0
        n = rng.randint(33, 40)
        if rng.random() < 0.35:
            t = [((i, i + 1), dy(rng)) for i in range(n - 1)] + [((i,), dy(rng)) for i in range(n) if rng.random() < 0.6]
        else:
            # the last 32 variables are pinned by fields no temperature here can overcome, the leading ones move freely at
            # the hot schedule below: results that agree on 32 variables and differ in the others
            # (free ones first, so that dict inputs -- numbered by first appearance -- have them in front as well)
            t = [((i,), F(rng.choice([-1, 1]), rng.choice([1, 2, 8]))) for i in range(n - 32)] + [((i,), dyw(rng)) for i in range(n - 32, n)]
            if fn in (2, 3):
                t = [(k, 2 * v) for k, v in t]
            big = "hot"
        if big != "hot":
            rng.shuffle(t)
        labs = list(range(n))
        upd, big = [], (big or True)
    upd = []
    if kind and t and rng.random() < 0.12:
        upd = [(rng.choice(t)[0], F(0))]          # stale variables
    elif kind and not kind.endswith("Matrix") and t and rng.random() < 0.25:
        # a variable that is registered first and then disappears: it keeps the smallest integer label while later ones are in use
        used = {x for k, _ in t for x in k}
        fresh = [l for l in (C.POOL if uni == 'pool' else range(8)) if l not in used]
        if fresh:
            t = [((fresh[0],), F(1))] + t
            upd = [((fresh[0],), F(0))]
    zero_opt = False
    if t and rng.random() < 0.12:
        # the optimum is exactly 0 (a penalty-style model): results with value 0 next to worse ones
        vs = sorted({x for k, _ in t for x in k}, key=C.enc)
        if 1 <= len(vs) <= 6:
            import itertools
            dom = (1, -1) if spin else (0, 1)
            tt = [(k, v) for k, v in t if k]

            def val(x):
                tot = F(0)
                for k, v in tt:
                    pr = 1
                    for l in k:
                        pr *= x[l]
                    tot += v * pr
                return tot
            mn = min(val(dict(zip(vs, b))) for b in itertools.product(dom, repeat=len(vs)))
            t = tt + ([((), -mn)] if mn != 0 else [])
            upd = [u for u in upd if u[0] in [k for k, _ in t]]
            zero_opt = True
    mode = rng.choice(T_modes)
    if big:
        zero_opt = False
        mode = "pos" if "pos" in T_modes else mode
    if zero_opt and "empty" in T_modes and "pos" in T_modes:
        mode = rng.choice(["empty", "pos"])       # no cooling: the results differ from each other
    sched = None
    if mode == "zero":
        Ts = [F(0)] * rng.randint(1, 4)
    elif mode == "pos" and big == "hot":
        Ts = [F(rng.choice([24, 32, 40]))] * rng.randint(1, 2)
    elif mode == "pos":
        Ts = [F(rng.randint(1, 40), rng.choice([1, 2, 4, 8])) for _ in range(rng.randint(1, 5))]
    elif mode == "mixed":
        Ts = [rng.choice([F(0), F(rng.randint(1, 40), rng.choice([1, 4]))]) for _ in range(rng.randint(1, 5))]
    elif mode == "empty":
        Ts = []
    else:
        Ts = None
        sched = {"schedule": rng.choice(["linear", "geometric"]), "duration": rng.randint(1, 5),
                 "range": rng.choice([None, [3.0, 0.5], [2.5, 2.5], [4.0, 0.0], [0.0, 0.0]])}
        if sched["schedule"] == "geometric" and sched["range"] == [4.0, 0.0]:
            sched["range"] = [4.0, 0.25]
        if sched["schedule"] == "geometric" and sched["range"] == [0.0, 0.0]:
            sched["schedule"] = "linear"          # a geometric sequence cannot include zero; (0, 0) given by the caller is a quench
    init = None
    if not big and rng.random() < 0.5:
        dom = (1, -1) if spin else (0, 1)
        init = [[C.enc(l), rng.choice(dom)] for l in sorted(set(labs) | {x for k, _ in t for x in k}, key=C.enc)]
        if kind and kind.endswith("Matrix") and labs:
            init = [[i, rng.choice(dom)] for i in range(max(labs) + 1)]
    return {"fn": fn, "kind": kind, "terms": G.jraw(t), "upd": G.jraw(upd),
            "Ts": None if Ts is None else [[x.numerator, x.denominator] for x in Ts], "sched": sched,
            "num": (rng.choice([3, 4]) if big else rng.choice([3, 4, 6]) if zero_opt else rng.choice([1, 1, 1, 2, 2, 3, 3, 0, -1]) if rng.random() < 0.9 else 4),
            "in_order": rng.random() < 0.5, "init": init, "seed": rng.randint(0, 2 ** 31 - 1),
            # an explicit temperature list is used as it is: anneal_duration (and temperature_range) are documented as ignored then
            "dur": (rng.choice([1, 1, 2, 3]) if (Ts is not None and rng.random() < 0.35) else None),
            # how the entries of an explicit temperature list are spelled: floats, Python ints where integral, numpy scalars
            "ts_as": rng.choice(["float", "float", "native", "np"]),
            "remap": (remap_choice(rng) if (kind and not kind.endswith("Matrix")) else None)}


def remap_choice(rng):
    if rng.random() < 0.5:
        return None
    return {"how": rng.choice(["map", "rmap"]), "seed": rng.randrange(10 ** 6)}


def build_model(case):
    t = G.unjraw(case["terms"])
    d = {k: C.numf(v, 'f' if case.get("floats") else 'q') for k, v in t}
    if case["kind"] is None:
        return d
    m = cls_of(case["kind"])(d)
    for k, v in G.unjraw(case["upd"]):
        m[k] = C.num(v)
    if case.get("remap"):
        from props import c04
        # every enumerated form once under the numbering the model starts with: nothing remembered from before the user's
        # numbering may be used after it
        for meth in ("to_quso", "to_qubo", "to_puso", "to_pubo"):
            try:
                getattr(m, meth)()
            except (KeyError, ValueError, TypeError, AttributeError):
                pass
        c04.apply_remap(m, case["remap"])       # a numbering chosen by the user
    return m


def spell_T(v, how):
    if how == "native":
        return int(v) if v.denominator == 1 else float(v)
    if how == "np":
        import numpy as np
        return np.int64(int(v)) if v.denominator == 1 else np.float64(float(v))
    return float(v)


def call_impl(case, model):
    import qubovert as qv
    kw = {"num_anneals": case["num"], "in_order": case["in_order"], "seed": case["seed"]}
    if case["init"] is not None:
        kw["initial_state"] = {C.dec(l): v for l, v in case["init"]}
    if case["Ts"] is not None:
        kw["schedule"] = [spell_T(F(*x), case.get("ts_as", "float")) for x in case["Ts"]]
        if case.get("dur") is not None:
            kw["anneal_duration"] = case["dur"]
    else:
        s = case["sched"]
        kw["schedule"] = s["schedule"]
        kw["anneal_duration"] = s["duration"]
        if s["range"] is not None:
            kw["temperature_range"] = tuple(s["range"])
    return getattr(qv.sim, FNS[case["fn"]])(model, **kw)


def observed_Ts(case, model):
    """the temperatures the front end hands to the kernel (numpy's linspace / geomspace enter as data)"""
    if case["Ts"] is not None:
        return [F(*x) for x in case["Ts"]]
    import qubovert as qv
    from qubovert.sim import _anneal
    s = case["sched"]
    spin_model = model
    if case["fn"] == 2:
        spin_model = qv.utils.qubo_to_quso(model)
    elif case["fn"] == 3:
        spin_model = qv.utils.pubo_to_puso(model)
    Ts = _anneal._create_spin_schedule(spin_model, s["duration"], None if s["range"] is None else tuple(s["range"]), s["schedule"])
    # the documented schedule, recomputed here: interpolation between the given range, or the range of
    # anneal_temperature_range (C15) with (0, 0) replaced by (1, 1)
    import numpy as np
    T0, Tf = tuple(s["range"]) if s["range"] is not None else qv.sim.anneal_temperature_range(spin_model, spin=True)
    if s["range"] is None and T0 == Tf == 0:
        T0 = Tf = 1
    mine = list(np.linspace(T0, Tf, s["duration"]) if s["schedule"] == "linear" else np.geomspace(T0, Tf, s["duration"]))
    if [float(x) for x in Ts] != [float(x) for x in mine]:
        raise AssertionError("the %s schedule handed to the kernel is %r, the documented interpolation over (%r, %r) with %d steps is %r"
                             % (s["schedule"], [float(x) for x in Ts], T0, Tf, s["duration"], [float(x) for x in mine]))
    return [F(float(x)) for x in Ts]


def results_json(res):
    return [[[[C.enc(k), int(v)] for k, v in r.state.items()], str(C.toF(r.value)), bool(r.spin)] for r in res]


# ------------------------------------------------------------------------------------- Gallina literal ----
def literal(case, out):
    tl = lambda j: C.termsl([(k, F(v[0], v[1])) for k, v in j])
    Ts = [F(x) for x in out["Ts"]]
    tab = out["tab"]
    init = "None" if case["init"] is None else "(Some [%s])" % "; ".join("(%d%%nat, (%d)%%Z)" % (l, v) for l, v in case["init"])
    mp = "None"
    if case.get("remap") and case["kind"] and not case["kind"].endswith("Matrix"):
        mp = "(Some [%s])" % "; ".join("(%d%%nat, %d%%nat)" % (C.enc(l), i) for l, i in build_model(case).mapping.items())
    cin = ("{| a_fn := %d%%nat; a_src := %s; a_terms := %s; a_upd := %s; a_mp := %s; a_tab := [%s]; a_Ts := [%s]; a_num := (%d)%%Z; "
           "a_in_order := %s; a_init := %s; a_seed := %d%%N |}") % (
        case["fn"], C.optc(case["kind"], lambda k: KIND[k]), tl(case["terms"]), tl(case["upd"]), mp,
        "; ".join("(%s, (%s, %s))" % (C.q(F(x)), C.q(F(lo)), C.q(F(hi))) for x, lo, hi in tab),
        "; ".join(C.q(x) for x in Ts), case["num"], C.boolc(case["in_order"]), init, case["seed"])
    if "error" in out:
        exp = "AErr %s" % out["error"]
    else:
        exp = "AResults [%s]" % "; ".join(
            "([%s], %s)" % ("; ".join("(%d%%nat, (%d)%%Z)" % (l, v) for l, v in st), C.q(F(val))) for st, val, _ in out["results"])
    return "(%s, %s)" % (cin, exp)


def reference_run(case, model, Ts, tab):
    """run the exact reference on what the front end passes to the kernel; returns (states, values) or None"""
    import qubovert as qv
    fn = case["fn"]
    m = model
    if fn == 2:
        m = qv.utils.qubo_to_quso(m)
    elif fn == 3:
        m = qv.utils.pubo_to_puso(m)
    quso = fn in (0, 2)
    from qubovert.utils import QUSOMatrix, PUSOMatrix
    if quso:
        if type(m) == QUSOMatrix:
            N = 0 if m.max_index is None else m.max_index + 1
            mat, rmp = m, {i: i for i in range(N)}
        else:
            if type(m) != qv.QUSO:
                m = qv.QUSO(m)
            N, mat, rmp = m.num_binary_variables, m.to_quso(), m.reverse_mapping
    else:
        if type(m) in (QUSOMatrix, PUSOMatrix):
            N = 0 if m.max_index is None else m.max_index + 1
            mat, rmp = m, {i: i for i in range(N)}
        else:
            if type(m) not in (qv.QUSO, qv.PUSO, qv.PCSO):
                m = qv.PUSO(m)
            N, mat, rmp = m.num_binary_variables, m.to_puso(), m.reverse_mapping
    if not N:
        return "novars"
    init = None
    if case["init"] is not None:
        d = {C.dec(l): v for l, v in case["init"]}
        if fn in (2, 3):
            d = {k: 1 - 2 * v for k, v in d.items()}
        init = [d[rmp[k]] for k in range(N)]
    off = C.toF(mat[()])
    if quso:
        h, nb = [F(0)] * N, [[] for _ in range(N)]
        for k, v in mat.items():
            if len(k) == 1:
                h[k[0]] = C.toF(v)
            elif len(k) == 2:
                nb[k[0]].append((k[1], C.toF(v)))
                nb[k[1]].append((k[0], C.toF(v)))
        res = ref_quso(h, nb, Ts, case["num"], case["in_order"], init, case["seed"], tab)
    else:
        terms = [(tuple(k), C.toF(v)) for k, v in mat.items() if k]
        res = ref_puso(N, terms, Ts, case["num"], case["in_order"], init, case["seed"], tab)
    out = []
    for s, val in res:
        st = [[C.enc(rmp[k]), (s[k] if fn in (0, 1) else (1 - s[k]) // 2)] for k in range(N)]
        out.append([st, str(val + off)])
    return out
