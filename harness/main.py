"""./check <property> [quick|thorough]   |   ./check <property> --replay FILE

Decides one property: (1) re-checks the Coq theorems of Properties/<id>.v and
records their Print Assumptions output, (2) runs the correspondence between the
executable Gallina model and /repo's current working tree on corpus + generated
cases, (3) runs the implementation-side oracle of the property on the same
cases, (4) writes evidence/<id>.json.  Exit 0 = held, 1 = VIOLATION line printed,
2 = infrastructure failure.
"""
import os, sys, json, time, random, importlib, traceback, collections

sys.path.insert(0, os.path.dirname(os.path.abspath(__file__)))
import common as C


def load_mod(prop):
    return importlib.import_module("props." + prop.lower())


TWIN_TURN = [0]


def run_one(mod, case):
    """run the implementation on one case; returns (out, violations)"""
    viol = []
    try:
        out = mod.run_impl(case)
    except C.PurityError as e:
        out = {"purity_error": str(e)}
        viol.append("argument mutated: %s" % e)
        return out, viol
    except Exception as e:
        # every exception a property allows is caught inside run_impl; anything else is behaviour the model does not have
        out = {"purity_error": "unexpected exception", "unexpected": "".join(traceback.format_exception_only(type(e), e)).strip()}
        viol.append("the implementation raised an exception outside the documented ones: %s" % out["unexpected"])
        return out, viol
    # the same case under the second decoding of the labels (common.twin_labels): same coded result
    if (getattr(mod, "twin_ok", None) and mod.twin_ok(case)) or (os.environ.get("VERIF_TWIN_TRY") and C.no_matrix(case)):
        try:
            TWIN_TURN[0] += 1
            with C.twin_labels(TWIN_TURN[0] % 2):        # the two variants take turns
                out2 = mod.run_impl(case)
        except Exception as e:
            out2 = {"unexpected": "".join(traceback.format_exception_only(type(e), e)).strip()}
        if out2 != out:
            diff = sorted(k for k in set(out) | set(out2) if out.get(k) != out2.get(k))
            viol.append("the result depends on the labels beyond their ordering_key order: with labels of mixed numeric types "
                        "(float / Fraction / int, same order) the coded result differs in %s: %r vs %r"
                        % (diff, {k: out2.get(k) for k in diff}, {k: out.get(k) for k in diff}))
    try:
        viol.extend(mod.oracle(case, out) or [])
    except Exception as e:  # an oracle crash is an infrastructure problem, surfaced loudly
        viol.append("oracle crashed: %s" % "".join(traceback.format_exception_only(type(e), e)).strip())
    return out, viol


def run_isolated(mod, cases, log):
    """Run the implementation side in child processes so that a crash of the C extension (segmentation fault, abort)
    becomes a reported violation with the crashing case as replay instead of killing the check."""
    import pickle, struct, signal
    results = [None] * len(cases)
    start, restarts = 0, 0
    while start < len(cases):
        r, w = os.pipe()
        pid = os.fork()
        if pid == 0:
            os.close(r)
            try:
                with os.fdopen(w, "wb") as f:
                    for i in range(start, len(cases)):
                        f.write(struct.pack("<I", i)); f.flush()                # announce, then report
                        blob = pickle.dumps(run_one(mod, cases[i]))
                        f.write(struct.pack("<I", len(blob))); f.write(blob); f.flush()
            finally:
                os._exit(0)
        os.close(w)
        current = None
        with os.fdopen(r, "rb") as f:
            while True:
                h = f.read(4)
                if len(h) < 4:
                    break
                current = struct.unpack("<I", h)[0]
                h = f.read(4)
                if len(h) < 4:
                    break
                n = struct.unpack("<I", h)[0]
                blob = f.read(n)
                if len(blob) < n:
                    break
                results[current] = pickle.loads(blob)
                current = None
        _, status = os.waitpid(pid, 0)
        if current is None and all(x is not None for x in results[start:]):
            break
        if current is None:
            current = next(i for i in range(start, len(cases)) if results[i] is None)
        sig = os.WTERMSIG(status) if os.WIFSIGNALED(status) else None
        what = "the process died (%s) while the implementation ran this case" % (
            ("signal %d %s" % (sig, signal.Signals(sig).name)) if sig else "exit status %d" % status)
        results[current] = ({"purity_error": "crash", "crash": what}, [what])
        log.append("case %d: %s" % (current, what))
        start = current + 1
        restarts += 1
        if restarts > 25:
            for i in range(start, len(cases)):
                if results[i] is None:
                    results[i] = ({"purity_error": "not run", "crash": "not run after repeated crashes"}, [])
            break
    return results


def proof_failed(ok, proof_ok, gate):
    return (not ok) or (not proof_ok) or bool(gate)


def known_match(known, prop, case, what):
    for k in known:
        if k["property"] != prop:
            continue
        if k["key"] == C.case_hash(case) or (hasattr(sys.modules.get("props." + prop.lower()), "finding_key") and
                                            k["key"] == sys.modules["props." + prop.lower()].finding_key(case, what)):
            return k
    return None


def main():
    if len(sys.argv) < 2:
        print(__doc__)
        return 2
    prop = sys.argv[1].upper()
    mod = load_mod(prop)
    t0 = time.time()
    if len(sys.argv) >= 4 and sys.argv[2] == "--replay":
        return replay(prop, mod, sys.argv[3])
    tier = os.environ.get("VERIF_TIER") or (sys.argv[2] if len(sys.argv) > 2 else "quick")
    if tier not in ("quick", "thorough"):
        tier = "quick"
    seed = int(os.environ.get("VERIF_SEED", "0"))
    rng = random.Random(seed * 1000003 + sum(map(ord, prop)))
    log = []
    violations = []      # (replay path, no_input flag, text)
    known_lines = []
    known = C.load_known_findings()

    with C.Scratch() as scratch:
        if hasattr(mod, "pre_import"):
            mod.pre_import(scratch)      # e.g. rebuild the C extension from the working tree and install it
        C.import_qubovert()
        # ---- 1. proofs -------------------------------------------------------
        ok, out = C.coq_build(log)
        proof_ok, theorems, assumptions, pout = (False, [], {}, out)
        if ok:
            proof_ok, theorems, assumptions, pout = C.coq_property_file(prop, scratch)
        gate = C.coq_gate()
        if not ok or not proof_ok or gate:
            body = {"kind": "no-failing-input-found", "seed": seed, "tier": tier, "case": None,
                    "model": {"file": "coq/theories/Properties/%s.v" % prop,
                              "theorem": "build of the development / property file",
                              "error": (pout or out)[-3000:], "gate": gate}}
            violations.append((C.write_replay(prop, body), True, "proof obligations of %s do not check" % prop))

        # ---- 1b. static ties between the model and the source (tables regenerated from /repo) -------------
        static_problems = []
        if hasattr(mod, "static_checks"):
            try:
                static_problems = list(mod.static_checks())
            except Exception as e:
                static_problems = ["static check crashed: %r" % e]

        # ---- 2. cases --------------------------------------------------------
        cases = []
        cdir = os.path.join(C.VERIF, "corpus", prop)
        ncorpus = 0
        if os.path.isdir(cdir):
            for f in sorted(os.listdir(cdir)):
                if f.endswith(".json"):
                    cases.append(json.load(open(os.path.join(cdir, f))))
                    ncorpus += 1
        n = mod.N[tier]
        for i in range(n):
            cases.append(mod.gen(rng, i, tier))

        # ---- 3. implementation + oracle -------------------------------------
        outs, tagc = [], collections.Counter()
        distinct = set()
        oracle_viol = {}
        isolated = run_isolated(mod, cases, log) if getattr(mod, "ISOLATE", False) else None
        for i, c in enumerate(cases):
            o, v = isolated[i] if isolated else run_one(mod, c)
            outs.append(o)
            if v:
                oracle_viol[i] = v
            if isinstance(o, dict) and "purity_error" in o:
                tagc["aborted:" + o["purity_error"][:40]] += 1
                continue
            for t in mod.tags(c, o):
                tagc[t] += 1
            if mod.nontrivial(c, o):
                distinct.add(C.case_hash(c))

        if hasattr(mod, "batch_check"):          # checks over the whole case list (e.g. one sanitized process)
            try:
                for i, v in mod.batch_check(cases, outs).items():
                    oracle_viol.setdefault(i, []).extend(v)
            except Exception as e:
                log.append("batch_check crashed: %r" % e)
                oracle_viol.setdefault(0, []).append("batch check crashed: %r" % e)

        # ---- 4. model inside Coq --------------------------------------------
        failing, errors = [], []
        lits, idx = [], []
        if ok:
            for i, (c, o) in enumerate(zip(cases, outs)):
                if isinstance(o, dict) and "purity_error" in o:
                    continue
                l = mod.literal(c, o)
                if l is not None:
                    lits.append(l)
                    idx.append(i)
            mtags = collections.Counter()
            fl, errors = C.coq_run_cases(mod.IMPORTS, mod.CASE_TYPE, mod.RUN, mod.EQB, lits, scratch, prop,
                                         tagf=getattr(mod, "COQ_TAGF", None), tagc=mtags, chunk=getattr(mod, "CHUNK", 250))
            failing = [idx[j] for j in fl]
            names = getattr(mod, "COQ_TAG_NAMES", [])
            for k, n_ in mtags.items():
                tagc["branch:" + (names[k] if k < len(names) else str(k))] += n_
            for nm in names:
                if getattr(mod, "COQ_TAGF", None) and tagc["branch:" + nm] == 0:
                    tagc["branch:" + nm] = 0
        if errors:
            body = {"kind": "no-failing-input-found", "seed": seed, "tier": tier, "case": None,
                    "model": {"file": "generated case files for %s" % prop, "theorem": "correspondence run",
                              "error": errors[:3]}}
            violations.append((C.write_replay(prop, body), True, "correspondence run failed inside Coq"))

        # ---- 4b. model and implementation disagree somewhere, but no input of this run violates the property on the
        #          implementation: search further inputs (implementation + oracle only) for a concrete failing one
        if (failing or proof_failed(ok, proof_ok, gate)) and not oracle_viol and not getattr(mod, "ISOLATE", False):
            rng2 = random.Random(seed * 7919 + 17 + sum(map(ord, prop)))
            budget = min(3 * mod.N[tier], 3000)
            t_search = time.time()
            for j in range(budget):
                if time.time() - t_search > 120:
                    break
                try:
                    c2 = mod.gen(rng2, j, tier)
                    o2, v2 = run_one(mod, c2)
                except Exception as e:
                    log.append("search crashed: %r" % e)
                    break
                if v2:
                    cases.append(c2)
                    outs.append(o2)
                    oracle_viol[len(cases) - 1] = v2
                    log.append("search found a failing input after %d extra cases" % (j + 1))
                    break

        # ---- 5. verdicts -----------------------------------------------------
        reported = 0
        order = sorted(oracle_viol) + [i for i in failing if i not in oracle_viol]
        for i in order:
            c, o = cases[i], outs[i]
            what = oracle_viol.get(i)
            # a disagreement without an oracle violation on the same input: widen the search
            if what is None and hasattr(mod, "search"):
                try:
                    found = mod.search(c, o, random.Random(seed + i))
                except Exception as e:
                    found = None
                    log.append("search crashed: %r" % e)
                if found:
                    c, o, what = found
            k = known_match(known, prop, c, what)
            if k and what:
                line = "KNOWN-FINDING: property=%s %s" % (prop, k["what"])
                if line not in known_lines:
                    known_lines.append(line)
                continue
            if reported >= 5 or (what is None and reported >= 2 and any(not ni for _, ni, _ in violations)):
                continue
            reported += 1
            body = {"kind": "failing-input" if what else "no-failing-input-found", "seed": seed, "tier": tier,
                    "case": c, "implementation": {"output": o},
                    "model": {"file": mod.IMPORTS, "theorem": getattr(mod, "THEOREMS", ""),
                              "disagrees": i in failing},
                    "oracle": {"violated": what}}
            violations.append((C.write_replay(prop, body), what is None,
                               "; ".join(what) if what else "model and implementation disagree"))

        if static_problems:
            body = {"kind": "no-failing-input-found", "seed": seed, "tier": tier, "case": None,
                    "model": {"file": "coq/c_access_table.json", "theorem": "SafetyProofs.quso_access / puso_access / states_access",
                              "error": static_problems[:20]}}
            if not any(not ni for _, ni, _ in violations):
                violations.append((C.write_replay(prop, body), True, "; ".join(static_problems[:3])))
            else:
                log.append("static drift: %r" % static_problems[:5])

        # ---- 6. evidence -----------------------------------------------------
        samples = []
        for c, o in list(zip(cases, outs))[ncorpus:ncorpus + 3]:
            samples.append({"case": c, "implementation_output": o})
        axioms = sorted({a for v in assumptions.values() for a in v})
        ev = {
            "property_id": prop, "tier": tier, "seed": seed, "level": "proof",
            "coverage": {
                "obligations": len(theorems),
                "discharged": len(theorems) if proof_ok else 0,
                "checker_cmd": "make -C coq (coqc 8.16.1, full .vo build) && coqc -Q coq/theories QV coq/theories/Properties/%s.v" % prop,
                "trusted_base": [
                    "Coq 8.16.1 kernel and vm_compute (no native_compute)",
                    "Coq standard library; axioms reported by Print Assumptions: %s" % (", ".join(axioms) or "none (closed under the global context)"),
                    "hand-written Gallina model in coq/theories/Model (the theorems are about the model)",
                    "correspondence harness /verif/harness (generators, literal printer, canonicalisation, oracles)",
                ] + list(getattr(mod, "TRUSTED", [])),
                "theorems": theorems,
                "print_assumptions": assumptions,
                "evaluations": len(cases),
                "distinct_nontrivial": len(distinct),
                "rule": mod.RULE,
                "corpus_cases": ncorpus,
                "model_evaluations_in_coq": len(lits),
                "disagreements": len(failing),
                "oracle_violations": len(oracle_viol),
                "tag_histogram": dict(sorted(tagc.items())),
                "cases_also_run_with_twin_label_decoding": sum(1 for c in cases if getattr(mod, "twin_ok", None) and mod.twin_ok(c)),
                "samples": samples,
                "modelled_not_verified": getattr(mod, "MODELLED", ""),
            },
            "assumptions": list(getattr(mod, "ASSUMPTIONS", [])),
            "wall_s": round(time.time() - t0, 2),
            "violations": len(violations),
        }
        extra = getattr(mod, "extra_evidence", None)
        if extra:
            ev["coverage"].update(extra())
        C.write_evidence(prop, ev)

    for line in known_lines:
        print(line)
    for path, noinput, text in violations:
        print("# %s" % text)
        print("VIOLATION property=%s replay=%s%s" % (prop, path, " no-failing-input-found" if noinput else ""))
    if violations:
        return 1
    print("OK %s tier=%s cases=%d coq=%d theorems=%d wall=%.1fs" % (prop, tier, len(cases), len(lits), len(theorems), time.time() - t0))
    return 0


def replay(prop, mod, path):
    body = json.load(open(path))
    c = body.get("case")
    if c is None:
        print("replay names a proof/correspondence failure, re-run: ./check %s quick" % prop)
        return 2
    with C.Scratch() as scratch0:
        if hasattr(mod, "pre_import"):
            mod.pre_import(scratch0)
        C.import_qubovert()
        o, v = run_isolated(mod, [c], [])[0] if getattr(mod, "ISOLATE", False) else run_one(mod, c)
    if isinstance(o, dict) and "purity_error" in o:
        print("implementation:", json.dumps(o, default=str)[:2000])
        print("VIOLATION property=%s replay=%s" % (prop, path))
        return 1
    with C.Scratch() as scratch:
        C.coq_build([])
        lit = mod.literal(c, o)
        fl, errors = C.coq_run_cases(mod.IMPORTS, mod.CASE_TYPE, mod.RUN, mod.EQB, [lit], scratch, prop) if lit else ([], [])
    print("implementation output:", json.dumps(o, default=str)[:2000])
    print("oracle:", v, " model disagrees:", bool(fl), errors[:1])
    k = known_match(C.load_known_findings(), prop, c, v) if v else None
    if k and not fl and not errors:
        print("KNOWN-FINDING: property=%s %s" % (prop, k["what"]))
        return 0
    if v or fl or errors:
        print("VIOLATION property=%s replay=%s%s" % (prop, path, "" if v else " no-failing-input-found"))
        return 1
    print("REPLAY-PASSES")
    return 0


if __name__ == "__main__":
    try:
        rc = main()
    except SystemExit:
        raise
    except Exception:
        traceback.print_exc()
        rc = 2
    sys.exit(rc)
