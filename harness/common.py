"""Shared machinery of the correspondence harness.

Runs under /venv/bin/python with PYTHONHASHSEED=0.  qubovert is imported from
VERIF_REPO (default /repo) -- the current working tree, never an installed copy.
"""
import os, sys, json, time, hashlib, subprocess, tempfile, shutil, random, re, warnings
from fractions import Fraction as F

VERIF = os.path.dirname(os.path.dirname(os.path.abspath(__file__)))
REPO = os.environ.get("VERIF_REPO", "/repo")
COQDIR = os.path.join(VERIF, "coq")
THEORIES = os.path.join(COQDIR, "theories")

if REPO not in sys.path:
    sys.path.insert(0, REPO)
warnings.simplefilter("ignore")


def import_qubovert():
    import qubovert  # noqa
    assert os.path.realpath(qubovert.__file__).startswith(os.path.realpath(REPO)), qubovert.__file__
    return qubovert


# ---------------------------------------------------------------- labels ----
STRS = ['a', 'b', 'c', 'd', 'x', 'y', 'z', 'zz']
TUPS = [(0, 1), (1, 2)]


# A second decoding of the codes 0..99 ("twin" labels): floats, Fractions and ints (three negative ones, the others above the
# range CPython keeps as shared objects) whose ordering_key order (type name, then value) is the order of the codes while their
# natural order is not.  The library may use a label only through
# hashing, equality and ordering_key, so a case run under this decoding must give the same coded result as under the plain
# one; the model speaks about codes and their order only, so the theorems cover both decodings.
TWIN = None


def _twin_tables(variant=0):
    fw = {}
    for c in range(100):
        if variant == 0:
            fw[c] = 20.5 + c if c < 3 else F(2 * c + 1, 2) if c < 6 else c - 9 if c < 9 else 1000 + c     # -3..-1, then 1009..
        else:
            # the numeric values of the floats and the Fractions change places: 3.5 is a float here and a Fraction above,
            # 20.5 the other way round -- equal numbers of different types, met one after the other in one process
            fw[c] = 3.5 + c if c < 3 else F(2 * c + 35, 2) if c < 6 else c - 9 if c < 9 else 1000 + c
    inv = {(type(v).__name__, float(v)): c for c, v in fw.items()}
    return fw, inv


class twin_labels:
    """context manager: dec / enc use the twin decoding (variant 0 or 1)"""
    def __init__(self, variant=0):
        self.variant = variant

    def __enter__(self):
        global TWIN
        TWIN = _twin_tables(self.variant)

    def __exit__(self, *a):
        global TWIN
        TWIN = None


def no_matrix(case):
    """the case involves no Matrix kind (those index by int and cannot take the twin decoding)"""
    return "Matrix" not in json.dumps(case)


def enc(label):
    """injective, ordering_key-monotone coding of labels as nat"""
    if isinstance(label, bool):
        raise ValueError(label)
    if TWIN is not None and not isinstance(label, (str, tuple)):
        return TWIN[1][(type(label).__name__, float(label))]
    if isinstance(label, int):
        assert 0 <= label < 100
        return label
    if isinstance(label, str):
        if label.startswith('__a'):
            return 100 + int(label[3:])
        return 200 + STRS.index(label)
    if isinstance(label, tuple):
        return 300 + TUPS.index(label)
    raise ValueError(label)


def dec(n):
    """the label a code stands for -- wherever the language allows it a NEW object on every call (equal, not identical):
    the library may tell labels apart by == and hash only, never by identity"""
    if n < 100:
        if TWIN is None:
            return n
        v = TWIN[0][n]
        return v + 0.0 if isinstance(v, float) else F(v.numerator, v.denominator) if isinstance(v, F) else int(str(v))
    if n < 200:
        return '__a%d' % (n - 100)
    if n < 300:
        return (STRS[n - 200] + ' ')[:-1]
    return tuple(list(TUPS[n - 300]))


POOL = [0, 1, 2, 3, 5, 7] + STRS + TUPS   # labels for the labelled kinds


# ------------------------------------------------------- Gallina printing ----
def toF(x):
    """exact rational value of a python number (int, Fraction, float, numpy scalar)"""
    if isinstance(x, F):
        return x
    if isinstance(x, bool):
        return F(int(x))
    if isinstance(x, int):
        return F(x)
    try:
        import numpy as np
        if isinstance(x, np.generic):
            x = x.item()
    except ImportError:
        pass
    if isinstance(x, (int, float)):
        return F(x)
    try:
        import sympy
        if isinstance(x, sympy.Basic):
            r = sympy.nsimplify(x, rational=True)
            return F(int(r.p), int(r.q))
    except ImportError:
        pass
    raise TypeError("not a number: %r" % (x,))


def q(x):
    x = toF(x)
    return "(%d # %d)" % (x.numerator, x.denominator)


def nat(n):
    return "%d%%nat" % n


def natlist(l):
    return "[%s]%%nat" % "; ".join(str(int(i)) for i in l)


def keyl(k):
    return natlist(k)


def termsl(d):
    """d: iterable of (key-as-nat-list, value)"""
    return "[%s]" % "; ".join("(%s, %s)" % (keyl(k), q(v)) for k, v in d)


def boolc(b):
    return "true" if b else "false"


def optc(x, f):
    return "None" if x is None else "(Some %s)" % f(x)


def listc(l, f):
    return "[%s]" % "; ".join(f(x) for x in l)


def enc_terms(d, sort_keys=True):
    """python dict/items -> list of (nat key, Fraction); keys canonically sorted by code"""
    items = d.items() if isinstance(d, dict) else d
    out = []
    for k, v in items:
        kk = [enc(i) for i in k]
        if sort_keys:
            kk = sorted(kk)
        out.append((kk, toF(v)))
    return out


def jterms(t):
    """JSON form of encoded terms"""
    return [[list(k), [toF(v).numerator, toF(v).denominator]] for k, v in t]


def unj_terms(j):
    return [(list(k), F(v[0], v[1])) for k, v in j]


def dec_terms(t):
    """encoded terms -> python dict with decoded labels (last wins not intended: use list)"""
    return [(tuple(dec(i) for i in k), v) for k, v in t]


def num(v):
    """Fraction -> int when integral else Fraction (qubovert tests numbers for truthiness only)"""
    v = toF(v)
    return int(v) if v.denominator == 1 else v


def numf(v, mode):
    """number in the requested python representation: 'q' Fraction/int, 'f' float (dyadic only)"""
    v = toF(v)
    if mode == 'f':
        f = float(v)
        assert F(f) == v
        return f
    return num(v)


# --------------------------------------------------------------- Coq side ----
def sh(cmd, timeout=3600, cwd=None, env=None):
    p = subprocess.run(cmd, shell=isinstance(cmd, str), cwd=cwd, env=env, timeout=timeout,
                       stdout=subprocess.PIPE, stderr=subprocess.STDOUT, text=True)
    return p.returncode, p.stdout


def coq_build(log):
    """bring coq/ up to date (full .vo build, serialised by a lock)"""
    import fcntl
    lock = open(os.path.join(COQDIR, ".build.lock"), "w")
    fcntl.flock(lock, fcntl.LOCK_EX)
    try:
        if not os.path.exists(os.path.join(COQDIR, "Makefile")):
            rc, out = sh("coq_makefile -f _CoqProject -o Makefile", cwd=COQDIR)
            if rc:
                return False, out
        rc, out = sh("timeout 3000 make -j16", cwd=COQDIR, timeout=3100)
        log.append(out[-2000:])
        return rc == 0, out
    finally:
        fcntl.flock(lock, fcntl.LOCK_UN)
        lock.close()


GATE_RE = r'Admitted|admit\.|\bAxiom\b|\bAxioms\b|\bParameter\b|\bParameters\b|\bConjecture\b|Unset Guard|Guard Checking|Positivity Checking|Universe Checking|bypass_check|type-in-type|impredicative-set|Admit Obligations'
SECTION_ONLY_RE = r'^\s*(Variable|Variables|Hypothesis|Hypotheses|Context)\b'


def coq_gate():
    """no axioms / admits / kernel switches anywhere in the development; Variable / Hypothesis only inside a Section"""
    bad = []
    for root, _, files in os.walk(THEORIES):
        for f in sorted(files):
            if f.endswith(".v"):
                p = os.path.join(root, f)
                text = re.sub(r'\(\*.*?\*\)', lambda m: re.sub(r'[^\n]', ' ', m.group(0)), open(p).read(), flags=re.S)
                depth = 0
                for i, code in enumerate(text.split("\n"), 1):
                    if re.match(r'^\s*Section\s+\w+\s*\.', code):
                        depth += 1
                    elif re.match(r'^\s*End\s+\w+\s*\.', code) and depth > 0:
                        depth -= 1
                    if re.search(GATE_RE, code) or (depth == 0 and re.match(SECTION_ONLY_RE, code)):
                        bad.append("%s:%d: %s" % (p, i, code.strip()))
    return bad


def coq_property_file(prop, scratch):
    """re-check Properties/<prop>.v now; return (ok, theorems, assumptions, raw output)"""
    src = os.path.join(THEORIES, "Properties", prop + ".v")
    dst = os.path.join(scratch, "Prop_%s.v" % prop)
    shutil.copy(src, dst)
    rc, out = sh(["timeout", "900", "coqc", "-Q", THEORIES, "QV", dst], timeout=1000)
    text = open(src).read()
    theorems = re.findall(r'^\s*(?:Theorem|Corollary)\s+(\w+)', text, re.M)
    # parse Print Assumptions blocks, in order
    blocks = []
    cur = None
    for line in out.splitlines():
        if line.startswith("Closed under the global context"):
            blocks.append([])
            cur = None
        elif line.startswith("Axioms:"):
            cur = []
            blocks.append(cur)
        elif cur is not None:
            m = re.match(r'^([A-Za-z_][\w.]*)\s*(:|$)', line)
            if m:
                cur.append(m.group(1))
    printed = re.findall(r'^\s*Print Assumptions\s+(\w+)', text, re.M)
    assumptions = {}
    for name, b in zip(printed, blocks):
        assumptions[name] = b
    return rc == 0, theorems, assumptions, out


def coq_run_cases(imports, case_type, run, eqb, literals, scratch, tag, chunk=250, jobs=16, timeout=1500, tagf=None, tagc=None):
    """evaluate the model on every case inside Coq; return (failing indices, errors).
    tagf: optional Gallina function cin -> list nat whose results are counted into tagc (branch coverage)"""
    files = []
    for ci, off in enumerate(range(0, len(literals), chunk)):
        part = literals[off:off + chunk]
        name = "cases_%s_%d" % (tag, ci)
        path = os.path.join(scratch, name + ".v")
        with open(path, "w") as f:
            f.write(imports + "\nOpen Scope Q_scope.\n")
            f.write("Definition cases : list %s := [\n%s\n].\n" % (case_type, ";\n".join(part)))
            f.write("Eval vm_compute in (failing %s %s cases 0%%nat).\n" % (run, eqb))
            if tagf:
                f.write("Eval vm_compute in (concat (map (fun c => %s (fst c)) cases)).\n" % tagf)
        files.append((path, off, len(part)))
    failing, errors = [], []
    procs = []

    def reap(p, path, off):
        out, _ = p.communicate()
        if p.returncode != 0:
            errors.append("%s: rc=%d %s" % (path, p.returncode, out[-1500:]))
            return
        m = re.search(r'=\s*\[(.*?)\]\s*:\s*list nat', out, re.S)
        if not m:
            errors.append("%s: unparsable output %s" % (path, out[-500:]))
            return
        body = m.group(1).replace("%nat", "").strip()
        if body:
            failing.extend(off + int(x) for x in body.split(";"))
        if tagf and tagc is not None:
            ms = re.findall(r'=\s*\[(.*?)\]\s*:\s*list nat', out, re.S)
            if len(ms) >= 2 and ms[1].strip():
                for x in ms[1].replace("%nat", "").split(";"):
                    tagc[int(x)] += 1

    pending = list(files)
    running = []
    while pending or running:
        while pending and len(running) < jobs:
            path, off, n = pending.pop(0)
            p = subprocess.Popen(["timeout", str(timeout), "coqc", "-Q", THEORIES, "QV", path],
                                 stdout=subprocess.PIPE, stderr=subprocess.STDOUT, text=True, cwd=scratch)
            running.append((p, path, off))
        p, path, off = running.pop(0)
        reap(p, path, off)
    return sorted(failing), errors


def coq_eval(imports, expr, scratch, tag="eval", timeout=600):
    """Eval vm_compute of one expression, raw text of the result"""
    path = os.path.join(scratch, "eval_%s.v" % tag)
    with open(path, "w") as f:
        f.write(imports + "\nOpen Scope Q_scope.\nEval vm_compute in (%s).\n" % expr)
    rc, out = sh(["timeout", str(timeout), "coqc", "-Q", THEORIES, "QV", path], cwd=scratch, timeout=timeout + 20)
    return rc, out


# ---------------------------------------------------------- purity monitor ----
def snapshot(o):
    """deep, order-sensitive snapshot of an argument for the purity monitor"""
    qv = sys.modules.get('qubovert')
    if isinstance(o, dict):
        items = [(snapshot(k), snapshot(v)) for k, v in list(dict.items(o))]
        extra = []
        for a in ('_degree', '_variables', '_num_binary_variables', '_mapping', '_reverse_mapping',
                  '_next_label', '_ancilla', '_constraints', '_name'):
            if hasattr(o, a):
                val = getattr(o, a)
                if isinstance(val, set):
                    val = sorted(map(repr, val))
                    extra.append((a, val))
                else:
                    extra.append((a, snapshot(val)))
        return ('dict', type(o).__name__, items, extra)
    if isinstance(o, (list, tuple)):
        return (type(o).__name__, [snapshot(x) for x in o])
    if isinstance(o, set):
        return ('set', sorted(repr(x) for x in o))
    return repr(o)


def snapshot_unordered(o):
    """like snapshot, but insensitive to the iteration order of the top-level dict (the brute-force solvers pop and
    re-insert the () key, which moves it to the end: equal under ==, not a mutation of the model)"""
    s = snapshot(o)
    if isinstance(s, tuple) and s and s[0] == 'dict':
        return ('dict', s[1], sorted(s[2], key=repr), s[3])
    return s


class PurityError(Exception):
    pass


class Bystanders:
    """objects that a history copied from, or took a copy of, and then left alone: whatever happens to the object the history
    goes on with, they must stay as they were (no state shared between a model and its copies)"""
    def __init__(self):
        self.objs = []

    def add(self, obj, what):
        self.objs.append((obj, snapshot(obj), what))

    def changed(self):
        return ["%s changed although only a copy of it / the model it was copied from was used afterwards"
                % what for obj, snap, what in self.objs if snapshot(obj) != snap]


def pure_call(fn, *args, **kwargs):
    """call fn and verify that no argument was mutated"""
    before = [snapshot(a) for a in args] + [snapshot(v) for v in kwargs.values()]
    res = fn(*args, **kwargs)
    after = [snapshot(a) for a in args] + [snapshot(v) for v in kwargs.values()]
    if before != after:
        for i, (b, a) in enumerate(zip(before, after)):
            if b != a:
                raise PurityError("argument %d mutated by %s: %r -> %r" % (i, getattr(fn, '__name__', fn), b, a))
    return res


def pure_call_u(fn, *args, **kwargs):
    """pure_call with snapshots that ignore the iteration order of the top-level dict (see snapshot_unordered)"""
    tolerate = kwargs.pop("_tolerate", ())
    before = [snapshot_unordered(a) for a in args] + [snapshot_unordered(v) for v in kwargs.values()]
    res = None
    try:
        res = fn(*args, **kwargs)
    except tolerate:
        pass            # a documented refusal; the arguments must be intact all the same
    after = [snapshot_unordered(a) for a in args] + [snapshot_unordered(v) for v in kwargs.values()]
    for i, (b, a) in enumerate(zip(before, after)):
        if b != a:
            raise PurityError("argument %d mutated by %s: %r -> %r" % (i, getattr(fn, '__name__', fn), b, a))
    return res


# ------------------------------------------------------- findings / output ----
def load_known_findings():
    path = os.path.join(VERIF, "known_findings.txt")
    entries = []
    if os.path.exists(path):
        for line in open(path):
            line = line.strip()
            if line.startswith("open:"):
                m = re.match(r'open:\s+property=(\w+)\s+key=(\S+)\s+(.*)', line)
                if m:
                    entries.append({"property": m.group(1), "key": m.group(2), "what": m.group(3)})
    return entries


def case_hash(obj):
    return hashlib.sha1(json.dumps(obj, sort_keys=True, default=str).encode()).hexdigest()[:12]


def write_replay(prop, body):
    os.makedirs(os.path.join(VERIF, "replays"), exist_ok=True)
    h = case_hash(body)
    path = os.path.join(VERIF, "replays", "%s-%s.json" % (prop, h))
    body = dict(body)
    body["property"] = prop
    body["how_to_replay"] = "./check %s --replay %s" % (prop, os.path.relpath(path, VERIF))
    with open(path, "w") as f:
        json.dump(body, f, indent=1, default=str)
    return path


def write_evidence(prop, ev):
    # VERIF_EVIDENCE_DIR: used only by tools/seed_eval.py so that runs against mutated scratch trees do not
    # overwrite the evidence of the real tree
    d = os.environ.get("VERIF_EVIDENCE_DIR") or os.path.join(VERIF, "evidence")
    os.makedirs(d, exist_ok=True)
    path = os.path.join(d, prop + ".json")
    with open(path, "w") as f:
        json.dump(ev, f, indent=1, default=str)
    return path


class Scratch:
    def __enter__(self):
        self.path = tempfile.mkdtemp(prefix="qvverif_")
        return self.path

    def __exit__(self, *a):
        shutil.rmtree(self.path, ignore_errors=True)
