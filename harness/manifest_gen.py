"""writes MANIFEST.json from the table below (kept in one place so it is always valid)"""
import json, os
VERIF = os.path.dirname(os.path.dirname(os.path.abspath(__file__)))
props = [json.loads(l) for l in open(os.path.join(VERIF, "properties.jsonl"))]
ids = [p["id"] for p in props]

CLAIMED = {
 "C15": dict(
    text="Coq theorems (C15_pubo, C15_puso, C15_constant_*, C15_del_energies, C15_no_variables, C15_no_error, "
         "C15_temperature_range over R) prove the enclosure and the temperature ordering for every term list, every "
         "assignment and every admissible probability pair, about an executable Gallina model; the model is tied to "
         "/repo by a correspondence run (exact rational comparison, vm_compute inside Coq) plus a truth-table oracle on "
         "the implementation.",
    note="Trusted: Coq kernel + vm_compute; stdlib real-number axioms for C15_temperature_range only "
         "(sig_not_dec, sig_forall_dec, functional_extensionality_dep, classic); hand-written model; harness. "
         "Float rounding of -dE/log(p) is not modelled.",
    technique="Coq proof over Q/R + model/implementation correspondence", ref="§5 C15"),
 "C05": dict(
    text="Coq theorem C05_tree: for every expression tree over the ten model kinds, DictArithmetic, raw dicts and scalars "
         "(forward, reflected, in-place, aliased operands), whenever the interpreter (a model of Python's operator dispatch "
         "and of DictArithmetic's methods) returns, the result evaluates to the polynomial-arithmetic value at every "
         "boolean/spin assignment, has the left model operand's kind and is stored canonically; per-operator theorems and "
         "the four value-function theorems. Tied to /repo by exact comparison of results / error kinds on random trees and by "
         "an implementation-side oracle (truth table + unique multilinear form + purity of operands).",
    note="Trusted: Coq kernel + vm_compute; no axioms (closed under the global context); hand-written model of "
         "_dict_arithmetic.py/_pubomatrix.py/_values.py; harness. Uniqueness of the canonical form: C05_unique_zero / "
         "C05_unique_sub for the boolean kinds (a canonical polynomial vanishing on all 0/1 assignments is empty) and "
         "C05_unique_zero_spin / C05_unique_sub_spin for the spin kinds (vanishing on all +-1 assignments); the oracle checks the "
         "same on the implementation (Moebius / Walsh inversion). Floats only on dyadic values.",
    technique="Coq proof (induction over expression trees) + model/implementation correspondence", ref="§5 C05"),
 "C14": dict(
    text="Coq theorems C14_init/C14_step/C14_reachable: the bookkeeping invariant (reported variables and degree are upper "
         "bounds, |variables| = num_binary_variables, mapping/reverse_mapping mutually inverse bijections between exactly the "
         "reported variables and 0..n-1, next label = n) holds after every finite history of edits (item assignment incl. zero, "
         "+=, in-place + - * ** /, update, clear, refresh, copy) on every kind; C14_refresh: refresh keeps the function and makes "
         "the bookkeeping exact. Tied to /repo by comparing the full bookkeeping after every edit of random histories, plus an "
         "implementation-side check of the property (incl. labels of to_qubo/to_quso/to_pubo/to_puso).",
    note="Trusted: Coq kernel + vm_compute; no axioms; hand-written model of _pubomatrix.py/_bo_parentclass.py/_dict_arithmetic.py "
         "(after the repairs D1, D2, D9, D11 listed in known_findings.txt); harness. C14_constraint_step / "
         "C14_reachable_with_constraints extend the invariant to histories that contain the constraint methods of PCBO / PCSO; "
         "C14_ancilla_names (= C02_ancilla_bound) is the ancilla-name clause; the reduced-form label clause is C01's.",
    technique="Coq proof (invariant by induction over edit histories) + model/implementation correspondence", ref="§5 C14"),
 "C13": dict(
    text="Coq theorems C13_step / C13_inv: for a machine with three live collections and all listed operations (construction, "
         "append/add_state, insert, remove, pop, extend/+= with collections and lists, +, *, slicing get/set/del with Python's "
         "index and slice normalisation, item set/del, clear, sort, copy, filter, filter_states, apply_function, convert_states, "
         "to_boolean, to_spin), after every finite operation sequence every collection has best = None iff empty and otherwise "
         "best is an element with the smallest value; C13_sort (sorted + permutation), C13_convert (value-preserving, mutually "
         "inverse). Tied to /repo by comparing contents, best and exception kind after every operation, plus an implementation-side "
         "oracle (identity membership and minimality of best, plain-list mirror for contents and exceptions).",
    note="Trusted: Coq kernel + vm_compute; no axioms; hand-written model of sim/_anneal_results.py after repairs D3/D4; harness. "
         "NaN values are excluded; `*=` and reverse() are not in the property's list and not modelled.",
    technique="Coq proof (invariant by induction over operation sequences) + model/implementation correspondence", ref="§5 C13"),
 "C04": dict(
    text="Coq theorems: the four converters preserve the value under the fixed boolean/spin correspondence for raw dicts and "
         "models (C04_pubo_to_puso, C04_puso_to_pubo by induction over the recursive generators; C04_qubo_to_quso, C04_quso_to_qubo "
         "for the closed forms; C04_closed_form_agrees), result-kind rule included; relabelling through the mapping preserves the "
         "value (C04_relabel, C04_enumerated under the C14 invariant); C04_convert_solution; the exports Q, h/J and the matrix "
         "describe the same function up to the offset (C04_Q, C04_hJ, C04_matrix). Tied to /repo by exact comparison of results, "
         "types and error kinds, plus truth-table oracles on the implementation.",
    note="Trusted: Coq kernel + vm_compute; no axioms; hand-written model of _conversions.py, _qubo.py, _quso.py, _qubomatrix.py, "
         "_qusomatrix.py (after repair D7); harness. The converters multiply by float constants: exact on dyadic coefficients only, "
         "which is what the correspondence generates. to_* of PUBO/PUSO/PCBO/PCSO are covered by C01.",
    technique="Coq proof (induction over keys / term lists) + model/implementation correspondence", ref="§5 C04"),
 "C09": dict(
    text="Coq theorems about the model of _solve_bruteforce (the loop with its best / all_sols bookkeeping, the offset and empty "
         "shortcuts, itertools.product order): C09_min (returned objective is attained by every returned assignment, which is "
         "valid, and is a lower bound over all valid assignments), C09_all (all_solutions = exactly the valid minimisers, each "
         "once), C09_none (objective None iff nothing is valid), C09_constant, C09_vars, C09_enumeration (complete, duplicate-free) "
         "-- for every model, every variable list and every validity predicate. Tied to /repo by comparing objective and solution "
         "sets for the four functions and the methods, plus an independent enumeration oracle and an unchanged-input check.",
    note="Trusted: Coq kernel + vm_compute; no axioms; hand-written model; harness. Which minimiser is returned without "
         "all_solutions depends on Python set order for non-labelled inputs; any minimiser is accepted there.",
    technique="Coq proof (loop invariant over the enumeration) + model/implementation correspondence", ref="§5 C09"),
 "C18": dict(
    text="Coq theorems: C18_subvalue / C18_subgraph (value of the result at ANY assignment of the remaining variables equals the "
         "source's value at the assignment extended by the substituted values / connections with default 0 and without the constant; "
         "result has the source's kind) for canonically stored models and plain dicts; C18_normalize, C18_normalize_method (one "
         "common factor value/max|coef|, kind unchanged) and C18_normalize_max (largest magnitude equals |value|). Tied to /repo by "
         "exact comparison of outputs and types, plus a truth-table oracle and a direct scaling check on the implementation.",
    note="Trusted: Coq kernel + vm_compute; no axioms; hand-written model of _subgraph.py/_normalize.py; harness. numpy.prod and the "
         "float factor 1.0 it introduces are exact on the dyadic coefficients generated; symbolic substituted values are not modelled.",
    technique="Coq proof (induction over term lists, any-assignment algebraic identity) + model/implementation correspondence", ref="§5 C18"),
 "C07": dict(
    text="Coq theorem C07_truth: for every expression tree over the eight gates (any arity >= 1, any nesting depth, leaves = labels, "
         "boolean-valued dicts and boolean model objects), whenever the builders return a model it evaluates at every 0/1 assignment "
         "to the truth value of the expression (XOR/XNOR = parity) and is stored canonically -- proved by modelling the builders as "
         "expression trees over the C05 operators and composing C05_tree with a boolean-algebra lemma (C07_denote, nested induction). "
         "Tied to /repo by exact comparison of the built models / error kinds, a truth-table oracle, and an unchanged-operands check.",
    note="Trusted: Coq kernel + vm_compute; no axioms; hand-written model of sat/_satisfiability.py on top of the C05 model; harness.",
    technique="Coq proof (nested induction over expression trees, on top of C05_tree) + model/implementation correspondence", ref="§5 C07"),
 "C19": dict(
    text="Coq theorem C19_roundtrip: create_from_info(get_info(M)) reproduces M's kind, terms (coefficient by coefficient), name, "
         "mapping, ancilla count and recorded constraints for every canonically stored model of the ten kinds (C19_copy: copy() "
         "keeps function, kind, canonical form and the bookkeeping invariant). The no-aliasing half is decided by refinement to "
         "this value-semantics model: the harness mutates every object the implementation hands out (copy, copy constructor, "
         "variables, mapping, reverse_mapping, constraints and their polynomials, get_info's dict, the round-trip copy) and "
         "re-observes the source, and every library call made by any property's harness is wrapped in an argument-purity monitor.",
    note="Trusted: Coq kernel + vm_compute; no axioms; hand-written model of utils/_info.py; harness. Partial by construction: object "
         "identity in CPython is outside the model, so aliasing is shown absent only on the histories explored.",
    technique="Coq proof (round trip) + refinement check against a value-semantics model", ref="§5 C19"),
 "C02": dict(
    text="Coq theorem C02_constraint: for each of the six relations and EVERY branch of the implementation (the a == b*c, "
         "at-most-one, unary-slack, OR and implication shortcuts, the unsatisfiable / always-satisfied branches, unary and "
         "binary slack, the +-1 sign gadget of !=), every lam <> 0, every integer-valued P and omitted / partial / any valid "
         "bounds: the added terms are lam * G with G >= 0 at every assignment, G = 0 reachable by setting only the fresh "
         "ancillas exactly when P R 0, and G >= 1 otherwise (unless the library warned unsatisfiable, where only G >= 0 is "
         "claimed -- C02_le_strong keeps the gap for == and <=); the constraint is recorded and the ancilla counter covers "
         "the fresh block. C02_valid_iff, C02_sequence / C02_ancilla_blocks (constraints added one after another use "
         "disjoint consecutive ancilla blocks). Tied to /repo by exact comparison of terms, ancilla count, recorded "
         "constraints, warnings and variables after every call of random call sequences (branch coverage measured inside "
         "the model), plus an enumeration oracle of the property on the implementation.",
    note="Trusted: Coq kernel + vm_compute; no axioms; hand-written model of _pcbo.py (constraint part) on top of the C05 model; "
         "harness. C02_ancilla_bound / C02_sequence_bound (every ancilla label present is below the counter, syntactically, via "
         "label provenance through the expression interpreter) and C02_later (a call's penalty does not read later ancillas) "
         "give the independence needed to minimise the penalties of a sequence block by block; that exchange is C08_sequence.",
    technique="Coq proof (branch-by-branch evaluation identities + integer arithmetic lemmas) + model/implementation correspondence", ref="§5 C02"),
 "C06": dict(
    text="Coq theorem C06_logic: for each of the sixteen methods, every admissible arity, operands that are labels or nested "
         "0/1-valued expressions, every lam <> 0: the added terms are lam * G with no ancilla, G = 0 exactly on the assignments "
         "where the gate relation holds (resp. equals the first argument) and G >= 1 on all others, and the recorded == "
         "constraint holds exactly there (is_solution_valid). Proved by following the source literally (nested PCBO() helper "
         "objects, the halves split of eq_AND/eq_NAND, the 2-operand closed forms) -- C06_poly gives value, bounds and zero set of "
         "each polynomial, then C02's theorem for add_constraint_eq_zero applies (including the a == b*c shortcut that "
         "eq_BUFFER(a, AND(x,y)) hits). Tied to /repo by exact comparison of terms / constraints / errors after every call and "
         "a truth-table oracle.",
    note="Trusted: Coq kernel + vm_compute; no axioms; hand-written model of the logic methods of _pcbo.py and of sat/; harness.",
    technique="Coq proof (case analysis over the 16 methods on top of C02/C05/C07 theorems) + model/implementation correspondence", ref="§5 C06"),
 "C03": dict(
    text="Coq theorem C03_constraint: for each of the six relations, every branch, every lam <> 0, every spin polynomial that "
         "is integer valued on spins and mentions no ancilla, omitted / partial / valid bounds: the terms PCSO.add_constraint_R_zero "
         "adds are lam * G at every +1/-1 assignment with G >= 0, G = 0 reachable by setting only the fresh ancilla spins exactly "
         "when H(z) R 0, G >= 1 otherwise (unless warned unsatisfiable); the constraint is recorded, the counter handed to the "
         "helper PCBO and taken back covers the fresh block. Proved by composing C02's theorem with C04's conversion theorems "
         "along the route the source takes (puso_to_pubo, helper PCBO seeded with the counter, pubo_to_puso, +=). C03_valid_iff, "
         "C03_sequence / C03_ancilla_blocks for sequences on one PCSO. Tied to /repo by exact comparison of terms, ancilla "
         "count, recorded constraints, warnings, variables after every call of random sequences + enumeration oracle on spins.",
    note="Trusted: Coq kernel + vm_compute; no axioms; hand-written model of _pcso.py on the C02/C04/C05 models; harness. "
         "'num_ancillas covers every ancilla present' is C03_ancilla_bound (syntactic: every '__aK' occurring has K below the "
         "counter, through both conversions and the helper PCBO); float factors of the conversions are exact on the dyadic "
         "coefficients generated.",
    technique="Coq proof (composition of the C02 and C04 theorems through the helper-PCBO route) + model/implementation correspondence", ref="§5 C03"),
 "C16": dict(
    text="Coq theorems C16_constraint / C16_logic / C16_spin: every constraint method (six comparison relations on PCBO and "
         "PCSO with every branch, the sixteen logic methods) is homogeneous in its weight -- two runs of the same call that "
         "differ only in lam != 0 take the same branch, give the same warning, record the same constraint, leave the same "
         "ancilla counter and add lam1*G resp. lam2*G for one and the same G; C16_affine: model(c) = m + c*(model(1) - m); "
         "C16_reduce_affine: the reduced forms with a constant penalty c are Base + c*Pen with Base, Pen independent of c. "
         "That is the part of 'build with a symbol, then subs' that lives in qubovert's code: no branch inspects the value of "
         "lam. sympy's ring arithmetic, subs and float conversion are outside the model and are tied in by the correspondence "
         "run: the symbolic build after subs(symbol -> c) is compared with the numeric build (terms, type, constraints, "
         "ancilla count, original unchanged) and with the Gallina model at c, also with a symbol inside the constraint polynomial.",
    note="Trusted: Coq kernel + vm_compute; no axioms; hand-written model; harness; sympy is exercised, not modelled "
         "(its ring arithmetic, subs and float conversion are what the correspondence run adds to the theorems).",
    technique="Coq proof (two-run simulation over all branches) + model/implementation correspondence", ref="§5 C16"),
 "C01": dict(
    text="Coq theorems about PUBO._reduce_degree (the function behind all eight to_* methods), for every labelled model, "
         "every target degree >= 2, every pairs hint and every penalty setting: C01_extension (each assignment x of M has "
         "an extension s over D's variables, ancillas set to the products they stand for, with D(s) = M(x) -- for ANY "
         "penalty), C01_lower (if the penalty of each reduced term is >= |coefficient| then D(s) >= M(convert_solution(s)) at "
         "EVERY s, consistent ancillas or not; C01_lower_default: always for the default 1+|v|), C01_minimiser (equal "
         "minima; every minimiser of D converts to a minimiser of M), C01_degree (every key of D has at most deg labels), "
         "C01_core (ancillas are numbered from n upwards, each above the two labels it replaces), C01_renumbered_extension / "
         "C01_renumbered_minimiser (the same for models renumbered with set_mapping / set_reverse_mapping), C01_to_quso / C01_to_puso "
         "(spin forms are the boolean reduced form under 0<->+1, 1<->-1), C01_spin_extension / C01_spin_lower (PUSO/PCSO "
         "through _create_pubo with the spin model's own mapping). Proved by induction over the fuel of the per-term loop "
         "and over the term list, with the step inequality C01_step. Tied to /repo by exact comparison of the produced "
         "models (terms, type, labels) for random models, degrees, hints, penalties, plus an enumeration oracle.",
    note="Trusted: Coq kernel + vm_compute; no axioms; hand-written model of _pubo.py/_puso.py reduction code; harness. "
         "The model's per-term loop runs on fuel = len(key) (each step shortens the key by one); fuel exhaustion returns an "
         "error value that the correspondence never observes. Callable penalties are modelled by three fixed functions.",
    technique="Coq proof (induction over the reduction loop; consistent-extension construction) + model/implementation correspondence", ref="§5 C01"),
 "C08": dict(
    text="Coq theorem C08_abstract: for an objective f and any number of constraints whose penalties have the C02/C03/C06 shape "
         "(G >= 0; G = 0 reachable by moving only the constraint's own ancillas exactly when it holds; G >= 1 otherwise) and "
         "whose weights exceed the spread of f, every minimiser of f + sum lam_j G_j over all variables and ancillas is "
         "feasible, minimises f over the feasible assignments, and attains exactly that constrained optimum. "
         "C08_sequence discharges every hypothesis for a PCBO holding an objective plus ANY NUMBER of comparison constraints "
         "(any relation / branch / log_trick / bounds) from the C02 theorem; C08_reduced continues through any degree "
         "reduction (C01_minimiser) and convert_solution. The brute-force half is C09's theorem. Tied to /repo by running the "
         "README workflow (objective + 1-2 comparison / logic constraints on PCBO and PCSO, solve_bruteforce, the four to_* "
         "forms solved exhaustively, convert_solution, remove_ancilla_from_solution) against the model and an enumeration oracle.",
    note="Trusted: Coq kernel + vm_compute; no axioms; hand-written models; harness. C08_sequence discharges every hypothesis of "
         "the abstract theorem for any number of comparison constraints on a PCBO (independence from later ancillas comes from "
         "C02_ancilla_bound); C08_sequence_spin is the same for PCSO; C08_sequence_reduced continues through any degree reduction "
         "and convert_solution; C08_sequence_mixed / C08_sequence_mixed_reduced are the same for sequences that mix comparison "
         "constraints with the sixteen logic constraints on a PCBO (label provenance of the logic penalties: "
         "Proofs/WorkflowMixed.v). The reduced form assumes only the C14 invariant of the "
         "objective model (C14_constraint_step carries it through the constraint methods).",
    technique="Coq proof (exchange argument over penalties, composed with the C01 and C02 theorems) + model/implementation correspondence", ref="§5 C08"),
 "C11": dict(
    text="Coq theorems C11_anneal_spin / C11_anneal_bool: a whole call of anneal_quso / anneal_puso / anneal_qubo / anneal_pubo "
         "on any accepted source (plain dict, labelled kinds, Matrix kinds; model objects satisfying the C14 invariant and "
         "canonical storage) returns exactly num_anneals results, each state lists every variable of the model once "
         "(0..max_index for Matrix kinds, the mapping's labels otherwise) with a value in {1,-1} / {0,1}, and the reported "
         "value is the source model, offset included, at that state -- for every schedule, exp table, initial state, visiting "
         "order and seed; C11_none_*: none if num_anneals <= 0. They rest on the kernel theorems C11_quso_kernel / "
         "C11_puso_kernel (Gallina transcriptions of both C kernels), C11_value_with_offset, C11_package, C11_arrays, "
         "C11_prepared_*. Tied to /repo by bit-exact comparison of whole calls (PCG32 on N, exact rational energies, exp "
         "decided against 60-digit enclosures) of the four annealers built from /repo's C sources, on dict / labelled / "
         "Matrix inputs, plus an implementation-side oracle of the property.",
    note="Trusted: Coq kernel + vm_compute; no axioms; hand-written model of _anneal.py and of the C kernels; mpmath enclosures "
         "of exp; gcc build of the extension from /repo sources; harness. The whole-call theorems compose the kernel "
         "theorems with the C04 conversion / enumeration theorems and the C14 invariant (Proofs/AnnealFront.v). "
         "res.best is C13's theorem.",
    technique="Coq proof (invariants over the kernel loops) + bit-exact model/implementation correspondence", ref="§5 C11"),
 "C12": dict(
    text="Coq theorems: both kernels ARE the single-spin Metropolis chain with the model's exact energy differences, step for "
         "step and with the same random stream, for whole anneals, any schedule and both visiting orders (C12_quso_refines, "
         "C12_puso_refines); the quadratic kernel's cached differences are exact (C12_quso_exact_dE) and stay exact across "
         "every accepted flip (C12_cache: the incremental update, using symmetry and absence of self couplings of the arrays); "
         "the general kernel's subgraph sum is the exact difference (C12_puso_exact_dE); at temperature zero no step raises "
         "the energy and an in-order sweep flips spin j exactly when that does not raise it, without drawing random numbers "
         "(C12_zero_descent, C12_zero_inorder); acceptance rule (C12_accept_downhill / C12_accept_uphill against enclosures of "
         "exp(-dE/T)); random index in range. A model run is a function of its arguments, so reproducibility is inherited "
         "through the bit-exact correspondence (seeded calls are repeated and compared).",
    note="Trusted: as C11. The distributional claim is carried as trace refinement: for every random stream the kernels "
         "compute the Metropolis chain driven by that stream; that PCG32's outputs are uniform is not a theorem. exp() is "
         "outside the model (decisions within 2^-40 of the boundary make a run 'unknown', never guessed).",
    technique="Coq proof (refinement of both kernels to a Metropolis chain specification; cache invariant) + bit-exact correspondence", ref="§5 C12"),
 "C17": dict(
    text="Coq lemmas for the index arithmetic of the kernels (flat arrays + row starts): every access arr[index[i]+j], j < num[i], "
         "is inside the allocated block and reads entry j of row i (C17_flat_access, C17_row_start); neighbours read from "
         "neighbors[] and labels read from terms[] are valid positions of the per-spin arrays (C17_quso_access with "
         "C17_arrays, C17_puso_access); the picked spin and the result block index are in range (C17_picked_index, "
         "C17_states_block); the state keeps its length and +-1 entries through an anneal. The list of ALL array accesses "
         "and allocations of the C sources is regenerated from /repo on every run and must be covered by "
         "coq/c_access_table.json (each row names its lemma). Undefined behaviour that no Gallina model can exhibit is "
         "observed by running the generated call sequences, in one process, through an ASan+UBSan build of the extension "
         "rebuilt from /repo, comparing with fresh calls; crashes of the plain build are caught in child processes.",
    note="PARTIAL by nature: the theorems are about a transcription of the index arithmetic, not about the machine code; freed / "
         "uninitialised memory, signed overflow and interpreter state are covered by the sanitizer oracle on the explored "
         "call sequences only. Trusted: Coq kernel; clang ASan/UBSan runtime; the access extractor (regex over the C sources).",
    technique="Coq proof (index bounds of the flat-array layout) + access table regenerated from the C sources + sanitizer oracle", ref="§5 C17"),
 "C10": dict(
    text="Coq theorems for all seven classes, for every instance: JobSequencing with unary and logarithmic slack (C10_js_value; C10_js_ground: with A > B * largest length every ground state gives each job to exactly one worker, has worker 0 the most loaded with exact slack, energy B * makespan, and no assignment has a smaller makespan; C10_js_valid), GraphPartitioning (C10_gp_value: the QUSO is A (sum z)^2 + B cut; C10_gp_ground: on an even number of vertices of a simple graph with A > B min(2 maxdegree, N)/8 every ground state is balanced, has energy B*cut and no balanced partition cuts less -- moving one vertex off the larger side always pays), SetCover with unary and logarithmic counters (C10_setcover_value: the QUBO is B*weight + A*sum of per-element penalties; C10_setcover_ground: with A > B > 0 and weights <= 1 every ground state chooses a cover of least weight and has energy B*weight -- repair argument plus explicit counter values; C10_setcover_valid), BILP (C10_bilp_value, C10_bilp_ground: with A > B*sum|c_i| "
         "and integer data every ground state is feasible and optimal and the ground energy is B*c.x; C10_bilp_valid), VertexCover (C10_vc_value: the QUBO is B*|x| + A*sum "
         "of per-edge penalties that vanish exactly on covered edges and are >= 1 otherwise; C10_vc_ground: with A > B > 0 "
         "every ground state is a vertex cover of minimum size and the ground energy is B times that size -- by the repair "
         "argument 'add one endpoint per uncovered edge'), NumberPartitioning (C10_np_value, C10_np_ground, "
         "C10_np_ground_even, C10_np_valid), AlternatingSectorsChain with open and (N >= 3) periodic boundary (C10_asc_value, C10_asc_ground, C10_asc_value_pbc, "
         "C10_asc_ground_pbc: the ground states are the uniform states). For all seven classes the model builds to_qubo / to_quso with the same item "
         "operations as the source and is tied to /repo by exact comparison of the produced matrices (all log_trick / M / "
         "weight settings), and the full property (is_solution_valid, convert_solution, ground states for admissible and "
         "default weights, solve_bruteforce) is checked on the implementation by combinatorial oracles on small instances.",
    note="Ground-state theorems are stated under the documented thresholds with the instance hypotheses spelled out (integer lengths, simple graphs with unit-interval weights and an even number of vertices, weights <= 1, M at least its default); the periodic chain for N >= 2. Trusted: Coq kernel "
         "+ vm_compute; no axioms; hand-written model of qubovert/problems; harness.",
    technique="Coq proof (value identities; exchange / repair arguments for ground states) + exact matrix correspondence + combinatorial oracle", ref="§5 C10"),
}
NA_REASON = "check not built yet in this round; see DESIGN.md §8 (order of work)"

checks = []
for i in ids:
    if i in CLAIMED:
        c = CLAIMED[i]
        checks.append({
            "property_id": i,
            "quick_cmd": "./check %s quick" % i,
            "thorough_cmd": "./check %s thorough" % i,
            "evidence_file": "/verif/evidence/%s.json" % i,
            "replay_cmd_template": "./check %s --replay {path}" % i,
            "engine": "coq-model+correspondence",
            "level_claimed": {"category": "proof", "text": c["text"], "design_ref": c["ref"]},
            "level_note": c["note"],
            "technique": c["technique"],
        })
m = {
 "version": 1,
 "setup_cmd": "cd /verif/coq && coq_makefile -f _CoqProject -o Makefile && timeout 3000 make -j16",
 "hooks": {"guard": "JTIOSUE_QUBOVERT_VERIF", "enable": "no hooks are needed: all observations go through the public API (plus read-only access to underscore attributes from the harness)",
           "baseline_off_cmd": "cd /repo && /venv/bin/python -m pytest -ra -q -p no:cacheprovider --timeout=900 --continue-on-collection-errors",
           "source_commits": [], "add_only": True},
 "engines": [{"name": "coq-model+correspondence", "path": "/verif/coq /verif/harness",
              "serves_properties": sorted(CLAIMED),
              "kind_free_text": "Coq 8.16.1 development (executable Gallina model of qubovert + theorems) and a Python harness that runs /repo and the model (vm_compute) on the same generated inputs, with implementation-side oracles"}],
 "checks": checks,
 "not_applicable": [{"property_id": i, "reason": NA_REASON} for i in ids if i not in CLAIMED],
 "notes": "See DESIGN.md. Known findings: known_findings.txt.",
}
json.dump(m, open(os.path.join(VERIF, "MANIFEST.json"), "w"), indent=1)
print("claimed", sorted(CLAIMED))
