"""C18 — substitution and scaling utilities preserve the represented function."""
import itertools
from fractions import Fraction as F
import common as C
import gens as G
from props.c05 import KIND, QUAD, BOOL, SPIN, cls_of

ID = "C18"
IMPORTS = "From QV.Model Require Import Base Matrix Arith Extrema SubNorm.\nFrom QV.Corr Require Import C18."
CASE_TYPE = "(cin * cout)"
RUN, EQB = "run_case", "out_eqb"
N = {"quick": 700, "thorough": 8000}
RULE = ("random models of every kind and plain dicts; subvalue with partial assignments (values inside and outside the "
        "variable domain, labels not in the model), subgraph with node sets and connection maps, normalize (function and "
        "method) with positive / negative / fractional targets; non-trivial = a key with >= 2 labels of which one is "
        "substituted (subvalue/subgraph) or >= 2 terms (normalize); distinct by canonical JSON")
THEOREMS = "C18_subvalue C18_subgraph C18_override C18_normalize C18_normalize_method C18_normalize_max"
MODELLED = ("numpy.prod enters as exact products (dyadic coefficients only); symbolic substituted values are not in the model: "
            "every subvalue / subgraph case is repeated on the implementation with sympy symbols as values, the numbers "
            "substituted afterwards, and compared with the numeric result")

ALLK = BOOL + SPIN


def gen(rng, i, tier):
    G.DYADIC_ONLY = True
    try:
        op = rng.choice(["subvalue", "subvalue", "subgraph", "normalize", "normalize_method"])
        kind = rng.choice(ALLK + ["dict", "dict"]) if op != "normalize_method" else rng.choice(ALLK + ["DictArithmetic"])
        quad = kind in QUAD
        spin = kind in SPIN
        uni = 'int' if kind.endswith("Matrix") else rng.choice(['int', 'pool'])
        if kind == "dict":
            # a plain dict in the documented form: each key sorted and duplicate free
            t0 = G.raw_terms(rng, uni, max_vars=5, max_terms=6, max_deg=4, repeats=False)
            t = [(tuple(sorted(set(k), key=C.enc)), v) for k, v in t0]
            seen, tt = set(), []
            for k, v in t:
                if k not in seen:
                    seen.add(k)
                    tt.append((k, v))
            t = tt
        else:
            t = G.quad_terms(rng, uni, max_vars=5, max_terms=6, spin=spin) if quad else G.raw_terms(rng, uni, max_vars=5, max_terms=6, max_deg=4)
        labs = sorted({x for k, _ in t for x in k}, key=C.enc)
        case = {"op": op, "kind": kind, "terms": G.jraw(t)}
        if op == "subvalue":
            dom = (1, -1) if spin else (0, 1)
            chosen = [l for l in labs if rng.random() < 0.5]
            if rng.random() < 0.2:
                extra = [l for l in (C.POOL if uni == 'pool' else range(8)) if l not in labs]
                if extra:
                    chosen.append(rng.choice(extra))
            vs = []
            for l in chosen:
                v = F(rng.choice(dom)) if rng.random() < 0.75 else G.coef(rng, zero_ok=True)
                vs.append([C.enc(l), [v.numerator, v.denominator]])
            if t and rng.random() < 0.3:
                # exact cancellation after the substitution: a term and its product with one more variable, whose value
                # turns the longer one into the negative of the shorter
                cand = [(k, v) for k, v in t if v != 0 and len(set(k)) <= (1 if quad else 3)]
                if cand:
                    k, v = rng.choice(cand)
                    pool = [l for l in (C.POOL if uni == 'pool' else range(8)) if l not in k]
                    l = rng.choice(pool)
                    val = rng.choice(dom)
                    k2 = tuple(sorted(set(k) | {l}, key=C.enc))
                    t = [(kk, vv) for kk, vv in t if tuple(sorted(set(kk), key=C.enc)) != k2] + [(k2, -v if val == 1 else v)]
                    if not spin and val == 0:
                        val = 1
                        t[-1] = (k2, -v)
                    vs = [x for x in vs if x[0] != C.enc(l)] + [[C.enc(l), [val, 1]]]
                    case["terms"] = G.jraw(t)
            case["vals"] = vs
        elif op == "subgraph":
            nodes = [l for l in labs if rng.random() < 0.5]
            rest = [l for l in labs if l not in nodes]
            dom = (1, -1) if spin else (0, 1)
            conn = []
            for l in rest:
                if rng.random() < 0.6:
                    v = F(rng.choice(dom)) if rng.random() < 0.8 else G.coef(rng, zero_ok=True)
                    conn.append([C.enc(l), [v.numerator, v.denominator]])
            if nodes and rng.random() < 0.35:
                # the connection map also mentions nodes (a whole assignment handed over): nodes stay variables
                for l in nodes:
                    if rng.random() < 0.7:
                        v = F(rng.choice(dom)) if rng.random() < 0.8 else G.coef(rng, zero_ok=True)
                        conn.insert(rng.randrange(len(conn) + 1), [C.enc(l), [v.numerator, v.denominator]])
            case["nodes"] = [C.enc(l) for l in nodes]
            case["conn"] = conn if (conn or rng.random() < 0.5) else None
            case["nodes_type"] = rng.choice(["set", "list", "tuple"])
        else:
            v = rng.choice([F(1), F(1), F(2), F(-3), F(1, 2), F(7, 4)])
            case["value"] = [v.numerator, v.denominator]
            if t and rng.random() < 0.15:
                # the largest magnitude is exactly 1 already (and the target may be something else)
                j0 = rng.randrange(len(t))
                t = [(k, (F(rng.choice([1, -1])) if j == j0 else (c / 2 ** 5))) for j, (k, c) in enumerate(t)]
                case["terms"] = G.jraw(t)
            elif rng.random() < 0.12:
                # a model in very small (or very large) units: the scale of the coefficients must not matter
                e = rng.choice([-1, -1, -1, 1]) * rng.randint(51, 90)
                t = [(k, c * F(2) ** e) for k, c in t]
                case["terms"] = G.jraw(t)
                case["scaled"] = e
            # the default value=1 is an int: 1 / max is a float, exact only when max|coef| is a power of two
            obj = build({"kind": kind, "terms": G.jraw(t)})
            M = max((abs(C.toF(c)) for c in obj.values()), default=F(0))
            pow2 = M != 0 and (M.numerator & (M.numerator - 1)) == 0 and (M.denominator & (M.denominator - 1)) == 0
            case["default"] = (v == 1 and pow2 and rng.random() < 0.7)
        return case
    finally:
        G.DYADIC_ONLY = False


def twin_ok(case):
    # labelled kinds and plain dicts accept any hashable label; Matrix kinds index by int
    return not case["kind"].endswith("Matrix")


def build(case):
    t = G.unjraw(case["terms"])
    d = {k: C.num(v) for k, v in t}
    return d if case["kind"] == "dict" else cls_of(case["kind"])(d)


def mout(o):
    kind = type(o).__name__
    return {"kind": kind, "terms": C.jterms(C.enc_terms(o, sort_keys=kind not in ("dict", "DictArithmetic")))}


def run_impl(case):
    import qubovert as qv
    obj = build(case)
    op = case["op"]
    src_items = C.jterms(C.enc_terms(obj, sort_keys=False))
    try:
        if op == "subvalue":
            vals = {C.dec(l): C.num(F(*v)) for l, v in case["vals"]}
            r = C.pure_call(qv.utils.subvalue, vals, obj)
            out = mout(r)
            if case["kind"] != "dict":
                r2 = obj.subvalue(vals)
                out["method_same"] = (r2 == r and type(r2) is type(r))
        elif op == "subgraph":
            nodes = [C.dec(l) for l in case["nodes"]]
            nodes = set(nodes) if case["nodes_type"] == "set" else tuple(nodes) if case["nodes_type"] == "tuple" else nodes
            conn = None if case["conn"] is None else {C.dec(l): C.num(F(*v)) for l, v in case["conn"]}
            r = C.pure_call(qv.utils.subgraph, obj, nodes, conn)
            out = mout(r)
            if case["kind"] != "dict":
                r2 = obj.subgraph(nodes, conn)
                out["method_same"] = (r2 == r and type(r2) is type(r))
        elif op == "normalize":
            r = C.pure_call(qv.utils.normalize, obj) if case["default"] else C.pure_call(qv.utils.normalize, obj, F(*case["value"]))
            out = mout(r)
        else:
            if case["default"]:
                obj.normalize()
            else:
                obj.normalize(F(*case["value"]))
            out = mout(obj)
    except (KeyError, ValueError, TypeError, ZeroDivisionError) as ex:
        out = {"error": type(ex).__name__}
    out["src_items"] = src_items
    if op in ("subvalue", "subgraph") and "error" not in out:
        msg = symbolic_twin(case, out)
        if msg:
            out["symbolic"] = msg
    return out


def symbolic_twin(case, out):
    """the same call with sympy symbols as substituted values, the symbols replaced by the numbers afterwards: same result"""
    import sympy
    import qubovert as qv
    pairs = case["vals"] if case["op"] == "subvalue" else (case["conn"] or [])
    if not pairs:
        return None
    syms = {l: sympy.Symbol("s%d" % i) for i, (l, _) in enumerate(pairs)}
    back = {syms[l]: sympy.Rational(v[0], v[1]) for l, v in pairs}
    obj = build(case)
    try:
        if case["op"] == "subvalue":
            r = qv.utils.subvalue({C.dec(l): syms[l] for l, _ in pairs}, obj)
        else:
            nodes = [C.dec(l) for l in case["nodes"]]
            nodes = set(nodes) if case["nodes_type"] == "set" else tuple(nodes) if case["nodes_type"] == "tuple" else nodes
            r = qv.utils.subgraph(obj, nodes, {C.dec(l): syms[l] for l, _ in pairs})
    except (KeyError, ValueError, TypeError, ZeroDivisionError) as ex:
        return "with symbols as substituted values the call raised %s: %s" % (type(ex).__name__, ex)
    got = {}
    for k, v in r.items():
        v = sympy.nsimplify(sympy.sympify(v).subs(back), rational=True)
        if not v.is_Rational:
            return "a symbol is left in the coefficient of %r after substituting the numbers: %s" % (k, v)
        v = F(int(v.p), int(v.q))
        if v != 0:
            kk = tuple(sorted(C.enc(i) for i in k))
            got[kk] = got.get(kk, F(0)) + v
    want = {tuple(sorted(k)): F(c[0], c[1]) for k, c in out["terms"] if F(c[0], c[1]) != 0}
    got = {k: v for k, v in got.items() if v != 0}
    if got != want:
        diff = sorted(k for k in set(got) | set(want) if got.get(k) != want.get(k))[:3]
        return ("symbols as substituted values, replaced by the numbers afterwards, give %r where the numeric call gives %r"
                % ({k: str(got.get(k)) for k in diff}, {k: str(want.get(k)) for k in diff}))
    return None


def tl(j):
    return C.termsl([(k, F(v[0], v[1])) for k, v in j])


def vl(j):
    return "[%s]" % "; ".join("(%d%%nat, %s)" % (l, C.q(F(*v))) for l, v in j)


def literal(case, out):
    kd = "KDict" if case["kind"] == "dict" else KIND[case["kind"]]
    op = case["op"]
    if op == "subvalue":
        cin = "SubValue %s %s %s" % (kd, tl(case["terms"]), vl(case["vals"]))
    elif op == "subgraph":
        cin = "SubGraph %s %s %s %s" % (kd, tl(case["terms"]), C.natlist(case["nodes"]), vl(case["conn"] or []))
    elif op == "normalize":
        cin = "Normalize %s %s %s" % (kd, tl(case["terms"]), C.q(F(*case["value"])))
    else:
        cin = "NormalizeMethod %s %s %s" % (kd, tl(case["terms"]), C.q(F(*case["value"])))
    if "error" in out:
        exp = "OErr %s" % out["error"]
    else:
        k = {"dict": "KDict", "DictArithmetic": "KDict"}.get(out["kind"]) or KIND[out["kind"]]
        exp = "OModelOut %s %s" % (k, tl(out["terms"]))
    return "(%s, %s)" % (cin, exp)


def ev(items, x):
    tot = F(0)
    for k, v in items:
        p = F(1)
        for i in k:
            p *= x[i]
        tot += F(v[0], v[1]) * p
    return tot


def oracle(case, out):
    v = []
    op = case["op"]
    if "error" in out:
        if not (op == "normalize" and not out["src_items"]):   # normalize() of an empty model: max() of nothing
            v.append("%s raised %s" % (op, out["error"]))
        return v
    src = out["src_items"]
    want_kind = case["kind"]
    if out["kind"] != want_kind:
        v.append("%s returned %s for a %s" % (op, out["kind"], want_kind))
    if out.get("method_same") is False:
        v.append("method form differs from the function form")
    if out.get("symbolic"):
        v.append(out["symbolic"])
    spin = case["kind"] in SPIN
    dom = (1, -1) if spin else (0, 1)
    res = out["terms"]
    if op in ("subvalue", "subgraph"):
        labs = sorted({i for k, _ in src for i in k})
        if op == "subvalue":
            fixed = {l: F(*val) for l, val in case["vals"]}
            free = [l for l in labs if l not in fixed]
            base = src
        else:
            nodes = set(case["nodes"])
            conn = {l: F(*val) for l, val in (case["conn"] or [])}
            fixed = {l: conn.get(l, F(0)) for l in labs if l not in nodes}
            free = [l for l in labs if l in nodes]
            base = [(k, c) for k, c in src if k]
        if not {i for k, _ in res for i in k} <= set(free):
            v.append("result mentions substituted / outside variables")
        elif len(free) <= 8:
            for bits in itertools.product(dom, repeat=len(free)):
                x = dict(zip(free, bits))
                full = dict(fixed)
                full.update(x)
                if ev(res, x) != ev(base, full):
                    v.append("%s: value %s at %s, source extended by the substituted values gives %s" % (op, ev(res, x), x, ev(base, full)))
                    break
    else:
        value = F(1) if case.get("default") else F(*case["value"])
        if src:
            M = max(abs(F(c[0], c[1])) for _, c in src)
            got = {tuple(k): F(c[0], c[1]) for k, c in res}
            want = {tuple(sorted(k) if case["kind"] not in ("dict", "DictArithmetic") else k): value / M * F(c[0], c[1]) for k, c in src}
            want = {k: c for k, c in want.items() if c != 0}
            if got != want:
                v.append("normalize: coefficients are not the source scaled by the common factor %s" % (value / M))
            elif got and max(abs(c) for c in got.values()) != abs(value):
                v.append("normalize: largest magnitude %s, requested %s" % (max(abs(c) for c in got.values()), abs(value)))
    return v


def nontrivial(case, out):
    if case["op"] in ("normalize", "normalize_method"):
        return len(case["terms"]) >= 2
    sub = {l for l, _ in case.get("vals", [])} if case["op"] == "subvalue" else None
    for k, _ in case["terms"]:
        if len(set(k)) >= 2:
            if case["op"] == "subgraph" or any(i in sub for i in k):
                return True
    return False


def tags(case, out):
    t = [case["op"] + ":" + ("dict" if case["kind"] == "dict" else "object"), "kind:" + case["kind"]]
    if case.get("scaled"):
        t.append("normalize:coefficients-scaled-by-2**%s" % ("-51..-90" if case["scaled"] < 0 else "51..90"))
    if case["op"] == "subgraph" and any(l in case["nodes"] for l, _ in (case.get("conn") or [])):
        t.append("subgraph:connections-mention-nodes")
    if "error" in out:
        t.append("error:" + out["error"])
    return t
