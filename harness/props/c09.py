"""C09 — brute-force solvers return the exact minimum and exactly the minimisers."""
import itertools
from fractions import Fraction as F
import common as C
import gens as G
from props.c05 import KIND, QUAD, BOOL, SPIN, cls_of

ID = "C09"
IMPORTS = "From QV.Model Require Import Base Bruteforce.\nFrom QV.Corr Require Import C09."
CASE_TYPE = "(cin * cout)"
RUN, EQB = "run_case", "out_eqb"
N = {"quick": 500, "thorough": 5000}
RULE = ("random models (1-5 variables, planted ties through small integer coefficients, with/without offset, constant and "
        "empty models) given as dict, Matrix object or labelled object (also with stale variables) to the four solve_* "
        "functions and the solve_bruteforce methods, all_solutions both ways, validity predicates (answering with bool, int, None or numpy.bool_) from a menu (all, none, "
        "parity, cardinality bounds); non-trivial = at least two variables and a non-constant term; distinct by JSON")
THEOREMS = "C09_min C09_all C09_none C09_constant C09_vars C09_enumeration"
MODELLED = ("the order in which a plain dict's or Matrix model's variables are enumerated (Python set iteration) only decides "
            "which of several minimisers is returned without all_solutions; there any minimiser is accepted")

FNS = ["pubo", "qubo", "puso", "quso"]
PRED = {
    "all": lambda spin, k: (lambda x: True),
    "none": lambda spin, k: (lambda x: False),
    "parity": lambda spin, k: (lambda x: sum(1 for v in x.values() if v == (-1 if spin else 1)) % 2 == 0),
    "cardle": lambda spin, k: (lambda x: sum(1 for v in x.values() if v == (-1 if spin else 1)) <= k),
    "cardge": lambda spin, k: (lambda x: sum(1 for v in x.values() if v == (-1 if spin else 1)) >= k),
}


def wrap_ret(pred, ret):
    """the predicate's answer in the shapes user code produces: a bool, an int from arithmetic, None for "no", numpy.bool_"""
    if ret == "int":
        return lambda x: 1 if pred(x) else 0
    if ret == "none":
        return lambda x: True if pred(x) else None
    if ret == "npbool":
        import numpy
        return lambda x: numpy.bool_(pred(x))
    return pred


def gen(rng, i, tier):
    if rng.random() < 0.10:
        # the solve_bruteforce method the problem classes inherit: it solves the formulation built from its own arguments
        from props import c10
        return {"form": "problem", "inst": c10.gen(rng, rng.choice([4, 4, 4, 0, 1, 2, 6]), tier), "fn": "qubo", "pred": "all", "all": True}
    c = gen_(rng, i, tier)
    c["ret"] = rng.choice(["bool", "bool", "int", "none", "npbool"])
    return c


def gen_(rng, i, tier):
    fn = rng.choice(FNS)
    spin = fn in ("puso", "quso")
    quad = fn in ("qubo", "quso")
    fam = SPIN if spin else BOOL
    form = rng.choice(["dict", "dict", "matrix", "labelled", "method"])
    if form == "dict":
        kind = None
    elif form == "matrix":
        kind = rng.choice([k for k in fam if k.endswith("Matrix") and (k in QUAD) == quad])
    else:
        kind = rng.choice([k for k in fam if (k in QUAD) == quad and (form == "method" or not k.endswith("Matrix"))])
    uni = 'int' if (kind and kind.endswith("Matrix")) else rng.choice(['int', 'pool'])
    mv = 5 if tier == "quick" else 7
    t = G.quad_terms(rng, uni, max_vars=mv, max_terms=6, spin=spin, ints=rng.random() < 0.7, zero_ok=(kind is None)) if quad else \
        G.raw_terms(rng, uni, max_vars=mv, max_terms=6, max_deg=4, repeats=True, ints=rng.random() < 0.7,
                    zero_ok=(kind is None))
    if kind is None:
        # dict input: keys as qubovert stores them (the documented form); for the two general solvers sometimes as a user
        # writes them, with a label repeated inside a key (x*x*x = x, z*z*z = z, z*z = 1)
        rawkeys = (not quad) and rng.random() < 0.3
        seen, tt = set(), []
        for k, v in t:
            kk = tuple(k) if rawkeys else tuple(sorted(set(k), key=C.enc))
            if rawkeys and kk and rng.random() < 0.4:
                x3 = rng.choice(kk)                 # one label three times: x*x*x = x, z*z*z = z
                kk = kk + (x3, x3)
            if quad and len(kk) > 2:
                continue
            if kk not in seen:
                seen.add(kk)
                tt.append((kk, v))
        t = tt
    r = rng.random()
    if r < 0.06:
        t = [(k, v) for k, v in t if not k]
    elif r < 0.09:
        t = []
    stale = []
    if kind and not kind.endswith("Matrix") and t and rng.random() < 0.25:
        stale = [rng.choice([k for k, _ in t])]
    pred = rng.choice(["all", "all", "all", "none", "parity", "cardle", "cardge"])
    # labelled objects: a numbering chosen by the user (set_mapping / set_reverse_mapping with a permutation), then one more
    # variable -- the solvers enumerate through reverse_mapping, which has to stay a bijection onto 0..n-1
    remap, newvar = None, None
    if kind and not kind.endswith("Matrix") and t and rng.random() < 0.3:
        from props import c04
        remap = c04.gen_remap(rng) or {"how": rng.choice(["map", "rmap"]), "seed": rng.randrange(10 ** 6)}
        used = {x for k, _ in t for x in k}
        free = [l for l in (C.POOL if uni == 'pool' else range(8)) if l not in used]
        if free and rng.random() < 0.7:
            c = G.coef(rng, ints=True)
            newvar = [C.enc(rng.choice(free)), [c.numerator, c.denominator]]
    decoy = None
    if kind and rng.random() < 0.2:
        labs = sorted({x for k, _ in t for x in k}, key=C.enc)
        extra = [l for l in (C.POOL if uni == 'pool' else range(8)) if l not in labs]
        dl = (extra[:2] + labs[::-1]) if rng.random() < 0.7 else labs[::-1]
        decoy = [((l,), F(1)) for l in dl]
    return {"fn": fn, "kind": kind, "form": form, "terms": G.jraw(t), "stale": [[C.enc(x) for x in k] for k in stale],
            "decoy": None if decoy is None else G.jraw(decoy),
            "all": rng.random() < 0.5, "pred": pred if form != "method" else "all", "k": rng.randint(0, 3),
            "remap": remap, "newvar": newvar}


def build(case):
    t = G.unjraw(case["terms"])
    d = {k: C.num(v) for k, v in t}
    if case["kind"] is None:
        return d
    if case.get("decoy"):
        # the object had another life before: other labels in another order, then clear() -- nothing of it may survive
        m = cls_of(case["kind"])({k: C.num(v) for k, v in G.unjraw(case["decoy"])})
        m.clear()
        for k, v in d.items():
            m[k] += v           # as the constructor does
    else:
        m = cls_of(case["kind"])(d)
    for k in case["stale"]:
        m[tuple(C.dec(x) for x in k)] = 0       # the key goes, its cached variables stay
    if case.get("remap"):
        from props import c04
        c04.apply_remap(m, case["remap"])
    if case.get("newvar"):
        m[(C.dec(case["newvar"][0]),)] += C.num(F(*case["newvar"][1]))
    return m


def run_impl(case):
    import qubovert as qv
    if case["form"] == "problem":
        from props import c10
        P = c10.instance(case["inst"])
        return {"problem": True, "checks": c10.check_bruteforce_kw(case["inst"], P), "vars": list(range(P.num_binary_variables))}
    D = build(case)
    spin = case["fn"] in ("puso", "quso")
    valid = wrap_ret(PRED[case["pred"]](spin, case["k"]), case.get("ret", "bool"))
    before = (type(D).__name__, dict(D), C.snapshot(D)[3] if isinstance(D, dict) and type(D) is not dict else None)
    if case["form"] == "method":
        sols = D.solve_bruteforce(case["all"])
        obj = "method"
    else:
        obj, sols = getattr(qv.utils, "solve_%s_bruteforce" % case["fn"])(D, case["all"], valid)
    after = (type(D).__name__, dict(D), C.snapshot(D)[3] if isinstance(D, dict) and type(D) is not dict else None)
    if before != after:
        raise C.PurityError("the model passed to the solver changed: %r -> %r" % (before, after))
    if not case["all"]:
        sols = [sols]
    # variable order: labelled models enumerate through reverse_mapping, everything else through a set
    if hasattr(D, "_reverse_mapping"):
        vars_ = [C.enc(D._reverse_mapping[i]) for i in range(D.num_binary_variables)]
        exact = True
    else:
        vars_ = sorted({C.enc(i) for k in D for i in k})
        exact = False
    if not any(k for k in D):
        vars_ = []
    out = {"vars": vars_, "exact": exact, "items": C.jterms(C.enc_terms(D, sort_keys=False)),
           "sols": [[[C.enc(l), int(v)] for l, v in s.items()] for s in sols]}
    if obj == "method":
        # the method returns only the assignment(s); recover the objective from the function for the comparison
        o2, _ = getattr(qv.utils, "solve_%s_bruteforce" % case["fn"])(D, case["all"], valid)
        obj = o2
    out["obj"] = None if obj is None else str(C.toF(obj))
    return out


def literal(case, out):
    if out.get("problem"):
        return None              # checked on the implementation only (the problem classes are C10's model)
    spin = case["fn"] in ("puso", "quso")
    vars_ = out["vars"]
    cin = "{| c_spin := %s; c_vars := %s; c_D := %s; c_all := %s; c_valid := %s; c_exact := %s |}" % (
        C.boolc(spin), C.natlist(vars_), C.termsl([(k, F(v[0], v[1])) for k, v in out["items"]]), C.boolc(case["all"]),
        {"all": "VAll", "none": "VNone", "parity": "VParity", "cardle": "(VCardLe %d)" % case["k"],
         "cardge": "(VCardGe %d)" % case["k"]}[case["pred"]], C.boolc(out["exact"]))
    sols = []
    for s in out["sols"]:
        d = dict((l, v) for l, v in s)
        if out["obj"] is None and not d:
            sols.append("[]")          # (None, {}) / (None, [{}]): the empty assignment
        elif set(d) != set(vars_):
            # an assignment over other variables than the model's: make the literal disagree visibly
            sols.append("[%s]" % "; ".join(C.q(v) for v in list(d.values()) + [7]))
        else:
            sols.append("[%s]" % "; ".join(C.q(d[l]) for l in vars_))
    cout = "{| b_obj := %s; b_sols := [%s]; b_mins := []; b_all := %s; b_exact := %s |}" % (
        "None" if out["obj"] is None else "(Some %s)" % C.q(F(out["obj"])), "; ".join(sols), C.boolc(case["all"]), C.boolc(out["exact"]))
    return "(%s, %s)" % (cin, cout)


def oracle(case, out):
    """the property, directly on what the implementation returned"""
    if out.get("problem"):
        return out["checks"]
    v = []
    spin = case["fn"] in ("puso", "quso")
    items = [(k, F(c[0], c[1])) for k, c in out["items"]]
    vars_ = out["vars"]
    valid = PRED[case["pred"]](spin, case["k"])

    def val(x):
        tot = F(0)
        for k, c in items:
            p = 1
            for i in k:
                p *= x[i]
            tot += c * p
        return tot
    sols = [dict((l, val_) for l, val_ in s) for s in out["sols"]]
    if not vars_:
        const = sum((c for _, c in items), F(0))
        if out["obj"] is None or F(out["obj"]) != const or any(s for s in sols):
            v.append("constant model %s: returned objective %s with %r" % (const, out["obj"], sols))
        return v
    if len(vars_) > 9:
        return v
    best, mins = None, []
    for bits in itertools.product((1, -1) if spin else (0, 1), repeat=len(vars_)):
        x = dict(zip(vars_, bits))
        if not valid({C.dec(l): b for l, b in x.items()}):
            continue
        e = val(x)
        if best is None or e < best:
            best, mins = e, [x]
        elif e == best:
            mins.append(x)
    if best is None:
        if out["obj"] is not None:
            v.append("no assignment is valid but objective %s was returned" % out["obj"])
        return v
    if out["obj"] is None:
        v.append("objective None although valid assignments exist (minimum %s)" % best)
        return v
    if F(out["obj"]) != best:
        v.append("objective %s, true minimum over valid assignments %s" % (out["obj"], best))
    for s in sols:
        if set(s) != set(vars_):
            v.append("assignment over %r, model variables %r" % (sorted(s), vars_))
        elif s not in mins:
            v.append("returned assignment %r is not a valid minimiser" % s)
    if case["all"]:
        if len(sols) != len(mins) or any(m not in sols for m in mins):
            v.append("all_solutions returned %d assignments, there are %d minimisers" % (len(sols), len(mins)))
    return v


def nontrivial(case, out):
    return len(out["vars"]) >= 2


def tags(case, out):
    if out.get("problem"):
        return ["problem-class:" + case["inst"]["cls"]]
    t = ["fn:%s:%s" % (case["fn"], case["form"]), "all:%s" % case["all"], "pred:" + case["pred"],
         "objective:" + ("none" if out["obj"] is None else "value")]
    if not out["vars"]:
        t.append("constant-or-empty")
    if case["all"] and len(out["sols"]) > 1:
        t.append("ties:%d" % min(len(out["sols"]), 4))
    if case["stale"]:
        t.append("stale-variables")
    if case.get("decoy"):
        t.append("rebuilt-after-clear")
    return t
