"""C16 — symbolic coefficients commute with substitution."""
import warnings
from fractions import Fraction as F
import common as C
import gens as G
from props import c01, c02, c03, c06, c07

ID = "C16"
IMPORTS = ("From QV.Model Require Import Base Matrix Arith Expr Extrema Sat PCBO Logic Convert PCSO Reduce.\n"
           "From QV.Corr Require C01 C02 C03 C06.\nFrom QV.Corr Require Import C16.\n"
           "Import C02. Import C06. Import C01.")
CASE_TYPE = "(C16.cin * C16.cout)"
RUN, EQB = "C16.run_case", "C16.out_eqb"
CHUNK = 25
N = {"quick": 300, "thorough": 3000}
RULE = ("comparison constraints on PCBO and PCSO, logic constraints, and to_qubo/to_quso/to_pubo/to_puso reductions, each "
        "built with a sympy symbol as weight / penalty (one symbol per model, or one per constraint), then subs(symbol -> c) "
        "for dyadic c > 0; compared with the numeric build and with the Gallina model at c; non-trivial = the symbolic model "
        "has at least 3 terms; distinct by canonical JSON")
THEOREMS = "C16_constraint, C16_logic, C16_spin, C16_affine, C16_reduce_affine"
MODELLED = "sympy arithmetic, subs and float conversion are outside the model (reached by the comparison only)"

CVALS = [F(1), F(2), F(1, 2), F(7, 4), F(3), F(5, 2), F(1, 2 ** 60), F(1, 2 ** 60), F(1, 2 ** 100), F(2 ** 12 + 1, 2 ** 12), F(1, 2 ** 20)]      # exact doubles
LASTWARN = [None]


def last_warn():
    w = "none"
    for x in LASTWARN[0] or []:
        if "cannot be satisfied" in str(x.message):
            w = "unsat"
        elif "always satisfied" in str(x.message):
            w = "always"
    return w


def gen(rng, i, tier):
    fam = rng.choice(["c02", "c02", "c03", "c06", "c01"])
    c = rng.choice(CVALS)
    if fam == "c01" and c < F(1, 2 ** 30):
        # a reduction adds the penalty to coefficients of ordinary size: 1.3125 + 2**-60 is not a double. (The constraint
        # families start from an empty model, where every coefficient is a multiple of the weight.)
        c = F(1, 2 ** 20)
    if fam == "c02":
        case = c02.gen(rng, -1, tier)      # -1: without the slack ranges of 2**49 (the substituted weight is a float)
    elif fam == "c03":
        case = c03.gen(rng, i, tier)
    elif fam == "c06":
        case = c06.gen(rng, i, tier)
    else:
        case = c01.gen(rng, i, tier)
        case["lam"] = ["const", [c.numerator, c.denominator]]
        case["upd"] = []
    if fam != "c01":
        case["obj"] = []
        case["calls"] = case["calls"][:1]      # the comparison with the Gallina model looks at the model after the call
        for call in case["calls"]:
            call["lam"] = [c.numerator, c.denominator]
    symP = None
    if fam in ("c02", "c03") and rng.random() < 0.25:
        # one coefficient of the constraint polynomial is a symbol too (a capacity / item weight chosen later); bounds are
        # then supplied explicitly (exact extrema of the numeric polynomial) so both builds see the same ones
        call = case["calls"][0]
        P = G.unjraw(call["P"])
        nz = [j for j, (k, v) in enumerate(P)]
        if nz:
            labs = sorted({l for k, _ in P for l in k}, key=C.enc)
            dom = (1, -1) if fam == "c03" else (0, 1)
            if len(labs) <= 8:
                import itertools
                vals = []
                for b in itertools.product(dom, repeat=len(labs)):
                    x = dict(zip(labs, b))
                    tot = F(0)
                    for k, v in P:
                        pr = 1
                        for l in k:
                            pr *= x[l]
                        tot += v * pr
                    vals.append(tot)
                lo, hi = min(vals), max(vals)
                call["bounds"] = [[lo.numerator, lo.denominator], [hi.numerator, hi.denominator]]
                symP = rng.choice(nz)
    return {"fam": fam, "case": case, "c": [c.numerator, c.denominator], "per_call": rng.random() < 0.4, "symP": symP}


def build(fam, case, lams, symP=None):
    """lams: one weight per call (numbers or sympy symbols); symP = (index, symbol): that coefficient of the first call's
    polynomial is replaced by the symbol"""
    import qubovert as qv
    with warnings.catch_warnings(record=True) as ws:
        warnings.simplefilter("always")
        LASTWARN[0] = ws
        if fam in ("c02", "c03"):
            H = (qv.PCBO if fam == "c02" else qv.PCSO)()
            for call, lam in zip(case["calls"], lams):
                P = {k: C.num(v) for k, v in G.unjraw(call["P"])}
                if symP is not None and call is case["calls"][0]:
                    P[list(P)[symP[0]]] = symP[1]
                b = None if call["bounds"] is None else tuple(None if x is None else C.num(F(*x)) for x in call["bounds"])
                kw = {"lam": lam, "bounds": b}
                if call["rel"] != "eq":
                    kw["log_trick"] = call["log"]
                getattr(H, "add_constraint_%s_zero" % call["rel"])(P, **kw)
            return H
        if fam == "c06":
            H = qv.PCBO()
            for call, lam in zip(case["calls"], lams):
                ops = [c06.pyop(o) for o in call["ops"]]
                getattr(H, "add_constraint_%s%s" % ("eq_" if call["eq"] else "", call["g"]))(*ops, lam=lam)
            return H
        M = c01.build(case)
        pairs = None if case["pairs"] is None else {tuple(C.dec(x) for x in p) for p in case["pairs"]}
        meth = c01.METH[case["meth"]]
        if case["meth"] in (0, 3):
            return getattr(M, meth)(deg=case["deg"], lam=lams[0], pairs=pairs)
        return getattr(M, meth)(lam=lams[0], pairs=pairs)


def run_impl(case):
    import sympy
    fam, inner = case["fam"], case["case"]
    c = F(*case["c"])
    n = len(inner["calls"]) if fam != "c01" else 1
    syms = [sympy.Symbol("lam%d" % i) for i in range(n)] if case["per_call"] else [sympy.Symbol("lam")] * n
    checks = []
    sp = case.get("symP")
    subsd = {s: float(c) for s in set(syms)}
    wsym = None
    if sp is not None:
        wsym = sympy.Symbol("w")
        subsd[wsym] = float(C.num(G.unjraw(inner["calls"][0]["P"])[sp][1]))
    try:
        Hn = build(fam, inner, [C.num(c)] * n)
        wn = last_warn()
    except (KeyError, ValueError, TypeError) as ex:
        return {"error": type(ex).__name__, "checks": []}
    try:
        Hs = build(fam, inner, syms, None if sp is None else (sp, wsym))
    except (KeyError, ValueError, TypeError) as ex:
        # the numeric build went through: the same calls with a symbol as weight must go through too
        return {"error": "symbolic:" + type(ex).__name__,
                "checks": ["the build with a symbolic weight raised %s: %s -- the same calls with the number %s succeed"
                           % (type(ex).__name__, ex, c)]}
    snap = (dict(Hs), getattr(Hs, "_constraints", None) and {k: [dict(p) for p in v] for k, v in Hs._constraints.items()},
            getattr(Hs, "_ancilla", None))
    Hsub = Hs.subs(subsd)
    snap2 = (dict(Hs), getattr(Hs, "_constraints", None) and {k: [dict(p) for p in v] for k, v in Hs._constraints.items()},
             getattr(Hs, "_ancilla", None))
    if snap != snap2:
        checks.append("subs changed the original model")
    if type(Hsub) is not type(Hn):
        checks.append("subs returned %s, the numeric build is %s" % (type(Hsub).__name__, type(Hn).__name__))
    if sp is not None:
        # a symbol inside P may legitimately steer the shortcut tests differently; what the property fixes is the record
        try:
            same = all(abs(float(Hsub.get(k, 0)) - float(Hn.get(k, 0))) < 1e-9 for k in set(Hsub) | set(Hn))
        except TypeError:
            same = False
            checks.append("a symbol is left in the coefficients after subs")
    elif dict(Hsub) != dict(Hn):
        diff = {k: (Hsub.get(k), Hn.get(k)) for k in set(Hsub) | set(Hn) if Hsub.get(k) != Hn.get(k)}
        checks.append("coefficients after subs differ from the numeric build: %r" % (dict(list(diff.items())[:3]),))
    if hasattr(Hn, "constraints"):
        if Hsub.constraints != Hn.constraints:
            checks.append("recorded constraints after subs differ from the numeric build: %r vs %r" % (
                {k: [dict(p) for p in v] for k, v in Hsub.constraints.items()}, {k: [dict(p) for p in v] for k, v in Hn.constraints.items()}))
        if sp is None and Hsub.num_ancillas != Hn.num_ancillas:
            checks.append("num_ancillas after subs is %d, numeric build has %d" % (Hsub.num_ancillas, Hn.num_ancillas))
    obs_now = c02.observe(Hsub if sp is None else Hn, wn) if fam != "c01" else None     # before the follow-up calls below
    if hasattr(Hn, "constraints") and sp is None:
        # (a) the same after a product with a one-term polynomial, which drops the recorded constraints and keeps the ancillas
        try:
            Hs_p, Hn_p = Hs * {(): 2}, Hn * {(): 2}
            Hsub_p = Hs_p.subs(subsd)
            if dict(Hsub_p) != dict(Hn_p):
                checks.append("after a product with {(): 2}: coefficients after subs differ from the numeric build")
            if type(Hsub_p) is not type(Hn_p) or Hsub_p.num_ancillas != Hn_p.num_ancillas:
                checks.append("after a product with {(): 2}: subs gives %s with num_ancillas %d, the numeric build is %s with %d"
                              % (type(Hsub_p).__name__, Hsub_p.num_ancillas, type(Hn_p).__name__, Hn_p.num_ancillas))
        except (KeyError, ValueError, TypeError) as ex:
            checks.append("product with {(): 2} followed by subs raised %r" % (ex,))
        # (b) the substituted model is a model of its own: constraints added to it must not show up in the original
        labs_ = sorted({l for k in Hn for l in k if not str(l).startswith("__a")}, key=C.enc)
        if labs_:
            with warnings.catch_warnings():
                warnings.simplefilter("ignore")
                for rel in list(Hsub.constraints):
                    try:
                        getattr(Hsub, "add_constraint_%s_zero" % rel)({(labs_[0],): 1, (): -1}, lam=1)
                    except (KeyError, ValueError, TypeError):
                        pass
            snap3 = (dict(Hs), getattr(Hs, "_constraints", None) and {k: [dict(p) for p in v] for k, v in Hs._constraints.items()},
                     getattr(Hs, "_ancilla", None))
            if snap3 != snap:
                checks.append("a constraint added to the result of subs changed the original model (shared state)")
    # every symbolic coefficient is affine in each symbol
    for k, v in Hs.items():
        if isinstance(v, sympy.Basic):
            for s in (set(syms) if sp is None else ()):
                if sympy.degree(sympy.expand(v), s) > 1:
                    checks.append("coefficient of %r is not affine in %s: %s" % (k, s, v))
                    break
    out = {"checks": checks, "nterms": len(Hs)}
    if fam == "c01":
        out["model"] = {"kind": type(Hsub).__name__, "terms": C.jterms(C.enc_terms(Hsub))}
    else:
        out["obs"] = obs_now
        out["ncalls"] = n
    return out


def literal(case, out):
    if "error" in out:
        return None
    fam, inner = case["fam"], case["case"]
    if fam == "c01":
        lit = c01.literal(inner, out["model"])
        cin, exp = lit[1:-1].split(", OModelOut", 1) if ", OModelOut" in lit else (None, None)
        if cin is None:
            return None
        return "(In01 %s, Out01 (C01.OModelOut%s))" % (cin, exp)
    # the Gallina run observes after every call; only the last observation is compared, so replay the calls one model at a time
    fake = {"obs": [out["obs"]], "error": None}
    one = dict(inner)
    lit = (c06 if fam == "c06" else c02).literal(one, {"obs": [out["obs"]] * len(inner["calls"]), "error": None})
    return None if lit is None else "(%s %s, Out02 %s)" % ({"c02": "In02", "c03": "In03", "c06": "In06"}[fam],
                                                            lit[1:].split(", ([", 1)[0], "([" + lit[1:-1].split(", ([", 1)[1])


def oracle(case, out):
    return out["checks"][:3]


def nontrivial(case, out):
    return out.get("nterms", 0) >= 3


def tags(case, out):
    t = ["family:" + case["fam"], "symbols:" + ("per-call" if case["per_call"] else "one"),
         "symbol-in-polynomial:" + str(case.get("symP") is not None)]
    if "error" in out:
        t.append("error:" + out["error"])
    return t
