"""C03 — PCSO comparison constraints become exact non-negative penalties on spins."""
import itertools, warnings
from fractions import Fraction as F
import common as C
import gens as G
from props import c02

ID = "C03"
IMPORTS = ("From QV.Model Require Import Base Matrix Arith Expr Extrema Sat PCBO Convert PCSO.\n"
           "From QV.Corr Require Import C02 C03.")
CHUNK = 25
CASE_TYPE = "(C03.cin * C03.cout)"
RUN, EQB = "C03.run_case", "C03.out_eqb"
N = {"quick": 350, "thorough": 4000}
RULE = ("sequences of 1-3 comparison constraints on one PCSO: integer-valued spin polynomials (integer coefficients, and the "
        "spin images of the boolean special forms, whose coefficients are dyadic), six relations, log_trick both ways, bounds "
        "omitted / exact / loose / one-sided, lam in {1, 2, 1/2, 7/4, 0}; non-trivial = >= 2 spins and neither always "
        "satisfied nor unsatisfiable; distinct by canonical JSON")
THEOREMS = "C03_constraint, C03_valid_iff, C03_sequence, C03_ancilla_blocks, C03_ancilla_bound"
MODELLED = "as C02; the boolean/spin conversions multiply by float constants, exact on the dyadic coefficients generated"
COQ_TAGF = None
REL, RELC, HOLDS = c02.REL, c02.RELC, c02.HOLDS


def b2s_poly(P):
    """spin image of a boolean polynomial: x = (1 - z) / 2"""
    out = {}
    for k, v in P:
        terms = {(): F(v)}
        for l in k:
            new = {}
            for kk, c in terms.items():
                new[kk] = new.get(kk, 0) + c / 2
                k2 = tuple(sorted(set(kk) ^ {l}, key=C.enc))
                new[k2] = new.get(k2, 0) - c / 2
            terms = new
        for kk, c in terms.items():
            out[kk] = out.get(kk, 0) + c
    return [(k, c) for k, c in out.items() if c != 0]


def evs(items, z):
    return c02.ev(items, z)


def extrema_s(items):
    labs = sorted({i for k, _ in items for i in k}, key=C.enc)
    vals = [evs(items, dict(zip(labs, bits))) for bits in itertools.product((1, -1), repeat=len(labs))]
    return min(vals), max(vals)


def gen_call(rng, labs):
    if rng.random() < 0.45:
        P = b2s_poly(c02.special_poly(rng, labs))
    else:
        P = c02.random_poly(rng, labs)
    lo, hi = extrema_s(P)
    mode = rng.choice(["none", "none", "exact", "loose", "left", "right"])
    b = {"none": None, "exact": [lo, hi], "loose": [lo - rng.randint(0, 2), hi + rng.randint(0, 2)],
         "left": [lo - rng.randint(0, 1), None], "right": [None, hi + rng.randint(0, 1)]}[mode]
    lam = rng.choice([F(1), F(1), F(2), F(1, 2), F(7, 4)] + ([F(0)] if rng.random() < 0.12 else []))
    jb = None if b is None else [None if x is None else [F(x).numerator, F(x).denominator] for x in b]
    # unary slack needs one ancilla per unit of range: keep those cases small so the model stays cheap to evaluate
    # ... on spins it is dearer still (every squared boolean-form term is expanded again by pubo_to_puso): unary slack only
    # on short ranges and low degree
    log = True if (hi - lo > 4 or max((len(k) for k, _ in P), default=0) >= 3) else rng.random() < 0.5
    return {"rel": rng.choice(REL), "P": G.jraw(P), "lam": [lam.numerator, lam.denominator], "log": log, "bounds": jb}


def gen(rng, i, tier):
    uni = rng.choice(['int', 'pool'])
    labs = G.labels(rng, uni, rng.randint(2, 4))
    obj = c02.random_poly(rng, labs) if rng.random() < 0.3 else []
    calls = [gen_call(rng, labs) for _ in range(rng.choice([1, 1, 1, 2, 3]))]
    if len(calls) >= 2 and rng.random() < 0.35:
        calls[-1] = c02.later_unary_form(rng, labs, spin=True)
    elif rng.random() < 0.1:
        again = dict(rng.choice(calls))          # the same constraint once more, with another weight
        lam2 = rng.choice([F(1), F(2), F(1, 2)])
        again["lam"] = [lam2.numerator, lam2.denominator]
        calls.append(again)
    if len(labs) >= 3 and rng.random() < 0.08:
        # the spin image of c*x_a -+ c*x_b*x_c as an equality: the genuine z == x AND y form and its same-sign near miss
        a, b, d = rng.sample(labs, 3)
        s_ = rng.choice([1, -1, 2])
        P = b2s_poly([((a,), F(s_)), ((b, d), F(rng.choice([s_, s_, -s_])))])
        k = rng.choice([1, 1, 2, 4])                       # integer spin coefficients
        lam = rng.choice([F(1), F(2), F(1, 2)])
        calls[rng.randrange(len(calls))] = {"rel": "eq", "P": G.jraw([(kk, 4 * k * v) for kk, v in P]),
                                            "lam": [lam.numerator, lam.denominator], "log": True, "bounds": None}
    return {"obj": G.jraw(obj), "calls": calls, "touch": rng.choice([None, None, "refresh", "copy", "keep", "round"])}


def twin_ok(case):
    # also run under the second label decoding (common.twin_labels); Matrix kinds index by int
    return C.no_matrix(case)


def run_impl(case):
    import qubovert as qv
    H = qv.PCSO({k: C.num(v) for k, v in G.unjraw(case["obj"])})
    out = {"obs": [], "error": None, "checks": []}
    by = C.Bystanders()
    for j, c in enumerate(case["calls"]):
        # maintenance between two constraints: nothing the next call relies on may be lost (only when no variable is stale,
        # because refresh / copy legitimately forget stale variables and the model run does not perform them)
        if j and case.get("touch") and H.variables == {i for k in H for i in k}:
            if case["touch"] == "refresh":
                H.refresh()
            elif case["touch"] == "round":
                H = round(H, 12)             # exact on the coefficients generated; constraints and ancillas stay
            elif case["touch"] == "copy":
                by.add(H, "the model a copy was taken from (after %d constraints)" % j)
                H = H.copy()
            else:                            # "keep": the history goes on with H, a copy of this moment stays behind
                by.add(H.copy(), "a copy taken after %d constraints" % j)
        P = {k: C.numf(v, 'q') for k, v in G.unjraw(c["P"])}
        snapP = C.snapshot(P)
        lam = C.num(F(*c["lam"]))
        b = None if c["bounds"] is None else tuple(None if x is None else C.num(F(*x)) for x in c["bounds"])
        kw = {"lam": lam, "bounds": b}
        if c["rel"] != "eq":
            kw["log_trick"] = c["log"]
        before = dict(H)
        anc_before = H.num_ancillas
        with warnings.catch_warnings(record=True) as ws:
            warnings.simplefilter("always")
            try:
                getattr(H, "add_constraint_%s_zero" % c["rel"])(P, **kw)
            except (KeyError, ValueError, TypeError) as ex:
                out["error"] = type(ex).__name__
                break
        if C.snapshot(P) != snapP:
            raise C.PurityError("the constraint polynomial passed in was mutated")
        w = "none"
        for x in ws:
            if "cannot be satisfied" in str(x.message):
                w = "unsat"
            elif "always satisfied" in str(x.message):
                w = "always"
        out["obs"].append(c02.observe(H, w))
        out["checks"].extend(check(H, before, anc_before, c, w))
    out["checks"].extend(by.changed())
    return out


def check(H, before, anc_before, c, w):
    v = []
    lam = F(*c["lam"])
    anc_present = {int(str(i)[3:]) for k in H for i in k if str(i).startswith('__a')}
    if anc_present and max(anc_present) >= H.num_ancillas:
        v.append("num_ancillas = %d does not cover ancilla __a%d present in the model" % (H.num_ancillas, max(anc_present)))
    if lam <= 0:
        return v
    after = dict(H)
    Fd = {}
    for k in set(before) | set(after):
        d = C.toF(after.get(k, 0)) - C.toF(before.get(k, 0))
        if d != 0:
            Fd[k] = d
    P = [(tuple(k), val) for k, val in G.unjraw(c["P"])]
    pv = sorted({i for k, _ in P for i in k}, key=C.enc)
    fresh = ['__a%d' % i for i in range(anc_before, H.num_ancillas)]
    fv = {i for k in Fd for i in k}
    if not fv <= set(pv) | set(fresh):
        v.append("penalty mentions variables beyond H's spins and the fresh ancillas: %r" % sorted(map(str, fv - set(pv) - set(fresh))))
        return v
    if len(pv) + len(fresh) > 13:
        return v
    items = list(Fd.items())
    for zb in itertools.product((1, -1), repeat=len(pv)):
        z = dict(zip(pv, zb))
        hval = evs(P, z)
        best = None
        for ab in itertools.product((1, -1), repeat=len(fresh)):
            z.update(zip(fresh, ab))
            f = evs(items, z)
            if f < 0:
                v.append("penalty is negative (%s) at %s" % (f, dict(z)))
                return v
            best = f if best is None or f < best else best
        if w == "unsat":
            continue
        if HOLDS[c["rel"]](hval):
            if best != 0:
                v.append("H=%s satisfies %s but min over ancillas of the penalty is %s" % (hval, c["rel"], best))
                return v
        elif best < lam:
            v.append("H=%s violates %s but the penalty can be as low as %s < lam=%s" % (hval, c["rel"], best, lam))
            return v
    cons = H.constraints
    allv = sorted({i for r in cons for Pc in cons[r] for k in Pc for i in k}, key=C.enc)
    if len(allv) <= 9:
        for zb in itertools.product((1, -1), repeat=len(allv)):
            z = dict(zip(allv, zb))
            want = all(HOLDS[r](evs([(k, C.toF(val)) for k, val in Pc.items()], z)) for r in cons for Pc in cons[r])
            if H.is_solution_valid(z) != want:
                v.append("is_solution_valid(%s) = %s, recorded constraints say %s" % (z, H.is_solution_valid(z), want))
                break
    return v


literal = c02.literal
oracle = c02.oracle
nontrivial = c02.nontrivial
tags = c02.tags
