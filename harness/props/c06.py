"""C06 — logical constraint methods penalise exactly the violating assignments."""
import itertools, warnings
from fractions import Fraction as F
import common as C
import gens as G
from props import c07, c02

ID = "C06"
IMPORTS = ("From QV.Model Require Import Base Matrix Arith Expr Extrema Sat PCBO Logic.\n"
           "From QV.Corr Require Import C02 C06.")
CASE_TYPE = "(C06.cin * C06.cout)"
RUN, EQB = "C06.run_case", "C06.out_eqb"
N = {"quick": 400, "thorough": 4000}
RULE = ("1-2 logic constraint calls on one PCBO: all sixteen methods, arity from the documented minimum up to 5, operands = "
        "labels of mixed types, nested sat expressions and boolean-valued dicts, shared variables between operands and with "
        "the constrained variable, lam in {1, 2, 1/2, 7/4}; non-trivial = at least three distinct variables; distinct by JSON")
THEOREMS = ""
MODELLED = "operands are sat expression trees (Model/Sat.v); methods follow the source literally incl. nested PCBO() helpers"

GATES = c07.GATES
MINAR = {"AND": 2, "NAND": 2, "OR": 2, "NOR": 2, "XOR": 1, "XNOR": 1}


def gen_special_form(rng, labs):
    """eq_BUFFER / eq_NOT between a label and a product of two other labels: add_constraint_eq_zero then sees +-(z - x*y)
    (or 1 - z - x*y) and takes its shortcut through a helper PCBO, which has to carry lam along"""
    z, x, y = rng.sample(labs, 3)
    lx, ly, lz = ({"t": "lbl", "l": C.enc(v)} for v in (x, y, z))
    prod = rng.choice([{"t": "gate", "g": "AND", "args": [lx, ly]}, {"t": "dict", "terms": G.jraw([((x, y), F(1))])},
                       {"t": "gate", "g": "NAND", "args": [lx, ly]}])
    # either side may come negated (NOT z, NAND(x, y)): the difference is then -z + x*y, z - x*y or 1 - z - x*y, with either
    # term first
    ops = [lz if rng.random() < 0.6 else {"t": "gate", "g": "NOT", "args": [lz]}, prod]
    if rng.random() < 0.5:
        ops.reverse()
    lam = rng.choice([F(2), F(1, 2), F(7, 4), F(3)])
    return {"g": rng.choice(["BUFFER", "BUFFER", "NOT", "NOT", "XOR", "XNOR"]), "eq": True, "ops": ops,
            "lam": [lam.numerator, lam.denominator]}


def gen_call(rng, labs, uni):
    if len(labs) >= 3 and rng.random() < 0.1:
        return gen_special_form(rng, labs)
    g = rng.choice(GATES)
    is_eq = rng.random() < 0.55

    def operand(depth=1):
        if rng.random() < 0.65:
            return {"t": "lbl", "l": C.enc(rng.choice(labs))}
        return c07.gen_node(rng, depth, labs, uni)
    if g in ("BUFFER", "NOT"):
        ops = [operand(), operand()] if is_eq else [operand(2)]
    else:
        lo = MINAR[g] if is_eq else 1
        n = rng.randint(lo, 4)
        if is_eq and g in ("AND", "NAND", "OR", "NOR") and rng.random() < 0.1:
            n = 1          # below the documented minimum: ValueError
        ops = ([operand()] if is_eq else []) + [operand() for _ in range(n)]
    lam = rng.choice([F(1), F(1), F(2), F(1, 2), F(7, 4)])
    return {"g": g, "eq": is_eq, "ops": ops, "lam": [lam.numerator, lam.denominator]}


def gen(rng, i, tier):
    uni = rng.choice(['int', 'pool'])
    labs = G.labels(rng, uni, rng.randint(2, 5))
    calls = [gen_call(rng, labs, uni) for _ in range(rng.choice([1, 1, 2]))]
    if rng.random() < 0.15:
        # the same condition once more (another weight): the penalty is added again, whatever the model already records
        again = dict(rng.choice(calls))
        lam2 = rng.choice([F(1), F(3), F(1, 2)])
        again["lam"] = [lam2.numerator, lam2.denominator]
        calls.append(again)
    return {"obj": [], "calls": calls}


def pyop(n):
    leaves = []
    return c07.pyeval(n, leaves)


def holds(c, x):
    bs = [c07.truth(o, x) for o in c["ops"]]
    def gt(g, b):
        if g == "BUFFER":
            return b[0]
        if g == "NOT":
            return not b[0]
        if g in ("AND", "NAND"):
            r = all(b)
        elif g in ("OR", "NOR"):
            r = any(b)
        else:
            r = sum(b) % 2 == 1
        return (not r) if g in ("NAND", "NOR", "XNOR") else r
    if c["eq"]:
        return bs[0] == gt(c["g"], bs[1:])
    return gt(c["g"], bs)


def twin_ok(case):
    # also run under the second label decoding (common.twin_labels); Matrix kinds index by int
    return C.no_matrix(case)


def run_impl(case):
    import qubovert as qv
    H = qv.PCBO()
    out = {"obs": [], "error": None, "checks": []}
    by = C.Bystanders()
    for j, c in enumerate(case["calls"]):
        # a copy of the model as it is now stays behind (and, every other time, the history goes on with a copy instead)
        if j % 2 == 0:
            by.add(H.copy(), "a copy taken before call %d" % j)
        else:
            by.add(H, "the model a copy was taken from before call %d" % j)
            H = H.copy()
        try:
            ops = [pyop(o) for o in c["ops"]]
        except (KeyError, ValueError, TypeError) as ex:
            out["error"] = type(ex).__name__
            break
        lam = C.num(F(*c["lam"]))
        before = dict(H)
        name = "add_constraint_%s%s" % ("eq_" if c["eq"] else "", c["g"])
        with warnings.catch_warnings(record=True) as ws:
            warnings.simplefilter("always")
            try:
                getattr(H, name)(*ops, lam=lam)
            except (KeyError, ValueError, TypeError) as ex:
                out["error"] = type(ex).__name__
                break
        w = "none"
        for x in ws:
            if "cannot be satisfied" in str(x.message):
                w = "unsat"
            elif "always satisfied" in str(x.message):
                w = "always"
        out["obs"].append(c02.observe(H, w))
        # ---- the property, on the implementation ----
        after = dict(H)
        Fd = {}
        for k in set(before) | set(after):
            d = C.toF(after.get(k, 0)) - C.toF(before.get(k, 0))
            if d != 0:
                Fd[tuple(C.enc(i) for i in k)] = d
        labs = set()
        for o in c["ops"]:
            c07.labels_of(o, labs)
        labs = sorted(labs)
        fv = {i for k in Fd for i in k}
        if not fv <= set(labs):
            out["checks"].append("%s: penalty mentions %r beyond the operands' variables" % (name, sorted(fv - set(labs))))
        elif len(labs) <= 10:
            lamq = F(*c["lam"])
            for bits in itertools.product((0, 1), repeat=len(labs)):
                x = dict(zip(labs, bits))
                f = c02.ev(list(Fd.items()), x)
                ok = holds(c, x)
                if ok and f != 0:
                    out["checks"].append("%s holds at %s but the penalty is %s" % (name, x, f))
                    break
                if not ok and f < lamq:
                    out["checks"].append("%s fails at %s but the penalty is only %s < lam=%s" % (name, x, f, lamq))
                    break
                xx = {C.dec(l): b for l, b in x.items()}
                # is_solution_valid sees every recorded constraint; with one call it must equal `ok`
                if len(case["calls"]) == 1 and H.is_solution_valid(xx) != ok:
                    out["checks"].append("is_solution_valid(%s) = %s but %s is %s" % (xx, H.is_solution_valid(xx), name, ok))
                    break
        if H.num_ancillas != 0:
            out["checks"].append("%s used ancillas" % name)
    out["checks"].extend(by.changed())
    return out


def literal(case, out):
    calls = []
    for c in case["calls"]:
        calls.append("{| l_gate := %s; l_eq := %s; l_ops := [%s]; l_lam := %s |}" % (
            c07.GC[c["g"]], C.boolc(c["eq"]), "; ".join(c07.lit(o) for o in c["ops"]), C.q(F(*c["lam"]))))
    obs = []
    for o in out["obs"]:
        obs.append("{| o_tm := %s; o_anc := %d%%nat; o_cons := [%s]; o_warn := %s; o_vars := %s |}" % (
            c02.tl(o["tm"]), o["anc"], "; ".join("(%s, %s)" % (c02.RELC[r], c02.tl(P)) for r, P in o["cons"]),
            {"none": "WNone", "unsat": "WUnsat", "always": "WAlways"}[o["warn"]], C.natlist(o["vars"])))
    return "(([], [%s]), ([%s], %s))" % ("; ".join(calls), "; ".join(obs), "None" if out["error"] is None else "Some " + out["error"])


def oracle(case, out):
    return out["checks"][:3]


def nontrivial(case, out):
    labs = set()
    for c in case["calls"]:
        for o in c["ops"]:
            c07.labels_of(o, labs)
    return len(labs) >= 3


def tags(case, out):
    t = []
    for c in case["calls"]:
        t.append("method:%s%s:arity=%d" % ("eq_" if c["eq"] else "", c["g"], len(c["ops"])))
    if out["error"]:
        t.append("error:" + out["error"])
    for o in out["obs"]:
        t.append("warn:" + o["warn"])
    return t
