"""C07 — sat expression builders compute their truth functions."""
import itertools
from fractions import Fraction as F
import common as C
import gens as G
from props.c05 import KIND, QUAD, BOOL, cls_of

ID = "C07"
IMPORTS = "From QV.Model Require Import Base Matrix Arith Expr Sat.\nFrom QV.Corr Require Import C07."
CASE_TYPE = "(cin * cout)"
RUN, EQB = "run_case", "out_eqb"
N = {"quick": 500, "thorough": 5000}
RULE = ("random expression trees over BUFFER NOT AND NAND OR NOR XOR XNOR (arity 1-5, depth <= 4) whose leaves are labels of "
        "mixed types, boolean-valued plain dicts and boolean model objects of all five boolean kinds (shared variables between "
        "operands); non-trivial = depth >= 2 with at least two distinct variables; distinct by canonical JSON")
THEOREMS = "C07_truth C07_denote"
MODELLED = "the builders are modelled as expression trees over the C05 operators (Model/Sat.v)"

GATES = ["BUFFER", "NOT", "AND", "NAND", "OR", "NOR", "XOR", "XNOR"]
GC = {"BUFFER": "GBuffer", "NOT": "GNot", "AND": "GAnd", "NAND": "GNand", "OR": "GOr", "NOR": "GNor", "XOR": "GXor", "XNOR": "GXnor"}
# boolean-valued polynomials to use as dict / model leaves (as functions of labels a, b)
BV = [lambda a, b: [((a,), 1)],
      lambda a, b: [((a, b), 1)],
      lambda a, b: [((), 1), ((a,), -1)],
      lambda a, b: [((a,), 1), ((b,), 1), ((a, b), -1)],
      lambda a, b: [((a,), 1), ((b,), 1), ((a, b), -2)],
      lambda a, b: [((), 1)],
      lambda a, b: [],
      # the same function spelled with keys that only agree after squashing (a model adds them up)
      lambda a, b: [((a, b), 2), ((b, a), -1)],
      lambda a, b: [((a, a), 1), ((b, b), 1), ((a, b), -1), ((b, a), -1)]]


def gen_node(rng, depth, labs, uni, force_gate=False):
    r = rng.random()
    if not force_gate and (depth == 0 or r < 0.3):
        rr = rng.random()
        if rr < 0.6:
            return {"t": "lbl", "l": C.enc(rng.choice(labs))}
        if len(labs) >= 2:
            a, b = rng.sample(labs, 2)
            t = [(k, F(v)) for k, v in rng.choice(BV)(a, b)]
        else:
            t = [(k, F(v)) for k, v in rng.choice([BV[0], BV[2], BV[5], BV[6]])(labs[0], labs[0])]
        if rr < 0.8:
            return {"t": "dict", "terms": G.jraw(t)}
        kinds = [k for k in BOOL if not (uni == 'pool' and k.endswith("Matrix"))]
        return {"t": "mdl", "kind": rng.choice(kinds), "terms": G.jraw(t)}
    g = rng.choice(GATES)
    n = 1 if g in ("BUFFER", "NOT") else rng.choice([1, 2, 2, 3, 3, 4, 5]) if depth <= 2 else rng.choice([1, 2, 2, 3])
    return {"t": "gate", "g": g, "args": [gen_node(rng, depth - 1, labs, uni) for _ in range(n)]}


def gen_wide(rng, tier):
    """one expression per run whose intermediate polynomials have several hundred terms: a parity over ten labels, or a XOR
    of a wide OR with a product.  The model needs about five minutes for such a polynomial (unary label codes), so in the
    quick tier the case is judged by the truth-table oracle alone and only the thorough tier sends it to the model"""
    labs = rng.sample(range(12), 10)
    L = lambda l: {"t": "lbl", "l": C.enc(l)}
    if rng.random() < 0.6:
        tree = {"t": "gate", "g": rng.choice(["XOR", "XNOR"]), "args": [L(l) for l in labs]}
    else:
        tree = {"t": "gate", "g": "XOR", "args": [{"t": "gate", "g": "OR", "args": [L(l) for l in labs[:9]]},
                                                   {"t": "gate", "g": "AND", "args": [{"t": "gate", "g": "NOT", "args": [L(labs[0])]}, L(labs[9])]}]}
    return {"tree": tree, "wide": True, "nocoq": tier == "quick"}


def gen(rng, i, tier):
    if i == 23:
        return gen_wide(rng, tier)
    uni = rng.choice(['int', 'pool'])
    labs = G.labels(rng, uni, rng.randint(1, 5))
    d = rng.randint(1, 3 if tier == "quick" else 4)
    return {"tree": gen_node(rng, d, labs, uni, force_gate=True)}


def pyeval(n, leaves):
    import qubovert as qv
    t = n["t"]
    if t == "lbl":
        return C.dec(n["l"])
    if t == "dict":
        o = {k: C.num(v) for k, v in G.unjraw(n["terms"])}
        leaves.append((o, C.snapshot(o)))
        return o
    if t == "mdl":
        o = cls_of(n["kind"])({k: C.num(v) for k, v in G.unjraw(n["terms"])})
        leaves.append((o, C.snapshot(o)))
        return o
    args = [pyeval(a, leaves) for a in n["args"]]
    return getattr(qv.sat, n["g"])(*args)


def twin_ok(case):
    # also run under the second label decoding (common.twin_labels); Matrix kinds index by int
    return C.no_matrix(case) and not case.get("wide")


def run_impl(case):
    leaves = []
    try:
        r = pyeval(case["tree"], leaves)
    except (KeyError, ValueError, TypeError) as ex:
        return {"error": type(ex).__name__}
    for o, snap in leaves:
        if C.snapshot(o) != snap:
            raise C.PurityError("an operand of a sat builder changed")
    out = {"kind": type(r).__name__, "terms": C.jterms(C.enc_terms(r))}
    # what a builder returns belongs to the caller: one-operand gates on the tree's labels are built, their results changed in
    # place (as in  total = OR('a'); total += ...), and the tree is built again -- it must come out the same
    import qubovert as qv
    labs = set()
    labels_of(case["tree"], labs)
    for l in sorted(labs):
        for g in ("BUFFER", "OR", "AND", "XOR"):
            try:
                x = getattr(qv.sat, g)(C.dec(l))
                x += 5
            except (KeyError, ValueError, TypeError):
                pass
    r2 = pyeval(case["tree"], [])
    if type(r2) is not type(r) or dict(r2) != dict(r):
        out["again"] = "after the results of one-operand gates on the same labels were changed in place, the same expression gives %r instead of %r" % (dict(r2), dict(r))
    return out


def lit(n):
    t = n["t"]
    tl = lambda j: C.termsl([(k, F(v[0], v[1])) for k, v in j])
    if t == "lbl":
        return "(SLbl %d%%nat)" % n["l"]
    if t == "dict":
        return "(SDict %s)" % tl(n["terms"])
    if t == "mdl":
        return "(SMdl %s %s)" % (KIND[n["kind"]], tl(n["terms"]))
    return "(SGate %s [%s])" % (GC[n["g"]], "; ".join(lit(a) for a in n["args"]))


def literal(case, out):
    if case.get("nocoq"):
        return None
    if "error" in out:
        exp = "OErr %s" % out["error"]
    else:
        exp = "OModelOut %s %s" % (KIND[out["kind"]], C.termsl([(k, F(v[0], v[1])) for k, v in out["terms"]]))
    return "(%s, %s)" % (lit(case["tree"]), exp)


def truth(n, x):
    t = n["t"]
    if t == "lbl":
        return bool(x[n["l"]])
    if t in ("dict", "mdl"):
        tot = F(0)
        for k, v in n["terms"]:
            p = 1
            for i in k:
                p *= x[i]
            tot += F(v[0], v[1]) * p
        assert tot in (0, 1)
        return bool(tot)
    bs = [truth(a, x) for a in n["args"]]
    g = n["g"]
    if g == "BUFFER":
        return bs[0]
    if g == "NOT":
        return not bs[0]
    if g in ("AND", "NAND"):
        r = all(bs)
    elif g in ("OR", "NOR"):
        r = any(bs)
    else:
        r = sum(bs) % 2 == 1
    return (not r) if g in ("NAND", "NOR", "XNOR") else r


def labels_of(n, acc):
    if n["t"] == "lbl":
        acc.add(n["l"])
    elif n["t"] in ("dict", "mdl"):
        for k, _ in n["terms"]:
            acc.update(k)
    else:
        for a in n["args"]:
            labels_of(a, acc)
    return acc


def has_quad(n):
    if n["t"] == "mdl":
        return n["kind"] in QUAD
    return n["t"] == "gate" and any(has_quad(a) for a in n["args"])


def depth(n):
    return 0 if n["t"] != "gate" else 1 + max(depth(a) for a in n["args"])


def oracle(case, out):
    v = []
    tree = case["tree"]
    if "error" in out:
        if not has_quad(tree):
            v.append("sat expression raised %s" % out["error"])
        return v
    if out.get("again"):
        v.append(out["again"])
    labs = sorted(labels_of(tree, set()))
    if len(labs) > (10 if case.get("wide") else 8):
        return v
    for bits in itertools.product((0, 1), repeat=len(labs)):
        x = dict(zip(labs, bits))
        tot = F(0)
        for k, c in out["terms"]:
            p = 1
            for i in k:
                p *= x[i]
            tot += F(c[0], c[1]) * p
        want = 1 if truth(tree, x) else 0
        if tot != want:
            v.append("expression is %s at %s but the built model evaluates to %s" % (bool(want), x, tot))
            break
    return v


def nontrivial(case, out):
    return depth(case["tree"]) >= 2 and len(labels_of(case["tree"], set())) >= 2


def tags(case, out):
    t = ["root:" + case["tree"]["g"], "depth:%d" % depth(case["tree"]), "result:" + (out.get("error") or out["kind"])]
    if case.get("wide"):
        t.append("ten-variables-several-hundred-terms:" + ("oracle-only" if case.get("nocoq") else "with-model"))
    return t
