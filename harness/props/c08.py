"""C08 — constrained optimum survives penalisation, reduction and solution conversion."""
import itertools, warnings
from fractions import Fraction as F
import common as C
import gens as G
from props import c02, c03, c06, c07

ID = "C08"
IMPORTS = ("From QV.Model Require Import Base Matrix Arith Expr Extrema Sat PCBO Logic Convert PCSO Reduce Bruteforce.\n"
           "From QV.Corr Require C02 C06.\nFrom QV.Corr Require Import C08.\nImport C02. Import C06.")
CASE_TYPE = "(C08.cin * C08.cout)"
RUN, EQB = "C08.run_case", "C08.out_eqb"
CHUNK = 10
N = {"quick": 150, "thorough": 1500}
RULE = ("README-style workflows: a random integer objective on 2-4 variables plus 1-2 feasible integer constraints (comparison "
        "constraints with log_trick both ways, logic constraints) with weight max f - min f + 1, on PCBO and PCSO; "
        "solve_bruteforce on the constrained model; each of to_pubo(2..3) / to_qubo / to_quso / to_puso(2..3) solved by brute "
        "force with all_solutions and mapped back through convert_solution and remove_ancilla_from_solution; non-trivial = the "
        "constraints exclude at least one assignment and at least one ancilla is used; distinct by canonical JSON")
THEOREMS = "C08_abstract C08_one_constraint C08_sequence C08_sequence_spin C08_reduced C08_sequence_reduced C08_sequence_mixed C08_sequence_mixed_reduced"
MODELLED = "as C01/C02/C03/C06/C09; sizes are kept at <= 10 variables including ancillas so that the model side stays cheap"

HOLDS = c02.HOLDS
BY = [None]


def ev(items, x):
    tot = F(0)
    for k, v in items:
        p = 1
        for i in k:
            p *= x[i]
        tot += v * p
    return tot


def feasible_x(calls, x, spin):
    # a label that occurs only in constraints that added nothing (always satisfied) is not a variable of the model;
    # such a constraint holds whatever value the label takes, so any default will do
    alll = {l for c in calls if c["t"] == "cmp" for k, _ in G.unjraw(c["c"]["P"]) for l in k}
    alll |= {C.dec(o["l"]) for c in calls if c["t"] != "cmp" for o in c["c"]["ops"] if o["t"] == "lbl"}
    x = dict(x)
    for l in alll:
        x.setdefault(l, 1 if spin else 0)
    for c in calls:
        if c["t"] == "cmp":
            P = [(k, v) for k, v in G.unjraw(c["c"]["P"])]
            if not HOLDS[c["c"]["rel"]](ev(P, x)):
                return False
        else:
            xe = {C.enc(l): v for l, v in x.items()}
            if not c06.holds(c["c"], xe):
                return False
    return True


def weakest_infeasible(spin, labs, calls, infeas, dom):
    """directed search: the infeasible assignment that the implementation's own penalties (unit weight, best ancilla values)
    punish least -- if a penalty is too small anywhere, an objective that favours that assignment exposes it"""
    try:
        H = build({"spin": spin, "obj": [], "calls": [dict(c, c=dict(c["c"], lam=[1, 1])) for c in calls]})
        anc = [v for v in H.variables if v not in labs]
        if len(anc) > 7:
            return None
        best, bestv = None, None
        for b in infeas:
            x = dict(zip(labs, b))
            m = min(H.value(dict(x, **dict(zip(anc, a)))) for a in itertools.product(dom, repeat=len(anc)))
            if bestv is None or m < bestv:
                best, bestv = b, m
        return best
    except Exception:
        return None


def gen(rng, i, tier):
    for _ in range(200):
        spin = rng.random() < 0.4
        uni = rng.choice(['int', 'pool'])
        labs = G.labels(rng, uni, rng.randint(2, 4))
        dom = (1, -1) if spin else (0, 1)
        calls = []
        ncalls = rng.choice([1, 1, 2, 2])
        for _k in range(ncalls):
            if not spin and rng.random() < 0.35:
                c = c06.gen_call(rng, labs, uni)
                c["ops"] = [o if o["t"] == "lbl" else {"t": "lbl", "l": C.enc(rng.choice(labs))} for o in c["ops"]]
                calls.append({"t": "logic", "c": c})
            else:
                c = (c03 if spin else c02).gen_call(rng, labs)
                c["bounds"] = None
                if not spin and len(labs) >= 3 and rng.random() < 0.07:
                    # near miss of the z == x*y shortcut: c*z + c*x*y == 0 means z = 0 and x*y = 0
                    a, b, d = rng.sample(labs, 3)
                    s_ = rng.choice([1, 1, -1, 2])
                    c.update({"rel": "eq", "P": G.jraw(rng.sample([((a,), F(s_)), ((b, d), F(s_))], 2))})
                if ncalls == 2 and _k == 0 and rng.random() < 0.25:
                    c["rel"] = "ne"       # != creates its own kind of ancillas; the next constraint must get fresh names
                calls.append({"t": "cmp", "c": c})
        # integer-valued constraint polynomials, at least one feasible and one infeasible assignment
        okp = True
        for c in calls:
            if c["t"] == "cmp":
                P = G.unjraw(c["c"]["P"])
                if any(ev(P, dict(zip(labs, b))).denominator != 1 for b in itertools.product(dom, repeat=len(labs))):
                    okp = False
            elif any(o["t"] != "lbl" for o in c["c"]["ops"]) or (c["c"]["eq"] and c["c"]["g"] in ("AND", "NAND", "OR", "NOR") and len(c["c"]["ops"]) < 3):
                okp = False
        if not okp:
            continue
        allb = list(itertools.product(dom, repeat=len(labs)))
        feas = [b for b in allb if feasible_x(calls, dict(zip(labs, b)), spin)]
        if not feas or len(feas) == len(dom) ** len(labs):
            continue
        # the objective: random, or (adversarial) one whose unconstrained optimum is a chosen infeasible assignment, so that
        # a penalty that is too small at that assignment shows up as an infeasible minimiser
        obj = []
        if rng.random() < 0.45:
            infeas = [b for b in allb if b not in feas]
            bad = rng.choice(infeas)
            if rng.random() < 0.6:
                bad = weakest_infeasible(spin, labs, calls, infeas, dom) or bad
            for l, v in zip(labs, bad):
                m = rng.choice([1, 2, 3])
                obj.append(((l,), F(-m * v) if spin else F(-m if v == 1 else m)))
            if len(labs) >= 2 and rng.random() < 0.3:
                obj.append((tuple(rng.sample(labs, 2)), F(rng.choice([-1, 1]))))
        else:
            for _k in range(rng.randint(1, 3)):
                k = tuple(rng.sample(labs, min(rng.choice([1, 1, 2]), len(labs))))
                obj.append((k, F(rng.randint(-3, 3) or 1)))
        seen, o2 = set(), []
        for k, v in obj:
            ks = tuple(sorted(k, key=C.enc))
            if ks not in seen:
                seen.add(ks)
                o2.append((k, v))
        obj = o2
        fvals = [ev(obj, dict(zip(labs, b))) for b in allb]
        W = max(fvals) - min(fvals) + 1
        for c in calls:
            c["c"]["lam"] = [W.numerator, W.denominator]
        target = rng.randrange(4)
        deg = rng.choice([2, 2, 3]) if target in (0, 3) else None
        warm = None
        if obj and rng.random() < 0.3:
            k, v = rng.choice(obj)
            d = rng.choice([x for x in (F(1), F(-1), F(2), F(-3)) if x != v])      # the starting coefficient v - d is not zero
            warm = [[C.enc(x) for x in k], [d.numerator, d.denominator]]
        sym = (1 if rng.random() < 0.6 else rng.randint(1, len(calls))) if rng.random() < 0.4 else 0
        return {"spin": spin, "obj": G.jraw(obj), "calls": calls, "target": target, "deg": deg, "labs": [C.enc(l) for l in labs],
                "sym": sym, "warm": warm}
    raise RuntimeError("no feasible workflow generated")


def build(case):
    import qubovert as qv
    H = (qv.PCSO if case["spin"] else qv.PCBO)({k: C.num(v) for k, v in G.unjraw(case["obj"])})
    nsym = case.get("sym", 0)       # the README's way: the first nsym constraints get a symbol as weight, the value comes later
    if nsym:
        import sympy
        sym = sympy.Symbol("lam")
    by = BY[0] = C.Bystanders()
    warm = case.get("warm")          # [objective key, delta]: that coefficient starts delta short and is corrected at the end
    if warm:
        H[tuple(C.dec(x) for x in warm[0])] -= C.num(F(*warm[1]))
    with warnings.catch_warnings():
        warnings.simplefilter("ignore")
        for j, c in enumerate(case["calls"]):
            cc = c["c"]
            lam = C.num(F(*cc["lam"]))
            if j and not nsym:
                if j % 2:
                    by.add(H.copy(), "a copy taken after %d constraints" % j)
                else:
                    by.add(H, "the model a copy was taken from (after %d constraints)" % j)
                    H = H.copy()
            if nsym and j == nsym:
                H = H.subs({sym: lam})
            if j < nsym:
                lam = sym
            if c["t"] == "cmp":
                P = {k: C.num(v) for k, v in G.unjraw(cc["P"])}
                kw = {"lam": lam}
                if cc["rel"] != "eq":
                    kw["log_trick"] = cc["log"]
                getattr(H, "add_constraint_%s_zero" % cc["rel"])(P, **kw)
            else:
                ops = [c06.pyop(o) for o in cc["ops"]]
                getattr(H, "add_constraint_%s%s" % ("eq_" if cc["eq"] else "", cc["g"]))(*ops, lam=lam)
        if nsym and nsym >= len(case["calls"]):
            H = H.subs({sym: C.num(F(*case["calls"][0]["c"]["lam"]))})
    if warm:
        # every conversion once on the model as it is, then the coefficient is put right (same terms, variables and degree):
        # nothing a conversion may have remembered can be taken for the final model
        for meth, a in (("to_qubo", ()), ("to_quso", ()), ("to_pubo", (case["deg"],)), ("to_puso", (case["deg"],))):
            try:
                getattr(H, meth)(*a)
            except (KeyError, ValueError, TypeError):
                pass
        H[tuple(C.dec(x) for x in warm[0])] += C.num(F(*warm[1]))
    return H


def soljson(d):
    return sorted([[C.enc(k), [C.toF(v).numerator, C.toF(v).denominator]] for k, v in d.items()])


def twin_ok(case):
    # also run under the second label decoding (common.twin_labels); Matrix kinds index by int
    return C.no_matrix(case)


def run_impl(case):
    import qubovert as qv
    out = {"checks": []}
    try:
        H = build(case)
    except (KeyError, ValueError, TypeError) as ex:
        return {"error": type(ex).__name__, "checks": []}
    out["checks"].extend(BY[0].changed())
    if H.num_binary_variables > 10:
        return {"skip": True, "checks": out["checks"]}
    spin = case["spin"]
    labs = [l for l in (C.dec(x) for x in case["labs"]) if l in H.variables]      # the ones that actually occur
    dom = (1, -1) if spin else (0, 1)
    objf = [(k, C.toF(v)) for k, v in G.unjraw(case["obj"])]
    feas = [dict(zip(labs, b)) for b in itertools.product(dom, repeat=len(labs)) if feasible_x(case["calls"], dict(zip(labs, b)), spin)]
    opt = min(ev(objf, x) for x in feas)

    def good(x, what):
        xx = {l: x[l] for l in labs if l in x}
        if set(xx) != set(labs):
            out["checks"].append("%s: assignment %r does not cover the variables" % (what, x))
        elif not feasible_x(case["calls"], xx, spin):
            out["checks"].append("%s: %r violates a constraint" % (what, xx))
        elif ev(objf, xx) != opt:
            out["checks"].append("%s: %r has objective %s, constrained optimum is %s" % (what, xx, ev(objf, xx), opt))
    # (a) the model's own brute force
    snap = C.snapshot_unordered(H)
    try:
        sols = H.solve_bruteforce(all_solutions=True)
        one = H.solve_bruteforce()
    except KeyError as ex:
        # the solver enumerates the model's variables and asks is_solution_valid, which evaluates every recorded constraint
        clabs = {l for lst in H.constraints.values() for P in lst for k in P for l in k}
        missing = sorted((l for l in clabs if l not in H.variables), key=C.enc)
        if missing:
            out["checks"].append("solve_bruteforce() raised KeyError(%s): a recorded constraint mentions label(s) %r that are not "
                                 "variables of the model (none of the terms the constraint added mentions them)" % (ex, missing))
            out["skip"] = True
            return out
        raise
    if C.snapshot_unordered(H) != snap:
        raise C.PurityError("solve_bruteforce mutated the model")
    out["obj"] = None
    if sols and sols != [{}]:
        out["obj"] = str(C.toF(H.value(sols[0])))
    out["sols"] = [soljson(s) for s in sols if s]
    good(H.remove_ancilla_from_solution(one), "solve_bruteforce()")
    for s in sols[:8]:
        r = H.remove_ancilla_from_solution(s)
        if any(str(k).startswith('__a') for k in r) or {k: v for k, v in s.items() if not str(k).startswith('__a')} != r:
            out["checks"].append("remove_ancilla_from_solution(%r) = %r" % (s, r))
    # the same on a synthetic solution with many ancillas (names with two and three digits): exactly the other entries remain
    user = {l: (1 if not spin else -1) for l in labs}
    many = dict(user)
    many.update({'__a%d' % i: (0 if not spin else 1) for i in (0, 3, 9, 10, 11, 25, 100, 123)})
    r = H.remove_ancilla_from_solution(many)
    if r != user:
        out["checks"].append("remove_ancilla_from_solution(%r) = %r, the non-ancilla part is %r" % (many, r, user))
    # (b) every minimiser of the unconstrained model itself
    usols = (qv.utils.solve_puso_bruteforce if spin else qv.utils.solve_pubo_bruteforce)(H, all_solutions=True)[1]
    for s in usols[:16]:
        good(H.remove_ancilla_from_solution(s), "minimiser of the penalised model")
    # (c) the target form
    t = case["target"]
    meth = ["to_pubo", "to_qubo", "to_quso", "to_puso"][t]
    D = getattr(H, meth)(case["deg"]) if t in (0, 3) else getattr(H, meth)()
    nD = len({i for k in D for i in k})
    if nD > 12:
        return {"skip": True, "checks": out["checks"]}
    solver = [qv.utils.solve_pubo_bruteforce, qv.utils.solve_qubo_bruteforce, qv.utils.solve_quso_bruteforce, qv.utils.solve_puso_bruteforce][t]
    dmin, dsols = solver(D, all_solutions=True)
    out["dmin"] = None if dmin is None else str(C.toF(dmin))
    conv = []
    try:
        for s in dsols:
            cs = H.convert_solution(s, spin=(t in (2, 3)))
            r = H.remove_ancilla_from_solution(cs)
            conv.append(soljson(r))
            good(r, "%s minimiser after convert_solution" % meth)
    except KeyError:
        out["error"] = "KeyError"
    out["conv"] = conv
    if dmin is not None and C.toF(dmin) != opt:
        out["checks"].append("minimum of %s is %s, constrained optimum is %s" % (meth, dmin, opt))
    return out


def literal(case, out):
    if out.get("skip"):
        return None
    tl = lambda j: C.termsl([(k, F(v[0], v[1])) for k, v in j])
    calls = []
    for c in case["calls"]:
        cc = c["c"]
        if c["t"] == "cmp":
            calls.append("WCmp {| c_rel := %s; c_P := %s; c_lam := %s; c_log := %s; c_bounds := (None, None) |}" % (
                c02.RELC[cc["rel"]], tl(cc["P"]), C.q(F(*cc["lam"])), C.boolc(cc["log"])))
        else:
            calls.append("WLogic {| l_gate := %s; l_eq := %s; l_ops := [%s]; l_lam := %s |}" % (
                c07.GC[cc["g"]], C.boolc(cc["eq"]), "; ".join(c07.lit(o) for o in cc["ops"]), C.q(F(*cc["lam"]))))
    cin = "{| w_spin := %s; w_obj := %s; w_calls := [%s]; w_target := %d%%nat; w_deg := %s |}" % (
        C.boolc(case["spin"]), tl(case["obj"]), "; ".join(calls), case["target"], C.optc(case["deg"], C.nat))
    sl = lambda s: "[%s]" % "; ".join("(%d%%nat, %s)" % (l, C.q(F(*v))) for l, v in s)
    oq = lambda x: "None" if x is None else "(Some %s)" % C.q(F(x))
    if "error" in out and "obj" not in out:
        cout = "{| C08.o_err := Some %s; o_obj := None; o_sols := []; o_dmin := None; o_conv := [] |}" % out["error"]
    else:
        cout = "{| C08.o_err := %s; o_obj := %s; o_sols := [%s]; o_dmin := %s; o_conv := [%s] |}" % (
            "Some " + out["error"] if "error" in out else "None", oq(out["obj"]), "; ".join(sl(s) for s in out["sols"]),
            oq(out.get("dmin")), "; ".join(sl(s) for s in out.get("conv", [])))
    return "(%s, %s)" % (cin, cout)


def oracle(case, out):
    return out["checks"][:3]


_SEARCH_USED = [0.0]      # seconds spent searching in this run: all calls together stay below 150 s


def search(case, out, rng):
    """a workflow on which model and implementation disagree although its own optimum came out right: look nearby for a
    workflow whose optimum comes out wrong -- the same constraints (kept in place, so whatever they did to the bookkeeping
    happens again), possibly one more comparison constraint after them, and other objectives, each with its own weight"""
    import copy, time
    spin = case["spin"]
    labs = [C.dec(x) for x in case["labs"]]
    dom = (1, -1) if spin else (0, 1)
    allb = list(itertools.product(dom, repeat=len(labs)))
    t0 = time.time()
    limit = min(90.0, 150.0 - _SEARCH_USED[0])
    if limit <= 1:
        return None
    try:
        return _search(case, rng, t0, limit)
    finally:
        _SEARCH_USED[0] += time.time() - t0


def _search(case, rng, t0, limit):
    import copy, time
    spin = case["spin"]
    labs = [C.dec(x) for x in case["labs"]]
    dom = (1, -1) if spin else (0, 1)
    allb = list(itertools.product(dom, repeat=len(labs)))
    for _j in range(400):
        if time.time() - t0 > limit * 0.3:
            break
        c2 = copy.deepcopy(case)
        calls = c2["calls"]
        if len(calls) < 3 and rng.random() < 0.6:
            c = (c03 if spin else c02).gen_call(rng, labs)
            c["bounds"] = None
            if rng.random() < 0.5:
                c["log"] = rng.choice([x["c"].get("log") for x in calls if x["t"] == "cmp"] or [c.get("log")])
            P = G.unjraw(c["P"])
            if any(ev(P, dict(zip(labs, b))).denominator != 1 for b in allb):
                continue
            calls.append({"t": "cmp", "c": c})
        feas = [b for b in allb if feasible_x(calls, dict(zip(labs, b)), spin)]
        if not feas or len(feas) == len(allb):
            continue
        obj = [((l,), F(rng.randint(-3, 3))) for l in labs]
        if len(labs) >= 2 and rng.random() < 0.4:
            obj.append((tuple(rng.sample(labs, 2)), F(rng.choice([-2, -1, 1, 2]))))
        obj = [(k, v) for k, v in obj if v != 0]
        if not obj:
            continue
        fvals = [ev(obj, dict(zip(labs, b))) for b in allb]
        W = max(fvals) - min(fvals) + 1
        for c in calls:
            c["c"]["lam"] = [W.numerator, W.denominator]
        c2.update({"obj": G.jraw(obj), "warm": None, "sym": 0})
        try:
            o2 = run_impl(c2)
        except Exception:
            continue
        w = oracle(c2, o2)
        if w and finding_key(c2, w) is None:        # (a listed finding met on the way is not what is being looked for)
            return c2, o2, w
    # second phase: fresh workflows of two constraints whose comparison constraints use the slack encodings (log_trick
    # on / off, in order) of the workflow that disagreed
    logs = [x["c"].get("log") for x in case["calls"] if x["t"] == "cmp"]
    j = 0
    while time.time() - t0 < limit and j < 4000:
        j += 1
        if j % 2:
            # the same comparison constraint on two disjoint blocks of variables, each block with its own objective: the
            # two slacks have to be able to take different values
            nb = rng.choice([2, 3, 3])
            A, B = list(range(1, nb + 1)), list(range(11, nb + 11))
            c = (c03 if spin else c02).gen_call(rng, A)
            c["bounds"] = None
            if logs:
                c["log"] = logs[0]
            if any(ev(G.unjraw(c["P"]), dict(zip(A, b))).denominator != 1 for b in itertools.product(dom, repeat=nb)):
                continue
            cB = copy.deepcopy(c)
            cB["P"] = [[[x + 10 for x in k], v] for k, v in c["P"]]
            calls = [{"t": "cmp", "c": c}, {"t": "cmp", "c": cB}]
            L = A + B
            allL = list(itertools.product(dom, repeat=len(L)))
            feas = [b for b in allL if feasible_x(calls, dict(zip(L, b)), spin)]
            if not feas or len(feas) == len(allL):
                continue
            obj = [((l,), F(rng.randint(-3, 3))) for l in L]
            obj = [(k, v) for k, v in obj if v != 0]
            if not obj:
                continue
            fvals = [ev(obj, dict(zip(L, b))) for b in allL]
            W = max(fvals) - min(fvals) + 1
            for x in calls:
                x["c"]["lam"] = [W.numerator, W.denominator]
            c2 = {"spin": spin, "obj": G.jraw(obj), "calls": calls, "target": case["target"], "deg": case["deg"],
                  "labs": [C.enc(l) for l in L], "sym": 0, "warm": None}
        else:
            c2 = gen(rng, j, "quick")
            if len(c2["calls"]) < 2:
                continue
            if logs:
                for idx, x in enumerate(c2["calls"]):
                    if x["t"] == "cmp":
                        x["c"]["log"] = logs[idx % len(logs)]
            c2["sym"] = 0
        try:
            o2 = run_impl(c2)
        except Exception:
            continue
        w = oracle(c2, o2)
        if w and finding_key(c2, w) is None:        # (a listed finding met on the way is not what is being looked for)
            return c2, o2, w
    return None


def finding_key(case, what):
    """groups the failing inputs of one known finding (see known_findings.txt)"""
    if what and any("raised KeyError" in w and "that are not variables of the model" in w for w in what):
        return "bruteforce-keyerror-constraint-label-not-a-variable"
    return None


def nontrivial(case, out):
    return not out.get("skip") and any(any(l >= 100 for l, _ in s) for s in out.get("sols", []))


def tags(case, out):
    t = ["family:" + ("PCSO" if case["spin"] else "PCBO"), "target:%d" % case["target"]]
    for c in case["calls"]:
        t.append("constraint:" + (c["c"]["rel"] if c["t"] == "cmp" else ("eq_" if c["c"]["eq"] else "") + c["c"]["g"]))
    if case.get("sym"):
        t.append("weight-symbolic-then-subs:%s" % ("all" if case["sym"] >= len(case["calls"]) else "first-then-numeric"))
    if out.get("skip"):
        t.append("skipped:too-large")
    if "error" in out:
        t.append("error:" + out["error"])
    return t
