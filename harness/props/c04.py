"""C04 — boolean/spin conversions, enumerations and exports preserve the function."""
import itertools
from fractions import Fraction as F
import common as C
import gens as G
from props.c05 import KIND, QUAD, BOOL, SPIN, cls_of

ID = "C04"
IMPORTS = "From QV.Model Require Import Base Matrix Arith Convert Reduce.\nFrom QV.Proofs Require Import InvProofs.\nFrom QV.Corr Require Import C04."
CASE_TYPE = "(cin * cout)"
RUN, EQB = "run_case", "out_eqb"
N = {"quick": 800, "thorough": 10000}
RULE = ("random raw dicts (unsorted / repeated labels, mixed label types) and model objects of all ten kinds through the "
        "four converters, the to_* methods of QUBO/QUSO and of PUBO/PUSO/PCBO/PCSO objects of degree <= 2, convert_solution with dict/list/tuple solutions in boolean and "
        "spin form (all-ones included), and the exports Q, h, J, qubo_to_matrix, matrix_to_qubo; non-trivial = at least one "
        "key with two or more labels; distinct by canonical JSON")
THEOREMS = ("C04_pubo_to_puso C04_puso_to_pubo C04_qubo_to_quso C04_quso_to_qubo C04_closed_form_agrees C04_correspondence "
            "C04_relabel C04_enumerated C04_renumbered C04_convert_solution C04_Q C04_hJ C04_matrix")
MODELLED = ("numpy arrays of qubo_to_matrix / matrix_to_qubo enter and leave as exact entry lists; the to_* methods of "
            "PUBO/PUSO/PCBO/PCSO (which go through degree reduction) are covered by C01's correspondence")

FN = ["pubo_to_puso", "puso_to_pubo", "qubo_to_quso", "quso_to_qubo"]
METH = ["to_qubo", "to_quso", "to_pubo", "to_puso"]


def gen(rng, i, tier):
    G.DYADIC_ONLY = True      # the converters multiply by float factors (1/2, 1/4): exact on dyadic coefficients only
    try:
        return gen_(rng, i, tier)
    finally:
        G.DYADIC_ONLY = False


def gen_(rng, i, tier):
    r = rng.random()
    if r < 0.38:
        fn = rng.randrange(4)
        spin_in = fn in (1, 3)
        quad = fn in (2, 3)
        fam = SPIN if spin_in else BOOL
        # each function on its documented inputs: a dict or a model of its own family (quadratic functions: quadratic kinds)
        src = None if rng.random() < 0.5 else rng.choice([k for k in fam if (not quad) or k in QUAD])
        uni = 'int' if (src and src.endswith("Matrix")) else rng.choice(['int', 'pool'])
        if quad or (src in QUAD):
            t = G.quad_terms(rng, uni, spin=spin_in, zero_ok=(src is None))
            if src is None and rng.random() < 0.15:   # a key with three distinct labels: KeyError expected
                ls = G.labels(rng, uni, 3)
                t.append((tuple(ls), G.coef(rng)))
        else:
            t = G.raw_terms(rng, uni, max_vars=5, max_terms=6, max_deg=4, zero_ok=(src is None))
        return {"op": "conv", "fn": fn, "src": src, "terms": G.jraw(t)}
    if r < 0.60:
        kind = rng.choice(["QUBO", "QUSO", "QUBO", "QUSO", "PUBO", "PUSO", "PCBO", "PCSO"])
        t = G.quad_terms(rng, rng.choice(['int', 'pool']), spin=(kind in SPIN))
        # sometimes: convert once, change coefficients in place, convert again (the second result is the one compared)
        edits = []
        if t and rng.random() < 0.3:
            for _ in range(rng.randint(1, 2)):
                k = rng.choice(t)[0]
                r2 = rng.random()
                if r2 < 0.4:
                    edits.append({"e": "set", "k": [C.enc(x) for x in k], "v": [rng.choice([-3, -1, 2, 5]), 1]})
                elif r2 < 0.8:
                    edits.append({"e": "aug", "k": [C.enc(x) for x in k], "v": [rng.choice([-2, 1, 3]), 1]})
                else:
                    edits.append({"e": "imul", "okind": "scalar", "c": [rng.choice([2, -1, 3]), 1]})
        if any(k for k, _ in t) and rng.random() < 0.25:
            # a variable disappears (its terms are assigned zero), then refresh(): the numbering is derived afresh
            l = rng.choice(sorted({x for k, _ in t for x in k}, key=C.enc))
            for k in list(dict.fromkeys(k for k, _ in t if l in k)):
                edits.append({"e": "set", "k": [C.enc(x) for x in k], "v": [0, 1]})
            edits.append({"e": "refresh"})
        remap = gen_remap(rng)
        post = []
        if remap and rng.random() < 0.5:
            # after the user's numbering: a term with a label the model has not seen (it takes the next free integer)
            used = {x for k, _ in t for x in k}
            fresh = [l for l in (list(range(8)) + C.POOL) if l not in used]
            if fresh:
                nl = rng.choice(fresh)
                k = [nl] + ([rng.choice(sorted(used, key=C.enc))] if used and rng.random() < 0.6 else [])
                post.append({"e": rng.choice(["set", "aug"]), "k": [C.enc(x) for x in k], "v": [rng.choice([-3, -1, 2, 5]), 1]})
        return {"op": "method", "kind": kind, "terms": G.jraw(t), "meth": rng.randrange(4), "edits": edits, "remap": remap, "post": post}
    if r < 0.80:
        kind = rng.choice(["QUBO", "QUSO", "PUBO", "PUSO", "PCBO", "PCSO"])
        quad = kind in QUAD
        uni = rng.choice(['int', 'pool'])
        t = G.quad_terms(rng, uni, spin=kind in SPIN) if quad else G.raw_terms(rng, uni, max_vars=5, max_terms=5, max_deg=3)
        t = [(k, v) for k, v in t if v != 0]
        m = cls_of(kind)({k: C.num(v) for k, v in t})
        n = m.num_binary_variables
        form = rng.choice(["bool", "spin", "ones"])
        vals = [1] * n if form == "ones" else [rng.choice([0, 1] if form == "bool" else [1, -1]) for _ in range(n)]
        return {"op": "convsol", "kind": kind, "terms": G.jraw(t), "vals": vals, "cont": rng.choice(["dict", "list", "tuple", "odict"]),
                "flag": rng.choice([None, True, False]), "remap": gen_remap(rng)}
    if r < 0.90:
        which = rng.choice(["Q", "h", "J"])
        lab = rng.random() < 0.5          # the labelled QUBO / QUSO classes inherit Q, h, J
        t = G.quad_terms(rng, 'pool' if lab else 'int', spin=(which != "Q"))
        return {"op": "export", "which": which, "terms": G.jraw(t), "lab": lab}
    if r < 0.96:
        t = G.quad_terms(rng, 'int')
        if rng.random() < 0.8:
            t = [(k, v) for k, v in t if k]
        return {"op": "tomatrix", "terms": G.jraw(t), "sym": rng.random() < 0.5, "array": rng.random() < 0.5,
                "obj": rng.random() < 0.5}
    n = rng.randint(1, 4)
    mat = [[G.coef(rng, zero_ok=True) if rng.random() < 0.7 else F(0) for _ in range(n)] for _ in range(n)]
    return {"op": "frommatrix", "mat": [[[v.numerator, v.denominator] for v in row] for row in mat], "array": rng.random() < 0.5}


def gen_remap(rng):
    """a user-chosen numbering: set_mapping / set_reverse_mapping with a permutation of 0..n-1 (n is known once the object exists,
    so only the way of calling and a seed are fixed here)"""
    if rng.random() < 0.65:
        return None
    return {"how": rng.choice(["map", "rmap"]), "seed": rng.randrange(10 ** 6)}


def apply_remap(obj, remap):
    """returns the mapping installed, as [[label code, index], ...] in the order the dictionary was handed over"""
    import random
    if not remap or not hasattr(obj, "set_mapping"):
        return None
    labs = list(obj.mapping)
    perm = list(range(len(labs)))
    random.Random(remap["seed"]).shuffle(perm)
    d = {l: p for l, p in zip(labs, perm)} if remap["how"] == "map" else {p: l for l, p in zip(labs, perm)}
    HANDED.append((d, dict(d), remap["how"]))          # the caller's dictionary stays the caller's (see handed_over_changed)
    if remap["how"] == "map":
        obj.set_mapping(d)
    else:
        obj.set_reverse_mapping(d)
    return [[C.enc(l), p] for l, p in zip(labs, perm)]


HANDED = []


def handed_over_changed():
    """the dictionaries given to set_mapping / set_reverse_mapping so far, compared with what they were; empties the list"""
    bad = ["the dictionary passed to %s was changed afterwards: %r -> %r" % ("set_mapping" if how == "map" else "set_reverse_mapping", was, d)
           for d, was, how in HANDED if d != was]
    del HANDED[:]
    return bad


def build(kind, jt):
    t = G.unjraw(jt)
    d = {k: C.num(v) for k, v in t}
    return d if kind is None else cls_of(kind)(d)


def mout(o):
    return {"kind": type(o).__name__, "terms": C.jterms(C.enc_terms(o))}


def run_impl(case):
    import qubovert as qv
    import numpy as np
    op = case["op"]
    try:
        if op == "conv":
            obj = build(case["src"], case["terms"])
            r = C.pure_call(getattr(qv.utils, FN[case["fn"]]), obj)
            out = mout(r)
            out["src_items"] = C.jterms(C.enc_terms(obj, sort_keys=False))
            return out
        if op == "method":
            obj = build(case["kind"], case["terms"])
            if case.get("edits"):
                from props import c14
                getattr(obj, METH[case["meth"]])()          # a first conversion, then in-place edits
                for e in case["edits"]:
                    obj = c14.apply(obj, e)
            installed = apply_remap(obj, case.get("remap"))
            for e in case.get("post", []):
                from props import c14
                obj = c14.apply(obj, e)
            snap = C.snapshot(obj)
            r = getattr(obj, METH[case["meth"]])()
            if C.snapshot(obj) != snap:
                raise C.PurityError("%s mutated the model" % METH[case["meth"]])
            out = mout(r)
            out["enum"] = mout(obj.to_enumerated())
            out["mapping"] = [[C.enc(k), v] for k, v in obj.mapping.items()]
            out["src_items"] = C.jterms(C.enc_terms(obj, sort_keys=False))
            out["remap"] = installed
            out["rmapping"] = [[k, C.enc(v)] for k, v in obj.reverse_mapping.items()]
            out["handed"] = handed_over_changed()
            return out
        if op == "convsol":
            obj = build(case["kind"], case["terms"])
            installed = apply_remap(obj, case.get("remap"))
            vals = case["vals"]
            sol = dict(enumerate(vals)) if case["cont"] == "dict" else list(vals) if case["cont"] == "list" else tuple(vals)
            if case["cont"] == "odict":        # a dict subclass is a dict
                import collections
                sol = collections.OrderedDict(enumerate(vals))
            snap = (C.snapshot(obj), C.snapshot(sol))
            r = obj.convert_solution(sol) if case["flag"] is None else obj.convert_solution(sol, case["flag"])
            if (C.snapshot(obj), C.snapshot(sol)) != snap:
                raise C.PurityError("convert_solution mutated an argument")
            spin_model = case["kind"] in SPIN
            enum = obj.to_enumerated()
            return {"sol": [[C.enc(k), int(v)] for k, v in r.items()],
                    "value": str(C.toF(obj.value(r))),
                    "enum_items": C.jterms(C.enc_terms(enum, sort_keys=False)),
                    "enum_kind": type(enum).__name__, "remap": installed}
        if op == "export":
            w = case["which"]
            obj = build(("QUBO" if w == "Q" else "QUSO") + ("" if case.get("lab") else "Matrix"), case["terms"])
            r = getattr(obj, w)
            if w == "h":
                r = {(k,): v for k, v in r.items()}
            return {"terms": C.jterms(C.enc_terms(r, sort_keys=False)), "items": C.jterms(C.enc_terms(obj, sort_keys=False))}
        if op == "tomatrix":
            obj = build("QUBOMatrix" if case["obj"] else None, case["terms"])
            m = C.pure_call(qv.utils.qubo_to_matrix, obj, case["sym"], case["array"])
            rows = m.tolist() if hasattr(m, "tolist") else m
            ent = [[[i, j], [C.toF(v).numerator, C.toF(v).denominator]] for i, row in enumerate(rows) for j, v in enumerate(row) if v != 0]
            return {"n": len(rows), "entries": ent, "type": type(m).__name__}
        if op == "frommatrix":
            mat = [[C.num(F(*v)) for v in row] for row in case["mat"]]
            if case["array"]:
                mat = np.array([[float(x) if F(float(x)) == x else x for x in row] for row in mat], dtype=object)
            r = qv.utils.matrix_to_qubo(mat)
            return mout(r)
    except (KeyError, ValueError, TypeError) as ex:
        return {"error": type(ex).__name__}
    raise ValueError(op)


def tl(j):
    return C.termsl([(k, F(v[0], v[1])) for k, v in j])


def mp_lit(installed):
    if installed is None:
        return "None"
    return "(Some [%s])" % "; ".join("(%d%%nat, %d%%nat)" % (l, p) for l, p in installed)


def literal(case, out):
    op = case["op"]
    if "error" in out:
        exp = "OErr %s" % out["error"]
    elif op in ("conv", "method", "frommatrix"):
        exp = "OModelOut %s %s" % (KIND[out["kind"]], tl(out["terms"]))
    elif op == "convsol":
        exp = "OSol [%s]" % "; ".join("(%d%%nat, (%d)%%Z)" % (k, v) for k, v in out["sol"])
    elif op == "export":
        exp = "OTerms %s" % tl(out["terms"])
    else:
        exp = "OMatrix %d%%nat %s" % (out["n"], tl(out["entries"]))
    if op == "conv":
        cin = "Conv %d%%nat %s %s" % (case["fn"], C.optc(case["src"], lambda k: KIND[k]), tl(case["terms"]))
    elif op == "method":
        from props import c14
        cin = "Method %s %s [%s] %s [%s] %d%%nat" % (KIND[case["kind"]], tl(case["terms"]),
                                                    "; ".join(c14.edit_lit(e) for e in case.get("edits", [])), mp_lit(out.get("remap")),
                                                    "; ".join(c14.edit_lit(e) for e in case.get("post", [])), case["meth"])
    elif op == "convsol":
        spin_model = case["kind"] in SPIN
        flag = spin_model if case["flag"] is None else case["flag"]
        cin = "ConvSol %s %s %s [%s] %s" % (KIND[case["kind"]], tl(case["terms"]), mp_lit(out.get("remap")),
                                         "; ".join("(%d%%nat, (%d)%%Z)" % (i, v) for i, v in enumerate(case["vals"])), C.boolc(flag))
    elif op == "export":
        cin = "%s %s %s" % ({"Q": "ExportQ", "h": "ExportH", "J": "ExportJ"}[case["which"]], C.boolc(bool(case.get("lab"))), tl(case["terms"]))
    elif op == "tomatrix":
        cin = "ToMatrix %s %s" % (tl(case["terms"]), C.boolc(case["sym"]))
    else:
        n = len(case["mat"])
        cin = "FromMatrix [%s]" % "; ".join("(%d%%nat, %d%%nat, %s)" % (i, j, C.q(F(*case["mat"][i][j]))) for i in range(n) for j in range(n))
    return "(%s, %s)" % (cin, exp)


# ------------------------------------------------------------------ oracle ----
def ev(items, x):
    tot = F(0)
    for k, v in items:
        p = F(1)
        for i in k:
            p *= x[i]
        tot += F(v[0], v[1]) * p
    return tot


def labels_of(items):
    return sorted({i for k, _ in items for i in k})


def oracle(case, out):
    v = []
    if "error" in out:
        return v
    op = case["op"]
    if op == "conv":
        fn = case["fn"]
        to_spin = fn in (0, 2)
        src, dst = out["src_items"], out["terms"]
        labs = sorted(set(labels_of(src)) | set(labels_of(dst)))
        if len(labs) <= 8:
            for bits in itertools.product((0, 1), repeat=len(labs)):
                xb = dict(zip(labs, bits))
                xs = {l: 1 - 2 * b for l, b in xb.items()}
                a, b = (ev(src, xb), ev(dst, xs)) if to_spin else (ev(src, xs), ev(dst, xb))
                if a != b:
                    v.append("%s: source gives %s, result gives %s at boolean %s / spin %s" % (FN[fn], a, b, xb, xs))
                    break
        matrix_in = case["src"] is not None and case["src"].endswith("Matrix")
        want = {0: ("PUSOMatrix", "PUSO"), 1: ("PUBOMatrix", "PUBO"), 2: ("QUSOMatrix", "QUSO"), 3: ("QUBOMatrix", "QUBO")}[fn][0 if matrix_in else 1]
        if out["kind"] != want:
            v.append("%s(%s) returned %s, documented type rule says %s" % (FN[fn], case["src"] or "dict", out["kind"], want))
    elif op == "method":
        mp = dict(out["mapping"])
        v.extend(out.get("handed", []))
        if out.get("rmapping") is not None and {n_: l for l, n_ in out["mapping"]} != {n_: l for n_, l in out["rmapping"]}:
            v.append("reverse_mapping %r is not the inverse of mapping %r" % (out["rmapping"], out["mapping"]))
        src, dst = out["src_items"], out["terms"]
        spin_src = case["kind"] in SPIN
        spin_dst = case["meth"] in (1, 3)
        labs = labels_of(src)
        if not set(labels_of(dst)) <= set(mp.values()):
            v.append("enumerated form uses labels outside the mapping")
        elif len(labs) <= 8:
            for bits in itertools.product((0, 1), repeat=len(labs)):
                xb = dict(zip(labs, bits))
                xsrc = {l: (1 - 2 * b if spin_src else b) for l, b in xb.items()}
                xdst = {mp[l]: (1 - 2 * b if spin_dst else b) for l, b in xb.items()}
                for n_ in mp.values():
                    xdst.setdefault(n_, 1 if spin_dst else 0)
                if ev(src, xsrc) != ev(dst, xdst):
                    v.append("%s.%s: value differs at %s" % (case["kind"], METH[case["meth"]], xb))
                    break
        want = {0: "QUBOMatrix", 1: "QUSOMatrix", 2: "PUBOMatrix", 3: "PUSOMatrix"}[case["meth"]]
        if out["kind"] != want:
            v.append("%s returned %s" % (METH[case["meth"]], out["kind"]))
        if out["enum"]["kind"] != {"QUBO": "QUBOMatrix", "QUSO": "QUSOMatrix", "PUBO": "PUBOMatrix", "PCBO": "PUBOMatrix",
                                   "PUSO": "PUSOMatrix", "PCSO": "PUSOMatrix"}[case["kind"]]:
            v.append("to_enumerated returned %s" % out["enum"]["kind"])
    elif op == "convsol":
        # M.value(M.convert_solution(s)) equals the enumerated model's value at s (in the model's own form)
        spin_model = case["kind"] in SPIN
        vals = case["vals"]
        flag = spin_model if case["flag"] is None else case["flag"]
        isspin = flag
        for x in vals:
            if x == 0:
                isspin = False
                break
            if x == -1:
                isspin = True
                break
        conv = {True: {False: lambda a: a, True: lambda a: a}, }
        own = [((1 - 2 * a) if (spin_model and not isspin) else ((1 - a) // 2 if (not spin_model and isspin) else a)) for a in vals]
        want = ev(out["enum_items"], dict(enumerate(own)))
        if F(out["value"]) != want:
            v.append("value of the converted solution %s differs from the enumerated model's value %s" % (out["value"], want))
        dom = (1, -1) if spin_model else (0, 1)
        if any(val not in dom for _, val in out["sol"]):
            v.append("converted solution has values outside %r" % (dom,))
    elif op == "export":
        items, ex = out["items"], out["terms"]
        labs = labels_of(items)
        const = sum((F(c[0], c[1]) for k, c in items if not k), F(0))
        spin = case["which"] != "Q"
        if case["which"] in ("Q",) and len(labs) <= 8:
            for bits in itertools.product((0, 1), repeat=len(labs)):
                x = dict(zip(labs, bits))
                if ev(ex, x) + const != ev(items, x):
                    v.append("Q does not describe the model up to the offset at %s" % x)
                    break
        if case["which"] == "h":
            if sorted(map(str, ex)) != sorted(map(str, [[k, c] for k, c in items if len(k) == 1])):
                v.append("h is not the linear part")
        if case["which"] == "J":
            if sorted(map(str, ex)) != sorted(map(str, [[k, c] for k, c in items if len(k) == 2])):
                v.append("J is not the quadratic part")
    elif op == "tomatrix":
        items = C.jterms(C.enc_terms(build("QUBOMatrix", case["terms"]), sort_keys=False))
        n = out["n"]
        M = [[F(0)] * n for _ in range(n)]
        for (i, j), c in out["entries"]:
            M[i][j] = F(c[0], c[1])
        if n <= 7:
            for bits in itertools.product((0, 1), repeat=n):
                val = sum(M[i][j] * bits[i] * bits[j] for i in range(n) for j in range(n))
                if val != ev(items, dict(enumerate(bits))):
                    v.append("x^T M x differs from the QUBO at %s" % (bits,))
                    break
        if case["sym"] and any(M[i][j] != M[j][i] for i in range(n) for j in range(n)):
            v.append("symmetric=True returned a non-symmetric matrix")
        if not case["sym"] and any(M[i][j] != 0 for i in range(n) for j in range(i)):
            v.append("symmetric=False returned a matrix that is not upper triangular")
    elif op == "frommatrix":
        n = len(case["mat"])
        if n <= 6:
            for bits in itertools.product((0, 1), repeat=n):
                val = sum(F(*case["mat"][i][j]) * bits[i] * bits[j] for i in range(n) for j in range(n))
                if val != ev(out["terms"], dict(enumerate(bits))):
                    v.append("matrix_to_qubo differs from x^T M x at %s" % (bits,))
                    break
    return v


def nontrivial(case, out):
    if case["op"] == "frommatrix":
        return len(case["mat"]) >= 2
    return any(len(k) >= 2 for k, _ in case["terms"])


def tags(case, out):
    t = [case["op"] + (":" + FN[case["fn"]] + ":" + (case["src"] or "dict") if case["op"] == "conv" else "")]
    if "error" in out:
        t.append("error:" + out["error"])
    if case["op"] == "convsol":
        t.append("convsol:%s:%s:flag=%s" % (case["cont"], "ones" if all(x == 1 for x in case["vals"]) else "mixed", case["flag"]))
    if case["op"] == "method":
        t.append("method:%s.%s" % (case["kind"], METH[case["meth"]]))
    return t
