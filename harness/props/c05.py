"""C05 — model arithmetic and evaluation agree with polynomial arithmetic."""
import itertools
from fractions import Fraction as F
import common as C
import gens as G

ID = "C05"
IMPORTS = "From QV.Model Require Import Base Matrix Arith Expr Values.\nFrom QV.Corr Require Import C05."
CASE_TYPE = "(cin * cout)"
RUN, EQB = "run_case", "out_eqb"
N = {"quick": 700, "thorough": 8000}
RULE = ("random expression trees (depth <= 4) over the ten model kinds, DictArithmetic, raw dicts and scalars with "
        "+ - * ** / unary -, reflected and in-place forms and aliased operands (x op x); plus value-function calls; "
        "non-trivial = tree with at least one binary operator and a non-constant leaf, or a value call on a "
        "non-constant model; distinct by canonical JSON")
THEOREMS = "C05_tree C05_add C05_sub C05_rsub C05_mul C05_pow C05_neg C05_truediv C05_iadd C05_isub C05_imul C05_keyerror C05_*_value C05_squash C05_unique_zero C05_unique_sub C05_unique_zero_spin C05_unique_sub_spin"
MODELLED = "Python operator dispatch (forward/reflected/in-place) is modelled by Expr.interp; floats only on dyadic values"

BOOL = ["PUBOMatrix", "QUBOMatrix", "PUBO", "QUBO", "PCBO"]
SPIN = ["PUSOMatrix", "QUSOMatrix", "PUSO", "QUSO", "PCSO"]
KIND = {"DictArithmetic": "KDict", "PUBOMatrix": "KPuboM", "QUBOMatrix": "KQuboM", "PUBO": "KPubo", "QUBO": "KQubo",
        "PCBO": "KPcbo", "PUSOMatrix": "KPusoM", "QUSOMatrix": "KQusoM", "PUSO": "KPuso", "QUSO": "KQuso", "PCSO": "KPcso"}
QUAD = {"QUBOMatrix", "QUBO", "QUSOMatrix", "QUSO"}


def cls_of(name):
    import qubovert as qv
    return getattr(qv, name) if hasattr(qv, name) else getattr(qv.utils, name)


# ------------------------------------------------------------ generation ----
def gen_leaf_terms(rng, uni, labs, quad, spin):
    out, seen = [], set()
    for _ in range(rng.randint(0, 3)):
        d = rng.choice([1, 1, 2]) if quad else rng.choice([1, 1, 2, 2, 3])
        if rng.random() < 0.2:
            k = tuple(rng.choice(labs) for _ in range(d))
        else:
            k = tuple(rng.sample(labs, min(d, len(labs))))
        if k in seen:
            continue
        seen.add(k)
        out.append((k, G.coef(rng)))
    if rng.random() < 0.4:
        out.insert(rng.randint(0, len(out)), ((), G.coef(rng)))
    return out


def gen_tree(rng, depth, fam, uni, labs, want_model):
    """want_model: the node must evaluate to a model"""
    r = rng.random()
    if depth == 0 or r < 0.25:
        if want_model or rng.random() < 0.5:
            kinds = fam + (["DictArithmetic"] if rng.random() < 0.08 else [])
            kinds = [k for k in kinds if not (uni == 'pool' and k.endswith("Matrix"))]
            kind = rng.choice(kinds)
            return {"t": "model", "kind": kind,
                    "terms": G.jraw(gen_leaf_terms(rng, uni, labs, kind in QUAD, fam is SPIN))}
        if rng.random() < 0.5:
            return {"t": "raw", "terms": G.jraw(gen_leaf_terms(rng, uni, labs, False, fam is SPIN))}
        c = G.coef(rng, zero_ok=True)
        return {"t": "scalar", "c": [c.numerator, c.denominator]}
    if r < 0.70:
        op = rng.choice(["add", "sub", "mul"])
        side = rng.random()
        if side < 0.6:
            a = gen_tree(rng, depth - 1, fam, uni, labs, True)
            b = gen_tree(rng, depth - 1, fam, uni, labs, False)
        else:
            a = gen_tree(rng, depth - 1, fam, uni, labs, False)
            b = gen_tree(rng, depth - 1, fam, uni, labs, True)
        return {"t": "bin", "ip": rng.random() < 0.35, "op": op, "a": a, "b": b}
    if r < 0.78:
        return {"t": "self", "ip": rng.random() < 0.5, "op": rng.choice(["add", "sub", "mul"]),
                "a": gen_tree(rng, depth - 1, fam, uni, labs, True)}
    if r < 0.85:
        return {"t": "neg", "a": gen_tree(rng, depth - 1, fam, uni, labs, True)}
    if r < 0.94:
        return {"t": "pow", "ip": rng.random() < 0.4, "a": gen_tree(rng, depth - 1, fam, uni, labs, True),
                "n": rng.choice([1, 2, 2, 3, 0, -1]) if rng.random() < 0.9 else
                     (rng.choice([4, 5, 6, 7, 8, 10]) if depth <= 1 else 4)}      # high powers of leaves only (size)
    c = G.coef(rng)
    return {"t": "div", "ip": rng.random() < 0.4, "a": gen_tree(rng, depth - 1, fam, uni, labs, True),
            "c": [c.numerator, c.denominator]}


def gen_quad_product(rng):
    """products / powers of quadratic models whose keys overlap: the degree of the result depends on the squashing rule
    (x*x = x for booleans, z*z = 1 for spins), which is what the quadratic kinds' key check has to get right"""
    fam = rng.choice([BOOL, SPIN])
    kind = rng.choice([k for k in fam if k in QUAD])
    uni = 'int' if kind.endswith("Matrix") else rng.choice(['int', 'pool'])
    labs = G.labels(rng, uni, rng.randint(2, 4))

    def leaf():
        ts, seen = [], set()
        for _ in range(rng.randint(1, 2)):
            k = tuple(rng.sample(labs, 2)) if rng.random() < 0.8 else (rng.choice(labs),)
            if k not in seen:
                seen.add(k)
                ts.append((k, G.coef(rng)))
        return {"t": "model", "kind": kind, "terms": G.jraw(ts)}
    r = rng.random()
    if r < 0.6:
        tree = {"t": "bin", "ip": rng.random() < 0.4, "op": "mul", "a": leaf(), "b": leaf()}
    elif r < 0.8:
        tree = {"t": "pow", "ip": rng.random() < 0.4, "a": leaf(), "n": 2}
    else:
        tree = {"t": "bin", "ip": False, "op": "mul", "a": {"t": "raw", "terms": leaf()["terms"]}, "b": leaf()}
    return {"op": "tree", "spin": fam is SPIN, "tree": tree}


def gen_quad_rawkey(rng):
    """quadratic kinds and long unsquashed keys (a label written 2-5 times next to 0-3 others) as constructor argument or raw
    dict operand: the key check has to count what is left after squashing (x*x = x, z*z = 1), whatever the multiplicities"""
    fam = rng.choice([BOOL, SPIN, SPIN])
    kind = rng.choice([k for k in fam if k in QUAD])
    uni = 'int' if kind.endswith("Matrix") else rng.choice(['int', 'pool'])
    labs = G.labels(rng, uni, rng.choice([2, 3, 3, 4, 4]))

    def longkey():
        a = rng.choice(labs)
        k = [a] * rng.choice([2, 3, 3, 4, 5])
        rest = [l for l in labs if l != a]
        for l in rng.sample(rest, rng.choice([0, 1, 2, 2, 3, 3][:2 + 2 * min(2, len(rest) - 1)]) if rest else 0):
            k += [l] * rng.choice([1, 1, 1, 2, 3])
        if len(rest) >= 2 and rng.random() < 0.4:
            k = [a] * rng.choice([3, 5]) + rng.sample(rest, 2)          # degree three after squashing, whatever the kind
        rng.shuffle(k)
        return tuple(k)
    ts = list({k: (k, G.coef(rng)) for k in [longkey() for _ in range(rng.randint(1, 2))]}.values())   # a dict literal keeps one
    base = [(tuple(rng.sample(labs, 2)), G.coef(rng))] if rng.random() < 0.7 else []
    r = rng.random()
    if r < 0.35:
        tree = {"t": "model", "kind": kind, "terms": G.jraw(base + ts)}
    else:
        a, b = {"t": "model", "kind": kind, "terms": G.jraw(base)}, {"t": "raw", "terms": G.jraw(ts)}
        tree = {"t": "bin", "ip": rng.random() < 0.5, "op": rng.choice(["add", "sub"]), "a": a, "b": b}
    return {"op": "tree", "spin": fam is SPIN, "tree": tree}


def gen_tiny(rng):
    """float coefficients far below 1 (small multiples of 2**-e, e = 26..45): products, squares and quotients whose
    coefficients reach 2**-52 .. 2**-110 -- still exact doubles, so the implementation has to agree with the rational model
    digit for digit; no non-zero coefficient, however small, may be rounded away or taken for zero"""
    fam = rng.choice([BOOL, SPIN])
    kind = rng.choice([k for k in fam if k not in QUAD])
    uni = 'int' if kind.endswith("Matrix") else rng.choice(['int', 'pool'])
    labs = G.labels(rng, uni, rng.randint(2, 4))
    e = rng.randint(26, 45)

    def leaf(raw=False):
        ts, seen = [], set()
        for _ in range(rng.randint(1, 3)):
            k = tuple(rng.sample(labs, rng.randint(0, min(2, len(labs)))))
            ks = tuple(sorted(k, key=C.enc))
            if ks not in seen:
                seen.add(ks)
                ts.append((k, F(rng.choice([-3, -2, -1, 1, 2, 3, 5]), rng.choice([1, 2, 4])) / 2 ** e))
        return {"t": "raw" if raw else "model", "kind": kind, "terms": G.jraw(ts), "fl": True}
    r = rng.random()
    if r < 0.45:
        tree = {"t": "bin", "ip": rng.random() < 0.4, "op": "mul", "a": leaf(), "b": leaf(rng.random() < 0.3)}
    elif r < 0.6:
        tree = {"t": "pow", "ip": rng.random() < 0.4, "a": leaf(), "n": 2}
    elif r < 0.8:
        c = F(2) ** rng.randint(30, 60) * rng.choice([1, -1])
        tree = {"t": "div", "ip": rng.random() < 0.4, "a": leaf(), "c": [c.numerator, c.denominator], "fl": True}
    else:
        c = F(rng.choice([1, -1, 3]), 2 ** rng.randint(30, 60))
        tree = {"t": "bin", "ip": rng.random() < 0.4, "op": "mul", "a": leaf(), "b": {"t": "scalar", "c": [c.numerator, c.denominator], "fl": True}}
    return {"op": "tree", "spin": fam is SPIN, "tree": tree}


def gen_cancel(rng):
    """exact cancellation through other spellings of the same monomials: the second operand repeats terms of the first with
    their labels permuted, doubled (x*x = x) or, for spins, multiplied by the square of a label the model does not contain
    (z*z = 1); every spelling must reach the stored term, so the difference loses those terms"""
    fam = rng.choice([BOOL, SPIN, SPIN])
    kind = rng.choice([k for k in fam if k not in QUAD])
    uni = 'int' if kind.endswith("Matrix") else rng.choice(['int', 'pool'])
    pool = G.labels(rng, uni, 5)
    labs, fresh = pool[:3], pool[3:]
    ts, seen = [], set()
    for _ in range(rng.randint(1, 3)):
        k = tuple(rng.sample(labs, rng.randint(1, 3)))
        ks = tuple(sorted(k, key=C.enc))
        if ks not in seen:
            seen.add(ks)
            ts.append((k, G.coef(rng)))
    other = []
    for k, v in ts:
        if rng.random() < 0.8:
            k2 = list(k)
            rng.shuffle(k2)
            if fam is SPIN:
                f = rng.choice(fresh)
                pos_ = rng.randint(0, len(k2))
                k2[pos_:pos_] = [f, f]
            else:
                k2.append(rng.choice(k2))
            other.append((tuple(k2), v))
    a = {"t": "model", "kind": kind, "terms": G.jraw(ts)}
    b = {"t": "raw", "terms": G.jraw(other)} if rng.random() < 0.7 else {"t": "model", "kind": kind, "terms": G.jraw(other)}
    r = rng.random()
    if r < 0.4:
        tree = {"t": "bin", "ip": True, "op": "sub", "a": a, "b": b}
    elif r < 0.7:
        tree = {"t": "bin", "ip": False, "op": "sub", "a": a, "b": b}
    elif r < 0.85:
        tree = {"t": "bin", "ip": False, "op": "sub", "a": b, "b": a}
    else:
        nb = {"t": "neg", "a": b} if b["t"] == "model" else {"t": "raw", "terms": G.jraw([(k, -v) for k, v in other])}
        tree = {"t": "bin", "ip": rng.random() < 0.5, "op": "add", "a": a, "b": nb}
    return {"op": "tree", "spin": fam is SPIN, "tree": tree}


def gen(rng, i, tier):
    if rng.random() < 0.08:
        return gen_quad_product(rng)
    if rng.random() < 0.07:
        return gen_cancel(rng)
    if rng.random() < 0.10:
        return gen_quad_rawkey(rng)
    if rng.random() < 0.05:
        return gen_tiny(rng)
    if rng.random() < 0.78:
        fam = rng.choice([BOOL, SPIN])
        uni = rng.choice(['int', 'pool'])
        labs = G.labels(rng, uni, rng.randint(1, 4))
        return {"op": "tree", "spin": fam is SPIN,
                "tree": gen_tree(rng, rng.randint(1, 4 if tier == "thorough" else 3), fam, uni, labs, True)}
    if rng.random() < 0.12:
        # the smallest models, evaluated at a dict: one variable whose label is false in a boolean context (0), set to 1 / -1
        fn = rng.choice(["qubo", "qubo", "pubo", "quso", "puso"])
        spin = fn in ("puso", "quso")
        form = rng.choice(["dict", "obj"])
        if form == "obj":
            form = rng.choice([k for k in (SPIN if spin else BOOL) if (k in QUAD) == (fn in ("qubo", "quso"))])
        t = [((0,), G.coef(rng))] + ([((), G.coef(rng))] if rng.random() < 0.5 else [])
        return {"op": "value", "fn": fn, "form": form, "terms": G.jraw(t), "x": [[0, -1 if spin else 1]], "cont": "dict"}
    fn = rng.choice(["pubo", "qubo", "puso", "quso"])
    spin = fn in ("puso", "quso")
    form = rng.choice(["dict", "obj"])
    if form == "obj":
        form = rng.choice([k for k in (SPIN if spin else BOOL) if (k in QUAD) == (fn in ("qubo", "quso"))])
    uni = 'int' if (form.endswith("Matrix") or rng.random() < 0.5) else 'pool'
    t = G.quad_terms(rng, uni, spin=spin) if fn in ("qubo", "quso") else G.raw_terms(rng, uni)
    if fn in ("qubo", "quso") and form == "dict":
        t = [(k, v) for k, v in t if len(k) <= 2]   # documented domain of the quadratic value functions
    if rng.random() < 0.06:
        # the smallest models: one variable, labelled 0 (a label that is false in a boolean context), with or without offset
        t = [((0,), G.coef(rng))] + ([((), G.coef(rng))] if rng.random() < 0.5 else [])
    labs = sorted({C.enc(x) for k, _ in t for x in k})
    cont = "dict"
    if uni == 'int' and labs and rng.random() < 0.4:
        cont = rng.choice(["list", "tuple"])
        labs = list(range(max(labs) + 1))
    x = [[l, rng.choice([1, -1] if spin else [0, 1])] for l in labs]
    return {"op": "value", "fn": fn, "form": form, "terms": G.jraw(t), "x": x, "cont": cont}


# ------------------------------------------------------------ evaluation ----
class Leaves:
    def __init__(self):
        self.objs = []


def build_leaf(n):
    num = (lambda v: C.numf(v, 'f')) if n.get("fl") else C.num       # "fl": coefficients as python floats (exact dyadics)
    if n["t"] == "model":
        return cls_of(n["kind"])({k: num(v) for k, v in G.unjraw(n["terms"])})
    if n["t"] == "raw":
        return {k: num(v) for k, v in G.unjraw(n["terms"])}
    return num(F(*n["c"]))


def pyeval(n, leaves, protect=True):
    t = n["t"]
    if t in ("model", "raw", "scalar"):
        o = build_leaf(n)
        if protect:
            leaves.objs.append((o, C.snapshot(o)))
        return o
    if t == "bin":
        a = pyeval(n["a"], leaves, protect=not n["ip"])
        b = pyeval(n["b"], leaves)
        if n["ip"]:
            if n["op"] == "add":
                a += b
            elif n["op"] == "sub":
                a -= b
            else:
                a *= b
            return a
        return a + b if n["op"] == "add" else a - b if n["op"] == "sub" else a * b
    if t == "self":
        a = pyeval(n["a"], leaves, protect=not n["ip"])
        if n["ip"]:
            if n["op"] == "add":
                a += a
            elif n["op"] == "sub":
                a -= a
            else:
                a *= a
            return a
        return a + a if n["op"] == "add" else a - a if n["op"] == "sub" else a * a
    if t == "neg":
        return -pyeval(n["a"], leaves)
    if t == "pow":
        a = pyeval(n["a"], leaves, protect=not n["ip"])
        if n["ip"]:
            a **= n["n"]
            return a
        return a ** n["n"]
    if t == "div":
        a = pyeval(n["a"], leaves, protect=not n["ip"])
        c = F(*n["c"])      # a Fraction divisor keeps int / int exact
        if n.get("fl"):
            c = C.numf(c, 'f')
        if n["ip"]:
            a /= c
            return a
        return a / c
    raise ValueError(t)


def canon_out(o):
    return {"kind": type(o).__name__,
            "terms": C.jterms(C.enc_terms(o, sort_keys=type(o).__name__ != "DictArithmetic"))}


def twin_ok(case):
    return C.no_matrix(case) and (case["op"] != "value" or case["cont"] == "dict")


def run_impl(case):
    if case["op"] == "value":
        import qubovert as qv
        t = G.unjraw(case["terms"])
        obj = {k: C.num(v) for k, v in t} if case["form"] == "dict" else cls_of(case["form"])({k: C.num(v) for k, v in t})
        xs = {C.dec(l): v for l, v in case["x"]}
        if case["cont"] == "list":
            xs = [v for _, v in case["x"]]
        elif case["cont"] == "tuple":
            xs = tuple(v for _, v in case["x"])
        fn = getattr(qv.utils, case["fn"] + "_value")
        v1 = C.pure_call(fn, xs, obj)
        out = {"value": str(C.toF(v1)), "items": C.jterms(C.enc_terms(obj, sort_keys=False))}
        if case["form"] != "dict":
            out["method"] = str(C.toF(obj.value(xs)))
        return out
    leaves = Leaves()
    try:
        r = pyeval(case["tree"], leaves)
    except (KeyError, ValueError, TypeError, ZeroDivisionError, RuntimeError) as ex:
        return {"error": type(ex).__name__}
    for o, snap in leaves.objs:
        if C.snapshot(o) != snap:
            raise C.PurityError("operand of a non in-place operator changed: %r" % (snap,))
    if not isinstance(r, dict):
        return {"error": "TypeError"}
    out = canon_out(r)
    out["raw_items"] = [[[C.enc(i) for i in k], str(C.toF(v))] for k, v in r.items()]
    return out


# ------------------------------------------------------------- Coq literal ----
def tree_lit(n):
    t = n["t"]
    tl = lambda j: C.termsl([(k, F(v[0], v[1])) for k, v in j])
    if t == "model":
        return "(EModel %s %s)" % (KIND[n["kind"]], tl(n["terms"]))
    if t == "raw":
        return "(ERaw %s)" % tl(n["terms"])
    if t == "scalar":
        return "(EScalar %s)" % C.q(F(*n["c"]))
    OP = {"add": "OpAdd", "sub": "OpSub", "mul": "OpMul"}
    if t == "bin":
        return "(EBin %s %s %s %s)" % (C.boolc(n["ip"]), OP[n["op"]], tree_lit(n["a"]), tree_lit(n["b"]))
    if t == "self":
        return "(ESelf %s %s %s)" % (C.boolc(n["ip"]), OP[n["op"]], tree_lit(n["a"]))
    if t == "neg":
        return "(ENeg %s)" % tree_lit(n["a"])
    if t == "pow":
        return "(EPow %s %s (%d)%%Z)" % (C.boolc(n["ip"]), tree_lit(n["a"]), n["n"])
    return "(EDiv %s %s %s)" % (C.boolc(n["ip"]), tree_lit(n["a"]), C.q(F(*n["c"])))


def literal(case, out):
    if case["op"] == "value":
        fn = ["pubo", "qubo", "puso", "quso"].index(case["fn"])
        t = C.termsl([(k, F(v[0], v[1])) for k, v in out["items"]])
        x = "[%s]" % "; ".join("(%d%%nat, %s)" % (l, C.q(v)) for l, v in case["x"])
        return "(Value %d%%nat %s %s, OVal %s)" % (fn, t, x, C.q(F(out["value"])))
    if "error" in out:
        exp = "OErr %s" % out["error"]
    else:
        exp = "OModelOut %s %s" % (KIND[out["kind"]], C.termsl([(k, F(v[0], v[1])) for k, v in out["terms"]]))
    return "(Tree %s, %s)" % (tree_lit(case["tree"]), exp)


# ------------------------------------------------------------------ oracle ----
def raw_eval(items, x):
    tot = F(0)
    for k, v in items:
        p = F(1)
        for i in k:
            p *= x[i]
        tot += (F(v[0], v[1]) if isinstance(v, list) else v) * p
    return tot


def denote(n, x):
    t = n["t"]
    if t in ("model", "raw"):
        return raw_eval([(k, F(v[0], v[1])) for k, v in n["terms"]], x)
    if t == "scalar":
        return F(*n["c"])
    if t == "bin":
        a, b = denote(n["a"], x), denote(n["b"], x)
        return a + b if n["op"] == "add" else a - b if n["op"] == "sub" else a * b
    if t == "self":
        a = denote(n["a"], x)
        return a + a if n["op"] == "add" else a - a if n["op"] == "sub" else a * a
    if t == "neg":
        return -denote(n["a"], x)
    if t == "pow":
        return denote(n["a"], x) ** n["n"]
    return denote(n["a"], x) / F(*n["c"])


def tree_labels(n, acc):
    if n["t"] in ("model", "raw"):
        for k, _ in n["terms"]:
            acc.update(k)
    for ch in ("a", "b"):
        if ch in n:
            tree_labels(n[ch], acc)
    return acc


def result_kind(n):
    """type of the model operand (the left one if both are models); None for non-model values"""
    t = n["t"]
    if t == "model":
        return n["kind"]
    if t in ("raw", "scalar"):
        return None
    if t == "bin":
        return result_kind(n["a"]) or result_kind(n["b"])
    return result_kind(n["a"])


def has_bad_scalar(n):
    if n["t"] == "pow" and n["n"] <= 0:
        return True
    return any(has_bad_scalar(n[c]) for c in ("a", "b") if c in n)


def has_quad(n):
    if n["t"] == "model" and n["kind"] in QUAD:
        return True
    return any(has_quad(n[c]) for c in ("a", "b") if c in n)


def multilinear_coeffs(f, labs, spin):
    """unique multilinear representation of a function on {0,1}^n / {1,-1}^n"""
    coeffs = {}
    n = len(labs)
    for r in range(n + 1):
        for sub in itertools.combinations(labs, r):
            if spin:
                tot = F(0)
                for bits in itertools.product((1, -1), repeat=n):
                    x = dict(zip(labs, bits))
                    p = 1
                    for i in sub:
                        p *= x[i]
                    tot += f(x) * p
                c = tot / (2 ** n)
            else:
                c = F(0)
                for r2 in range(r + 1):
                    for s2 in itertools.combinations(sub, r2):
                        x = {l: (1 if l in s2 else 0) for l in labs}
                        c += (-1) ** (r - r2) * f(x)
            if c != 0:
                coeffs[tuple(sub)] = c
    return coeffs


def oracle(case, out):
    v = []
    if case["op"] == "value":
        spin = case["fn"] in ("puso", "quso")
        x = {l: F(val) for l, val in case["x"]}
        want = raw_eval([(k, F(c[0], c[1])) for k, c in out["items"]], x)
        if F(out["value"]) != want:
            v.append("%s_value returned %s, direct evaluation gives %s" % (case["fn"], out["value"], want))
        if "method" in out and F(out["method"]) != want:
            v.append(".value returned %s, direct evaluation gives %s" % (out["method"], want))
        return v
    tree = case["tree"]
    spin = case["spin"]
    if "error" in out:
        if not has_quad(tree) and not has_bad_scalar(tree):
            v.append("expression without degree-2 kinds raised %s" % out["error"])
        return v
    labs = sorted(tree_labels(tree, set()))
    if len(labs) > 7:
        return v
    rk = result_kind(tree)
    if out["kind"] != rk:
        v.append("result type %s, expected the model operand's type %s" % (out["kind"], rk))
    f = lambda x: denote(tree, x)
    items = [(k, F(c)) for k, c in out["raw_items"]]
    for bits in itertools.product((1, -1) if spin else (0, 1), repeat=len(labs)):
        x = dict(zip(labs, bits))
        got = sum((c * _prod(x, k) for k, c in items), F(0))
        if got != f(x):
            v.append("result evaluates to %s at %s, polynomial arithmetic gives %s" % (got, x, f(x)))
            break
    if rk != "DictArithmetic":
        # canonical storage: sorted duplicate-free keys, no zero, and equal to the unique multilinear form
        for k, c in items:
            if list(k) != sorted(set(k)) or c == 0:
                v.append("non-canonical entry %r: %s" % (k, c))
        want = multilinear_coeffs(f, labs, spin)
        got = {tuple(k): c for k, c in items}
        if got != want and not v:
            v.append("stored terms differ from the unique multilinear form of the same function: %r vs %r" % (got, want))
    return v


def _prod(x, k):
    p = 1
    for i in k:
        p *= x[i]
    return p


def nontrivial(case, out):
    if case["op"] == "value":
        return any(k for k, _ in case["terms"])
    t = case["tree"]
    return t["t"] in ("bin", "self") and bool(tree_labels(t, set()))


def tags(case, out):
    if case["op"] == "value":
        return ["value:%s:%s:%s" % (case["fn"], "dict" if case["form"] == "dict" else "obj", case["cont"])]
    t = case["tree"]
    res = ["tree:root=%s%s" % (t["t"], ":inplace" if t.get("ip") else ""),
           "tree:%s" % ("error:" + out["error"] if "error" in out else "ok:" + out["kind"])]
    if '"fl": true' in __import__("json").dumps(t):
        res.append("float-coefficients-below-2**-52")
    return res
