"""C11 — annealers return well-formed results whose values match their states."""
import itertools
from fractions import Fraction as F
import common as C
import gens as G
import anneal_common as A

ID = "C11"
ISOLATE = True      # the implementation side runs in child processes: a crash of the C extension is reported, not fatal
IMPORTS = "From QV.Model Require Import Base Matrix Convert Reduce Anneal.\nFrom QV.Corr Require Import C11."
CASE_TYPE = "(cin * cout)"
RUN, EQB = "run_case", "out_eqb"
CHUNK = 20
COQ_TAGF = "tag_of"
COQ_TAG_NAMES = ["model-decided", "model-unknown", "model-error"]
N = {"quick": 300, "thorough": 3000}
RULE = ("the four annealers on dicts, labelled and Matrix models (gaps, stale variables, offsets, linear-only and variable-free "
        "models, dyadic couplings so that all double arithmetic is exact), schedules: explicit lists with zeros / positive "
        "temperatures / empty, 'linear' and 'geometric' with and without temperature_range, with and without initial_state, "
        "both visiting orders, num_anneals in {-1,0,1,2,3,4}, random seeds; the C extension is rebuilt from /repo's sources; "
        "non-trivial = at least two spins and one coupling; distinct by canonical JSON")
THEOREMS = "C11_quso_kernel C11_puso_kernel C11_value_with_offset C11_package C11_arrays C11_prepared_matrix C11_prepared_labelled C11_anneal_quso_matrix C11_anneal_spin C11_anneal_renumbered C11_anneal_bool C11_none_spin C11_none_bool"
MODELLED = ("exp() is not modelled: acceptance at T > 0 consults rational enclosures of exp(-dE/T) (mpmath, 60 digits, widened "
            "by 2^-40); decisions inside an enclosure make the model's answer Unknown and are counted, not compared")
TRUSTED = ["gcc build of the extension from /repo's C sources into a scratch directory",
           "harness/anneal_common.py: exact reference kernels (used to collect the exp() enclosures) and mpmath"]
MODES = ("zero", "pos", "mixed", "named", "empty")


def pre_import(scratch):
    A.install_extension(A.build_extension(scratch))


def gen(rng, i, tier):
    return A.gen_case(rng, tier, MODES)


def run_impl(case):
    import qubovert as qv
    model = A.build_model(case)
    snap = C.snapshot(model)
    out = {}
    try:
        res = A.call_impl(case, model)
    except (KeyError, ValueError, TypeError) as ex:
        return {"error": type(ex).__name__, "Ts": [], "tab": [], "checks": []}
    if C.snapshot(model) != snap:
        raise C.PurityError("%s mutated the model passed in" % A.FNS[case["fn"]])
    Ts = A.observed_Ts(case, model) if case["num"] > 0 else []
    tab = A.ExpTable()
    ref = None
    if case["num"] > 0:
        try:
            ref = A.reference_run(case, model, Ts, tab)
        except A.Undecided:
            ref = "undecided"
    out["results"] = A.results_json(res)
    out["best"] = None if res.best is None else str(C.toF(res.best.value))
    out["type"] = type(res).__name__
    out["Ts"] = [str(x) for x in Ts]
    out["tab"] = [[str(x), str(lo), str(hi)] for x, (lo, hi) in tab.tab.items()]
    out["ref"] = ref
    out["checks"] = check(case, model, res, out)
    return out


def check(case, model, res, out):
    """the property itself on the implementation's results"""
    import qubovert as qv
    v = []
    fn = case["fn"]
    spin = fn in (0, 1)
    want_n = max(case["num"], 0)
    if len(res) != want_n:
        v.append("%d results for num_anneals=%d" % (len(res), case["num"]))
    if out["type"] != "AnnealResults":
        v.append("result is %s" % out["type"])
    # the model's variables
    if case["kind"] and case["kind"].endswith("Matrix"):
        mi = model.max_index
        want_vars = set(range(mi + 1)) if mi is not None else set()
    elif case["kind"]:
        want_vars = set(model.variables)
    else:
        want_vars = {i for k in model for i in k}
    items = [(tuple(k), C.toF(c)) for k, c in model.items()]
    dom = (1, -1) if spin else (0, 1)
    vals = []
    true_vars = {i for k in model for i in k}
    matrix = bool(case["kind"] and case["kind"].endswith("Matrix"))
    for r in res:
        # exactly the model's variables; for a model with stale bookkeeping (reported variables that occur in no term)
        # anything between the occurring and the reported variables is accepted (the boolean wrappers convert the
        # model first and so see only the occurring ones) -- for Matrix inputs always a full range 0..k
        ok = true_vars <= set(r.state) <= want_vars
        if matrix and set(r.state) != set(range(len(r.state))):
            ok = False
        if not ok:
            v.append("state over %r, model variables %r (occurring: %r)" % (
                sorted(map(str, r.state)), sorted(map(str, want_vars)), sorted(map(str, true_vars))))
            break
        if any(x not in dom for x in r.state.values()):
            v.append("state value outside %r" % (dom,))
            break
        if bool(r.spin) != spin:
            v.append("spin flag %r for %s" % (r.spin, A.FNS[fn]))
        tot = F(0)
        for k, c in items:
            p = 1
            for i in k:
                p *= r.state[i]
            tot += c * p
        if C.toF(r.value) != tot:
            v.append("value %s but the model evaluates to %s at the returned state" % (r.value, tot))
            break
        vals.append(C.toF(r.value))
    if vals and (res.best is None or C.toF(res.best.value) != min(vals)):
        v.append("best.value %s, smallest value %s" % (None if res.best is None else res.best.value, min(vals)))
    if not vals and want_n == 0 and res.best is not None:
        v.append("best is set on an empty result")
    return v


def literal(case, out):
    return A.literal(case, out)


def oracle(case, out):
    return out["checks"][:3]


def nontrivial(case, out):
    labs = {i for k, _ in case["terms"] for i in k}
    return len(labs) >= 2 and any(len(k) >= 2 for k, _ in case["terms"])


def tags(case, out):
    t = ["fn:" + A.FNS[case["fn"]] + ":" + (case["kind"] or "dict"),
         "schedule:" + ("explicit" if case["Ts"] is not None else case["sched"]["schedule"]),
         "init:" + ("given" if case["init"] else "random"), "order:" + ("in" if case["in_order"] else "random"),
         "num:%d" % case["num"]]
    if "error" in out:
        t.append("error:" + out["error"])
    elif out.get("ref") == "undecided":
        t.append("reference:undecided")
    elif out.get("ref") == "novars":
        t.append("variable-free")
    if out.get("tab"):
        t.append("uses-exp")
    if any(abs(v[0]) >= 2 ** 20 * v[1] for _, v in case["terms"] if _):
        t.append("coefficients-need-25-bits")
    return t
