"""C19 — models survive copy and info round trips and never alias their inputs."""
import copy as pycopy
from fractions import Fraction as F
import common as C
import gens as G
from props.c05 import KIND, QUAD, BOOL, SPIN, cls_of
from props import c14, c02, c03

ID = "C19"
IMPORTS = ("From QV.Model Require Import Base Matrix Arith Expr Extrema Sat PCBO Convert PCSO Info.\n"
           "From QV.Proofs Require Import InvProofs.\nFrom QV.Corr Require Import C02 C19.")
CASE_TYPE = "(C19.cin * C19.cout)"
RUN, EQB = "C19.run_case", "C19.out_eqb"
CHUNK = 50
N = {"quick": 400, "thorough": 4000}
RULE = ("models of all ten kinds after a short history of edits (stale bookkeeping included), PCBO/PCSO with 0-2 recorded "
        "constraints, with and without a name; round trip through get_info / create_from_info; then mutation of every "
        "returned object (copy, mapping, reverse_mapping, variables, constraints, info) and re-observation of the source; "
        "non-trivial = at least two variables; distinct by canonical JSON")
THEOREMS = "C19_roundtrip C19_requal C19_copy"
MODELLED = ("object identity is outside the model: the model has value semantics, and the implementation is compared with it "
            "after mutating everything it returned")
NAMES = [None, None, 'a', 'zz', 3]


def gen(rng, i, tier):
    G.DYADIC_ONLY = True      # PCSO constraints go through float-valued conversions
    try:
        return gen_(rng, i, tier)
    finally:
        G.DYADIC_ONLY = False


def gen_(rng, i, tier):
    base = c14.gen(rng, i, "quick")
    if rng.random() < 0.08:           # degenerate models: only an offset, or nothing at all
        off = G.coef(rng)
        base["init"] = G.jraw([((), off)] if rng.random() < 0.8 else [])
        base["edits"] = []
    kind = base["kind"]
    edits = [e for e in base["edits"] if e["e"] in ("set", "aug", "update", "refresh")][:4]
    calls = []
    if kind in ("PCBO", "PCSO") and rng.random() < 0.7:
        labs = sorted({C.dec(x) for k, _ in base["init"] for x in k}, key=C.enc) or G.labels(rng, 'pool', 2)
        if len(labs) < 2:
            labs = labs + [l for l in C.POOL if l not in labs][:2]
        for _ in range(rng.randint(1, 2)):
            calls.append(c03.gen_call(rng, labs) if kind == "PCSO" else c02.gen_call(rng, labs))
    post = []
    if calls and rng.random() < 0.3:
        # a product with a one-term polynomial after the constraints: the general product path keeps the ancillas (and their
        # counter) but not the constraint records -- the round trip has to carry that state too
        c1 = rng.choice([F(2), F(-1), F(1, 2)])
        post = [{"e": "imul", "okind": "raw", "terms": [[[], [c1.numerator, c1.denominator]]]}]
    return {"kind": kind, "init": base["init"], "edits": edits, "calls": calls, "post": post, "name": rng.choice(NAMES)}


def ninfo(info):
    """get_info as JSON-able canonical data"""
    name = info["name"]
    out = {"kind": info["type"], "terms": C.jterms(C.enc_terms(info["terms"])),
           "name": None if name is None else C.enc(name),
           "mp": [[C.enc(k), v] for k, v in (info.get("mapping") or {}).items()],
           "anc": info.get("num_ancillas", 0),
           "cons": [[r, C.jterms(C.enc_terms(P))] for r in c02.REL for P in info.get("constraints", {}).get(r, [])]}
    return out


def build(case):
    import qubovert as qv
    M = cls_of(case["kind"])({k: C.num(v) for k, v in G.unjraw(case["init"])})
    for e in case["edits"]:
        M = c14.apply(M, e)
    for c in case["calls"]:
        P = {k: C.num(v) for k, v in G.unjraw(c["P"])}
        lam = C.num(F(*c["lam"]))
        b = None if c["bounds"] is None else tuple(None if x is None else C.num(F(*x)) for x in c["bounds"])
        kw = {"lam": lam, "bounds": b, "suppress_warnings": True}
        if c["rel"] != "eq":
            kw["log_trick"] = c["log"]
        getattr(M, "add_constraint_%s_zero" % c["rel"])(P, **kw)
    for e in case.get("post", []):
        M = c14.apply(M, e)
    M.name = case["name"]
    return M


def run_impl(case):
    import qubovert as qv
    try:
        M = build(case)
    except (KeyError, ValueError, TypeError) as ex:
        return {"error": type(ex).__name__, "checks": []}
    checks = []
    info = C.pure_call(qv.utils.get_info, M)
    M2 = qv.utils.create_from_info(info)
    info2 = qv.utils.get_info(M2)
    out = ninfo(info2)
    out["orig"] = ninfo(info)
    if not (info2 == info and type(M2) is type(M)):
        checks.append("get_info(create_from_info(get_info(M))) != get_info(M): %r vs %r" % (ninfo(info2), ninfo(info)))
    # ---- independence of everything the model hands out --------------------------------------------
    ref = C.snapshot_unordered(M)

    def still(what):
        if C.snapshot_unordered(M) != ref:
            checks.append("mutating %s changed the model" % what)
    c = M.copy()
    c[(C.POOL[0],) if not case["kind"].endswith("Matrix") else (0,)] += 5
    still("copy()")
    c2 = type(M)(M)
    c2[(C.POOL[1],) if not case["kind"].endswith("Matrix") else (1,)] += 5
    still("the copy constructor's result")
    v = M.variables
    v.add('mutant')
    still("variables")
    if hasattr(M, "mapping"):
        mp = M.mapping
        mp['mutant'] = 99
        rm = M.reverse_mapping
        rm[99] = 'mutant'
        still("mapping / reverse_mapping")
    if hasattr(M, "constraints"):
        cs = M.constraints
        for r in cs:
            for P in cs[r]:
                P[()] += 1
            cs[r].append({})
        cs['zz'] = []
        still("constraints")
    # ---- the same from the other side: the copies do not follow later changes of the model, constraint records included
    if hasattr(M, "constraints"):
        a, b = M.copy(), type(M)(M)
        refs = (C.snapshot(a), C.snapshot(b))
        lab = C.POOL[3]
        for r in list(M.constraints) or ["eq"]:
            getattr(a, "add_constraint_%s_zero" % r)({(lab,): 1, (): -1 if r in ("eq", "le", "ge") else 0}, lam=1, suppress_warnings=True)
            still("a constraint (%s) added to copy()" % r)
        refa = C.snapshot(a)
        for r in list(M.constraints) or ["eq"]:
            getattr(b, "add_constraint_%s_zero" % r)({(lab,): 1, (): -1 if r in ("eq", "le", "ge") else 0}, lam=1, suppress_warnings=True)
            still("a constraint (%s) added to the copy constructor's result" % r)
        if C.snapshot(a) != refa:
            checks.append("two copies of one model share state: changing one changed the other")
        s = M + M
        rs = C.snapshot(M)
        for r in list(M.constraints):
            getattr(s, "add_constraint_%s_zero" % r)({(lab,): 1, (): -1 if r in ("eq", "le", "ge") else 0}, lam=1, suppress_warnings=True)
        still("a constraint added to M + M")
    # ---- update(): the receiver takes the terms and the constraint records over, not the argument's containers
    if hasattr(M, "constraints"):
        H2 = type(M)()
        H2.update(M)
        lab2 = C.POOL[4]
        for r in list(M.constraints) or ["eq"]:
            getattr(H2, "add_constraint_%s_zero" % r)({(lab2,): 1, (): -1 if r in ("eq", "le", "ge") else 0}, lam=1, suppress_warnings=True)
            still("a constraint (%s) added to a model that was update()d from M" % r)
        H2[(lab2,)] += 3
        still("an edit of a model that was update()d from M")
    # ---- library functions leave their arguments alone (the purity monitor compares deep snapshots before / after)
    try:
        menu_calls(M, case)
    except C.PurityError as ex:
        checks.append(str(ex))
    # ---- the info dictionary and the model rebuilt from it are independent of each other and of M, in both directions
    import copy
    info_ref = copy.deepcopy(info)
    M2[(C.POOL[2],) if not case["kind"].endswith("Matrix") else (2,)] += 1      # a new variable: mapping grows
    still("the round-trip copy")
    if info != info_ref:
        checks.append("changing the model rebuilt by create_from_info changed the info dictionary it was built from")
    M3 = qv.utils.create_from_info(info)
    ref3 = C.snapshot(M3)
    info['terms'][()] = 12345
    if info.get('mapping') is not None:
        info['mapping']['mutant'] = 99
    for r, lst in info.get('constraints', {}).items():
        for P in lst:
            P[()] += 1
    still("get_info's result")
    if C.snapshot(M3) != ref3:
        checks.append("mutating the info dictionary changed the model create_from_info built from it")
    # ---- set_mapping / set_reverse_mapping copy what they are given
    if hasattr(M, "set_mapping"):
        for setter, getter in (("set_mapping", "mapping"), ("set_reverse_mapping", "reverse_mapping")):
            M4 = M.copy()
            arg = dict(getattr(M4, getter))
            arg_ref = dict(arg)
            getattr(M4, setter)(arg)
            M4[('fresh-label',)] += 1
            if arg != arg_ref:
                checks.append("%s keeps the caller's dictionary: a new variable of the model was written into it" % setter)
            before = dict(getattr(M4, getter))
            arg['mutant'] = 99
            if getattr(M4, getter) != before:
                checks.append("%s keeps the caller's dictionary: changing it afterwards changed the model's %s" % (setter, getter))
        still("set_mapping on a copy")
    out["checks"] = checks
    return out


def menu_calls(M, case):
    """solvers, converters, extrema, value functions, normalisation, substitution, annealers on the model and on a plain
    dict with the same items; every call goes through the purity monitor"""
    import qubovert as qv
    import warnings
    spin = case["kind"] in ("QUSO", "PUSO", "PCSO", "QUSOMatrix", "PUSOMatrix")
    quad = case["kind"] in ("QUBO", "QUSO", "QUBOMatrix", "QUSOMatrix")
    small = len({i for k in M for i in k}) <= 6
    u = qv.utils
    pc = lambda fn, *a, **k: C.pure_call_u(fn, *a, _tolerate=(ValueError, KeyError, TypeError, ZeroDivisionError), **k)
    D = dict(M)
    for X in (M, D):
        if X is D and quad is False and any(len(set(k)) != len(k) for k in D):
            continue
        fam = ("quso" if quad else "puso") if spin else ("qubo" if quad else "pubo")
        if small:
            for allsol in (False, True):
                pc(getattr(u, "solve_%s_bruteforce" % fam), X, allsol)
        conv = {"pubo": u.pubo_to_puso, "puso": u.puso_to_pubo, "qubo": u.qubo_to_quso, "quso": u.quso_to_qubo}[fam]
        pc(conv, X)
        pc(getattr(u, "approximate_%s_extrema" % fam), X)
        labs = sorted({i for k in X for i in k}, key=repr)
        x = {l: (1 if not spin else -1) for l in labs}
        pc(getattr(u, "%s_value" % fam), x, X)
        pc(u.normalize, X)
        if labs:
            pc(u.subvalue, {labs[0]: 1}, X)
            pc(u.subgraph, X, set(labs[:1]))
        if small:
            with warnings.catch_warnings():
                warnings.simplefilter("ignore")
                pc(getattr(qv.sim, "anneal_%s" % fam), X, num_anneals=2, anneal_duration=5, seed=1)
                pc(qv.sim.anneal_temperature_range, X, spin=spin)
    if hasattr(M, "solve_bruteforce") and small:
        pc(lambda m: m.solve_bruteforce(), M)
        pc(lambda m: m.solve_bruteforce(True), M)
    for meth in ("to_qubo", "to_quso", "to_pubo", "to_puso", "to_enumerated"):
        if hasattr(M, meth) and len(M) <= 12:
            pc(lambda m: getattr(m, meth)(), M)


def literal(case, out):
    tl = lambda j: C.termsl([(k, F(v[0], v[1])) for k, v in j])
    calls = []
    for c in case["calls"]:
        b = "(None, None)" if c["bounds"] is None else "(%s, %s)" % tuple(C.optc(x, lambda y: C.q(F(*y))) for x in c["bounds"])
        calls.append("{| c_rel := %s; c_P := %s; c_lam := %s; c_log := %s; c_bounds := %s |}" % (
            c02.RELC[c["rel"]], tl(c["P"]), C.q(F(*c["lam"])), C.boolc(c["log"]), b))
    name = None if case["name"] is None else C.enc(case["name"])
    cin = "{| c_kind := %s; c_init := %s; c_edits := [%s]; c_calls := [%s]; c_post := [%s]; c_name := %s |}" % (
        KIND[case["kind"]], tl(case["init"]), "; ".join(c14.edit_lit(e) for e in case["edits"]), "; ".join(calls),
        "; ".join(c14.edit_lit(e) for e in case.get("post", [])), C.optc(name, C.nat))
    if "error" in out:
        exp = "OErr %s" % out["error"]
    else:
        exp = "OInfo {| r_kind := %s; r_terms := %s; r_name := %s; r_mp := [%s]; r_anc := %d%%nat; r_cons := [%s] |}" % (
            KIND[out["kind"]], tl(out["terms"]), C.optc(out["name"], C.nat),
            "; ".join("(%d%%nat, %d%%nat)" % (a, b) for a, b in out["mp"]), out["anc"],
            "; ".join("(%s, %s)" % (c02.RELC[r], tl(P)) for r, P in out["cons"]))
    return "(%s, %s)" % (cin, exp)


def oracle(case, out):
    return out.get("checks", [])[:3]


def nontrivial(case, out):
    return "error" not in out and len({i for k, _ in out["terms"] for i in k}) >= 2


def tags(case, out):
    t = ["kind:" + case["kind"], "name:" + ("none" if case["name"] is None else "set"), "constraints:%d" % len(case["calls"])]
    if "error" in out:
        t.append("error:" + out["error"])
    return t
