"""C01 — degree reduction never undercuts the model and is exact on consistent ancillas."""
import itertools
from fractions import Fraction as F
import common as C
import gens as G
from props.c05 import KIND, cls_of

ID = "C01"
IMPORTS = "From QV.Model Require Import Base Matrix Convert Reduce.\nFrom QV.Corr Require Import C01."
CASE_TYPE = "(cin * cout)"
RUN, EQB = "run_case", "out_eqb"
CHUNK = 50
N = {"quick": 500, "thorough": 6000}
RULE = ("PUBO / PCBO / PUSO / PCSO models (2-6 variables, degree up to 5, labels of mixed types, models with stale variables, "
        "35 % renumbered with set_mapping / set_reverse_mapping, histories convert - edit - convert incl. same-hash coefficient changes) "
        "through to_pubo(deg) / to_qubo / to_quso / to_puso(deg) with deg in {None, 2..5}, penalty None / constant small and "
        "large / callable, pairs hints incl. unknown labels; non-trivial = at least one reduction needed (degree > target); "
        "distinct by canonical JSON")
THEOREMS = "C01_core C01_extension C01_lower C01_lower_default C01_minimiser C01_degree C01_to_quso C01_to_puso C01_spin_extension C01_spin_lower C01_step C01_renumbered_extension C01_renumbered_minimiser"
MODELLED = ("callable penalties come from a fixed menu; the spin route multiplies by float constants (exact on the dyadic "
            "coefficients generated)")

KINDS = ["PUBO", "PCBO", "PUSO", "PCSO"]
METH = ["to_pubo", "to_qubo", "to_quso", "to_puso"]
LAMF = [lambda v: 2 * abs(v) + F(1, 2), lambda v: abs(v), lambda v: 1]


def gen(rng, i, tier):
    G.DYADIC_ONLY = True
    try:
        kind = rng.choice(KINDS)
        spin = kind in ("PUSO", "PCSO")
        uni = rng.choice(['int', 'pool'])
        for _ in range(6):
            t = G.raw_terms(rng, uni, max_vars=6 if not spin else 5, max_terms=6 if not spin else 4, max_deg=5 if not spin else 4,
                            repeats=rng.random() < 0.2)
            if len({x for k, _ in t for x in k}) >= 3 or rng.random() < 0.15:
                break
        labs0 = sorted({x for k, _ in t for x in k}, key=C.enc)
        if len(labs0) >= 3 and rng.random() < 0.85:      # make sure something has to be reduced
            k = tuple(rng.sample(labs0, rng.randint(3, min(len(labs0), 5 if not spin else 4))))
            if k not in [kk for kk, _ in t]:
                t.append((k, G.coef(rng)))
        upd = []
        r_upd = rng.random()
        if t and r_upd < 0.15:
            k = rng.choice(t)[0]
            upd = [(k, F(0))]                # stale variables
        elif t and r_upd < 0.40:             # new values for existing terms: same number of terms, degree and variables
            upd = [(k, G.coef(rng)) for k in {rng.choice(t)[0] for _ in range(rng.randint(1, 2))}]
        warm = rng.random() < 0.4            # history: convert, edit (upd), convert again -- the second result is observed
        pre = []
        if warm and t and rng.random() < 0.3:
            # same keys, one coefficient replaced by a different number with the same hash() (-1 and -2 in CPython): nothing a
            # conversion remembered under a hash of the items may be taken for the current model
            k = max(t, key=lambda kv: (len(set(kv[0])), rng.random()))[0] if rng.random() < 0.6 else rng.choice(t)[0]
            a, b = rng.choice([(F(-1), F(-2)), (F(-2), F(-1))])
            pre, upd = [(k, a)], [(k, b)]
        meth = rng.randrange(4)
        deg = rng.choice([None, 2, 2, 2, 3, 3, 4]) if meth in (0, 3) else None
        if rng.random() < 0.04 and meth in (0, 3):
            deg = rng.choice([0, 1])         # ValueError
        lm = rng.choice(["default", "default", "const", "fun"])
        if lm == "const":
            c = rng.choice([F(0), F(1, 2), F(3), F(40), F(7, 2)])
            lam = ["const", [c.numerator, c.denominator]]
        elif lm == "fun":
            lam = ["fun", rng.randrange(3)]
        else:
            lam = ["default"]
        labs = sorted({x for k, _ in t for x in k}, key=C.enc)
        pairs = None
        if len(labs) >= 2 and rng.random() < 0.5:
            pairs = [[C.enc(x) for x in rng.sample(labs, 2)] for _ in range(rng.randint(1, 3))]
            if rng.random() < 0.3:
                other = [l for l in (C.POOL if uni == 'pool' else range(8)) if l not in labs]
                if other:
                    pairs.append([C.enc(rng.choice(other)), C.enc(labs[0])])
        return {"kind": kind, "terms": G.jraw(t), "upd": G.jraw(upd), "meth": meth, "deg": deg, "lam": lam, "pairs": pairs,
                "warm": warm, "remap": c04_remap(rng), "pre": G.jraw(pre)}
    finally:
        G.DYADIC_ONLY = False


def build(case):
    m = cls_of(case["kind"])({k: C.num(v) for k, v in G.unjraw(case["terms"])})
    for k, v in G.unjraw(case.get("pre", [])):
        m[k] = C.num(v)
    if case.get("warm"):
        # every conversion once before the edit: whatever a conversion may remember must not survive the edit
        for meth, kw in (("to_qubo", {}), ("to_quso", {}), ("to_pubo", {"deg": case["deg"]}), ("to_puso", {"deg": case["deg"]})):
            try:
                getattr(m, meth)(**kw)
            except (KeyError, ValueError, TypeError):
                pass
    for k, v in G.unjraw(case["upd"]):
        m[k] = C.num(v)
    return m


def c04_mp_lit(installed):
    from props import c04
    return c04.mp_lit(installed)


def c04_remap(rng):
    from props import c04
    return c04.gen_remap(rng)


def py_lam(lam):
    if lam[0] == "default":
        return None
    if lam[0] == "const":
        return C.num(F(*lam[1]))
    return LAMF[lam[1]]


def call(M, case):
    lam = py_lam(case["lam"])
    pairs = None if case["pairs"] is None else {tuple(C.dec(x) for x in p) for p in case["pairs"]}
    meth = METH[case["meth"]]
    if case["meth"] in (0, 3):
        return getattr(M, meth)(deg=case["deg"], lam=lam, pairs=pairs)
    return getattr(M, meth)(lam=lam, pairs=pairs)


def run_impl(case):
    from props import c04
    M = build(case)
    installed = c04.apply_remap(M, case.get("remap"))       # a user-chosen numbering (set_mapping / set_reverse_mapping)
    snap = C.snapshot(M)
    try:
        D = call(M, case)
    except (KeyError, ValueError, TypeError) as ex:
        return {"error": type(ex).__name__, "remap": installed}
    if C.snapshot(M) != snap:
        raise C.PurityError("%s mutated the model" % METH[case["meth"]])
    out = {"kind": type(D).__name__, "terms": C.jterms(C.enc_terms(D)),
           "n": M.num_binary_variables, "mapping": [[C.enc(k), v] for k, v in M.mapping.items()],
           "degree": (None if M.degree == -float("inf") else int(M.degree)),
           "src": C.jterms(C.enc_terms(M, sort_keys=False)), "remap": installed}
    # the implementation's own convert_solution on assignments of D's variables (model variables 0..n-1 and ancillas), with
    # the spin flag and -- where the values themselves tell the form -- without it
    n = M.num_binary_variables
    labs = sorted({i for k in D for i in k} | set(range(n)))
    spin_out = case["meth"] in (2, 3)
    conv = []
    if len(labs) <= 9 and labs == list(range(len(labs))):
        dom = (1, -1) if spin_out else (0, 1)
        for bits in itertools.product(dom, repeat=len(labs)):
            sol = dict(zip(labs, bits))
            forms = [M.convert_solution(dict(sol), spin_out), M.convert_solution(list(bits), spin_out)]
            if any(b != 1 for b in bits):           # all ones is the one ambiguous case: the flag decides it
                forms.append(M.convert_solution(dict(sol)))
                forms.append(M.convert_solution(tuple(bits)))
            conv.append([list(bits), [sorted([C.enc(k), int(x)] for k, x in f.items()) for f in forms]])
    out["conv"] = conv
    return out


def lam_lit(lam):
    if lam[0] == "default":
        return "LDefault"
    if lam[0] == "const":
        return "(LConst %s)" % C.q(F(*lam[1]))
    return "(LFun %d%%nat)" % lam[1]


def literal(case, out):
    tl = lambda j: C.termsl([(k, F(v[0], v[1])) for k, v in j])
    case = dict(case, upd=case.get("pre", []) + case["upd"])
    cin = "{| d_kind := %s; d_terms := %s; d_upd := %s; d_meth := %d%%nat; d_deg := %s; d_lam := %s; d_pairs := [%s]; d_mp := %s |}" % (
        KIND[case["kind"]], tl(case["terms"]), tl(case["upd"]), case["meth"], C.optc(case["deg"], C.nat), lam_lit(case["lam"]),
        "; ".join(C.keyl(p) for p in (case["pairs"] or [])), c04_mp_lit(out.get("remap")))
    exp = "OErr %s" % out["error"] if "error" in out else "OModelOut %s %s" % (KIND[out["kind"]], tl(out["terms"]))
    return "(%s, %s)" % (cin, exp)


def ev(items, x):
    tot = F(0)
    for k, v in items:
        p = 1
        for i in k:
            p *= x[i]
        tot += F(v[0], v[1]) * p
    return tot


def bool_form_coefs(case, out):
    """|coefficients| of the boolean-form terms that get reduced (for the adequacy of a constant penalty)"""
    src = [(k, F(v[0], v[1])) for k, v in out["src"]]
    if case["kind"] in ("PUSO", "PCSO"):
        res = {}
        for k, v in src:
            terms = {(): v}
            for l in k:
                new = {}
                for kk, c in terms.items():
                    new[kk] = new.get(kk, 0) + c
                    k2 = tuple(sorted(set(kk) | {l}))
                    new[k2] = new.get(k2, 0) - 2 * c
                terms = new
            for kk, c in terms.items():
                res[kk] = res.get(kk, 0) + c
        src = list(res.items())
    return src


def oracle(case, out):
    v = []
    if "error" in out:
        if not (case["deg"] is not None and case["deg"] < 2):
            v.append("%s raised %s" % (METH[case["meth"]], out["error"]))
        return v
    n = out["n"]
    D = out["terms"]
    spin_out = case["meth"] in (2, 3)
    spin_src = case["kind"] in ("PUSO", "PCSO")
    want_kind = ["PUBOMatrix", "QUBOMatrix", "QUSOMatrix", "PUSOMatrix"][case["meth"]]
    if out["kind"] != want_kind:
        v.append("%s returned %s" % (METH[case["meth"]], out["kind"]))
    target = 2 if case["meth"] in (1, 2) else (case["deg"] if case["deg"] is not None else out["degree"] or 0)
    if any(len(k) > max(target, 0) for k, _ in D) and D:
        v.append("result has a term of degree %d > requested %d" % (max(len(k) for k, _ in D), target))
    labs = sorted({i for k, _ in D for i in k})
    rmp = {b: a for a, b in out["mapping"]}
    if sorted(rmp) != list(range(n)):
        v.append("mapping is not onto 0..n-1")
        return v
    anc = [l for l in labs if l >= n]
    allv = list(range(n)) + anc
    if len(allv) > 13:
        return v
    src = out["src"]
    # penalty adequate?
    lam = case["lam"]
    reduced = [abs(c) for k, c in bool_form_coefs(case, out) if len(set(k)) > target]
    adequate = lam[0] == "default" or (lam[0] == "fun" and lam[1] in (0, 1)) or \
        (lam[0] == "const" and all(F(*lam[1]) >= c for c in reduced)) or (lam[0] == "fun" and lam[1] == 2 and all(1 >= c for c in reduced))
    dom_out = (1, -1) if spin_out else (0, 1)
    convd = {tuple(b): fs for b, fs in out.get("conv", [])} if sorted(allv) == list(range(len(allv))) else {}
    best = {}
    for bits in itertools.product(dom_out, repeat=len(allv)):
        s = dict(zip(allv, bits))
        dval = ev(D, s)
        # convert_solution: undo the relabelling, in the source model's own form
        xs = {}
        for i in range(n):
            b = s[i]
            if spin_out != spin_src:
                b = (1 - b) // 2 if spin_out else 1 - 2 * b
            xs[rmp[i]] = b
        mval = ev(src, xs)
        key = tuple(xs[rmp[i]] for i in range(n))
        got = convd.get(tuple(s[i] for i in sorted(s)))
        if got is not None:
            want = sorted([k, int(x)] for k, x in xs.items())
            for j, f in enumerate(got):
                if f != want:
                    v.append("convert_solution(%s%s) = %s, the mapping gives %s" % (s, ", spin flag" if j < 2 else "", f, want))
                    return v
        if adequate and dval < mval:
            v.append("D(s) = %s < M(convert_solution(s)) = %s at s = %s" % (dval, mval, s))
            return v
        if dval == mval:
            best[key] = True
        else:
            best.setdefault(key, False)
    missing = [k for k, ok in best.items() if not ok]
    if missing:
        v.append("no extension s of x = %s has D(s) = M(x)" % (missing[0],))
    return v


def nontrivial(case, out):
    if "error" in out:
        return False
    return any(l >= out["n"] for k, _ in out["terms"] for l in k)


def tags(case, out):
    t = ["%s.%s" % (case["kind"], METH[case["meth"]]), "deg:%s" % case["deg"], "lam:" + case["lam"][0],
         "pairs:" + ("none" if case["pairs"] is None else "given")]
    if "error" in out:
        t.append("error:" + out["error"])
    else:
        t.append("ancillas:%d" % min(4, len({l for k, _ in out["terms"] for l in k if l >= out["n"]})))
    if case["upd"]:
        t.append("stale-model")
    if case.get("pre"):
        t.append("same-hash-coefficient-change")
    if out.get("remap"):
        t.append("remapped:" + case["remap"]["how"])
    return t
