"""C02 — PCBO comparison constraints become exact non-negative penalties."""
import itertools, warnings
from fractions import Fraction as F
import common as C
import gens as G

ID = "C02"
IMPORTS = "From QV.Model Require Import Base Matrix Arith Expr Extrema Sat PCBO.\nFrom QV.Corr Require Import C02."
CHUNK = 25
CASE_TYPE = "(cin * cout)"
RUN, EQB = "run_case", "out_eqb"
N = {"quick": 500, "thorough": 6000}
RULE = ("sequences of 1-3 comparison constraints on one PCBO (optionally with an objective): integer-coefficient polynomials "
        "from a random stream and a special-form stream (at-most-one, a == b*c, 1 - x - y, x - y, offsets at the bound), six "
        "relations, log_trick both ways, bounds omitted / exact / loose / one-sided / fractional, lam in {1, 2, 1/2, 7/4, 0}; "
        "non-trivial = a constraint polynomial with >= 2 variables that is neither always satisfied nor unsatisfiable; distinct "
        "by canonical JSON")
THEOREMS = ""
COQ_TAGF = "tag_of"
MODELLED = "warnings are observed through warnings.catch_warnings; ancilla names '__aK' are coded as labels 100+K"
REL = ["eq", "ne", "lt", "le", "gt", "ge"]
RELC = {"eq": "REq", "ne": "RNe", "lt": "RLt", "le": "RLe", "gt": "RGt", "ge": "RGe"}
HOLDS = {"eq": lambda v: v == 0, "ne": lambda v: v != 0, "lt": lambda v: v < 0, "le": lambda v: v <= 0,
         "gt": lambda v: v > 0, "ge": lambda v: v >= 0}
COQ_TAG_NAMES = ["SpecialEqAnd", "EqAlways", "EqUnsatPos", "EqUnsatNeg", "EqMinZero", "EqMaxZero", "EqSquare", "LeAtMostOne",
        "LeUnarySlack", "LeOr", "LeImplies", "LeUnsat", "LeAlways", "LeSlack", "LtUnsat", "LtAlways", "LtReduce", "NeUnsat",
        "NeAlways", "NeGt", "NeLt", "NeGadget", "LamZero"]


def ev(items, x):
    tot = F(0)
    for k, v in items:
        p = 1
        for i in k:
            p *= x[i]
        tot += v * p
    return tot


def extrema(items):
    labs = sorted({i for k, _ in items for i in k}, key=C.enc)
    vals = [ev(items, dict(zip(labs, bits))) for bits in itertools.product((0, 1), repeat=len(labs))]
    return min(vals), max(vals)


def special_poly(rng, labs):
    """polynomials that drive the shortcut branches"""
    r = rng.random()
    L = lambda n: rng.sample(labs, min(n, len(labs)))
    if r < 0.2 and len(labs) >= 2:      # sum x_i - 1  (at most one / exactly one)
        ls = L(rng.randint(2, 4))
        return [((l,), F(1)) for l in ls] + [((), F(-1))]
    if r < 0.4 and len(labs) >= 3:      # a - b*c
        a, b, c = L(3)
        s = rng.choice([1, -1, 2])
        # the shortcut applies to opposite coefficients only; near misses (same sign, unequal size) must take the general route
        s2 = rng.choice([-s, -s, -s, -s, s, -2 * s])
        t = [((a,), F(s)), ((b, c), F(s2))]
        rng.shuffle(t)
        return t
    if r < 0.55 and len(labs) >= 2:     # 1 - x - y
        a, b = L(2)
        return [((), F(1)), ((a,), F(-1)), ((b,), F(-1))] if rng.random() < 0.6 else [((), F(1)), ((a, b), F(-1)), ((b,), F(-1))]
    if r < 0.7 and len(labs) >= 2:      # x - y
        a, b = L(2)
        return [((a,), F(1)), ((b,), F(-1))] if rng.random() < 0.6 else [((a, b), F(1)), ((b,), F(-1))]
    if r < 0.82:                        # non-negative coefficients with a negative offset (unary slack form)
        ls = L(rng.randint(1, 3))
        return [((l,), F(rng.randint(1, 3))) for l in ls] + [((), F(-rng.randint(1, 4)))]
    if r < 0.87:                        # a constant and nothing else (always / never satisfied), or nothing at all
        return [((), F(rng.choice([-3, -1, 1, 2, 4])))] if rng.random() < 0.8 else []
    ls = L(rng.randint(1, 3))
    return [((l,), F(rng.choice([-2, -1, 1, 2]))) for l in ls] + [((), F(rng.randint(-2, 2)))]


def random_poly(rng, labs):
    out, seen = [], set()
    for _ in range(rng.randint(1, 4)):
        k = tuple(rng.sample(labs, min(rng.choice([1, 1, 2, 2, 3]), len(labs))))
        ks = tuple(sorted(k, key=C.enc))
        if ks in seen:
            continue
        seen.add(ks)
        out.append((k, F(rng.randint(-4, 4) or 1)))
    if rng.random() < 0.6:
        out.append(((), F(rng.randint(-4, 4))))
    return out


def gen_call(rng, labs):
    P = special_poly(rng, labs) if rng.random() < 0.45 else random_poly(rng, labs)
    lo, hi = extrema(P)
    mode = rng.choice(["none", "none", "exact", "loose", "left", "right", "frac"])
    if mode == "none":
        b = None
    elif mode == "exact":
        b = [lo, hi]
    elif mode == "loose":
        b = [lo - rng.randint(0, 2), hi + rng.randint(0, 2)]
    elif mode == "left":
        b = [lo - rng.randint(0, 1), None]
    elif mode == "right":
        b = [None, hi + rng.randint(0, 1)]
    else:
        b = [lo - F(1, 2), hi + F(1, 4)]
    lam = rng.choice([F(1), F(1), F(2), F(1, 2), F(7, 4), F(3)] + ([F(0)] if rng.random() < 0.15 else []))
    jb = None if b is None else [None if x is None else [F(x).numerator, F(x).denominator] for x in b]
    # unary slack needs one ancilla per unit of range: keep those cases small so the model stays cheap to evaluate
    log = True if hi - lo > 9 else rng.random() < 0.5
    rel = rng.choice(REL)
    if len(P) == 2 and sorted(len(k) for k, _ in P) == [1, 2] and rng.random() < 0.6:
        rel = "eq"          # the two-term forms around z == x*y only matter for equality constraints
    return {"rel": rel, "P": G.jraw(P), "lam": [lam.numerator, lam.denominator], "log": log, "bounds": jb}


def huge_call(rng, labs, cheap=False):
    """a log-encoded slack over a range of 2**k (+- a few units), k = 49..53: the number of slack bits has to be right where
    double-precision logarithms no longer tell 2**k from 2**k + 1.  Integer coefficients, weights and bounds only, so that the
    library's arithmetic stays exact; far too many ancillas to enumerate: the result is compared with the model term by term"""
    k = 49 if cheap else rng.randint(49, 53)
    big = 2 ** k + (rng.choice([0, 0, 1, 3]) if cheap else rng.choice([-1, 0, 0, 0, 1, 3]))
    a, b = rng.sample(labs, 2)
    forms = [[((a,), F(1)), ((b,), F(-big))], [((a,), F(big)), ((b,), F(1)), ((), F(-big))],
             [((a, b), F(-big)), ((), F(rng.choice([0, 1])))]]
    P = rng.choice(forms[:2] if cheap else forms)        # (the third form may have a range of 2**k - 1: the plain case avoids it)
    lo, hi = extrema(P)
    mode = rng.choice(["none", "none", "exact", "loose", "left", "right"])
    b = {"none": None, "exact": [lo, hi], "loose": [lo - rng.randint(0, 2), hi + rng.randint(0, 2)],
         "left": [lo - rng.randint(0, 1), None], "right": [None, hi + rng.randint(0, 1)]}[mode]
    lam = F(rng.choice([1, 1, 2, 3]))
    jb = None if b is None else [None if x is None else [F(x).numerator, F(x).denominator] for x in b]
    rel = "le" if cheap else rng.choice(["le", "le", "ge", "lt", "gt", "ne"])
    return {"rel": rel, "P": G.jraw(P), "lam": [lam.numerator, lam.denominator], "log": True, "bounds": jb}


def later_unary_form(rng, labs, spin=False):
    """sum of positive multiples of variables <= k with unary slack (log_trick=False): the shortcut that creates its own
    ancillas -- as a later call of a sequence it must continue the numbering of the earlier constraints"""
    ls = rng.sample(labs, rng.randint(1, min(3, len(labs))))
    cs = [rng.choice([1, 1, 2]) for _ in ls]
    if spin:
        k = rng.randint(1, 2 * sum(cs) - 1)
        P = [((l,), F(-c)) for l, c in zip(ls, cs)] + [((), F(sum(cs) - k))]     # boolean image: sum 2c x - k
    else:
        k = rng.randint(1, max(1, sum(cs) - 1))
        P = [((l,), F(c)) for l, c in zip(ls, cs)] + [((), F(-k))]
    lam = rng.choice([F(1), F(2), F(1, 2)])
    return {"rel": "le", "P": G.jraw(P), "lam": [lam.numerator, lam.denominator], "log": False, "bounds": None}


def gen(rng, i, tier):
    uni = rng.choice(['int', 'pool'])
    labs = G.labels(rng, uni, rng.randint(2, 5))
    obj = random_poly(rng, labs) if rng.random() < 0.3 else []
    calls = [gen_call(rng, labs) for _ in range(rng.choice([1, 1, 1, 2, 3]))]
    if len(calls) >= 2 and rng.random() < 0.35:
        calls[-1] = later_unary_form(rng, labs)
    elif rng.random() < 0.1:
        again = dict(rng.choice(calls))          # the same constraint once more, with another weight
        lam2 = rng.choice([F(1), F(2), F(1, 2)])
        again["lam"] = [lam2.numerator, lam2.denominator]
        calls.append(again)
    # a fixed share: each costs the model a minute or more (some 1500 terms over unary-coded labels) -- one plain case in the
    # quick tier, one in two hundred (thirty cases) with all relations and an earlier constraint in the thorough tier
    if tier == "quick" and i == 37:
        obj, calls = [], [huge_call(rng, labs, cheap=True)]
    elif tier != "quick" and i % 200 == 37:
        calls = calls[:rng.randint(0, 1)] + [huge_call(rng, labs)]
    return {"obj": G.jraw(obj), "calls": calls, "touch": rng.choice([None, None, "refresh", "copy", "keep", "round"])}


def observe(H, w):
    return {"tm": C.jterms(C.enc_terms(H)), "anc": H.num_ancillas,
            "cons": [[r, C.jterms(C.enc_terms(P))] for r in REL for P in H.constraints.get(r, [])],
            "warn": w, "vars": sorted(C.enc(v) for v in H.variables)}


def twin_ok(case):
    # also run under the second label decoding (common.twin_labels); Matrix kinds index by int
    return C.no_matrix(case)


def run_impl(case):
    import qubovert as qv
    H = qv.PCBO({k: C.num(v) for k, v in G.unjraw(case["obj"])})
    out = {"obs": [], "error": None, "checks": []}
    by = C.Bystanders()
    for j, c in enumerate(case["calls"]):
        # maintenance between two constraints: nothing the next call relies on may be lost (only when no variable is stale,
        # because refresh / copy legitimately forget stale variables and the model run does not perform them)
        if j and case.get("touch") and H.variables == {i for k in H for i in k}:
            if case["touch"] == "refresh":
                H.refresh()
            elif case["touch"] == "round":
                H = round(H, 12)             # exact on the coefficients generated; constraints and ancillas stay
            elif case["touch"] == "copy":
                by.add(H, "the model a copy was taken from (after %d constraints)" % j)
                H = H.copy()
            else:                            # "keep": the history goes on with H, a copy of this moment stays behind
                by.add(H.copy(), "a copy taken after %d constraints" % j)
        P = {k: C.num(v) for k, v in G.unjraw(c["P"])}
        snapP = C.snapshot(P)
        lam = C.num(F(*c["lam"]))
        b = None if c["bounds"] is None else tuple(None if x is None else C.num(F(*x)) for x in c["bounds"])
        kw = {"lam": lam, "bounds": b}
        if c["rel"] != "eq":
            kw["log_trick"] = c["log"]
        before = dict(H)
        anc_before = H.num_ancillas
        with warnings.catch_warnings(record=True) as ws:
            warnings.simplefilter("always")
            try:
                getattr(H, "add_constraint_%s_zero" % c["rel"])(P, **kw)
            except (KeyError, ValueError, TypeError) as ex:
                out["error"] = type(ex).__name__
                break
        if C.snapshot(P) != snapP:
            raise C.PurityError("the constraint polynomial passed in was mutated")
        w = "none"
        for x in ws:
            if "cannot be satisfied" in str(x.message):
                w = "unsat"
            elif "always satisfied" in str(x.message):
                w = "always"
        out["obs"].append(observe(H, w))
        out["checks"].extend(check_constraint(H, before, anc_before, c, w))
    out["checks"].extend(by.changed())
    return out


def check_constraint(H, before, anc_before, c, w):
    """the property itself, by enumeration over x and the fresh ancillas"""
    v = []
    lam = F(*c["lam"])
    if lam <= 0:
        return v
    after = dict(H)
    Fd = {}
    for k in set(before) | set(after):
        d = C.toF(after.get(k, 0)) - C.toF(before.get(k, 0))
        if d != 0:
            Fd[k] = d
    P = [(tuple(k), val) for k, val in G.unjraw(c["P"])]
    pv = sorted({i for k, _ in P for i in k}, key=C.enc)
    fresh = ['__a%d' % i for i in range(anc_before, H.num_ancillas)]
    fv = {i for k in Fd for i in k}
    if not fv <= set(pv) | set(fresh):
        v.append("penalty mentions variables %r beyond P's variables and the fresh ancillas %r" % (sorted(map(str, fv - set(pv) - set(fresh))), fresh))
        return v
    if any(str(i).startswith('__a') for i in pv):
        return v
    if len(pv) + len(fresh) > 13:
        return v
    items = [(k, val) for k, val in Fd.items()]
    for xb in itertools.product((0, 1), repeat=len(pv)):
        x = dict(zip(pv, xb))
        pval = ev(P, x)
        best = None
        for ab in itertools.product((0, 1), repeat=len(fresh)):
            x.update(zip(fresh, ab))
            f = ev(items, x)
            if f < 0:
                v.append("penalty is negative (%s) at %s" % (f, dict(x)))
                return v
            best = f if best is None or f < best else best
        if w == "unsat":
            continue
        if HOLDS[c["rel"]](pval):
            if best != 0:
                v.append("P=%s satisfies %s but min over ancillas of the penalty is %s at %s" % (pval, c["rel"], best, dict(zip(pv, xb))))
                return v
        elif best < lam:
            v.append("P=%s violates %s but the penalty can be as low as %s < lam=%s at %s" % (pval, c["rel"], best, lam, dict(zip(pv, xb))))
            return v
    # is_solution_valid agrees with the recorded constraints
    cons = H.constraints
    allv = sorted({i for r in cons for Pc in cons[r] for k in Pc for i in k}, key=C.enc)
    if len(allv) <= 10:
        for xb in itertools.product((0, 1), repeat=len(allv)):
            x = dict(zip(allv, xb))
            want = all(HOLDS[r](ev([(k, C.toF(val)) for k, val in Pc.items()], x)) for r in cons for Pc in cons[r])
            if H.is_solution_valid(x) != want:
                v.append("is_solution_valid(%s) = %s, recorded constraints say %s" % (x, H.is_solution_valid(x), want))
                break
    return v


def tl(j):
    return C.termsl([(k, F(v[0], v[1])) for k, v in j])


def literal(case, out):
    calls = []
    for c in case["calls"]:
        b = "(None, None)" if c["bounds"] is None else "(%s, %s)" % tuple(C.optc(x, lambda y: C.q(F(*y))) for x in c["bounds"])
        calls.append("{| c_rel := %s; c_P := %s; c_lam := %s; c_log := %s; c_bounds := %s |}" % (
            RELC[c["rel"]], tl(c["P"]), C.q(F(*c["lam"])), C.boolc(c["log"]), b))
    obs = []
    for o in out["obs"]:
        obs.append("{| o_tm := %s; o_anc := %d%%nat; o_cons := [%s]; o_warn := %s; o_vars := %s |}" % (
            tl(o["tm"]), o["anc"], "; ".join("(%s, %s)" % (RELC[r], tl(P)) for r, P in o["cons"]),
            {"none": "WNone", "unsat": "WUnsat", "always": "WAlways"}[o["warn"]], C.natlist(o["vars"])))
    return "((%s, [%s]), ([%s], %s))" % (tl(case["obj"]), "; ".join(calls), "; ".join(obs),
                                         "None" if out["error"] is None else "Some " + out["error"])


def oracle(case, out):
    return out["checks"][:3]


def nontrivial(case, out):
    for c, o in zip(case["calls"], out["obs"]):
        if len({i for k, _ in c["P"] for i in k}) >= 2 and o["warn"] == "none":
            return True
    return False


def tags(case, out):
    t = []
    for c, o in zip(case["calls"], out["obs"]):
        t.append("rel:%s:log=%s" % (c["rel"], c["log"]))
        t.append("warn:" + o["warn"])
        t.append("bounds:" + ("none" if c["bounds"] is None else "partial" if None in c["bounds"] else "given"))
        if any(abs(F(*v)) >= 2 ** 40 for _, v in c["P"]):
            t.append("slack-range>=2**49")
    if out["error"]:
        t.append("error:" + out["error"])
    return t
