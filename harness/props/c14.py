"""C14 — model bookkeeping stays consistent under every history of edits."""
import itertools
from fractions import Fraction as F
import common as C
import gens as G
from props.c05 import KIND, QUAD, BOOL, SPIN, cls_of

ID = "C14"
IMPORTS = ("From QV.Model Require Import Base Matrix Arith Expr Extrema Sat PCBO Convert PCSO.\nFrom QV.Proofs Require Import InvProofs InvConstraint.\n"
           "From QV.Corr Require Import C14.")
CASE_TYPE = "(cin * cout)"
CHUNK = 40
RUN, EQB = "run_case", "out_eqb"
N = {"quick": 500, "thorough": 6000}
RULE = ("random histories of 1-12 edits (item assignment incl. zero, +=, in-place + - * ** / with dict/model/scalar "
        "operands, update, clear, refresh, copy) on each of the ten model kinds, observed after every edit; "
        "non-trivial = at least 3 edits and at least one label; distinct by canonical JSON")
THEOREMS = "C14_init C14_step C14_reachable C14_counts C14_bijection C14_range C14_refresh"
MODELLED = ("an edit that raises stops the modelled history (the partially mutated Python object is not compared); "
            "constraint ancilla bookkeeping is covered by C02/C03")

ALL = BOOL + SPIN


def gen_key(rng, labs, quad):
    d = rng.choice([0, 1, 1, 2, 2]) if quad else rng.choice([0, 1, 1, 2, 2, 3, 4])
    if rng.random() < 0.3:
        return [rng.choice(labs) for _ in range(d)]
    return rng.sample(labs, min(d, len(labs)))


def gen_terms(rng, labs, quad, n=3, zero_ok=True):
    out, seen = [], set()
    for _ in range(rng.randint(0, n)):
        k = tuple(gen_key(rng, labs, quad))
        if k in seen:
            continue
        seen.add(k)
        out.append((k, G.coef(rng, zero_ok=zero_ok and rng.random() < 0.2)))
    return out


def gen(rng, i, tier):
    kind = rng.choice(ALL + ["PCBO", "PCBO", "PCBO", "PCSO"])
    outer = G.DYADIC_ONLY          # C19's generator calls this one with the flag already set: hand it back unchanged
    if kind in ("PCSO", "PCBO"):
        # the constraint methods divide by 2 / multiply by 0.5 (floats): exact on dyadic coefficients only
        G.DYADIC_ONLY = True
    try:
        return gen_(rng, i, tier, kind)
    finally:
        G.DYADIC_ONLY = outer


def gen_power_between_constraints(rng, kind):
    """a small constrained model squared (in place), then another constraint: the second one's ancillas must get names
    that the first did not use, whatever the power did to the model in between"""
    from props import c02
    spin = kind == "PCSO"
    labs = G.labels(rng, rng.choice(['int', 'pool']), rng.randint(2, 3))
    init = [((rng.choice(labs),), F(rng.choice([-1, 1, 2])))] if rng.random() < 0.5 else []
    edits = [{"e": "cons", "c": c02.later_unary_form(rng, labs, spin=spin)}]
    if rng.random() < 0.3:
        edits.append({"e": rng.choice(["refresh", "copy"])})
    edits.append({"e": "ipow", "n": 2})
    if rng.random() < 0.3:
        edits.append({"e": rng.choice(["refresh", "copy"])})
    edits.append({"e": "cons", "c": c02.later_unary_form(rng, labs, spin=spin)})
    return {"kind": kind, "init": G.jraw(init), "edits": edits}


def gen_(rng, i, tier, kind):
    if kind in ("PCBO", "PCSO") and rng.random() < 0.1:
        return gen_power_between_constraints(rng, kind)
    quad = kind in QUAD
    uni = 'int' if kind.endswith("Matrix") else rng.choice(['int', 'pool', 'pool'])
    labs = G.labels(rng, uni, rng.randint(1, 5))
    fam = SPIN if kind in SPIN else BOOL
    init = gen_terms(rng, labs, quad)
    edits = []
    for _ in range(rng.randint(1, 12 if tier == "quick" else 20)):
        r = rng.random()
        if r < 0.25:
            k = gen_key(rng, labs, quad)
            v = F(0) if rng.random() < 0.3 else G.coef(rng)
            edits.append({"e": "set", "k": [C.enc(x) for x in k], "v": [v.numerator, v.denominator]})
        elif r < 0.45:
            k = gen_key(rng, labs, quad)
            v = G.coef(rng)
            if edits and edits[-1]["e"] == "aug" and rng.random() < 0.5:   # cancellation
                k, v = [C.dec(x) for x in edits[-1]["k"]], -F(*edits[-1]["v"])
            edits.append({"e": "aug", "k": [C.enc(x) for x in k], "v": [v.numerator, v.denominator]})
        elif r < 0.70:
            op = rng.choice(["iadd", "isub", "imul"])
            rr = rng.random()
            if rr < 0.25:
                c = G.coef(rng, zero_ok=True)
                edits.append({"e": op, "okind": "scalar", "c": [c.numerator, c.denominator]})
            else:
                ok = None if rr < 0.6 else rng.choice([x for x in fam if not (uni == 'pool' and x.endswith("Matrix"))])
                t = gen_terms(rng, labs, quad or (ok in QUAD), n=2)
                edits.append({"e": op, "okind": ok or "raw", "terms": G.jraw(t)})
        elif r < 0.76:
            edits.append({"e": "ipow", "n": rng.choice([1, 2, 2, 3, 0])})
        elif r < 0.82:
            c = G.coef(rng)
            if kind in ("PCSO", "PCBO"):      # after a constraint the coefficients are floats: only divisions that are exact on them
                c = rng.choice([F(2), F(-2), F(4), F(1, 2), F(-1, 4)])
            edits.append({"e": "idiv", "c": [c.numerator, c.denominator]})
        elif r < 0.88:
            edits.append({"e": "update", "terms": G.jraw(gen_terms(rng, labs, quad, n=2))})
        elif r < 0.91:
            edits.append({"e": "clear"})
        elif r < 0.96:
            edits.append({"e": "refresh"})
        else:
            edits.append({"e": "copy"})
    if kind in ("PCBO", "PCSO") and rng.random() < 0.8:
        # adding constraints is an edit too: the ancilla names it creates must be new ones
        from props import c02, c03
        clabs = labs if len(labs) >= 2 else labs + [l for l in C.POOL if l not in labs][:2]
        for _ in range(rng.randint(1, 3)):
            c = (c03 if kind == "PCSO" else c02).gen_call(rng, clabs)
            if kind == "PCSO":
                c["log"] = True      # unary slack on spins squares a many-term boolean form: too slow for the model run here (C03 covers it)
            edits.insert(rng.randint(0, len(edits)), {"e": "cons", "c": c})
        # products and powers of a model that already carries penalty terms blow up the model run: keep them before the
        # first constraint only
        # powers before the first constraint make exact rationals of 60 and more bits, which the constraint methods then
        # push through floats: keep cubes out of these histories and at most one square
        kept, squares = [], 0
        for e in edits:
            if e["e"] == "ipow" and e["n"] >= 3:
                continue
            if e["e"] == "ipow" and e["n"] == 2:
                squares += 1
                if squares > 1:
                    continue
            kept.append(e)
        edits = kept
        first = next(j for j, e in enumerate(edits) if e["e"] == "cons")
        # ... but a product with a one-term operand (dict or model) stays: it takes the general product path (clear and
        # rebuild) without growing the model, and the ancilla counter has to survive it
        tail = []
        for e in edits[first:]:
            if e["e"] == "ipow":
                continue
            if e["e"] == "imul" and e.get("okind") != "scalar":
                c1 = rng.choice([F(2), F(-1), F(1, 2), F(3)])
                k1 = [] if rng.random() < 0.5 else [C.enc(rng.choice(labs))]
                e = dict(e, terms=[[k1, [c1.numerator, c1.denominator]]])
            tail.append(e)
        edits = edits[:first] + tail
    return {"kind": kind, "init": G.jraw(init), "edits": edits}


def observe(m):
    deg = m.degree
    o = {"tm": C.jterms(C.enc_terms(m)), "deg": None if deg == -float("inf") else int(deg),
         "vars": sorted(C.enc(x) for x in m.variables), "n": m.num_binary_variables, "mp": [],
         "anc": getattr(m, "num_ancillas", 0)}
    if hasattr(m, "_mapping"):
        o["mp"] = [[C.enc(k), v] for k, v in m._mapping.items()]
        o["rmp"] = [[k, C.enc(v)] for k, v in m._reverse_mapping.items()]
    return o


class ReusedAncilla(Exception):
    pass


def apply(m, e):
    t = e["e"]
    if t == "set":
        m[tuple(C.dec(x) for x in e["k"])] = C.num(F(*e["v"]))
    elif t == "aug":
        m[tuple(C.dec(x) for x in e["k"])] += C.num(F(*e["v"]))
    elif t in ("iadd", "isub", "imul"):
        if e["okind"] == "scalar":
            o = C.num(F(*e["c"]))
        elif e["okind"] == "raw":
            o = {k: C.num(v) for k, v in G.unjraw(e["terms"])}
        else:
            o = cls_of(e["okind"])({k: C.num(v) for k, v in G.unjraw(e["terms"])})
        if t == "iadd":
            m += o
        elif t == "isub":
            m -= o
        else:
            m *= o
    elif t == "ipow":
        m **= e["n"]
    elif t == "idiv":
        m /= F(*e["c"])
    elif t == "update":
        m.update({k: C.num(v) for k, v in G.unjraw(e["terms"])})
    elif t == "clear":
        m.clear()
    elif t == "refresh":
        m.refresh()
    elif t == "copy":
        m = m.copy()
    elif t == "cons":
        c = e["c"]
        P = {k: C.num(v) for k, v in G.unjraw(c["P"])}
        b = None if c["bounds"] is None else tuple(None if x is None else C.num(F(*x)) for x in c["bounds"])
        kw = {"lam": C.num(F(*c["lam"])), "bounds": b, "suppress_warnings": True}
        if c["rel"] != "eq":
            kw["log_trick"] = c["log"]
        before = {v for v in m.variables if str(v).startswith("__a")}
        n0 = m.num_ancillas
        getattr(m, "add_constraint_%s_zero" % c["rel"])(P, **kw)
        new = {v for v in m.variables if str(v).startswith("__a")} - before
        want = {"__a%d" % i for i in range(n0, m.num_ancillas)}
        if not new <= want:
            raise ReusedAncilla("constraint ancillas %r are not the fresh names __a%d..__a%d" % (sorted(new - want), n0, m.num_ancillas - 1))
        if any(int(str(v)[3:]) >= m.num_ancillas for v in m.variables if str(v).startswith("__a")):
            raise ReusedAncilla("an ancilla name is not below num_ancillas = %d" % m.num_ancillas)
    return m


def twin_ok(case):
    # also run under the second label decoding (common.twin_labels); Matrix kinds index by int
    return C.no_matrix(case)


def run_impl(case):
    out = {"obs": [], "error": None, "checks": []}
    try:
        m = cls_of(case["kind"])({k: C.num(v) for k, v in G.unjraw(case["init"])})
    except KeyError:
        out["error"] = "KeyError"
        return out
    out["obs"].append(observe(m))
    out["checks"].extend(check_state(m, "init"))
    for j, e in enumerate(case["edits"]):
        before = dict(m) if e["e"] == "refresh" else None
        try:
            m = apply(m, e)
        except ReusedAncilla as ex:
            out["checks"].append("after edit %d (constraint): %s" % (j, ex))
            break
        except (KeyError, ValueError, TypeError, ZeroDivisionError, RuntimeError) as ex:
            out["error"] = type(ex).__name__
            break
        out["obs"].append(observe(m))
        out["checks"].extend(check_state(m, "after edit %d (%s)" % (j, e["e"])))
        if before is not None:
            if dict(m) != before:
                out["checks"].append("refresh changed the terms")
            out["checks"].extend(check_exact(m, "after refresh"))
    return out


def check_state(m, where):
    """the property itself, on the implementation"""
    v = []
    tv = {i for k in m for i in k}
    td = max((len(k) for k in m), default=-float("inf"))
    if not tv <= m.variables:
        v.append("%s: variables %r miss true variables %r" % (where, m.variables, tv))
    if not td <= m.degree:
        v.append("%s: degree %r below true degree %r" % (where, m.degree, td))
    if m.num_binary_variables != len(m.variables):
        v.append("%s: num_binary_variables %d != |variables| %d" % (where, m.num_binary_variables, len(m.variables)))
    if hasattr(m, "_mapping"):
        mp, rmp = m.mapping, m.reverse_mapping
        n = m.num_binary_variables
        if set(mp) != m.variables or sorted(mp.values()) != list(range(n)):
            v.append("%s: mapping %r is not a bijection between variables %r and 0..%d" % (where, mp, m.variables, n - 1))
        if {b: a for a, b in mp.items()} != rmp:
            v.append("%s: reverse_mapping %r is not the inverse of mapping %r" % (where, rmp, mp))
        # enumerated / reduced forms: model variables use mapping labels, ancillas strictly larger labels
        try:
            forms = []
            name = type(m).__name__
            if name in ("PUBO", "PCBO", "PUSO", "PCSO"):
                forms = [m.to_qubo(), m.to_quso(), m.to_pubo(), m.to_puso()]
                if td > 2:      # reduced to a requested degree below the model's own
                    forms += [m.to_pubo(2), m.to_puso(2)] + ([m.to_pubo(3), m.to_puso(3)] if td > 3 else [])
            elif name == "QUBO":
                forms = [m.to_qubo(), m.to_quso()]
            elif name == "QUSO":
                forms = [m.to_quso(), m.to_qubo()]
            for D in forms:
                labs = {i for k in D for i in k}
                mapped = {mp[i] for k in m for i in k}
                low = {i for i in labs if i < n}
                if not low <= set(rmp):
                    v.append("%s: enumerated form uses label(s) %r outside the mapping" % (where, low - set(rmp)))
                # a label below n in the produced form stands for a model variable, so it is the mapped label of a variable
                # that occurs in a term; anything else (an ancilla) must be numbered from n upwards
                if not low <= mapped:
                    v.append("%s: %s uses label(s) %r below num_binary_variables=%d that are not mapped labels of variables "
                             "occurring in the model (ancillas must be >= n)" % (where, type(D).__name__, sorted(low - mapped), n))
                if name in ("QUBO", "QUSO") and not labs <= set(rmp):
                    v.append("%s: enumerated quadratic form has labels outside the mapping" % where)
        except Exception as ex:
            v.append("%s: conversion raised %r" % (where, ex))
    else:
        mi = m.max_index
        if (mi is None) != (not m.variables) or (mi is not None and mi != max(m.variables)):
            v.append("%s: max_index %r inconsistent with variables %r" % (where, mi, m.variables))
    return v


def check_exact(m, where):
    v = []
    tv = {i for k in m for i in k}
    td = max((len(k) for k in m), default=-float("inf"))
    if tv != m.variables or td != m.degree or m.num_binary_variables != len(tv):
        v.append("%s: bookkeeping not exact: variables %r vs %r, degree %r vs %r" % (where, m.variables, tv, m.degree, td))
    return v


def edit_lit(e):
    t = e["e"]
    tl = lambda j: C.termsl([(k, F(v[0], v[1])) for k, v in j])
    if t == "set":
        return "ESet %s %s" % (C.keyl(e["k"]), C.q(F(*e["v"])))
    if t == "aug":
        return "EAug %s %s" % (C.keyl(e["k"]), C.q(F(*e["v"])))
    if t in ("iadd", "isub", "imul"):
        cons = {"iadd": "EIadd", "isub": "EIsub", "imul": "EImul"}[t]
        if e["okind"] == "scalar":
            return "%s (OScalar %s)" % (cons, C.q(F(*e["c"])))
        if e["okind"] == "raw":
            return "%s (ORaw %s)" % (cons, tl(e["terms"]))
        return "%s (mk_operand (Some %s) %s)" % (cons, KIND[e["okind"]], tl(e["terms"]))
    if t == "ipow":
        return "EIpow (%d)%%Z" % e["n"]
    if t == "idiv":
        return "EIdiv %s" % C.q(F(*e["c"]))
    if t == "update":
        return "EUpdate %s" % tl(e["terms"])
    return {"clear": "EClear", "refresh": "ERefresh", "copy": "ECopy"}[t]


def hedit_lit(e):
    if e["e"] != "cons":
        return "HE (%s)" % edit_lit(e)
    from props import c02
    c = e["c"]
    tl = lambda j: C.termsl([(k, F(v[0], v[1])) for k, v in j])
    b = "(None, None)" if c["bounds"] is None else "(%s, %s)" % tuple(C.optc(x, lambda y: C.q(F(*y))) for x in c["bounds"])
    return "HC %s %s %s %s %s" % (c02.RELC[c["rel"]], tl(c["P"]), C.q(F(*c["lam"])), C.boolc(c["log"]), b)


def obs_lit(o):
    return "{| o_tm := %s; o_deg := %s; o_vars := %s; o_n := %s; o_mp := [%s]; o_anc := %d%%nat |}" % (
        C.termsl([(k, F(v[0], v[1])) for k, v in o["tm"]]), C.optc(o["deg"], C.nat), C.natlist(o["vars"]), C.nat(o["n"]),
        "; ".join("(%d%%nat, %d%%nat)" % (a, b) for a, b in o["mp"]), o.get("anc", 0))


def literal(case, out):
    cin = "(%s, %s, [%s])" % (KIND[case["kind"]], C.termsl([(k, F(v[0], v[1])) for k, v in case["init"]]),
                              "; ".join(hedit_lit(e) for e in case["edits"]))
    cout = "([%s], %s)" % ("; ".join(obs_lit(o) for o in out["obs"]), "None" if out["error"] is None else "Some " + out["error"])
    return "(%s, %s)" % (cin, cout)


def oracle(case, out):
    return out["checks"][:3]


def nontrivial(case, out):
    return len(case["edits"]) >= 3 and (any(k for k, _ in case["init"]) or any(e.get("k") for e in case["edits"]))


def tags(case, out):
    t = ["kind:" + case["kind"], "outcome:" + (out["error"] or "ok")]
    t += ["edit:" + e["e"] for e in case["edits"][:len(out["obs"])]]
    if any(e["e"] == "set" and e["v"][0] == 0 for e in case["edits"]):
        t.append("history:zero-assignment")
    if any(o["n"] > len({i for k, _ in o["tm"] for i in k}) for o in out["obs"]):
        t.append("history:stale-variables")
    return t
