"""C10 — problem classes encode their combinatorial problem faithfully."""
import itertools
from fractions import Fraction as F
import common as C
import gens as G
from props.c05 import KIND

ID = "C10"
IMPORTS = ("From QV.Model Require Import Base Matrix Arith Expr Extrema Sat PCBO Logic Convert PCSO Problems.\n"
           "From QV.Corr Require Import C10.")
CASE_TYPE = "(cin * cout)"
RUN, EQB = "run_case", "out_eqb"
CHUNK = 20
N = {"quick": 210, "thorough": 2100}
RULE = ("random instances of the seven classes (set systems up to 4 sets x 3 elements, graphs up to 6 vertices, BILP up to "
        "3x4, up to 3 jobs x 2-3 workers, number lists up to 6, chains up to 7) with default weights and random admissible "
        "weights A > threshold, log_trick both ways where offered; the matrix is compared exactly with the model; decoders, "
        "validators, ground states and the class-specific solve_bruteforce are checked against direct combinatorial solvers "
        "by enumerating all assignments (<= 15 variables); non-trivial = at least 4 formulation variables; distinct by JSON")
THEOREMS = "C10_bilp_value C10_bilp_ground C10_bilp_valid C10_vc_value C10_vc_ground C10_np_value C10_np_ground C10_np_ground_even C10_np_valid C10_asc_value C10_asc_ground C10_asc_value_pbc C10_asc_ground_pbc C10_asc_value_pbc2 C10_asc_ground_pbc2 C10_setcover_value C10_setcover_ground C10_setcover_valid C10_gp_value C10_gp_ground C10_js_value C10_js_ground C10_js_valid"
MODELLED = "numpy arrays (BILP) enter as exact integer lists; vertex numbering of GraphPartitioning (a Python set) is read from the instance"

CLASSES = ["VertexCover", "NumberPartitioning", "GraphPartitioning", "SetCover", "BILP", "JobSequencing", "AlternatingSectorsChain"]
VPOOL = [0, 1, 2, 3, 'a', 'b', 'c']


def gen(rng, i, tier):
    cls = CLASSES[i % len(CLASSES)]
    default = rng.random() < 0.45
    B = rng.choice([F(1), F(1), F(2), F(1, 2)])
    c = {"cls": cls, "default": default, "B": [B.numerator, B.denominator]}
    if cls == "VertexCover":
        vs = rng.sample(VPOOL, rng.randint(2, 6))
        edges = set()
        for _ in range(rng.randint(1, 7)):
            a, b = rng.sample(vs, 2)
            if (b, a) not in edges:
                edges.add((a, b))
        c["edges"] = [[C.enc(a), C.enc(b)] for a, b in sorted(edges, key=lambda e: (C.enc(e[0]), C.enc(e[1])))]
        A = B + rng.choice([F(1, 2), F(1), F(3)])
        c["A"] = [A.numerator, A.denominator]
    elif cls == "NumberPartitioning":
        S = [rng.choice([1, 2, 3, 4, 5, 7, -2]) for _ in range(rng.randint(1, 6))]
        c["S"] = S
        c["type"] = rng.choice(["list", "tuple"])
        A = rng.choice([F(1), F(2), F(1, 2)])
        c["A"] = [A.numerator, A.denominator]
    elif cls == "GraphPartitioning":
        vs = rng.sample(VPOOL, rng.choice([2, 4, 4, 6]))
        edges = set()
        for _ in range(rng.randint(1, 8)):
            a, b = rng.sample(vs, 2)
            if (b, a) not in edges:
                edges.add((a, b))
        for v in vs:          # every vertex occurs
            if not any(v in e for e in edges):
                edges.add((v, rng.choice([u for u in vs if u != v])))
        edges = {e for e in edges if (e[1], e[0]) not in edges or C.enc(e[0]) < C.enc(e[1])}
        c["edges"] = [[C.enc(a), C.enc(b)] for a, b in sorted(edges, key=lambda e: (C.enc(e[0]), C.enc(e[1])))]
        c["weighted"] = False
        deg = max(sum(1 for e in c["edges"] if x in e) for x in {y for e in c["edges"] for y in e})
        A = B * min(2 * deg, len(vs)) / 8 + rng.choice([F(1, 8), F(1, 2), F(1)])
        c["A"] = [A.numerator, A.denominator]
    elif cls == "SetCover":
        n = rng.randint(1, 3)
        U = list(range(n))
        NV = rng.randint(1, 4)
        V = [sorted(rng.sample(U, rng.randint(1, n))) for _ in range(NV)]
        for a in U:
            if not any(a in v for v in V):
                V[rng.randrange(NV)].append(a)
        c["n"], c["V"] = n, [sorted(set(v)) for v in V]
        c["log"] = rng.random() < 0.5
        if rng.random() < 0.4:
            w = [rng.choice([F(1), F(1, 2), F(3, 4), F(0)]) for _ in range(NV)]       # a set may cost nothing
            w[rng.randrange(NV)] = F(1)
            c["weights"] = [[x.numerator, x.denominator] for x in w]
        else:
            c["weights"] = None
        A = B + rng.choice([F(1, 2), F(1), F(2)])
        c["A"] = [A.numerator, A.denominator]
    elif cls == "BILP":
        N_, m = rng.randint(1, 4), rng.randint(1, 2)
        x0 = [rng.randint(0, 1) for _ in range(N_)]
        S = [[rng.randint(-2, 2) for _ in range(N_)] for _ in range(m)]
        b = [sum(S[j][i] * x0[i] for i in range(N_)) for j in range(m)]      # feasible by construction
        cc = [rng.randint(-3, 3) for _ in range(N_)]
        if N_ >= 2 and rng.random() < 0.3:
            # a variable the problem does not depend on at all (zero cost, zero column), anywhere among the variables
            f = rng.randrange(N_)
            cc[f] = 0
            for row in S:
                row[f] = 0
            b = [sum(S[j][i] * x0[i] for i in range(N_)) for j in range(m)]
        c.update({"c": cc, "S": S, "b": b})
        A = B * sum(abs(v) for v in cc) + rng.choice([F(1, 2), F(1), F(2)])
        c["A"] = [A.numerator, A.denominator]
    elif cls == "JobSequencing":
        c["lengths"] = [rng.randint(1, 3) for _ in range(rng.randint(1, 3))]
        if rng.random() < 0.4:
            # jobs with names (a dict of lengths): the same names turn up in other instances at other positions
            c["jobs"] = rng.sample(["a", "b", "c", "d", "x", "y"], len(c["lengths"]))
        c["m"] = rng.choice([1, 2, 2, 3]) if len(c["lengths"]) <= 2 else rng.choice([1, 2])
        c["log"] = rng.random() < 0.6
        A = B * max(c["lengths"]) + rng.choice([F(1, 2), F(1), F(2)])
        c["A"] = [A.numerator, A.denominator]
    else:
        c["N"] = rng.randint(1, 7)
        c["chain"] = rng.randint(2, 4)
        c["min"] = rng.choice([1, 2])
        c["max"] = rng.choice([3, 5, 10])
        c["pbc"] = rng.random() < 0.5
    return c


def instance(c):
    import qubovert.problems as qp
    cls = c["cls"]
    if cls == "VertexCover":
        return qp.VertexCover({(C.dec(a), C.dec(b)) for a, b in c["edges"]})
    if cls == "NumberPartitioning":
        return qp.NumberPartitioning(list(c["S"]) if c["type"] == "list" else tuple(c["S"]))
    if cls == "GraphPartitioning":
        return qp.GraphPartitioning({(C.dec(a), C.dec(b)) for a, b in c["edges"]})
    if cls == "SetCover":
        w = None if c["weights"] is None else [C.num(F(*x)) for x in c["weights"]]
        return qp.SetCover(set(range(c["n"])), [set(v) for v in c["V"]], weights=w, log_trick=c["log"])
    if cls == "BILP":
        return qp.BILP(c["c"], c["S"], c["b"])
    if cls == "JobSequencing":
        if c.get("jobs"):
            return qp.JobSequencing(dict(zip(c["jobs"], c["lengths"])), c["m"], log_trick=c["log"])
        return qp.JobSequencing(list(c["lengths"]), c["m"], log_trick=c["log"])
    return qp.AlternatingSectorsChain(c["N"], c["chain"], c["min"], c["max"])


def weights_kw(c):
    B = C.num(F(*c["B"]))
    cls = c["cls"]
    if cls == "AlternatingSectorsChain":
        return {"pbc": c["pbc"]}
    if cls == "NumberPartitioning":
        return {} if c["default"] else {"A": C.num(F(*c["A"]))}
    if c["default"]:
        return {}
    return {"A": C.num(F(*c["A"])), "B": B}


def matrix(P, c):
    kw = weights_kw(c)
    if c["cls"] in ("NumberPartitioning", "GraphPartitioning", "AlternatingSectorsChain"):
        return P.to_quso(**kw)
    return P.to_qubo(**kw)


def run_impl(c):
    P = instance(c)
    M = matrix(P, c)
    out = {"kind": type(M).__name__, "terms": C.jterms(C.enc_terms(M)), "nvars": P.num_binary_variables, "checks": []}
    if c["cls"] == "GraphPartitioning":
        out["v2i"] = [[C.enc(v), i] for v, i in P._vertex_to_index.items()]
    out["checks"] = check(c, P, M) + check_other_form(c, P, M) + check_bruteforce_kw(c, P)
    return out


def _canon(x):
    """decoded solutions (sets, tuples of sets, lists, arrays) as comparable values"""
    if isinstance(x, (set, frozenset)):
        return ("set",) + tuple(sorted((_canon(y) for y in x), key=repr))
    if isinstance(x, dict):
        return ("dict",) + tuple(sorted(((_canon(k), _canon(v)) for k, v in x.items()), key=repr))
    if isinstance(x, (list, tuple)) or hasattr(x, "tolist"):
        return ("seq",) + tuple(_canon(y) for y in (x.tolist() if hasattr(x, "tolist") else x))
    return repr(C.toF(x)) if isinstance(x, (int, float, F)) and not isinstance(x, bool) else repr(x)


def check_bruteforce_kw(c, P):
    """Problem.solve_bruteforce(**options) solves the formulation built with those options: its answers are the decoded
    minimisers of to_qubo(**options), for the case's own weights and for a skewed (inadmissible) setting given by keyword"""
    import qubovert as qv
    cls = c["cls"]
    if cls in ("SetCover", "JobSequencing") or P.num_binary_variables > 12:
        return []
    settings = [weights_kw(c)]
    if cls in ("VertexCover", "BILP", "GraphPartitioning"):
        settings.append({"A": F(1, 4), "B": 2})
        settings.append({"B": 3})
    if cls == "AlternatingSectorsChain":
        settings.append({"pbc": not c["pbc"]})
    v = []
    for kw in settings:
        try:
            Q = P.to_qubo(**kw)
            n = P.num_binary_variables
            qi = [(k, C.toF(val)) for k, val in Q.items()]
            best, mins = None, []
            for bits in itertools.product((0, 1), repeat=n):       # every variable, also those Q does not depend on
                e = sum((val for k, val in qi if all(bits[i] for i in k)), F(0))
                if best is None or e < best:
                    best, mins = e, [bits]
                elif e == best:
                    mins.append(bits)
            want = {_canon(P.convert_solution(dict(enumerate(b)))) for b in mins}
            got_all = P.solve_bruteforce(all_solutions=True, **kw)
            got_one = P.solve_bruteforce(**kw)
        except (KeyError, ValueError, TypeError, ZeroDivisionError) as ex:
            v.append("%s.solve_bruteforce(%r) raised %s" % (cls, kw, type(ex).__name__))
            continue
        if "A" in kw and "B" in kw:
            # the same weights given by position (A, B in that order in every class that has both)
            try:
                pos_all = P.solve_bruteforce(kw["A"], kw["B"], all_solutions=True)
                if {_canon(g) for g in pos_all} != want:
                    v.append("%s.solve_bruteforce(%s, %s, all_solutions=True) -- weights by position -- returned %d answers that are "
                             "not the decoded minimisers of to_qubo(%s, %s)" % (cls, kw["A"], kw["B"], len(pos_all), kw["A"], kw["B"]))
            except (KeyError, ValueError, TypeError, ZeroDivisionError) as ex:
                v.append("%s.solve_bruteforce(%s, %s) raised %s" % (cls, kw["A"], kw["B"], type(ex).__name__))
        if {_canon(g) for g in got_all} != want:
            v.append("%s.solve_bruteforce(all_solutions=True, %s) returned %d answers that are not the decoded minimisers of to_qubo(%s)"
                     % (cls, ", ".join("%s=%s" % kv for kv in kw.items()), len(got_all), ", ".join("%s=%s" % kv for kv in kw.items())))
        elif _canon(got_one) not in want:
            v.append("%s.solve_bruteforce(%s) returned %r, not a decoded minimiser of to_qubo with the same options"
                     % (cls, ", ".join("%s=%s" % kv for kv in kw.items()), got_one))
    return v


def check_other_form(c, P, M):
    """the formulation in the other basis, asked for with the same keyword weights: same function under 0 <-> +1, 1 <-> -1"""
    kw = weights_kw(c)
    spin_native = c["cls"] in ("NumberPartitioning", "GraphPartitioning", "AlternatingSectorsChain")
    O = P.to_qubo(**kw) if spin_native else P.to_quso(**kw)
    n = P.num_binary_variables
    if n > 10:
        return []
    mi = [(k, C.toF(val)) for k, val in M.items()]
    oi = [(k, C.toF(val)) for k, val in O.items()]

    def ev(items, x):
        tot = F(0)
        for k, val in items:
            p = 1
            for i in k:
                p *= x[i]
            tot += val * p
        return tot
    for bits in itertools.product((0, 1), repeat=n):
        spins = [1 - 2 * b for b in bits]
        a, b_ = (ev(mi, spins), ev(oi, bits)) if spin_native else (ev(mi, bits), ev(oi, spins))
        if a != b_:
            return ["%s.%s(%s) differs from %s at %r: %s vs %s" % (c["cls"], "to_qubo" if spin_native else "to_quso",
                    ", ".join("%s=%s" % kv for kv in kw.items()), "to_quso" if spin_native else "to_qubo", bits, b_, a)]
    return []


# ------------------------------------------------------------------------------ direct combinatorial solvers ----
def check(c, P, M):
    v = []
    cls = c["cls"]
    n = P.num_binary_variables
    spin_form = cls in ("NumberPartitioning", "GraphPartitioning", "AlternatingSectorsChain")
    items = [(k, C.toF(val)) for k, val in M.items()]
    if any(i >= n for k, _ in items for i in k):
        v.append("matrix uses variable %d >= num_binary_variables %d" % (max(i for k, _ in items for i in k), n))
        return v
    if n > 15:
        return v
    B = F(1) if (c["default"] or cls in ("NumberPartitioning", "AlternatingSectorsChain")) else F(*c["B"])
    feasible, cost = problem_spec(c, P)
    dom = (1, -1) if spin_form else (0, 1)
    energies = []
    for bits in itertools.product(dom, repeat=n):
        e = F(0)
        for k, val in items:
            p = 1
            for i in k:
                p *= bits[i]
            e += val * p
        energies.append((e, bits))
    emin = min(e for e, _ in energies)
    ground = [b for e, b in energies if e == emin]
    # decoders and validators on every assignment, in both forms
    for e, bits in energies[:: max(1, len(energies) // 256)]:
        for form in ("own", "other"):
            if form == "own":
                sol, spin = list(bits), spin_form
            else:
                sol = [(1 - b) // 2 for b in bits] if spin_form else [1 - 2 * b for b in bits]
                spin = not spin_form
            if all(x == 1 for x in sol):
                kw = {"spin": spin}
            else:
                kw = {}
            try:
                dec = P.convert_solution(sol, **kw)
                val = P.is_solution_valid(sol, **kw)
                # the same assignment handed over as a tuple and as a dict: same decoding, same verdict
                # (a dict is a map from variable to value: the order in which its entries were inserted means nothing)
                for other in (tuple(sol), dict(enumerate(sol)), dict(reversed(list(enumerate(sol))))):
                    dec2, val2 = P.convert_solution(other, **kw), P.is_solution_valid(other, **kw)
                    # NumberPartitioning lists the elements of a part in the order the entries come: the same partition
                    same = (sorted(map(sorted, dec2)) == sorted(map(sorted, dec))) if cls == "NumberPartitioning" and isinstance(other, dict) \
                        else _canon(dec2) == _canon(dec)
                    if not same or val2 != val:
                        v.append("%s: the assignment %r decodes to %r (valid: %s) as a %s but to %r (valid: %s) as a list"
                                 % (cls, sol, dec2, val2, type(other).__name__, dec, val))
                        return v
            except Exception as ex:
                v.append("%s.convert_solution/is_solution_valid raised %r on %r" % (cls, ex, sol))
                return v
            bool_bits = [(1 - b) // 2 for b in bits] if spin_form else list(bits)
            if val != feasible(bool_bits):
                v.append("is_solution_valid(%r) = %s, the problem statement says %s" % (sol, val, feasible(bool_bits)))
                return v
    opt = min((cost(bb) for bb in itertools.product((0, 1), repeat=n) if feasible(list(bb))), default=None)
    if opt is None:
        return v
    strict = not c["default"]
    gb = [[(1 - b) // 2 for b in g] if spin_form else list(g) for g in ground]
    if cls == "AlternatingSectorsChain":
        if c["min"] > 0 and not all(feasible(g) for g in gb):
            v.append("a ground state of the chain is not one of the two uniform states")
        return v
    if cls == "NumberPartitioning":
        if feasible and any(feasible(list(bb)) for bb in itertools.product((0, 1), repeat=n)):
            if emin != 0 or not all(feasible(g) for g in gb):
                v.append("a perfect partition exists but the ground energy is %s / a ground state is not a perfect partition" % emin)
        return v
    if strict or cls in ("SetCover", "VertexCover", "GraphPartitioning", "JobSequencing"):
        good = [g for g in gb if feasible(g) and cost(g) == opt]
        if emin != B * opt:
            v.append("%s: ground energy %s, optimal cost times B is %s (%s weights)" % (cls, emin, B * opt, "default" if c["default"] else "admissible"))
        elif strict and len(good) != len(gb):
            bad = [g for g in gb if g not in good][0]
            v.append("%s: ground state %r does not decode to a feasible optimal solution" % (cls, bad))
        elif not good:
            v.append("%s: no ground state decodes to a feasible optimal solution" % cls)
    if cls in ("SetCover", "JobSequencing"):
        s = P.solve_bruteforce()
        if not P.is_solution_valid(s):
            v.append("%s.solve_bruteforce() returned an infeasible solution %r" % (cls, s))
        else:
            got = direct_cost(c, s)
            if got != opt_problem(c):
                v.append("%s.solve_bruteforce() returned cost %s, optimum is %s" % (cls, got, opt_problem(c)))
    return v


def problem_spec(c, P):
    """(feasible(bits), cost(bits)) over the formulation's boolean variables, straight from the problem statement"""
    cls = c["cls"]
    if cls == "VertexCover":
        idx = P._vertex_to_index
        E = [(idx[C.dec(a)], idx[C.dec(b)]) for a, b in c["edges"]]
        return (lambda x: all(x[u] or x[v] for u, v in E)), (lambda x: sum(x))
    if cls == "NumberPartitioning":
        S = c["S"]
        return (lambda x: sum(S[i] for i in range(len(S)) if x[i] == 0) == sum(S[i] for i in range(len(S)) if x[i] == 1)), (lambda x: 0)
    if cls == "GraphPartitioning":
        idx = P._vertex_to_index
        E = [(idx[C.dec(a)], idx[C.dec(b)]) for a, b in c["edges"]]
        n = len(idx)
        return (lambda x: 2 * sum(x) == n), (lambda x: sum(1 for u, v in E if x[u] != x[v]))
    if cls == "SetCover":
        V, n = c["V"], c["n"]
        NV = len(V)
        w = [F(1)] * NV if c["weights"] is None else [F(*x) for x in c["weights"]]
        return (lambda x: all(any(x[k] and a in V[k] for k in range(NV)) for a in range(n))), (lambda x: sum(w[k] for k in range(NV) if x[k]))
    if cls == "BILP":
        S, b, cc = c["S"], c["b"], c["c"]
        N_ = len(cc)
        return (lambda x: all(sum(S[j][i] * x[i] for i in range(N_)) == b[j] for j in range(len(b)))), (lambda x: sum(cc[i] * x[i] for i in range(N_)))
    if cls == "JobSequencing":
        L, m = c["lengths"], c["m"]
        return (lambda x: all(sum(x[j * m + w] for w in range(m)) == 1 for j in range(len(L)))), \
               (lambda x: max(sum(L[j] for j in range(len(L)) if x[j * m + w]) for w in range(m)))
    N_ = c["N"]
    return (lambda x: all(b == x[0] for b in x[:N_])), (lambda x: 0)


def direct_cost(c, s):
    if c["cls"] == "SetCover":
        w = [F(1)] * len(c["V"]) if c["weights"] is None else [F(*x) for x in c["weights"]]
        return sum(w[i] for i in s)
    L = c["lengths"]
    if c.get("jobs"):
        s = [[c["jobs"].index(j) for j in cl] for cl in s]
    return max(sum(L[j] for j in cl) for cl in s)


def opt_problem(c):
    if c["cls"] == "SetCover":
        V, n = c["V"], c["n"]
        w = [F(1)] * len(V) if c["weights"] is None else [F(*x) for x in c["weights"]]
        best = None
        for bits in itertools.product((0, 1), repeat=len(V)):
            if all(any(bits[k] and a in V[k] for k in range(len(V))) for a in range(n)):
                cst = sum(w[k] for k in range(len(V)) if bits[k])
                best = cst if best is None or cst < best else best
        return best
    L, m = c["lengths"], c["m"]
    return min(max(sum(L[j] for j in range(len(L)) if a[j] == w) for w in range(m)) for a in itertools.product(range(m), repeat=len(L)))


# ------------------------------------------------------------------------------------------- literals ----
def ql(x):
    return C.q(F(*x)) if isinstance(x, list) else C.q(F(x))


def literal(c, out):
    cls = c["cls"]
    B = ql(c["B"]) if not c["default"] else "1"
    if cls == "VertexCover":
        # vertices are numbered in ordering_key order = increasing code
        codes = sorted({x for e in c["edges"] for x in e})
        idx = {v: i for i, v in enumerate(codes)}
        A = "2" if c["default"] else ql(c["A"])
        cin = "PVertexCover %d%%nat [%s] %s %s" % (len(codes), "; ".join("(%d%%nat, %d%%nat)" % (idx[a], idx[b]) for a, b in c["edges"]), A, B)
    elif cls == "NumberPartitioning":
        cin = "PNumberPartitioning [%s] %s" % ("; ".join(C.q(F(s)) for s in c["S"]), "1" if c["default"] else ql(c["A"]))
    elif cls == "GraphPartitioning":
        idx = dict((a, b) for a, b in out["v2i"])
        E = ["(%d%%nat, %d%%nat, 1)" % (idx[a], idx[b]) for a, b in c["edges"]]
        allE = ["(%d%%nat, %d%%nat)" % (idx[a], idx[b]) for a, b in c["edges"]]
        cin = "PGraphPartitioning %d%%nat [%s] [%s] %s %s" % (len(idx), "; ".join(E), "; ".join(allE),
                                                             "None" if c["default"] else "(Some %s)" % ql(c["A"]), B)
    elif cls == "SetCover":
        V = c["V"]
        M = max(sum(1 for v in V if a in v) for a in range(c["n"]))
        w = ["1"] * len(V) if c["weights"] is None else [ql(x) for x in c["weights"]]
        cin = "PSetCover %d%%nat [%s] [%s] %s %d%%nat %s %s" % (c["n"], "; ".join(C.natlist(v) for v in V), "; ".join(w), C.boolc(c["log"]), M,
                                                                "2" if c["default"] else ql(c["A"]), B)
    elif cls == "BILP":
        cin = "PBilp [%s] [%s] [%s] %s %s" % ("; ".join(C.q(F(x)) for x in c["c"]),
                                              "; ".join("[%s]" % "; ".join(C.q(F(x)) for x in row) for row in c["S"]),
                                              "; ".join(C.q(F(x)) for x in c["b"]), "None" if c["default"] else "(Some %s)" % ql(c["A"]), B)
    elif cls == "JobSequencing":
        L = c["lengths"]
        cin = "PJobSequencing [%s] %d%%nat %s %d%%nat %s %s" % ("; ".join(C.q(F(x)) for x in L), c["m"], C.boolc(c["log"]), len(L) * max(L),
                                                                 "None" if c["default"] else "(Some %s)" % ql(c["A"]), B)
    else:
        cin = "PChain %d%%nat %d%%nat %s %s %s" % (c["N"], c["chain"], C.q(F(c["min"])), C.q(F(c["max"])), C.boolc(c["pbc"]))
    exp = "OMatrix %s %s %d%%nat" % (KIND[out["kind"]], C.termsl([(k, F(v[0], v[1])) for k, v in out["terms"]]), out["nvars"])
    return "(%s, %s)" % (cin, exp)


def oracle(c, out):
    return out["checks"][:3]


def nontrivial(c, out):
    return out["nvars"] >= 4


def tags(c, out):
    return ["class:" + c["cls"], "weights:" + ("default" if c["default"] else "admissible"), "nvars:%d" % min(out["nvars"], 16)]
