"""C15 — approximate extrema enclose the true extrema; temperature range ordered."""
import itertools, math, sys
from fractions import Fraction as F
import common as C
import gens as G

ID = "C15"
IMPORTS = "From QV.Model Require Import Base Matrix Extrema.\nFrom QV.Corr Require Import C15."
CASE_TYPE = "(cin * cout)"
RUN, EQB = "run_case", "out_eqb"
N = {"quick": 900, "thorough": 12000}
RULE = ("random raw dicts / model objects (1-6 variables, 0-8 terms, degree 0-5, repeated labels, int/dyadic/"
        "other rational coefficients, optional offset); non-trivial = at least one non-constant term; distinct by "
        "canonical JSON of the case")
THEOREMS = "C15_pubo C15_puso C15_constant_* C15_del_energies C15_no_variables C15_temperature_range"
MODELLED = ("float rounding of the final division by log() is not modelled: the harness substitutes log := -1 to read "
            "the two energy scales exactly and separately checks the ordering of the real outputs")
ASSUMPTIONS = ["exact arithmetic inputs only (int, Fraction, dyadic float)"]

KINDS_S = {"PUSOMatrix": "KPusoM", "QUSOMatrix": "KQusoM", "PUSO": "KPuso", "QUSO": "KQuso", "PCSO": "KPcso"}
KINDS_B = {"PUBOMatrix": "KPuboM", "QUBOMatrix": "KQuboM", "PUBO": "KPubo", "QUBO": "KQubo", "PCBO": "KPcbo"}


def cls_of(name):
    import qubovert as qv
    return getattr(qv, name) if hasattr(qv, name) else getattr(qv.utils, name)


def gen(rng, i, tier):
    r = rng.random()
    if r < 0.5:
        fn = rng.choice(["pubo", "qubo", "puso", "quso"])
        spin = fn in ("puso", "quso")
        form = rng.choice(["dict", "dict", "obj"])
        if form == "obj":
            form = rng.choice(list((KINDS_S if spin else KINDS_B).keys()))
        quad = fn in ("qubo", "quso") or form.startswith("Q")
        uni = 'int' if form.endswith("Matrix") else rng.choice(['int', 'pool'])
        t = G.quad_terms(rng, uni, spin=spin, zero_ok=(form == "dict")) if quad else \
            G.raw_terms(rng, uni, zero_ok=(form == "dict"))
        if rng.random() < 0.1:
            t = [(k, v) for k, v in t if not k]
        return {"op": "approx", "fn": fn, "form": form, "terms": G.jraw(t), "num": rng.choice("qqf") if G.dyadic(t) else "q"}
    if rng.random() < 0.3:
        return gen_temp_bool(rng)
    if rng.random() < 0.05:
        # more than 32 variables, labelled 1..n or with gaps (never 0..n-1): a dict or a labelled object
        n = rng.randint(33, 40)
        labs = rng.sample(range(1, 60), n)
        t = [((l,), G.coef(rng)) for l in labs] + [(tuple(rng.sample(labs, 2)), G.coef(rng)) for _ in range(rng.randint(0, 6))]
        t = list({tuple(sorted(k)): (tuple(sorted(k)), v) for k, v in t}.values())
        s = rng.choice([F(1, 2), F(9, 10)])
        e = rng.choice([F(1, 2), F(1, 100)])
        return {"op": "temp", "form": rng.choice(["dict", "QUSO", "PUSO"]), "terms": G.jraw(t), "upd": [],
                "s": [s.numerator, s.denominator], "e": [e.numerator, e.denominator]}
    form = rng.choice(["dict", "dict"] + list(KINDS_S.keys()))
    quad = form.startswith("Q")
    uni = 'int' if form.endswith("Matrix") else rng.choice(['int', 'pool'])
    t = G.quad_terms(rng, uni, spin=True, zero_ok=(form == "dict")) if quad else G.raw_terms(rng, uni, zero_ok=(form == "dict"))
    upd = []
    if form != "dict" and t and rng.random() < 0.5:
        # overwrite some entries (possibly with zero: stale cached variables)
        for k, v in rng.sample(t, min(len(t), rng.randint(1, 2))):
            upd.append((k, rng.choice([F(0), F(0), G.coef(rng)])))
    s = rng.choice([F(1, 2), F(9, 10), F(1, 100), F(0)])
    e = rng.choice([x for x in [F(1, 2), F(1, 100), F(0), F(1, 1000)] if x <= s])
    return {"op": "temp", "form": form, "terms": G.jraw(t), "upd": G.jraw(upd), "s": [s.numerator, s.denominator],
            "e": [e.numerator, e.denominator]}


def gen_temp_bool(rng):
    """anneal_temperature_range on a boolean model (spin=False): the range of its spin image"""
    G.DYADIC_ONLY = True          # the conversion multiplies by powers of 1/2
    try:
        form = rng.choice(["dict", "dict"] + list(KINDS_B.keys()))
        quad = form.startswith("Q")
        uni = 'int' if form.endswith("Matrix") else rng.choice(['int', 'pool'])
        t = G.quad_terms(rng, uni, spin=False) if quad else G.raw_terms(rng, uni, max_vars=5, max_terms=6, max_deg=4)
        t = [(k, v) for k, v in t if v != 0]
        if form == "dict":
            seen, tt = set(), []
            for k, v in t:
                kk = tuple(sorted(set(k), key=C.enc))
                if kk not in seen:
                    seen.add(kk)
                    tt.append((kk, v))
            t = tt
    finally:
        G.DYADIC_ONLY = False
    s = rng.choice([F(1, 2), F(9, 10), F(1, 100), F(0)])
    e = rng.choice([x for x in [F(1, 2), F(1, 100), F(0), F(1, 1000)] if x <= s])
    return {"op": "temp", "form": form, "terms": G.jraw(t), "upd": [], "s": [s.numerator, s.denominator],
            "e": [e.numerator, e.denominator], "bool": True}


def build(case):
    t = G.unjraw(case["terms"])
    mode = case.get("num", "q")
    if case["form"] == "dict":
        return {k: C.numf(v, mode) for k, v in t}
    m = cls_of(case["form"])({k: C.numf(v, mode) for k, v in t})
    for k, v in G.unjraw(case.get("upd", [])):
        m[k] = C.num(v)
    return m


def twin_ok(case):
    # also run under the second label decoding (common.twin_labels); Matrix kinds index by int
    return C.no_matrix(case)


def run_impl(case):
    import qubovert as qv
    obj = build(case)
    if case["op"] == "approx":
        fn = getattr(qv.utils, "approximate_%s_extrema" % case["fn"])
        if case["form"] != "dict" and len(obj):
            # an earlier life of the same object: the same keys with every coefficient an eighth of what it will be, asked
            # for its extrema, then the coefficients set to their values in place (same keys, same number of terms).  What
            # was answered then must not be what is answered now.
            orig = list(obj.items())
            for k, v in orig:
                obj[k] = v / 8
            fn(obj)
            for k, v in orig:
                obj[k] = v
        lo, hi = C.pure_call(fn, obj)
        return {"lo": str(C.toF(lo)), "hi": str(C.toF(hi))}
    mod = sys.modules['qubovert.sim._anneal_temperature_range']
    real_log = mod.log
    out = {}
    spin = not case.get("bool")
    if not spin:
        # the spin image, by the library's own converter (tied to the model by C04): the boolean call must give its range
        S = qv.utils.pubo_to_puso(dict(obj))
        out["spin_image"] = C.jterms(C.enc_terms(S, sort_keys=False))
    try:
        mod.log = lambda p: -1
        try:
            T0, Tf = C.pure_call(qv.sim.anneal_temperature_range, obj, 0.5, 0.25, spin)
            out["M"], out["m"] = str(C.toF(T0)), str(C.toF(Tf))
            out["zero"] = (T0 == 0 and Tf == 0 and type(T0) is int)
        except ValueError as ex:
            out["error"] = "ValueError"
    finally:
        mod.log = real_log
    s, e = F(*case["s"]), F(*case["e"])
    try:
        T0, Tf = qv.sim.anneal_temperature_range(obj, float(s), float(e), spin)
        out["T0"], out["Tf"] = T0, Tf
    except ValueError:
        out["real_error"] = "ValueError"
    return out


def literal(case, out):
    t = C.termsl([(k, F(v[0], v[1])) for k, v in case["terms"]])
    if case["op"] == "approx":
        spin = case["fn"] in ("puso", "quso")
        exp = "OPair %s %s" % (C.q(F(out["lo"])), C.q(F(out["hi"])))
        if case["form"] == "dict":
            return "(%s %s, %s)" % ("ApproxS" if spin else "ApproxB", t, exp)
        kd = (KINDS_S if spin else KINDS_B)[case["form"]]
        return "(ApproxModel %s %s %s, %s)" % (C.boolc(spin), kd, t, exp)
    if "error" in out:
        exp = "OTemp TError"
    elif out["zero"]:
        exp = "OTemp TZero"
    else:
        exp = "OTemp (TVals %s %s)" % (C.q(F(out["m"])), C.q(F(out["M"])))
    if case.get("bool"):
        return "(TempDict %s, %s)" % (C.termsl([(k, F(v[0], v[1])) for k, v in out["spin_image"]]), exp)
    if case["form"] == "dict":
        return "(TempDict %s, %s)" % (t, exp)
    upd = C.termsl([(k, F(v[0], v[1])) for k, v in case["upd"]])
    return "(TempModel %s %s %s, %s)" % (KINDS_S[case["form"]], t, upd, exp)


def true_extrema(items, spin):
    """independent evaluation of the raw polynomial over all assignments"""
    labs = sorted({i for k, _ in items for i in k})
    vals = []
    for bits in itertools.product((1, -1) if spin else (0, 1), repeat=len(labs)):
        x = dict(zip(labs, bits))
        tot = F(0)
        for k, v in items:
            p = 1
            for i in k:
                p *= x[i]
            tot += v * p
        vals.append(tot)
    return min(vals), max(vals)


def oracle(case, out):
    v = []
    obj = build(case)
    if case["op"] == "approx":
        spin = case["fn"] in ("puso", "quso")
        items = [([C.enc(i) for i in k], C.toF(c)) for k, c in obj.items()]
        lo, hi = true_extrema(items, spin)
        if not (F(out["lo"]) <= lo):
            v.append("lower bound %s exceeds true minimum %s" % (out["lo"], lo))
        if not (F(out["hi"]) >= hi):
            v.append("upper bound %s below true maximum %s" % (out["hi"], hi))
        if all(not k for k, _ in items):
            c = sum((c for _, c in items), F(0))
            if not (F(out["lo"]) == c == F(out["hi"])):
                v.append("constant model %s but bounds (%s, %s)" % (c, out["lo"], out["hi"]))
        return v
    has_vars = any(k for k in obj) if case["form"] == "dict" else bool(obj._variables)
    if "real_error" in out:
        v.append("anneal_temperature_range raised ValueError on admissible flip probabilities")
        return v
    T0, Tf = out["T0"], out["Tf"]
    if not (T0 >= Tf >= 0):
        v.append("T0 >= Tf >= 0 fails: (%r, %r)" % (T0, Tf))
    if not has_vars and not (T0 == 0 and Tf == 0):
        v.append("model without variables but range (%r, %r)" % (T0, Tf))
    return v


def finding_key(case, what):
    if case["op"] == "temp" and what and any("raised ValueError" in w for w in what):
        return "temp-range-no-nonconstant-term"
    return None


def nontrivial(case, out):
    return any(k for k, _ in case["terms"])


def tags(case, out):
    t = [case["op"] + ":" + case.get("fn", "spin") + ":" + ("dict" if case["form"] == "dict" else "object")]
    if case["op"] == "temp":
        t.append("temp:" + ("error" if "error" in out else "zero" if out.get("zero") else "values"))
        if case["upd"]:
            t.append("temp:stale-object")
        if case.get("bool"):
            t.append("temp:boolean-model:" + case["form"])
    elif all(not k for k, _ in case["terms"]):
        t.append("approx:constant-model")
    return t
