"""C17 — the C annealing kernels are memory-safe on every valid call."""
import os, sys, json, subprocess
from fractions import Fraction as F
import common as C
import gens as G
import anneal_common as A
from props import c11

ID = "C17"
ISOLATE = True      # the implementation side runs in child processes: a crash of the C extension is reported, not fatal
IMPORTS = c11.IMPORTS
CASE_TYPE, RUN, EQB = c11.CASE_TYPE, c11.RUN, c11.EQB
CHUNK = 20
COQ_TAGF, COQ_TAG_NAMES = c11.COQ_TAGF, c11.COQ_TAG_NAMES
N = {"quick": 240, "thorough": 2400}
RULE = ("as C11 plus an edge-case stream (a single variable, isolated variables, Matrix labels with gaps, high-degree terms, "
        "models without couplings, models whose terms cancelled, one dense model on ten spins (1023 terms),  empty and all-zero schedules, num_anneals up to 4, with and "
        "without initial state, both visiting orders); all calls of a run are executed IN SEQUENCE IN ONE PROCESS through an "
        "-fsanitize=address,undefined build of the extension made from /repo's C sources; outputs are compared with the model; "
        "non-trivial = at least two spins and one coupling; distinct by canonical JSON")
THEOREMS = "C17_flat_access C17_row_start C17_quso_access C17_arrays C17_puso_access C17_picked_index C17_states_block C17_state_shape"
MODELLED = ("the compiled extension itself is outside the proof: the sanitizer run is runtime evidence for the binary (compiler, "
            "libc, libm and the CPython C-API are not modelled); leaks are not undefined behaviour and are not reported")
TRUSTED = ["clang 14 AddressSanitizer + UndefinedBehaviorSanitizer build of the extension from /repo's C sources",
           "harness/asan_runner.py (subprocess with LD_PRELOAD of the ASan runtime)"] + c11.TRUSTED[1:]

STATE = {"outs": None, "scratch": None, "sanitizer": None, "crash_index": None}


def pre_import(scratch):
    STATE["scratch"] = scratch
    c11.pre_import(scratch)


def edge_case(rng):
    """the corner cases the property lists"""
    kind = rng.choice(["single", "isolated", "gaps", "highdeg", "nocoupling", "cancelled", "emptysched", "zerosched"])
    c = A.gen_case(rng, "quick", ("zero", "pos", "mixed", "empty"))
    c["num"] = rng.choice([1, 2, 4])
    J = lambda t: G.jraw(t)
    if kind == "single":
        c.update({"fn": rng.choice([0, 1]), "kind": rng.choice([None, "QUSOMatrix"]), "terms": J([((0,), F(1))]), "upd": [], "init": None})
    elif kind == "isolated":
        c.update({"fn": 1, "kind": "PUSOMatrix", "terms": J([((0,), F(1)), ((4,), F(-2)), ((2, 3), F(1, 2))]), "upd": [], "init": None})
    elif kind == "gaps":
        c.update({"fn": rng.choice([0, 1]), "kind": "QUSOMatrix", "terms": J([((1, 6), F(1)), ((6,), F(-1))]), "upd": [], "init": None})
    elif kind == "highdeg":
        c.update({"fn": 1, "kind": rng.choice([None, "PUSO"]), "terms": J([((0, 1, 2, 3, 4, 5), F(3)), ((2, 5), F(-1))]), "upd": [], "init": None})
    elif kind == "nocoupling":
        c.update({"fn": 0, "kind": None, "terms": J([((0,), F(1)), ((1,), F(-1)), ((), F(2))]), "upd": [], "init": None})
    elif kind == "cancelled":
        c.update({"fn": 1, "kind": "PUSOMatrix", "terms": J([((0,), F(1)), ((0, 1, 2), F(1))]),
                  "upd": J([((0,), F(0)), ((0, 1, 2), F(0))]), "init": None})
        if c["Ts"] is None or not c["Ts"]:
            c["Ts"], c["sched"] = [[1, 1], [1, 2]], None
    elif kind == "emptysched":
        c["Ts"], c["sched"] = [], None
    else:
        c["Ts"], c["sched"] = [[0, 1]] * 3, None
    return c


def dense_case(rng):
    """every product of ten spins (1023 terms, each spin in 512 of them): per-spin term lists far longer than any block a
    kernel might allocate them in; one per run (index 11), a short schedule"""
    import itertools
    c = A.gen_case(rng, "quick", ("zero", "pos"))
    t = [(k, F(rng.choice([-3, -2, -1, 1, 2, 3]))) for d in range(1, 11) for k in itertools.combinations(range(10), d)]
    c.update({"fn": 1, "kind": rng.choice([None, "PUSOMatrix"]), "terms": G.jraw(t), "upd": [], "init": None, "num": 1,
              "remap": None})
    c["Ts"], c["sched"] = (c["Ts"] or [[1, 1]])[:2], None
    return c


def gen(rng, i, tier):
    if i == 11 or (tier != "quick" and i % 200 == 11):
        return dense_case(rng)
    return edge_case(rng) if rng.random() < 0.3 else A.gen_case(rng, tier, c11.MODES)


def sanitizer_run(cases):
    """all cases, in sequence, in one sanitized process; returns (outs or None, report)"""
    scratch = STATE["scratch"]
    ext = A.build_extension(scratch, sanitize=True)
    cp, op, pp = [os.path.join(scratch, x) for x in ("asan_cases.json", "asan_out.json", "asan_progress")]
    json.dump(cases, open(cp, "w"))
    rt = subprocess.run(["clang", "-print-file-name=libclang_rt.asan-x86_64.so"], stdout=subprocess.PIPE, text=True).stdout.strip()
    env = dict(os.environ, LD_PRELOAD=rt, PYTHONPATH=C.REPO, PYTHONHASHSEED="0",
               ASAN_OPTIONS="detect_leaks=0:halt_on_error=1:abort_on_error=0:exitcode=66",
               UBSAN_OPTIONS="halt_on_error=1:print_stacktrace=1:exitcode=66")
    p = subprocess.run([sys.executable, os.path.join(C.VERIF, "harness", "asan_runner.py"), ext, cp, op, pp],
                       stdout=subprocess.PIPE, stderr=subprocess.STDOUT, text=True, env=env, timeout=3000)
    prog = open(pp).read().strip() if os.path.exists(pp) else "?"
    bad = p.returncode != 0 or "AddressSanitizer" in p.stdout or "runtime error:" in p.stdout
    if bad:
        return None, {"returncode": p.returncode, "at_case": prog, "log": p.stdout[-3000:]}
    return json.load(open(op)), None


def summary(log):
    lines = log.splitlines()
    for j, l in enumerate(lines):
        if "ERROR: AddressSanitizer" in l or "runtime error:" in l:
            return " | ".join(x.strip() for x in lines[j:j + 6])[:700]
    return " | ".join(lines[-6:])[:700]


def run_impl(case):
    # the in-process run (plain build) gives the outputs to compare with the model; the sanitized batch is run once,
    # lazily, over the whole case list by `extra_run` below
    return c11.run_impl(case)


def static_checks():
    """the C sources' array accesses and allocations, regenerated from /repo, against the table the bounds lemmas cover"""
    import c_access
    problems, cur = c_access.drift()
    STATE["c_accesses"] = {f: len(v) for f, v in cur.items()}
    return problems


def batch_check(cases, outs):
    """called by main after all cases ran: the sanitized sequence"""
    souts, report = sanitizer_run(cases)
    viol = {}
    if report is not None:
        idx = int(report["at_case"]) if report["at_case"].isdigit() else 0
        viol[idx] = ["sanitizer reported undefined behaviour / the interpreter crashed during this call (calls 0..%d ran in "
                     "one process): %s" % (idx, summary(report["log"]))]
        STATE["sanitizer"] = report
        return viol
    for i, (o, so) in enumerate(zip(outs, souts)):
        if "purity_error" in o:
            continue
        if "error" in o or "error" in so:
            if o.get("error") != so.get("error"):
                viol[i] = ["sanitized run raised %r, plain run %r" % (so.get("error"), o.get("error"))]
        elif so["results"] != o["results"]:
            viol[i] = ["results under the sanitizer build, after %d earlier calls in the same process, differ from a fresh call" % i]
    STATE["sanitizer"] = {"calls_in_one_process": len(cases), "clean": True}
    return viol


literal = c11.literal


def oracle(case, out):
    return out["checks"][:3]


nontrivial = c11.nontrivial
tags = c11.tags


def extra_evidence():
    return {"sanitizer_run": STATE["sanitizer"]}
