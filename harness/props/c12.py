"""C12 — annealer dynamics are reproducible Metropolis sweeps."""
from fractions import Fraction as F
import common as C
import anneal_common as A
from props import c11

ID = "C12"
ISOLATE = True      # the implementation side runs in child processes: a crash of the C extension is reported, not fatal
IMPORTS = c11.IMPORTS
CASE_TYPE, RUN, EQB = c11.CASE_TYPE, c11.RUN, c11.EQB
CHUNK = 20
COQ_TAGF, COQ_TAG_NAMES = c11.COQ_TAGF, c11.COQ_TAG_NAMES
N = {"quick": 300, "thorough": 4000}
RULE = ("as C11, restricted to num_anneals >= 1 and biased to explicit schedules (all-zero, all-positive, mixed) with a "
        "supplied initial state; every call is made twice with the same seed; the result is compared with the specification "
        "chain (single-spin Metropolis with the exact energy difference recomputed from the model at every step, same PCG32 "
        "stream, exact rational arithmetic, enclosures of exp) and, at zero temperature, with the value of the initial "
        "state; non-trivial = at least two spins and one coupling; distinct by canonical JSON")
THEOREMS = "C12_quso_exact_dE C12_cache C12_puso_exact_dE C12_quso_refines C12_puso_refines C12_zero_descent C12_zero_inorder C12_accept_downhill C12_accept_uphill C12_rand_int"
MODELLED = c11.MODELLED + "; the quality of PCG32 as a uniform source is assumed"
TRUSTED = c11.TRUSTED
pre_import = c11.pre_import


def gen(rng, i, tier):
    while True:
        c = A.gen_case(rng, tier, ("zero", "zero", "pos", "pos", "mixed", "named"))
        if c["num"] >= 1:
            return c


def run_impl(case):
    model = A.build_model(case)
    try:
        res = A.call_impl(case, model)
        res2 = A.call_impl(case, model)
    except (KeyError, ValueError, TypeError) as ex:
        return {"error": type(ex).__name__, "Ts": [], "tab": [], "checks": []}
    Ts = A.observed_Ts(case, model)
    tab = A.ExpTable()
    try:
        ref = A.reference_run(case, model, Ts, tab)
    except A.Undecided:
        ref = "undecided"
    out = {"results": A.results_json(res), "Ts": [str(x) for x in Ts],
           "tab": [[str(x), str(lo), str(hi)] for x, (lo, hi) in tab.tab.items()], "ref": ref}
    v = []
    if A.results_json(res2) != out["results"]:
        v.append("two identical calls with seed %d returned different results" % case["seed"])
    if isinstance(ref, list):
        got = [[st, val] for st, val, _ in out["results"]]
        if got != ref:
            v.append("final states differ from single-spin Metropolis with exact energy differences on the same random "
                     "stream (seed %d): %r vs %r" % (case["seed"], got[:1], ref[:1]))
    # zero temperature: no result is worse than the supplied initial state
    if case["init"] is not None and Ts and all(t == 0 for t in Ts):
        items = [(tuple(k), C.toF(c)) for k, c in model.items()]
        x0 = {C.dec(l): val for l, val in case["init"]}
        if all(i in x0 for k, _ in items for i in k):
            e0 = F(0)
            for k, c in items:
                p = 1
                for i in k:
                    p *= x0[i]
                e0 += c * p
            for st, val, _ in out["results"]:
                if F(val) > e0:
                    v.append("zero temperature, yet value %s exceeds the initial state's value %s" % (val, e0))
                    break
    out["checks"] = v
    return out


literal = A.literal


def oracle(case, out):
    return out["checks"][:3]


nontrivial = c11.nontrivial


def tags(case, out):
    t = c11.tags(case, out)
    if case["Ts"] is not None:
        ts = [F(*x) for x in case["Ts"]]
        t.append("temps:" + ("zero" if all(x == 0 for x in ts) else "positive" if all(x > 0 for x in ts) else "mixed"))
    return t
