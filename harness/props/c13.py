"""C13 — AnnealResults keeps `best` equal to the minimum under every list operation."""
from fractions import Fraction as F
import common as C
import gens as G

ID = "C13"
IMPORTS = "From QV.Model Require Import Base AnnealResults.\nFrom QV.Corr Require Import C13."
CASE_TYPE = "(cin * cout)"
RUN, EQB = "run_case", "out_eqb"
N = {"quick": 500, "thorough": 6000}
RULE = ("random sequences of 1-25 operations over three live AnnealResults collections (all listed operations, empty "
        "operands on both sides, duplicated values, aliasing such as r.extend(r), out-of-range indices, negative and "
        "stepped slices); non-trivial = at least 4 operations of which one removes or replaces elements; distinct by "
        "canonical JSON")
THEOREMS = "C13_step C13_inv C13_derived C13_sort C13_convert"
MODELLED = ("results carry value, a state given as a list of bits, and the spin flag; which of several tied minima "
            "`best` refers to is not compared (the oracle checks identity-membership and minimality on the implementation)")

NREG = 3


NONNEG = [False]      # per case: values drawn from {0, 1/2, 1, ...} so that the smallest value is often exactly 0


def gen_result(rng, nbits):
    v = F(rng.randint(-3, 3), rng.choice([1, 1, 2]))
    if NONNEG[0]:
        v = abs(v) if rng.random() < 0.7 else F(0)
    r = {"v": [v.numerator, v.denominator], "bits": [rng.random() < 0.5 for _ in range(nbits)], "spin": rng.random() < 0.5}
    if rng.random() < 0.15:
        r["np"] = True      # the state's values are numpy integers (what numpy-based samplers hand over), equal to 0/1/-1
    return r


def gen_slice(rng):
    if rng.random() < 0.2:          # reversed tails res[:k:-1] / res[:-j:-1]
        return [None, rng.choice([0, 1, 2, 3, -1, -2, -3]), -1]
    f = lambda: rng.choice([None, None, 0, 1, 2, -1, -2, 5, -7])
    return [f(), f(), rng.choice([None, None, 1, 2, -1, -2, 3])]


def gen(rng, i, tier):
    NONNEG[0] = rng.random() < 0.3
    try:
        return gen_(rng, i, tier)
    finally:
        NONNEG[0] = False


def gen_(rng, i, tier):
    nbits = rng.randint(1, 3)
    ops = []
    R = lambda: rng.randrange(NREG)
    res = lambda: gen_result(rng, nbits)
    pool = []
    lens = [[] for _ in range(NREG)]     # plain-list mirror, only to aim indices at existing positions

    def Rn():
        ne = [i for i in range(NREG) if lens[i]]
        return rng.choice(ne) if ne and rng.random() < 0.85 else R()

    def idx(d):
        n = len(lens[d])
        if n and rng.random() < 0.8:
            return rng.randint(-n, n - 1)
        return rng.randint(-4, 4)

    def mirror(op):
        o = op["o"]
        try:
            if o == "construct": lens[op["d"]] = list(op["l"])
            elif o in ("append", "add_state"): lens[op["d"]].append(op["r"])
            elif o == "insert": lens[op["d"]].insert(op["i"], op["r"])
            elif o == "remove": lens[op["d"]].remove(op["r"])
            elif o == "pop": lens[op["d"]].pop(op["i"])
            elif o in ("extend", "iadd"): lens[op["d"]].extend(list(lens[op["s"]]))
            elif o in ("extend_list", "iadd_list"): lens[op["d"]].extend(op["l"])
            elif o == "add": lens[op["k"]] = lens[op["a"]] + lens[op["b"]]
            elif o == "add_list": lens[op["k"]] = lens[op["a"]] + op["l"]
            elif o == "mul": lens[op["k"]] = lens[op["a"]] * op["n"]
            elif o == "getslice": lens[op["k"]] = lens[op["a"]][sl(op["s"])]
            elif o == "setitem": lens[op["d"]][op["i"]] = op["r"]
            elif o == "setslice": lens[op["d"]][sl(op["s"])] = op["l"]
            elif o == "delitem": del lens[op["d"]][op["i"]]
            elif o == "delslice": del lens[op["d"]][sl(op["s"])]
            elif o == "clear": lens[op["d"]] = []
            elif o in ("copy", "apply", "convert", "to_boolean", "to_spin", "filter", "filter_states"):
                lens[op["k"]] = list(lens[op["a"]])
        except (IndexError, ValueError):
            pass

    for _ in range(rng.randint(1, 25 if tier == "quick" else 40)):
        if ops:
            mirror(ops[-1])
        r = rng.random()
        def someres():
            if pool and rng.random() < 0.6:
                return rng.choice(pool)
            x = res()
            pool.append(x)
            return x
        if r < 0.10:
            ops.append({"o": "construct", "d": R(), "l": [someres() for _ in range(rng.choice([0, 1, 2, 3, 4, 5, 6]))]})
        elif r < 0.22:
            ops.append({"o": rng.choice(["append", "add_state"]), "d": R(), "r": someres()})
        elif r < 0.28:
            ops.append({"o": "insert", "d": R(), "i": rng.randint(-6, 6), "r": someres()})
        elif r < 0.34:
            d = Rn()
            ops.append({"o": "remove", "d": d, "r": rng.choice(lens[d]) if lens[d] and rng.random() < 0.7 else someres()})
        elif r < 0.42:
            d = Rn()
            ops.append({"o": "pop", "d": d, "i": idx(d)})
        elif r < 0.50:
            ops.append({"o": rng.choice(["extend", "iadd"]), "d": R(), "s": R()})
        elif r < 0.54:
            ops.append({"o": rng.choice(["extend_list", "iadd_list"]), "d": R(), "l": [someres() for _ in range(rng.randint(0, 3))]})
        elif r < 0.58:
            ops.append({"o": "add", "k": R(), "a": R(), "b": R()})
        elif r < 0.60:
            ops.append({"o": "add_list", "k": R(), "a": R(), "l": [someres() for _ in range(rng.randint(0, 2))]})
        elif r < 0.63:
            a_ = R()
            ip = rng.random() < 0.4          # `x *= n`: Python falls back to __mul__ and rebinds, i.e. x = x * n
            ops.append({"o": "mul", "k": a_ if ip else R(), "a": a_, "n": rng.choice([0, 1, 2, 2, -1]), "ip": ip})
        elif r < 0.67:
            ops.append({"o": "getslice", "k": R(), "a": R(), "s": gen_slice(rng)})
        elif r < 0.69:
            d = Rn()
            ops.append({"o": "getitem", "a": d, "i": idx(d), "np": rng.random() < 0.4})
        elif r < 0.75:
            d = Rn()
            ops.append({"o": "setitem", "d": d, "i": idx(d), "r": someres()})
        elif r < 0.78:
            ops.append({"o": "setslice", "d": R(), "s": gen_slice(rng), "l": [someres() for _ in range(rng.randint(0, 3))]})
        elif r < 0.83:
            d = Rn()
            ops.append({"o": "delitem", "d": d, "i": idx(d)})
        elif r < 0.86:
            ops.append({"o": "delslice", "d": R(), "s": gen_slice(rng)})
        elif r < 0.87:
            ops.append({"o": "clear", "d": R()})
        elif r < 0.90:
            ops.append({"o": "sort", "d": R(), "rev": rng.random() < 0.4})
        elif r < 0.92:
            ops.append({"o": "copy", "k": R(), "a": R()})
        elif r < 0.94:
            c = F(rng.randint(-2, 2))
            ops.append({"o": "filter", "k": R(), "a": R(), "p": rng.choice([["vallt", [c.numerator, 1]], ["spin"], ["all"], ["none"]])})
        elif r < 0.95:
            ops.append({"o": "filter_states", "k": R(), "a": R(), "p": rng.choice(["first", "any", "all"])})
        elif r < 0.97:
            ops.append({"o": "apply", "k": R(), "a": R(), "f": rng.choice([["copy"], ["neg"], ["shift", [rng.randint(-2, 2), 1]]])})
        elif r < 0.98:
            ops.append({"o": "convert", "k": R(), "a": R(), "g": rng.choice(["flip", "rev", "id"])})
        else:
            ops.append({"o": rng.choice(["to_boolean", "to_spin"]), "k": R(), "a": R()})
    return {"ops": ops}


# ------------------------------------------------------------ implementation ----
def state_of(bits, spin):
    return {i: ((-1 if b else 1) if spin else (1 if b else 0)) for i, b in enumerate(bits)}


def mk(r):
    from qubovert.sim import AnnealResult
    st = state_of(r["bits"], r["spin"])
    if r.get("np"):
        import numpy
        st = {i: numpy.int64(x) for i, x in st.items()}
    return AnnealResult(st, C.num(F(*r["v"])), r["spin"])


def unmk(x):
    spin = bool(x.spin)
    st = x.state
    bits = [(st[i] == -1) if spin else (st[i] == 1) for i in range(len(st))]
    v = C.toF(x.value)
    # the state must be a legal dict for its flag
    legal = all(val in ((1, -1) if spin else (0, 1)) for val in st.values())
    return {"v": [v.numerator, v.denominator], "bits": bits, "spin": spin, "legal": legal}


def sl(s):
    return slice(s[0], s[1], s[2])


TARGET = {"construct": "d", "append": "d", "add_state": "d", "insert": "d", "remove": "d", "pop": "d", "extend": "d",
          "iadd": "d", "extend_list": "d", "iadd_list": "d", "setitem": "d", "setslice": "d", "delitem": "d",
          "delslice": "d", "clear": "d", "sort": "d", "getitem": "a"}


def twin_ok(case):
    # also run under the second label decoding (common.twin_labels); Matrix kinds index by int
    return C.no_matrix(case)


def run_impl(case):
    from qubovert.sim import AnnealResults, AnnealResult
    regs = [AnnealResults() for _ in range(NREG)]
    mirror = [[] for _ in range(NREG)]   # plain-list semantics of the same operations
    out = []
    checks = []
    for j, op in enumerate(case["ops"]):
        o = op["o"]
        err = None
        merr = None
        tgt = op[TARGET.get(o, "k")]

        def both(f, g):
            """f on the AnnealResults registers, g on the plain-list mirror"""
            nonlocal err, merr
            try:
                g()
            except (IndexError, ValueError) as ex:
                merr = type(ex).__name__
            try:
                f()
            except (IndexError, ValueError, TypeError, AttributeError) as ex:
                err = type(ex).__name__
        if o == "construct":
            l = [mk(r) for r in op["l"]]
            def f(): regs[op["d"]] = AnnealResults(l)
            def g(): mirror[op["d"]] = list(l)
        elif o == "append":
            x = mk(op["r"])
            def f(): regs[op["d"]].append(x)
            def g(): mirror[op["d"]].append(x)
        elif o == "add_state":
            r = op["r"]
            def f(): regs[op["d"]].add_state(state_of(r["bits"], r["spin"]), C.num(F(*r["v"])), r["spin"])
            def g(): mirror[op["d"]].append(mk(r))
        elif o == "insert":
            x = mk(op["r"])
            def f(): regs[op["d"]].insert(op["i"], x)
            def g(): mirror[op["d"]].insert(op["i"], x)
        elif o == "remove":
            x = mk(op["r"])
            def f(): regs[op["d"]].remove(x)
            def g(): mirror[op["d"]].remove(x)
        elif o == "pop":
            def f(): regs[op["d"]].pop(op["i"])
            def g(): mirror[op["d"]].pop(op["i"])
        elif o == "extend":
            def f(): regs[op["d"]].extend(regs[op["s"]])
            def g(): mirror[op["d"]].extend(mirror[op["s"]])
        elif o == "iadd":
            def f():
                x = regs[op["d"]]
                x += regs[op["s"]]
                regs[op["d"]] = x
            def g(): mirror[op["d"]].extend(list(mirror[op["s"]]))
        elif o in ("extend_list", "iadd_list"):
            l = [mk(r) for r in op["l"]]
            if o == "extend_list":
                def f(): regs[op["d"]].extend(l)
            else:
                def f():
                    x = regs[op["d"]]
                    x += l
                    regs[op["d"]] = x
            def g(): mirror[op["d"]].extend(l)
        elif o == "add":
            def f(): regs[op["k"]] = regs[op["a"]] + regs[op["b"]]
            def g(): mirror[op["k"]] = mirror[op["a"]] + mirror[op["b"]]
        elif o == "add_list":
            l = [mk(r) for r in op["l"]]
            def f(): regs[op["k"]] = regs[op["a"]] + l
            def g(): mirror[op["k"]] = mirror[op["a"]] + l
        elif o == "mul":
            def f():
                if op.get("ip"):
                    x = regs[op["a"]]
                    x *= op["n"]
                    regs[op["k"]] = x
                else:
                    regs[op["k"]] = regs[op["a"]] * op["n"]
            def g(): mirror[op["k"]] = mirror[op["a"]] * op["n"]
        elif o == "getslice":
            def f(): regs[op["k"]] = regs[op["a"]][sl(op["s"])]
            def g(): mirror[op["k"]] = mirror[op["a"]][sl(op["s"])]
        elif o == "getitem":
            ix = op["i"]
            if op.get("np"):           # an index a list accepts through __index__ (what numpy.argmin returns)
                import numpy
                ix = numpy.int64(ix)
            def f(): regs[op["a"]][ix]
            def g(): mirror[op["a"]][ix]
        elif o == "setitem":
            x = mk(op["r"])
            def f(): regs[op["d"]][op["i"]] = x
            def g(): mirror[op["d"]][op["i"]] = x
        elif o == "setslice":
            l = [mk(r) for r in op["l"]]
            def f(): regs[op["d"]][sl(op["s"])] = l
            def g(): mirror[op["d"]][sl(op["s"])] = l
        elif o == "delitem":
            def f(): del regs[op["d"]][op["i"]]
            def g(): del mirror[op["d"]][op["i"]]
        elif o == "delslice":
            def f(): del regs[op["d"]][sl(op["s"])]
            def g(): del mirror[op["d"]][sl(op["s"])]
        elif o == "clear":
            def f(): regs[op["d"]].clear()
            def g(): mirror[op["d"]].clear()
        elif o == "sort":
            def f(): regs[op["d"]].sort(reverse=op["rev"])
            def g(): mirror[op["d"]].sort(key=lambda r: r.value, reverse=op["rev"])
        elif o == "copy":
            def f(): regs[op["k"]] = regs[op["a"]].copy()
            def g(): mirror[op["k"]] = list(mirror[op["a"]])
        elif o == "filter":
            p = op["p"]
            fn = {"vallt": lambda r: r.value < F(*p[1]) if len(p) > 1 else False, "spin": lambda r: r.spin,
                  "all": lambda r: True, "none": lambda r: False}[p[0]]
            def f(): regs[op["k"]] = regs[op["a"]].filter(fn)
            def g(): mirror[op["k"]] = [r for r in mirror[op["a"]] if fn(r)]
        elif o == "filter_states":
            def bit(v, spin): return (v == -1) if spin else (v == 1)
            def mkfn(kind):
                def fn2(r):
                    bits = [bit(r.state[i], r.spin) for i in range(len(r.state))]
                    return (bits[0] if bits else False) if kind == "first" else any(bits) if kind == "any" else True
                return fn2
            rf = mkfn(op["p"])
            # filter_states passes only the state; rebuild the result-level predicate through a lookup by identity
            def f():
                src = regs[op["a"]]
                lookup = {id(r.state): r for r in src}
                regs[op["k"]] = src.filter_states(lambda s: rf(lookup[id(s)]))
            def g(): mirror[op["k"]] = [r for r in mirror[op["a"]] if rf(r)]
        elif o == "apply":
            fk = op["f"]
            def fn(r):
                if fk[0] == "copy":
                    return r
                if fk[0] == "neg":
                    return AnnealResult(r.state, -r.value, r.spin)
                return AnnealResult(r.state, r.value + F(*fk[1]), r.spin)
            def f(): regs[op["k"]] = regs[op["a"]].apply_function(fn)
            def g(): mirror[op["k"]] = [fn(r) for r in mirror[op["a"]]]
        elif o == "convert":
            gk = op["g"]
            def conv(r):
                s = r.state
                n = len(s)
                if gk == "flip":
                    ns = {i: (-v if r.spin else 1 - v) for i, v in s.items()}
                elif gk == "rev":
                    ns = {i: s[n - 1 - i] for i in range(n)}
                else:
                    ns = dict(s)
                return ns
            def f():
                src = regs[op["a"]]
                lookup = {id(r.state): r for r in src}
                regs[op["k"]] = src.convert_states(lambda s: conv(lookup[id(s)]))
            def g(): mirror[op["k"]] = [AnnealResult(conv(r), r.value, r.spin) for r in mirror[op["a"]]]
        elif o == "to_boolean":
            def f(): regs[op["k"]] = regs[op["a"]].to_boolean()
            def g(): mirror[op["k"]] = [r.to_boolean() for r in mirror[op["a"]]]
        elif o == "to_spin":
            def f(): regs[op["k"]] = regs[op["a"]].to_spin()
            def g(): mirror[op["k"]] = [r.to_spin() for r in mirror[op["a"]]]
        else:
            raise ValueError(o)
        both(f, g)
        c = regs[tgt]
        ob = {"err": err, "items": [unmk(x) for x in c], "best": None if c.best is None else unmk(c.best)}
        out.append(ob)
        # ---- the property itself, on the implementation -------------------------------------
        where = "after op %d (%s)" % (j, o)
        if err != merr:
            checks.append("%s: raised %s where a plain list gives %s" % (where, err, merr))
        for ri, (cc, mm) in enumerate(zip(regs, mirror)):
            if not isinstance(cc, AnnealResults):
                checks.append("%s: register %d is %s, not AnnealResults" % (where, ri, type(cc).__name__))
                continue
            if [unmk(x) for x in cc] != [unmk(x) for x in mm] and err == merr:
                checks.append("%s: contents differ from plain-list semantics" % where)
            if (cc.best is None) != (len(cc) == 0):
                checks.append("%s: best is %s but length is %d" % (where, "None" if cc.best is None else "set", len(cc)))
            elif cc.best is not None:
                if not any(cc.best is x for x in cc):
                    checks.append("%s: best is not an element of the collection" % where)
                if any(x.value < cc.best.value for x in cc):
                    checks.append("%s: best.value %s is not the minimum %s" % (where, cc.best.value, min(x.value for x in cc)))
            if any(not unmk(x)["legal"] for x in cc):
                checks.append("%s: a state has values outside its domain" % where)
        if o == "sort" and err is None:
            vals = [x.value for x in regs[tgt]]
            if vals != sorted(vals, reverse=op["rev"]):
                checks.append("%s: not sorted by value" % where)
    return {"obs": out, "checks": checks[:4]}


# ------------------------------------------------------------------ literals ----
def rlit(r):
    return "{| rval := %s; rbits := [%s]; rspin := %s |}" % (C.q(F(*r["v"])), "; ".join(C.boolc(b) for b in r["bits"]), C.boolc(r["spin"]))


def rl(l):
    return "[%s]" % "; ".join(rlit(r) for r in l)


def z(i):
    return "(%d)%%Z" % i


def slit(s):
    o = lambda x: "None" if x is None else "(Some %s)" % z(x)
    return "{| s_start := %s; s_stop := %s; s_step := %s |}" % (o(s[0]), o(s[1]), o(s[2]))


def oplit(op):
    o = op["o"]
    n = C.nat
    if o == "construct":
        return "Construct %s %s" % (n(op["d"]), rl(op["l"]))
    if o in ("append", "add_state"):
        return "Append %s %s" % (n(op["d"]), rlit(op["r"]))
    if o == "insert":
        return "Insert %s %s %s" % (n(op["d"]), z(op["i"]), rlit(op["r"]))
    if o == "remove":
        return "Remove %s %s" % (n(op["d"]), rlit(op["r"]))
    if o == "pop":
        return "Pop %s %s" % (n(op["d"]), z(op["i"]))
    if o in ("extend", "iadd"):
        return "Extend %s %s" % (n(op["d"]), n(op["s"]))
    if o in ("extend_list", "iadd_list"):
        return "ExtendList %s %s" % (n(op["d"]), rl(op["l"]))
    if o == "add":
        return "Add %s %s %s" % (n(op["k"]), n(op["a"]), n(op["b"]))
    if o == "add_list":
        return "AddList %s %s %s" % (n(op["k"]), n(op["a"]), rl(op["l"]))
    if o == "mul":
        return "Mul %s %s %s" % (n(op["k"]), n(op["a"]), z(op["n"]))
    if o == "getslice":
        return "GetSlice %s %s %s" % (n(op["k"]), n(op["a"]), slit(op["s"]))
    if o == "getitem":
        return "GetItem %s %s" % (n(op["a"]), z(op["i"]))
    if o == "setitem":
        return "SetItem %s %s %s" % (n(op["d"]), z(op["i"]), rlit(op["r"]))
    if o == "setslice":
        return "SetSlice %s %s %s" % (n(op["d"]), slit(op["s"]), rl(op["l"]))
    if o == "delitem":
        return "DelItem %s %s" % (n(op["d"]), z(op["i"]))
    if o == "delslice":
        return "DelSlice %s %s" % (n(op["d"]), slit(op["s"]))
    if o == "clear":
        return "Clear %s" % n(op["d"])
    if o == "sort":
        return "Sort %s %s" % (n(op["d"]), C.boolc(op["rev"]))
    if o == "copy":
        return "Copy %s %s" % (n(op["k"]), n(op["a"]))
    if o == "filter":
        p = op["p"]
        pl = {"vallt": lambda: "(PValLt %s)" % C.q(F(*p[1])), "spin": lambda: "PSpin", "all": lambda: "PAll", "none": lambda: "PNone"}[p[0]]()
        return "Filter %s %s %s" % (n(op["k"]), n(op["a"]), pl)
    if o == "filter_states":
        return "FilterStates %s %s %s" % (n(op["k"]), n(op["a"]), {"first": "SFirstSet", "any": "SAnySet", "all": "SAll"}[op["p"]])
    if o == "apply":
        f = op["f"]
        fl = {"copy": lambda: "FCopy", "neg": lambda: "FNeg", "shift": lambda: "(FShift %s)" % C.q(F(*f[1]))}[f[0]]()
        return "Apply %s %s %s" % (n(op["k"]), n(op["a"]), fl)
    if o == "convert":
        return "Convert %s %s %s" % (n(op["k"]), n(op["a"]), {"flip": "GFlip", "rev": "GRev", "id": "GId"}[op["g"]])
    if o == "to_boolean":
        return "ToBool %s %s" % (n(op["k"]), n(op["a"]))
    if o == "to_spin":
        return "ToSpin %s %s" % (n(op["k"]), n(op["a"]))
    raise ValueError(o)


ERR = {"IndexError": "IndexError", "ValueError": "ValueError", "TypeError": "TypeError", "AttributeError": "RuntimeError"}


def literal(case, out):
    cin = "[%s]" % "; ".join(oplit(op) for op in case["ops"])
    obs = []
    for ob in out["obs"]:
        obs.append("{| o_err := %s; o_items := %s; o_best := %s |}" % (
            "None" if ob["err"] is None else "Some " + ERR[ob["err"]], rl(ob["items"]),
            "None" if ob["best"] is None else "(Some %s)" % rlit(ob["best"])))
    return "(%s, [%s])" % (cin, "; ".join(obs))


def oracle(case, out):
    return out["checks"]


def nontrivial(case, out):
    ops = case["ops"]
    return len(ops) >= 4 and any(op["o"] in ("remove", "pop", "setitem", "setslice", "delitem", "delslice", "clear") for op in ops)


def tags(case, out):
    t = []
    for op, ob in zip(case["ops"], out["obs"]):
        t.append("op:" + op["o"] + (":" + ob["err"] if ob["err"] else ""))
        if op["o"] in ("extend", "iadd") and (not ob["items"]):
            t.append("extend:both-empty")
    return t
