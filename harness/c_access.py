"""Every array access `name[index]` in the C sources of the annealing extension, extracted from /repo on each run and compared
with the committed table coq/c_access_table.json, which names, for each access, the Coq lemma (Proofs/SafetyProofs.v,
Proofs/AnnealProofs.v) that bounds the index.  An access that is not in the table (a new array, a changed index
expression) means the bounds argument no longer covers the code."""
import json, os, re
import common as C

FILES = ["qubovert/sim/src/anneal_quso.c", "qubovert/sim/src/anneal_puso.c", "qubovert/sim/_canneal.c",
         "qubovert/sim/src/random.c"]
TABLE = os.path.join(C.VERIF, "coq", "c_access_table.json")


def strip(src):
    src = re.sub(r'/\*.*?\*/', ' ', src, flags=re.S)
    src = re.sub(r'//[^\n]*', ' ', src)
    src = re.sub(r'"(\\.|[^"\\])*"', '""', src)
    return src


def accesses(src):
    out = set()
    src = strip(src)
    # innermost first: name[expr without brackets]; then replace by a placeholder and repeat for the enclosing ones
    pat = re.compile(r'([A-Za-z_]\w*)\s*\[([^\[\]]*)\]')
    for _ in range(6):
        found = False
        def rep(m):
            nonlocal found
            found = True
            idx = re.sub(r'\s+', '', m.group(2))
            out.add("%s[%s]" % (m.group(1), idx))
            return "%s__%s__" % (m.group(1), re.sub(r'\W', '_', idx))
        src = pat.sub(rep, src)
        if not found:
            break
    return out


def allocations(src):
    src = strip(src)
    out = set()
    for m in re.finditer(r'([A-Za-z_]\w*)\s*=\s*\([^()]*\)\s*malloc\s*\(([^;]*)\)\s*;', src):
        out.add("alloc %s = %s" % (m.group(1), re.sub(r'\s+', '', m.group(2))))
    return out


def extract(repo=None):
    repo = repo or C.REPO
    res = {}
    for f in FILES:
        src = open(os.path.join(repo, f)).read()
        res[f] = sorted(accesses(src) | allocations(src))
    return res


def drift():
    cur = extract()
    tab = json.load(open(TABLE))
    problems = []
    for f in FILES:
        known = set(tab.get(f, {}))
        for a in cur[f]:
            if a not in known:
                problems.append("%s: access %s is not covered by the bounds table" % (f, a))
    return problems, cur


if __name__ == "__main__":
    print(json.dumps(extract(), indent=1))
