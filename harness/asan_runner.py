"""Runs annealer calls, in sequence in ONE process, through a sanitizer build of the extension.
usage: asan_runner.py <ext.so> <cases.json> <out.json> <progress file>"""
import sys, os, json, warnings
sys.path.insert(0, os.path.dirname(os.path.abspath(__file__)))
warnings.simplefilter("ignore")
import common as C
import anneal_common as A

ext, cases_path, out_path, progress = sys.argv[1:5]
A.install_extension(ext)
C.import_qubovert()
import qubovert.sim._anneal as SA
import sys as _s
assert SA.c_anneal_puso is _s.modules["qubovert.sim._canneal"].c_anneal_puso
cases = json.load(open(cases_path))
outs = []
for i, case in enumerate(cases):
    with open(progress, "w") as f:
        f.write(str(i))
    model = A.build_model(case)
    try:
        res = A.call_impl(case, model)
        Ts = A.observed_Ts(case, model) if case["num"] > 0 else []
        outs.append({"results": A.results_json(res), "Ts": [str(x) for x in Ts]})
    except (KeyError, ValueError, TypeError) as ex:
        outs.append({"error": type(ex).__name__})
with open(progress, "w") as f:
    f.write("done")
json.dump(outs, open(out_path, "w"))
