"""Input generators shared by the properties. All randomness comes from the rng passed in."""
from fractions import Fraction as F
import common as C


DYADIC_ONLY = False   # properties whose implementation mixes floats in set this (exact on dyadic values only)


def coef(rng, zero_ok=False, ints=False):
    while True:
        r = rng.random()
        if ints or r < 0.55:
            v = F(rng.randint(-9, 9))
        elif r < 0.85 or DYADIC_ONLY:
            v = F(rng.randint(-24, 24), rng.choice([2, 4, 8]))
        else:
            v = F(rng.randint(-5, 5), rng.choice([3, 5]))
        if v != 0 or zero_ok:
            return v


def labels(rng, universe, nv):
    """universe 'int': small ints (Matrix kinds, label = its own code); 'pool': mixed hashables"""
    if universe == 'int':
        return rng.sample(range(0, 8), nv)
    return rng.sample(C.POOL, nv)


def raw_terms(rng, universe='int', max_vars=6, max_terms=8, max_deg=5, repeats=True, zero_ok=False, ints=False,
              offset_p=0.4):
    """a raw dict as an ordered list of (key tuple of labels, Fraction); keys may be unsorted / repeated"""
    nv = rng.randint(1, max_vars)
    ls = labels(rng, universe, nv)
    out, seen = [], set()
    for _ in range(rng.randint(0, max_terms)):
        d = rng.randint(1, max_deg)
        if repeats and rng.random() < 0.3:
            k = tuple(rng.choice(ls) for _ in range(d))
        else:
            k = tuple(rng.sample(ls, min(d, nv)))
        if k in seen:
            continue
        seen.add(k)
        out.append((k, coef(rng, zero_ok, ints)))
    if rng.random() < offset_p:
        out.insert(rng.randint(0, len(out)), ((), coef(rng, zero_ok, ints)))
    return out


def quad_terms(rng, universe='int', max_vars=6, max_terms=8, spin=False, zero_ok=False, ints=False):
    """raw terms whose squashed keys have at most two labels"""
    nv = rng.randint(1, max_vars)
    ls = labels(rng, universe, nv)
    out, seen = [], set()
    for _ in range(rng.randint(0, max_terms)):
        r = rng.random()
        if r < 0.35 or nv < 2:
            k = (rng.choice(ls),)
        elif r < 0.85:
            k = tuple(rng.sample(ls, 2))
        else:
            a = rng.choice(ls)
            k = (a, a) if not spin else (a, a, rng.choice(ls))
        if k in seen:
            continue
        seen.add(k)
        out.append((k, coef(rng, zero_ok, ints)))
    if rng.random() < 0.4:
        out.insert(rng.randint(0, len(out)), ((), coef(rng, zero_ok, ints)))
    return out


def jraw(t):
    """JSON form of raw terms: labels encoded as nat codes"""
    return [[[C.enc(i) for i in k], [v.numerator, v.denominator]] for k, v in t]


def unjraw(j):
    """back to [(tuple of labels, Fraction)]"""
    return [(tuple(C.dec(i) for i in k), F(v[0], v[1])) for k, v in j]


def pydict(t, mode='q'):
    """python dict from raw terms (later duplicates overwrite earlier ones as in a dict literal)"""
    return {k: C.numf(v, mode) for k, v in t}


def dyadic(t):
    return all(v.denominator & (v.denominator - 1) == 0 for _, v in t)
