(* C17 — the C annealing kernels are memory-safe on every valid call.
   Statements only; proofs in Proofs/SafetyProofs.v and Proofs/AnnealProofs.v.

   What a proof assistant can carry here is the INDEX ARITHMETIC of the kernels: every array access of the C sources is
   listed (regenerated from /repo on each run by harness/c_access.py) in coq/c_access_table.json together with the lemma
   that bounds its index, and each allocation with the block size those lemmas assume.  The lemmas below are about the
   Gallina transcription of that arithmetic (flat arrays + row starts).  Use of freed or uninitialised memory, signed
   overflow, and the behaviour of the real machine code are outside any Gallina model: they are observed by running the
   same call sequences through an ASan+UBSan build of the extension rebuilt from /repo (harness/props/c17.py), in one
   process, and by comparing results with fresh calls. *)
From QV.Model Require Import Base Matrix Convert Reduce Anneal.
From QV.Proofs Require Import BaseProofs AnnealProofs SafetyProofs.

(* arr[index[i] + j], j < num[i]: inside the block of sum(num) elements, and it is entry j of row i *)
Theorem C17_flat_access : forall (A : Type) (d : A) rows i j, (i < length rows)%nat -> (j < length (nth i rows []))%nat ->
  (row_start rows i + j < length (flat rows))%nat /\ nth (row_start rows i + j) (flat rows) d = nth j (nth i rows []) d.
Proof. intros A d. exact (flat_access d). Qed.
Print Assumptions C17_flat_access.
(* index[i] = index[i-1] + num[i-1] is that row start *)
Theorem C17_row_start : forall (A : Type) (rows : list (list A)) i, (i < length rows)%nat ->
  row_start rows (S i) = (row_start rows i + nth i (counts rows) 0%nat)%nat.
Proof. intros A. exact row_start_succ. Qed.
Print Assumptions C17_row_start.

(* quadratic kernel: neighbors[index[i]+j] and J[index[i]+j] are in range, and the neighbour read there indexes state[] and
   flip_spin_dE[] in range -- for the arrays _anneal.py builds from any valid model (C11_arrays gives args_ok) *)
Theorem C17_quso_access : forall a N, args_ok a N ->
  forall i j, (i < N)%nat -> (j < nth i (counts (qnb a)) 0%nat)%nat ->
    let pos := (row_start (qnb a) i + j)%nat in
    (pos < length (flat (qnb a)))%nat /\ (fst (nth pos (flat (qnb a)) (0%nat, 0%Q)) < N)%nat.
Proof. exact quso_access. Qed.
Print Assumptions C17_quso_access.
Theorem C17_arrays : forall N t, qvalid N t -> args_ok (quso_flatten N t) N.
Proof. exact flatten_ok. Qed.
Print Assumptions C17_arrays.

(* general kernel: terms[index[t]+j] is in range and the label read there indexes state[] in range *)
Theorem C17_puso_access : forall (keys : list (list nat)) len, (forall k, In k keys -> forall l, In l k -> (l < len)%nat) ->
  forall t j, (t < length keys)%nat -> (j < nth t (counts keys) 0%nat)%nat ->
    let pos := (row_start keys t + j)%nat in
    (pos < length (flat keys))%nat /\ (nth pos (flat keys) 0%nat < len)%nat.
Proof. exact puso_access. Qed.
Print Assumptions C17_puso_access.

(* the spin picked by a step (sweep position or pcg32_boundedrand) and the result block states[i*len_state + j] *)
Theorem C17_picked_index : forall (io : bool) (r : rng) (j N : nat) (r' : rng) (i : nat),
  (if io then Some (r, j) else rand_int r N) = Some (r', i) -> (j < N)%nat -> (i < N)%nat.
Proof. exact picked_index_ok. Qed.
Print Assumptions C17_picked_index.
Theorem C17_states_block : forall num len i j, (i < num)%nat -> (j < len)%nat -> (i * len + j < num * len)%nat.
Proof. exact states_access. Qed.
Print Assumptions C17_states_block.

(* the state array keeps its length and its entries stay +-1 through a whole anneal (no write lands elsewhere in the model) *)
Theorem C17_state_shape : forall E tab io Ts r s r' s', metro_single E tab io Ts r s = Some (r', s') ->
  length s' = length s /\ (pm1 s -> pm1 s') /\ (all_zero Ts -> (E s' <= E s)%Q).
Proof. exact metro_single_spec. Qed.
Print Assumptions C17_state_shape.

Example C17_example : row_start [[1; 2]; []; [3]]%nat 2 = 2%nat /\ nth (row_start [[1; 2]; []; [3]]%nat 2 + 0) (flat [[1; 2]; []; [3]]%nat) 0%nat = 3%nat.
Proof. split; reflexivity. Qed.
