(* C17 — placeholder while the model is validated; theorems follow *)
From QV.Model Require Import Base Matrix Convert Reduce Anneal.
