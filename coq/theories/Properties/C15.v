(* C15 — approximate extrema always enclose the true extrema; the annealing
   temperature range is ordered and non-negative. Statements only; proofs are
   in Proofs/ExtremaProofs.v and Proofs/TempRange.v. *)
From QV.Model Require Import Base Matrix Extrema.
From QV.Proofs Require Import BaseProofs ExtremaProofs TempRangeQ TempRange.
From Coq Require Import Reals.
Open Scope Q_scope.

(* approximate_pubo_extrema / approximate_qubo_extrema (the latter is the former):
   any raw term list, every boolean assignment *)
Theorem C15_pubo : forall (e : env) (P : terms), boolean_env e ->
  fst (approx_pubo P) <= eval e P /\ eval e P <= snd (approx_pubo P).
Proof. exact approx_pubo_sound. Qed.
Print Assumptions C15_pubo.

(* approximate_puso_extrema / approximate_quso_extrema *)
Theorem C15_puso : forall (e : env) (H : terms), spin_env e ->
  fst (approx_puso H) <= eval e H /\ eval e H <= snd (approx_puso H).
Proof. exact approx_puso_sound. Qed.
Print Assumptions C15_puso.

(* constant model: lo = hi = the constant *)
Theorem C15_constant_pubo : forall (e : env) (P : terms), only_const P ->
  fst (approx_pubo P) == eval e P /\ snd (approx_pubo P) == eval e P.
Proof. exact approx_pubo_const. Qed.
Print Assumptions C15_constant_pubo.
Theorem C15_constant_puso : forall (e : env) (P : terms), only_const P ->
  fst (approx_puso P) == eval e P /\ snd (approx_puso P) == eval e P.
Proof. exact approx_puso_const. Qed.
Print Assumptions C15_constant_puso.

(* anneal_temperature_range, rational part: the two energy scales are ordered *)
Theorem C15_del_energies : forall t vars m M,
  del_energies t vars = Some (m, M) ->
  (exists k c v, In (k, c) t /\ In v k /\ In v vars) ->
  0 <= m /\ m <= M.
Proof. exact del_energies_ordered. Qed.
Print Assumptions C15_del_energies.

(* a model without variables gives (0, 0) *)
Theorem C15_no_variables : forall t vars,
  vars = [] \/ nonconst t = [] -> temp_range_spin t vars = TZero.
Proof. exact temp_range_no_variables. Qed.
Print Assumptions C15_no_variables.

(* real part: T0 = -max_del/ln(start) >= Tf = -min_del/ln(end) >= 0 for every
   admissible pair of flip probabilities 0 <= end <= start < 1 *)
Theorem C15_temperature_range : forall s e m M : R,
  (0 <= e -> e <= s -> s < 1 -> 0 <= m -> m <= M ->
  temp s M >= temp e m /\ temp e m >= 0)%R.
Proof. exact temperature_range_ordered. Qed.
Print Assumptions C15_temperature_range.

(* non-vacuity: a concrete non-trivial model and its bounds *)
Example C15_example :
  approx_pubo [([0;1]%nat, 3#2); ([1]%nat, -(2)); ([], 1)] = (-(2) + 1, 0 + (3#2) + 1)%Q
  /\ temp_range_spin [([0;1]%nat, 3#2); ([1]%nat, -(2))] [0;1]%nat = TVals (2 * (3#2)) (2 * (0 + (3#2) + 2)).
Proof. vm_compute. split; reflexivity. Qed.

(* the function never fails (min()/max() of an empty sequence is unreachable) *)
Theorem C15_no_error : forall t vars, temp_range_spin t vars <> TError.
Proof. exact temp_range_no_error. Qed.
Print Assumptions C15_no_error.
