(* C08 — the constrained optimum survives penalisation, reduction and solution conversion.
   Statements only; proofs in Proofs/WorkflowProofs.v.

   C08_abstract is the general argument, for any number of constraints: objective f, constraint j with truth R j, weight
   lam j, penalty function G j (non-negative, zero reachable by moving only its own ancillas exactly when R j holds, at
   least 1 otherwise), weights above the spread W of f.  Its hypotheses are exactly what C02 / C03 / C06 prove per
   constraint, plus G_later (a penalty does not read the ancillas of constraints added after it).
   C08_one_constraint discharges all of them for a PCBO holding an objective and one comparison constraint;
   C08_reduced continues through degree reduction (C01) and convert_solution. *)
From QV.Model Require Import Base Matrix Arith Expr Extrema Sat PCBO Convert PCSO Reduce.
From QV.Proofs Require Import BaseProofs KeyProofs ArithProofs InvProofs ConvertProofs PenaltyArith PCBOProofs PCSOProofs ReduceProofs WorkflowProofs WorkflowSeq WorkflowMixed.
From QV.Model Require Import Logic.
Open Scope Q_scope.

Theorem C08_abstract : forall (f : env -> Q) (n : nat) (G : nat -> env -> Q) (lam : nat -> Q) (R : nat -> env -> Prop)
    (fr : nat -> label -> Prop) (W : Q),
  (forall j x, (j < n)%nat -> boolean_env x -> 0 <= G j x) ->
  (forall j x, (j < n)%nat -> boolean_env x -> R j x -> exists x', boolean_env x' /\ agree_off (fr j) x x' /\ G j x' == 0) ->
  (forall j x, (j < n)%nat -> boolean_env x -> ~ R j x -> 1 <= G j x) ->
  (forall j x, R j x \/ ~ R j x) ->
  (forall x x', boolean_env x -> boolean_env x' -> agree_off (anyfr n fr) x x' -> f x == f x') ->
  (forall j x x', (j < n)%nat -> boolean_env x -> boolean_env x' -> agree_off (anyfr n fr) x x' -> (R j x <-> R j x')) ->
  (forall i j x x', (i < j)%nat -> (j < n)%nat -> boolean_env x -> boolean_env x' -> agree_off (fr j) x x' -> G i x == G i x') ->
  (forall x x', boolean_env x -> boolean_env x' -> f x - f x' <= W) ->
  (forall j, (j < n)%nat -> W < lam j) ->
  forall x0 xs, boolean_env x0 -> (forall j, (j < n)%nat -> R j x0) ->
  boolean_env xs -> (forall x, boolean_env x -> H f n G lam xs <= H f n G lam x) ->
  (forall j, (j < n)%nat -> R j xs) /\
  (forall x, boolean_env x -> (forall j, (j < n)%nat -> R j x) -> f xs <= f x) /\
  H f n G lam xs == f xs.
Proof. exact minimiser_feasible_optimal. Qed.
Print Assumptions C08_abstract.

Theorem C08_one_constraint : forall r m Pin lam lt b m' w t W x0 xs,
  add_constraint r m Pin lam lt b = Ok (m', w, t) -> bkind (kd m) -> w <> WUnsat ->
  let f := fun x => eval x (tm m) in
  let pv := fun x => eval x Pin in
  int_v pv -> bvalid pv b -> no_anc Pin -> no_anc (tm m) ->
  (forall x x', boolean_env x -> boolean_env x' -> f x - f x' <= W) -> W < lam ->
  boolean_env x0 -> rel_prop r (pv x0) ->
  boolean_env xs -> (forall x, boolean_env x -> eval xs (tm m') <= eval x (tm m')) ->
  rel_prop r (pv xs) /\ (forall x, boolean_env x -> rel_prop r (pv x) -> f xs <= f x) /\ eval xs (tm m') == f xs.
Proof. exact workflow_one. Qed.
Print Assumptions C08_one_constraint.

Theorem C08_reduced : forall r m Pin lam lt b m' w t W x0 out deg l pairs D s,
  add_constraint r m Pin lam lt b = Ok (m', w, t) -> bkind (kd m) -> w <> WUnsat ->
  let f := fun x => eval x (tm m) in
  let pv := fun x => eval x Pin in
  int_v pv -> bvalid pv b -> no_anc Pin -> no_anc (tm m) ->
  (forall x x', boolean_env x -> boolean_env x' -> f x - f x' <= W) -> W < lam ->
  boolean_env x0 -> rel_prop r (pv x0) ->
  reduce_degree m' out deg l pairs = Ok D -> bmat out -> Inv m' -> is_labelled (kd m') = true ->
  (forall ms, mapped_self (mp m') (tm m') = Ok ms -> forall k v, In (k, v) ms -> Qabs v <= lam_fun l v) ->
  boolean_env s -> (forall s', boolean_env s' -> eval s (tm D) <= eval s' (tm D)) ->
  let xs := pull (mp m') s in
  rel_prop r (pv xs) /\ (forall x, boolean_env x -> rel_prop r (pv x) -> f xs <= f x) /\ eval s (tm D) == f xs.
Proof. exact workflow_reduced. Qed.
Print Assumptions C08_reduced.

(* any number of comparison constraints on one PCBO (any relations / branches / log_trick / bounds), none warned
   unsatisfiable (run_ok), every weight above the spread of the objective: every minimiser of the penalised model over
   all variables and ancillas satisfies all constraints, minimises the objective among the feasible assignments, and the
   minimum is that constrained optimum.  All hypotheses of the abstract theorem are discharged: per-constraint penalties by
   C02_constraint, independence from later ancillas by C02_ancilla_bound / C02_later. *)
Theorem C08_sequence : forall cs m m' W x0 xs,
  run_ok m cs = Ok m' -> bkind (kd m) -> no_anc (tm m) -> Forall call_ok cs ->
  let f := fun x => eval x (tm m) in
  (forall x x', boolean_env x -> boolean_env x' -> f x - f x' <= W) ->
  (forall c, In c cs -> W < cc_lam c) ->
  boolean_env x0 -> (forall c, In c cs -> cR c x0) ->
  boolean_env xs -> (forall x, boolean_env x -> eval xs (tm m') <= eval x (tm m')) ->
  (forall c, In c cs -> cR c xs) /\
  (forall x, boolean_env x -> (forall c, In c cs -> cR c x) -> f xs <= f x) /\
  eval xs (tm m') == f xs.
Proof. exact workflow_seq. Qed.
Print Assumptions C08_sequence.

(* the same for a PCSO: any number of spin comparison constraints, spin assignments of variables and ancilla spins *)
Theorem C08_sequence_spin : forall cs m m' W z0 zs,
  run_ok_S m cs = Ok m' -> kd m = KPcso -> no_anc (tm m) -> Forall call_ok_S cs ->
  let f := fun z => eval z (tm m) in
  (forall z z', spin_env z -> spin_env z' -> f z - f z' <= W) ->
  (forall c, In c cs -> W < cc_lam c) ->
  spin_env z0 -> (forall c, In c cs -> cR c z0) ->
  spin_env zs -> (forall z, spin_env z -> eval zs (tm m') <= eval z (tm m')) ->
  (forall c, In c cs -> cR c zs) /\
  (forall z, spin_env z -> (forall c, In c cs -> cR c z) -> f zs <= f z) /\
  eval zs (tm m') == f zs.
Proof. exact workflow_seq_S. Qed.
Print Assumptions C08_sequence_spin.

(* ... continued through any degree reduction of the constrained model and convert_solution; the bookkeeping invariant of the
   objective model (true of every model built by the constructor and the C14 edits) is all that is assumed about it *)
Theorem C08_sequence_reduced : forall cs m m' W x0 out deg l pairs D s,
  run_ok m cs = Ok m' -> bkind (kd m) -> no_anc (tm m) -> Forall call_ok cs ->
  let f := fun x => eval x (tm m) in
  (forall x x', boolean_env x -> boolean_env x' -> f x - f x' <= W) ->
  (forall c, In c cs -> W < cc_lam c) ->
  boolean_env x0 -> (forall c, In c cs -> cR c x0) ->
  reduce_degree m' out deg l pairs = Ok D -> bmat out -> Inv m -> is_labelled (kd m) = true ->
  (forall ms, mapped_self (mp m') (tm m') = Ok ms -> forall k v, In (k, v) ms -> Qabs v <= lam_fun l v) ->
  boolean_env s -> (forall s', boolean_env s' -> eval s (tm D) <= eval s' (tm D)) ->
  let xs := pull (mp m') s in
  (forall c, In c cs -> cR c xs) /\
  (forall x, boolean_env x -> (forall c, In c cs -> cR c x) -> f xs <= f x) /\
  eval s (tm D) == f xs.
Proof. exact workflow_seq_reduced_inv. Qed.
Print Assumptions C08_sequence_reduced.

(* non-vacuity: minimise -x0 - x1 - x2 subject to x0 + x1 + x2 - 2 <= 0 with weight 4 > 3 = spread *)
(* any sequence that mixes comparison constraints and the sixteen logic constraints on one PCBO (run_mixed: the calls in
   order; a comparison constraint warned unsatisfiable aborts).  mcall_ok: positive weights, integer-valued comparison
   polynomials with valid bounds, logic operands 0/1-valued, no ancilla labels in what the user passes in.  With every weight
   above max f - min f: a minimiser of the penalised model satisfies every constraint, minimises f over the assignments that
   satisfy all of them, and the minimum is the constrained optimum. *)
Theorem C08_sequence_mixed : forall cs m m' W x0 xs,
  run_mixed m cs = Ok m' -> bkind (kd m) -> no_anc (tm m) -> Forall mcall_ok cs ->
  let f := fun x => eval x (tm m) in
  (forall x x', boolean_env x -> boolean_env x' -> f x - f x' <= W) ->
  (forall c, In c cs -> W < mlam c) ->
  boolean_env x0 -> (forall c, In c cs -> mR c x0) ->
  boolean_env xs -> (forall x, boolean_env x -> eval xs (tm m') <= eval x (tm m')) ->
  (forall c, In c cs -> mR c xs) /\
  (forall x, boolean_env x -> (forall c, In c cs -> mR c x) -> f xs <= f x) /\
  eval xs (tm m') == f xs.
Proof. exact workflow_mixed. Qed.
Print Assumptions C08_sequence_mixed.

(* ... continued through any degree reduction (to_pubo / to_qubo and the boolean side of to_puso / to_quso) and
   convert_solution (pull), assuming only the bookkeeping invariant of the objective model *)
Theorem C08_sequence_mixed_reduced : forall cs m m' W x0 out deg l pairs D s,
  run_mixed m cs = Ok m' -> bkind (kd m) -> no_anc (tm m) -> Forall mcall_ok cs ->
  let f := fun x => eval x (tm m) in
  (forall x x', boolean_env x -> boolean_env x' -> f x - f x' <= W) ->
  (forall c, In c cs -> W < mlam c) ->
  boolean_env x0 -> (forall c, In c cs -> mR c x0) ->
  reduce_degree m' out deg l pairs = Ok D -> bmat out -> Inv m -> is_labelled (kd m) = true ->
  (forall ms, mapped_self (mp m') (tm m') = Ok ms -> forall k v, In (k, v) ms -> Qabs v <= lam_fun l v) ->
  boolean_env s -> (forall s', boolean_env s' -> eval s (tm D) <= eval s' (tm D)) ->
  let xs := ConvertProofs.pull (mp m') s in
  (forall c, In c cs -> mR c xs) /\
  (forall x, boolean_env x -> (forall c, In c cs -> mR c x) -> f xs <= f x) /\
  eval s (tm D) == f xs.
Proof. exact workflow_mixed_reduced. Qed.
Print Assumptions C08_sequence_mixed_reduced.

Example C08_example :
  exists m m' w t, m_create KPcbo [([0]%nat, -(1)); ([1]%nat, -(1)); ([2]%nat, -(1))] = Ok m
    /\ add_constraint RLe m [([0]%nat, 1); ([1]%nat, 1); ([2]%nat, 1); ([], -(2))] 4 true (None, None) = Ok (m', w, t)
    /\ w = WNone /\ (0 < anc m')%nat.
Proof. eexists. eexists. eexists. eexists. vm_compute. repeat split. apply Nat.lt_0_succ. Qed.

(* non-vacuity of the mixed form: x0 + x1 + x2 <= 2 followed by x0 == (x1 AND x2) on a PCBO *)
Example C08_example_mixed :
  exists m m', m_create KPcbo [([0]%nat, -(1)); ([1]%nat, -(1)); ([2]%nat, -(1))] = Ok m
    /\ run_mixed m [MC {| cc_rel := RLe; cc_P := [([0]%nat, 1); ([1]%nat, 1); ([2]%nat, 1); ([], -(2))]; cc_lam := 4; cc_log := true; cc_bounds := (None, None) |};
                    ML GAnd true [SLbl 0%nat; SLbl 1%nat; SLbl 2%nat] 4] = Ok m'
    /\ (0 < anc m')%nat /\ (length (tm m) < length (tm m'))%nat.
Proof. eexists. eexists. split; [vm_compute; reflexivity|]. split; [vm_compute; reflexivity|]. split; vm_compute; repeat constructor. Qed.
