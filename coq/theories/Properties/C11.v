(* C11 — annealers return well-formed results whose values match their states.
   Statements only; proofs in Proofs/AnnealProofs.v (kernels) and Proofs/AnnealFront.v (front ends, whole calls).

   The C kernels are modelled on lists (Model/Anneal.v): quso_flatten / puso_flatten are the arrays _anneal.py builds from
   the enumerated model t, c_anneal_quso / c_anneal_puso are the entry points of the extension, package adds labels and
   the offset.  E_puso (puso_flatten t) s is the model without its constant evaluated at the spin list s. *)
From QV.Model Require Import Base Matrix Convert Reduce Anneal.
From QV.Proofs Require Import BaseProofs KeyProofs ArithProofs InvProofs AnnealProofs AnnealFront.
Open Scope Q_scope.

(* a call of the quadratic kernel: exactly n results; every state has one entry +-1 per spin; the reported value is the
   model's energy at the returned state (for every schedule, initial state, visiting order, seed, and table of exp values) *)
Theorem C11_quso_kernel : forall N t tab Ts n io init seed res,
  qvalid N t -> NoDup (map fst t) ->
  c_anneal_quso (quso_flatten N t) tab Ts n io init seed = Some res ->
  match init with Some si => length si = N /\ pm1 si | None => True end ->
  let E := E_puso (puso_flatten t) in
  length res = n /\
  forall s v, In (s, v) res ->
    length s = N /\ pm1 s /\ v == E s /\ (all_zero Ts -> forall si, init = Some si -> E s <= E si).
Proof. exact c_anneal_quso_spec. Qed.
Print Assumptions C11_quso_kernel.

(* the same for the general kernel *)
Theorem C11_puso_kernel : forall len a tab Ts n io init seed res,
  nodup_keys a ->
  c_anneal_puso len a tab Ts n io init seed = Some res ->
  match init with Some si => length si = len /\ pm1 si | None => True end ->
  length res = n /\
  forall s v, In (s, v) res ->
    length s = len /\ pm1 s /\ v = E_puso a s /\ (all_zero Ts -> forall si, init = Some si -> E_puso a s <= E_puso a si).
Proof. exact c_anneal_puso_refined. Qed.
Print Assumptions C11_puso_kernel.

(* kernel value + offset = the enumerated model evaluated at the state, constant term included *)
Theorem C11_value_with_offset : forall t s, NoDup (map fst t) -> E_puso (puso_flatten t) s + get_sq t [] == eval (env_of s) t.
Proof. exact value_with_offset. Qed.
Print Assumptions C11_value_with_offset.

(* the front end returns one labelled state per kernel result, over spins 0..N-1 through the reverse mapping, value + offset *)
Theorem C11_package : forall p res, length (package p res) = length res /\
  forall st v, In (st, v) (package p res) -> exists s v0, In (s, v0) res /\ v = v0 + get_sq (p_model p) [] /\
    st = map (fun k => (match assoc_get k (p_rmp p) with Some l => l | None => k end, nth k s 0%Z)) (seq 0 (p_N p)).
Proof. exact package_spec. Qed.
Print Assumptions C11_package.

(* the arrays built from a valid quadratic model are well formed: sizes, indices in range, no self coupling, symmetric *)
Theorem C11_arrays : forall N t, qvalid N t -> args_ok (quso_flatten N t) N.
Proof. exact flatten_ok. Qed.
Print Assumptions C11_arrays.

(* the model handed to the kernel is valid for it: Matrix inputs (labels are the spin indices, N = largest label + 1) and
   labelled inputs (enumerated through the mapping, N = num_binary_variables); Inv is the C14 invariant, wf canonical storage *)
Theorem C11_prepared_matrix : forall m, Inv m -> wf (kd m) (tm m) -> kd m = KQusoM ->
  qvalid (matrix_N m) (tm m) /\ NoDup (map fst (tm m)).
Proof. exact prep_matrix_valid. Qed.
Print Assumptions C11_prepared_matrix.
Theorem C11_prepared_labelled : forall m e, Inv m -> is_labelled (kd m) = true -> Convert.quso_to_quso m = Ok e ->
  qvalid (num_vars m) (tm e) /\ NoDup (map fst (tm e)).
Proof. exact prep_labelled_valid. Qed.
Print Assumptions C11_prepared_labelled.

(* end to end for anneal_quso on a QUSOMatrix: num_anneals results, each a +-1 state over spins 0..N-1 whose reported value is
   the model (offset included) evaluated at that state -- every schedule, initial state, visiting order and seed *)
Theorem C11_anneal_quso_matrix : forall m tab Ts num io initial seed l,
  kd m = KQusoM -> Inv m -> wf (kd m) (tm m) ->
  run_spin true (SrcModel m) tab Ts num io initial seed = AResults l ->
  (0 < num)%Z -> matrix_N m <> 0%nat ->
  (forall d, initial = Some d -> forall k, (k < matrix_N m)%nat ->
     match assoc_get k d with Some v => v = 1%Z \/ v = (-1)%Z | None => True end) ->
  let N := matrix_N m in
  length l = Z.to_nat num /\
  forall st v, In (st, v) l -> exists s, length s = N /\ pm1 s /\
    st = map (fun k => (match assoc_get k (identity_rmp N) with Some lb => lb | None => k end, nth k s 0%Z)) (seq 0 N) /\
    v == eval (env_of s) (tm m).
Proof. exact run_spin_quso_matrix. Qed.
Print Assumptions C11_anneal_quso_matrix.

(* ---- whole calls, every accepted source ----------------------------------------------------------------------------
   src_ok: a model object passed in satisfies the bookkeeping invariant of C14 and is stored canonically (every reachable
   object does: C14_reachable, C05_tree); a plain dict needs nothing.  spin_vars / bool_vars: the variables the call reports --
   0..max_index for Matrix kinds, the mapping's labels for labelled kinds, the variables of the QUSO / PUSO built from a dict.
   result_ok: exactly num_anneals results; each state lists every variable once with a value in {1,-1}; the reported value is
   the source model, offset included, at the state (st_env: the listed spins, +1 for labels the canonical model does not
   contain).  For every schedule, exp table, initial state with +-1 entries, visiting order and seed. *)
Theorem C11_anneal_spin : forall (quso : bool) s tab Ts num io initial seed l,
  src_ok s -> init_pm1 initial -> (0 < num)%Z ->
  run_spin quso s tab Ts num io initial seed = AResults l ->
  result_ok (spin_vars quso s) (src_items s) (Z.to_nat num) l.
Proof. exact anneal_spin_spec. Qed.
Print Assumptions C11_anneal_spin.

(* the same for a labelled model whose variables the user renumbered (set_mapping / set_reverse_mapping with the model's labels
   and pairwise different integers below their number): C04_renumbered keeps the invariant *)
Theorem C11_anneal_renumbered : forall (quso : bool) m mpx tab Ts num io initial seed l,
  Inv m -> wf (kd m) (tm m) -> is_labelled (kd m) = true ->
  (forall i, In i (map fst mpx) <-> In i (map fst (mp m))) -> NoDup (map fst mpx) -> snd_ok mpx ->
  init_pm1 initial -> (0 < num)%Z ->
  run_spin quso (SrcModel (set_mapping m mpx)) tab Ts num io initial seed = AResults l ->
  result_ok (spin_vars quso (SrcModel (set_mapping m mpx))) (tm m) (Z.to_nat num) l.
Proof. exact anneal_spin_renumbered. Qed.
Print Assumptions C11_anneal_renumbered.

(* anneal_qubo / anneal_pubo: the model is converted to spins (C04), annealed, and the states converted back: values in
   {0,1}, value = the boolean source model at the state (stb_env: listed variables, 0 elsewhere); any initial state *)
Theorem C11_anneal_bool : forall (quso : bool) s tab Ts num io initial seed l, (0 < num)%Z ->
  run_bool quso s tab Ts num io initial seed = AResults l ->
  result_ok_bool (bool_vars quso s) (src_items s) (Z.to_nat num) l.
Proof. exact anneal_bool_spec. Qed.
Print Assumptions C11_anneal_bool.

(* num_anneals <= 0: no result *)
Theorem C11_none_spin : forall (quso : bool) s tab Ts num io initial seed, (num <= 0)%Z ->
  run_spin quso s tab Ts num io initial seed = AResults [].
Proof. exact anneal_spin_none. Qed.
Print Assumptions C11_none_spin.
Theorem C11_none_bool : forall (quso : bool) s tab Ts num io initial seed L, (num <= 0)%Z ->
  (if quso then qubo_to_quso (src_kind s) (src_items s) else pubo_to_puso (src_kind s) (src_items s)) = Ok L ->
  run_bool quso s tab Ts num io initial seed = AResults [].
Proof. exact anneal_bool_none. Qed.
Print Assumptions C11_none_bool.

(* non-vacuity: two anneals of z0 z1 - z1 z2 + z0 (+ offset 5) at temperature zero from (1,1,1) *)
Example C11_example :
  exists l, run_spin true (SrcDict [([0; 1]%nat, 1); ([1; 2]%nat, -(1)); ([0]%nat, 1); ([], 5)]) [] [0; 0] 2 true
                     (Some [(0%nat, 1%Z); (1%nat, 1%Z); (2%nat, 1%Z)]) 7 = AResults l /\ length l = 2%nat.
Proof. eexists. vm_compute. split; reflexivity. Qed.

(* non-vacuity of the whole-call theorems: a boolean PUBO given as a dict with string-like labels 200, 201 (codes), two anneals *)
Example C11_example_bool :
  exists l, run_bool false (SrcDict [([200; 201; 7]%nat, 2); ([201]%nat, -(3)); ([], 1)]) [] [0; 0] 2 true None 3 = AResults l
            /\ length l = 2%nat /\ bool_vars false (SrcDict [([200; 201; 7]%nat, 2); ([201]%nat, -(3)); ([], 1)]) = [200; 201; 7]%nat.
Proof. eexists. vm_compute. split; [reflexivity|]. split; reflexivity. Qed.
