(* C03 — PCSO comparison constraints become exact non-negative penalties on spins.
   Statements only; proofs in Proofs/PCSOProofs.v, which composes the PCBO theorem of C02 with the
   boolean/spin correspondence of C04 exactly along the route the source takes:
     puso_to_pubo(H) -> helper PCBO seeded with the ancilla counter -> add_constraint -> pubo_to_puso -> self += ...

   Reading guide.  For  add_constraint_R_zero(H, lam, log_trick, bounds)  on a PCSO m giving m':
     step_ok_S m m' lam G   : at every +1/-1 assignment z,  m'(z) = m(z) + lam * G(z)
     pen_rel_S R fresh pv G : G >= 0 at every spin assignment; if R(H(z)) some z' differing from z only on the fresh
                              ancilla spins has G(z') = 0; otherwise G(z) >= 1 for every value of the ancillas
     fresh_lbl a a'         : ancilla labels '__a k', a <= k < a' -- the counter handed to the helper PCBO and taken back *)
From QV.Model Require Import Base Matrix Arith Expr Extrema Sat PCBO Convert PCSO.
From QV.Proofs Require Import BaseProofs KeyProofs ArithProofs LabelProofs PenaltyArith PCBOProofs PCSOProofs AncProofs.
Open Scope Q_scope.

Theorem C03_constraint : forall r m Hin lam lt b m' w t,
  pcso_add r m Hin lam lt b = Ok (m', w, t) -> kd m = KPcso -> ~ lam == 0 ->
  let pv := fun z => eval z Hin in
  int_vS pv -> bvalid_S pv b -> no_anc Hin ->
  call_result_S r m m' lam Hin w.
Proof. exact pcso_add_spec. Qed.
Print Assumptions C03_constraint.

(* is_solution_valid(z) is true exactly when every recorded spin constraint holds at z *)
Theorem C03_valid_iff : forall m z,
  pcso_is_solution_valid m z = true <-> forall r P, In (r, P) (cons m) -> rel_prop r (eval z P).
Proof. exact pcso_valid_iff. Qed.
Print Assumptions C03_valid_iff.

(* sequences on one PCSO: every call is recorded in order and owns the consecutive block of ancilla names between
   the counter before and after it; the counter never decreases, so names never repeat *)
Theorem C03_sequence : forall cs m m', run_calls_S m cs = Ok m' -> kd m = KPcso -> Forall call_ok_S cs -> seq_result_S m cs m'.
Proof. exact run_calls_S_spec. Qed.
Print Assumptions C03_sequence.
Theorem C03_ancilla_blocks : forall m cs m', seq_result_S m cs m' -> (anc m <= anc m')%nat.
Proof. exact seq_result_S_anc. Qed.
Print Assumptions C03_ancilla_blocks.

(* num_ancillas covers every ancilla present: after any call, every ancilla spin '__a j' occurring in the PCSO has
   j < num_ancillas (the counter handed to the helper PCBO and taken back); syntactic, no hypothesis on H's values *)
Theorem C03_ancilla_bound : forall r m Hin lam lt b m' w t, pcso_add r m Hin lam lt b = Ok (m', w, t) ->
  LP (AB (anc m)) (tm m) -> LP (AB (anc m)) Hin -> LP (AB (anc m')) (tm m') /\ (anc m <= anc m')%nat.
Proof. exact pcso_add_AB. Qed.
Print Assumptions C03_ancilla_bound.

(* non-vacuity: z0 + z1 + z2 - 1 <= 0 on spins with binary slack; ancillas are created, constraint recorded *)
Example C03_example :
  exists m' w t, pcso_add RLe (empty_model KPcso) [([0]%nat, 1); ([1]%nat, 1); ([2]%nat, 1); ([], -(1))] 2 true (None, None) = Ok (m', w, t)
                 /\ (0 < anc m')%nat /\ w = WNone /\ length (cons m') = 1%nat.
Proof. eexists. eexists. eexists. vm_compute. split; [reflexivity|]. split; [apply Nat.lt_0_succ|]. split; reflexivity. Qed.
