(* C04 — boolean/spin conversions, enumerations and exports preserve the
   function. Statements only; proofs in Proofs/ConvertProofs.v. *)
From QV.Model Require Import Base Matrix Convert Values.
From QV.Proofs Require Import BaseProofs KeyProofs ArithProofs ValuesProofs InvProofs ConvertProofs.
Open Scope Q_scope.

(* the four converters, for raw dicts (unsorted / repeated labels included) and
   model objects alike: the value at a spin assignment z equals the source's
   value at the corresponding boolean assignment (0 <-> 1, 1 <-> -1), and the
   result type follows the documented rule *)
Theorem C04_pubo_to_puso : forall src P H z, pubo_to_puso src P = Ok H -> spin_env z ->
  eval z (tm H) == eval (s2b z) P /\ kd H = (if is_matrix src then KPusoM else KPuso).
Proof. exact pubo_to_puso_sound. Qed.
Print Assumptions C04_pubo_to_puso.
Theorem C04_puso_to_pubo : forall src H P x, puso_to_pubo src H = Ok P -> boolean_env x ->
  eval x (tm P) == eval (b2s x) H /\ kd P = (if is_matrix src then KPuboM else KPubo).
Proof. exact puso_to_pubo_sound. Qed.
Print Assumptions C04_puso_to_pubo.
Theorem C04_qubo_to_quso : forall src Q L z, qubo_to_quso src Q = Ok L -> spin_env z ->
  eval z (tm L) == eval (s2b z) Q /\ kd L = (match src with Some KQuboM => KQusoM | _ => KQuso end).
Proof. exact qubo_to_quso_sound. Qed.
Print Assumptions C04_qubo_to_quso.
Theorem C04_quso_to_qubo : forall src L Q x, quso_to_qubo src L = Ok Q -> boolean_env x ->
  eval x (tm Q) == eval (b2s x) L /\ kd Q = (match src with Some KQusoM => KQuboM | _ => KQubo end).
Proof. exact quso_to_qubo_sound. Qed.
Print Assumptions C04_quso_to_qubo.
Theorem C04_closed_form_agrees : forall src src' Q L H z,
  qubo_to_quso src Q = Ok L -> pubo_to_puso src' Q = Ok H -> spin_env z -> eval z (tm L) == eval z (tm H).
Proof. exact closed_form_agrees. Qed.
Print Assumptions C04_closed_form_agrees.

(* the two correspondences are mutually inverse and map boolean to spin assignments *)
Theorem C04_correspondence : forall e,
  (boolean_env e -> spin_env (b2s e)) /\ (spin_env e -> boolean_env (s2b e))
  /\ (forall i, s2b (b2s e) i == e i) /\ (forall i, b2s (s2b e) i == e i).
Proof. intros e. split; [apply b2s_spin|]. split; [apply s2b_bool|]. split; [apply s2b_b2s| apply b2s_s2b]. Qed.
Print Assumptions C04_correspondence.

(* relabelling to integers (QUBO.to_qubo, QUSO.to_quso, PUSO/PUBO enumerations without reduction):
   labels are replaced by their mapping integers *)
Theorem C04_relabel : forall out m r e, to_matrix out m = Ok r -> good_env out e ->
  eval e (tm r) == eval (pull (mp m) e) (tm m) /\ kd r = out.
Proof. exact to_matrix_sound. Qed.
Print Assumptions C04_relabel.
Theorem C04_enumerated : forall out m r x s, Inv m -> is_labelled (kd m) = true ->
  to_matrix out m = Ok r -> good_env out s ->
  (forall l n, mp_get l (mp m) = Some n -> s n == x l) ->
  eval s (tm r) == eval x (tm m).
Proof. exact enumerated_value. Qed.
Print Assumptions C04_enumerated.

(* a user-chosen numbering (set_mapping / set_reverse_mapping with the model's labels and pairwise different integers below their
   number) keeps the bookkeeping invariant: the statements above, and everything else that assumes Inv, hold for renumbered models *)
Theorem C04_renumbered : forall m mpx, Inv m -> is_labelled (kd m) = true ->
  (forall i, In i (map fst mpx) <-> In i (map fst (mp m))) -> NoDup (map fst mpx) -> snd_ok mpx ->
  Inv (set_mapping m mpx).
Proof. exact set_mapping_Inv. Qed.
Print Assumptions C04_renumbered.

(* convert_solution undoes the relabelling entry by entry *)
Theorem C04_convert_solution : forall to_spin m sol flag out,
  is_solution_spin (map snd sol) flag = to_spin ->
  convert_solution to_spin m sol flag = Ok out ->
  forall i, (i < num_vars m)%nat -> exists l v, rmp_get i (mp m) = Some l /\ sol_get i sol = Some v /\ In (l, v) out.
Proof. exact convert_solution_same_form. Qed.
Print Assumptions C04_convert_solution.

(* exports: Q, h/J and the matrix describe the same function up to the constant offset *)
Theorem C04_Q : forall x t, boolean_env x -> keys_le2 t -> eval x (export_Q t) + eval x (const_terms t) == eval x t.
Proof. exact export_Q_value. Qed.
Print Assumptions C04_Q.
Theorem C04_hJ : forall z t, keys_le2 t ->
  fold_right (fun '(i, v) acc => v * z i + acc) 0 (export_h t) + eval z (export_J t) + eval z (const_terms t) == eval z t.
Proof. exact export_hJ_value. Qed.
Print Assumptions C04_hJ.
Theorem C04_matrix : forall x t sym, boolean_env x -> keys_le2 t -> no_const t ->
  entries_value x (flat_map (matrix_entry sym) t) == eval x t.
Proof. exact matrix_entries_value. Qed.
Print Assumptions C04_matrix.

Example C04_example :
  exists H, pubo_to_puso None [([0;1;1]%nat, 2); ([2]%nat, -(1))] = Ok H /\ tm H <> [].
Proof. eexists. split; [vm_compute; reflexivity| discriminate]. Qed.
