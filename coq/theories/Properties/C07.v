(* C07 — sat expression builders compute their truth functions.
   Statements only; proofs in Proofs/SatProofs.v (on top of C05_tree). *)
From QV.Model Require Import Base Matrix Arith Expr Sat.
From QV.Proofs Require Import BaseProofs KeyProofs ArithProofs ExprProofs SatProofs.
Open Scope Q_scope.

(* every expression tree over the eight gates (any arity >= 1, any nesting), over labels, plain
   dicts and boolean model objects: whenever the builders return a model, it evaluates at every
   0/1 assignment (at which the operand models take the values 0/1) to the truth value of the
   expression (XOR / XNOR = odd / even parity); the model is stored canonically *)
Theorem C07_truth : forall x e v, boolean_env x -> sx_ok x e -> build e = Ok v ->
  operand_eval x v == b2q (truth x e) /\ operand_ok x v.
Proof. exact sat_truth. Qed.
Print Assumptions C07_truth.

(* the arithmetic value of the expression the builders write down is the truth value *)
Theorem C07_denote : forall x e, sx_ok x e -> denote x (sat_expr e) == b2q (truth x e).
Proof. exact sat_denote. Qed.
Print Assumptions C07_denote.

Example C07_example :
  exists v, build (SGate GXnor [SLbl 0%nat; SGate GOr [SLbl 1%nat; SGate GNot [SLbl 0%nat]; SLbl 2%nat]; SGate GAnd [SLbl 2%nat]]) = Ok v.
Proof. eexists. vm_compute. reflexivity. Qed.
