(* C06 — logical constraint methods penalise exactly the violating assignments.
   Statements only; proofs in Proofs/LogicProofs.v (on top of C02's add_constraint_eq_zero theorem,
   C05_tree and C07_denote). *)
From QV.Model Require Import Base Matrix Arith Expr Extrema Sat PCBO Logic.
From QV.Proofs Require Import BaseProofs KeyProofs ArithProofs SatProofs PenaltyArith PCBOProofs LogicProofs.
Open Scope Q_scope.

(* each of the sixteen methods add_constraint_G / add_constraint_eq_G, any admissible arity, operands that are labels or
   boolean-valued expressions (sx_ok: 0/1-valued leaves at every assignment), any lam <> 0:
   the added terms are lam * G, no ancilla is created, G is 0 where the gate relation holds and >= 1 elsewhere,
   and the recorded == constraint holds exactly on those assignments (so is_solution_valid reports them) *)
Theorem C06_logic : forall g is_eq m ops lam m' w t,
  add_logic g is_eq m ops lam = Ok (m', w, t) -> bkind (kd m) -> ~ lam == 0 ->
  (forall x, boolean_env x -> Forall (sx_ok x) ops) ->
  exists G Pc, step_ok m m' lam G /\ anc m' = anc m /\ kd m' = kd m /\ cons m' = cons m ++ [(REq, Pc)]
    /\ (forall x, boolean_env x -> (eval x Pc == 0 <-> logic_holds g is_eq x ops = true))
    /\ forall x, boolean_env x ->
         0 <= G x /\ (logic_holds g is_eq x ops = true -> G x == 0) /\ (logic_holds g is_eq x ops = false -> 1 <= G x).
Proof. exact add_logic_spec. Qed.
Print Assumptions C06_logic.

(* the polynomial each method hands to add_constraint_eq_zero: integer valued, inside the bounds the method states,
   zero exactly where the gate relation holds; methods below the documented arity return ValueError *)
Theorem C06_poly : forall g is_eq ops P lo hi,
  logic_poly g is_eq ops = Ok (P, lo, hi) -> (forall x, boolean_env x -> Forall (sx_ok x) ops) -> psem g is_eq ops P lo hi.
Proof. exact logic_poly_sem. Qed.
Print Assumptions C06_poly.

Theorem C06_arity : forall a v,
  logic_poly GAnd true [a; v] = Err ValueError /\ logic_poly GOr true [a; v] = Err ValueError
  /\ logic_poly GNand true [a; v] = Err ValueError /\ logic_poly GNor true [a; v] = Err ValueError.
Proof. intros a v. repeat split. Qed.
Print Assumptions C06_arity.

Example C06_example :
  exists m' w t, add_logic GXor true (empty_model KPcbo) [SLbl 0%nat; SLbl 1%nat; SGate GAnd [SLbl 2%nat; SLbl 3%nat]; SLbl 1%nat] 2 = Ok (m', w, t)
                 /\ anc m' = 0%nat /\ length (cons m') = 1%nat.
Proof. eexists. eexists. eexists. vm_compute. repeat split. Qed.
