(* C16 — symbolic coefficients commute with substitution.
   Statements only; proofs in Proofs/HomProofs.v.

   What is proved here is the part of the property that lives in qubovert's own code: every constraint method is
   HOMOGENEOUS in its weight.  Two runs of the same call that differ only in lam
     - take the same branch (same tag) and give the same warning -- no branch looks at the value of lam, only at `not lam`;
     - record the same constraint and leave the same ancilla counter;
     - add lam1 * G and lam2 * G for one and the same G            (hom:  lam1 * (m2 - m) = lam2 * (m1 - m) pointwise).
   Taking lam1 = 1 gives the affine form  model(c) = m + c * (model(1) - m)  (C16_affine), which is what building with a
   symbol and substituting c computes when the coefficient arithmetic is a commutative ring -- sympy's arithmetic, its
   subs and the float conversion are outside the model and are reached by the correspondence run only
   (harness/props/c16.py compares subs(symbol -> c) of the symbolic build with the numeric build and with this model). *)
From QV.Model Require Import Base Matrix Arith Expr Extrema Sat PCBO Logic Convert PCSO Reduce.
From QV.Proofs Require Import BaseProofs KeyProofs ArithProofs PenaltyArith PCBOProofs HomProofs ReduceProofs ReduceHom.
Open Scope Q_scope.

Theorem C16_constraint : forall r m Pin l1 l2 lt b r1 r2,
  add_constraint r m Pin l1 lt b = Ok r1 -> add_constraint r m Pin l2 lt b = Ok r2 -> bkind (kd m) -> ~ l1 == 0 -> ~ l2 == 0 ->
  res_hom (tm m) r1 r2 l1 l2.
Proof. exact add_constraint_hom. Qed.
Print Assumptions C16_constraint.

Theorem C16_logic : forall g is_eq m ops l1 l2 r1 r2,
  add_logic g is_eq m ops l1 = Ok r1 -> add_logic g is_eq m ops l2 = Ok r2 -> bkind (kd m) -> ~ l1 == 0 -> ~ l2 == 0 ->
  res_hom (tm m) r1 r2 l1 l2.
Proof. exact add_logic_hom. Qed.
Print Assumptions C16_logic.

Theorem C16_spin : forall r m Hin l1 l2 lt b r1 r2,
  pcso_add r m Hin l1 lt b = Ok r1 -> pcso_add r m Hin l2 lt b = Ok r2 -> kd m = KPcso -> ~ l1 == 0 -> ~ l2 == 0 ->
  res_hom_S (tm m) r1 r2 l1 l2.
Proof. exact pcso_add_hom. Qed.
Print Assumptions C16_spin.

(* the model built with weight c is the model built with weight 1, with the added part scaled by c *)
Theorem C16_affine : forall r m Pin c lt b a w1 t1 mc w2 t2,
  add_constraint r m Pin 1 lt b = Ok (a, w1, t1) -> add_constraint r m Pin c lt b = Ok (mc, w2, t2) -> bkind (kd m) -> ~ c == 0 ->
  (forall x, boolean_env x -> eval x (tm mc) == eval x (tm m) + c * (eval x (tm a) - eval x (tm m)))
  /\ kd mc = kd a /\ anc mc = anc a /\ cons mc = cons a /\ w2 = w1 /\ t2 = t1.
Proof. exact add_constraint_affine. Qed.
Print Assumptions C16_affine.

(* the reduced forms (to_qubo / to_pubo and, through the linear conversions, to_quso / to_puso) with a constant penalty c:
   the result is  Base + c * Pen  where Base and Pen are computed by a run of the reduction that never looks at the
   penalty (same pair choices, same ancillas) -- so building with a symbol and substituting c gives the numeric build *)
Theorem C16_reduce_affine : forall m out deg pairs c1 c2 D1 D2,
  reduce_degree m out deg (LConst c1) pairs = Ok D1 -> reduce_degree m out deg (LConst c2) pairs = Ok D2 -> bmat out ->
  exists B Pn, forall s, boolean_env s -> eval s (tm D1) == B s + c1 * Pn s /\ eval s (tm D2) == B s + c2 * Pn s.
Proof. exact reduce_affine. Qed.
Print Assumptions C16_reduce_affine.

(* non-vacuity: x + y + z - 2 <= 0 with weights 1 and 5/2: same branch, same ancillas *)
Example C16_example :
  exists a c w t, add_constraint RLe (empty_model KPcbo) [([0]%nat, 1); ([1]%nat, 1); ([2]%nat, 1); ([], -(2))] 1 true (None, None) = Ok (a, w, t)
    /\ add_constraint RLe (empty_model KPcbo) [([0]%nat, 1); ([1]%nat, 1); ([2]%nat, 1); ([], -(2))] (5 # 2) true (None, None) = Ok (c, w, t)
    /\ anc a = anc c /\ (0 < anc a)%nat.
Proof. eexists. eexists. eexists. eexists. vm_compute. repeat split. apply Nat.lt_0_succ. Qed.
