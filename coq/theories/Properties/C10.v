(* C10 — problem-class encodings have the stated ground states and decode consistently.
   Statements only; proofs in Proofs/ProblemsProofs.v.

   Proved here, for every instance: BILP (value; with A > B*sum|c_i| and integer data every ground state is feasible and
   optimal; is_solution_valid), VertexCover (value of the QUBO; with A > B > 0 every ground state is a minimum
   vertex cover and the ground energy is B * its size), NumberPartitioning (value of the QUSO; ground states are the
   splits of least |difference|, even splits with energy 0 when one exists; is_solution_valid), AlternatingSectorsChain
   (open chain: value; ground states are the uniform states).  SetCover, JobSequencing, GraphPartitioning and the
   periodic chain are modelled (Model/Problems.v) and tied to /repo by exact comparison of the produced matrices and by
   combinatorial oracles on the implementation (harness/props/c10.py); no theorem about their ground states is claimed. *)
From QV.Model Require Import Base Matrix Arith Expr Extrema Sat PCBO Logic Convert PCSO Problems.
From QV.Proofs Require Import BaseProofs KeyProofs ArithProofs PenaltyArith PCBOProofs ProblemsProofs.
Open Scope Q_scope.

(* ---- VertexCover ---- *)
Theorem C10_vc_value : forall N edges A B Qf, vc_to_qubo N edges A B = Ok Qf -> ~ A == 0 ->
  exists Gs, Forall2 pen_ok edges Gs /\ forall x, boolean_env x -> eval x (tm Qf) == B * size N x + A * sum_pens Gs x.
Proof. exact vc_value. Qed.
Print Assumptions C10_vc_value.
Theorem C10_vc_ground : forall N edges A B Qf x, vc_to_qubo N edges A B = Ok Qf -> 0 < B -> B < A ->
  boolean_env x -> (forall x', boolean_env x' -> eval x (tm Qf) <= eval x' (tm Qf)) ->
  (forall e, In e edges -> covered x e)
  /\ eval x (tm Qf) == B * size N x
  /\ forall c, boolean_env c -> (forall e, In e edges -> covered c e) -> size N x <= size N c.
Proof. exact vc_ground. Qed.
Print Assumptions C10_vc_ground.

(* ---- NumberPartitioning ---- *)
Theorem C10_np_value : forall S A H, np_to_quso S A = Ok H -> forall z, spin_env z -> eval z (tm H) == A * np_diff S z * np_diff S z.
Proof. exact np_value. Qed.
Print Assumptions C10_np_value.
Theorem C10_np_ground : forall S A H z, np_to_quso S A = Ok H -> 0 < A -> spin_env z ->
  (forall z', spin_env z' -> eval z (tm H) <= eval z' (tm H)) ->
  forall z', spin_env z' -> np_diff S z * np_diff S z <= np_diff S z' * np_diff S z'.
Proof. exact np_ground. Qed.
Print Assumptions C10_np_ground.
Theorem C10_np_ground_even : forall S A H z z0, np_to_quso S A = Ok H -> 0 < A -> spin_env z ->
  (forall z', spin_env z' -> eval z (tm H) <= eval z' (tm H)) ->
  spin_env z0 -> np_diff S z0 == 0 -> np_diff S z == 0 /\ eval z (tm H) == 0.
Proof. exact np_ground_even. Qed.
Print Assumptions C10_np_ground_even.
Theorem C10_np_valid : forall S (z : label -> Z), (forall i, z i = 1%Z \/ z i = (-1)%Z) ->
  np_valid S z = true <-> np_diff S (fun i => inject_Z (z i)) == 0.
Proof. exact np_valid_iff. Qed.
Print Assumptions C10_np_valid.

(* ---- AlternatingSectorsChain, open boundary ---- *)
Theorem C10_asc_value : forall N chain min_s max_s H, asc_to_quso N chain min_s max_s false = Ok H ->
  forall z, spin_env z -> eval z (tm H) == chain_sum (asc_strength chain min_s max_s) z (seq 0 (N - 1)).
Proof. exact asc_value. Qed.
Print Assumptions C10_asc_value.
Theorem C10_asc_ground : forall N chain min_s max_s H z, asc_to_quso N chain min_s max_s false = Ok H ->
  0 < min_s -> 0 < max_s -> spin_env z -> (forall z', spin_env z' -> eval z (tm H) <= eval z' (tm H)) ->
  forall q, (q < N - 1)%nat -> z q * z (S q) == 1.
Proof. exact asc_ground. Qed.
Print Assumptions C10_asc_ground.

(* ---- BILP: minimise c.x subject to S x = b (integer data) ---- *)
Theorem C10_bilp_value : forall c S b A B Qf, bilp_to_qubo c S b A B = Ok Qf ->
  (forall Sj bj, In (Sj, bj) (combine S b) -> length Sj = length c) ->
  forall x, boolean_env x -> eval x (tm Qf) == B * lin c x + A * viol (combine S b) x.
Proof. exact bilp_value. Qed.
Print Assumptions C10_bilp_value.
Theorem C10_bilp_ground : forall c S b A B Qf x0 xs, bilp_to_qubo c S b A B = Ok Qf ->
  (forall Sj bj, In (Sj, bj) (combine S b) -> length Sj = length c) -> int_rows (combine S b) ->
  0 < B -> B * sumabs c < A ->
  boolean_env x0 -> feasible (combine S b) x0 ->
  boolean_env xs -> (forall x, boolean_env x -> eval xs (tm Qf) <= eval x (tm Qf)) ->
  feasible (combine S b) xs /\
  (forall x, boolean_env x -> feasible (combine S b) x -> lin c xs <= lin c x) /\
  eval xs (tm Qf) == B * lin c xs.
Proof. exact bilp_ground. Qed.
Print Assumptions C10_bilp_ground.
Theorem C10_bilp_valid : forall S b (xb : label -> bool),
  bilp_valid S b xb = true <-> feasible (combine S b) (fun i => if xb i then 1 else 0).
Proof. exact bilp_valid_iff. Qed.
Print Assumptions C10_bilp_valid.

(* non-vacuity: the path 0-1-2 with A = 2, B = 1 *)
Example C10_example : exists Qf, vc_to_qubo 3 [(0, 1); (1, 2)]%nat 2 1 = Ok Qf /\ kd Qf = KQuboM /\ (0 < length (tm Qf))%nat.
Proof. eexists. vm_compute. repeat split. apply Nat.lt_0_succ. Qed.
