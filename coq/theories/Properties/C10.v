(* C10 — problem-class encodings have the stated ground states and decode consistently.
   Statements only; proofs in Proofs/ProblemsProofs.v.

   Proved here, for every instance: BILP (value; with A > B*sum|c_i| and integer data every ground state is feasible and
   optimal; is_solution_valid), VertexCover (value of the QUBO; with A > B > 0 every ground state is a minimum
   vertex cover and the ground energy is B * its size), NumberPartitioning (value of the QUSO; ground states are the
   splits of least |difference|, even splits with energy 0 when one exists; is_solution_valid), AlternatingSectorsChain
   (open chain: value; ground states are the uniform states).  SetCover, JobSequencing, GraphPartitioning and the
   periodic chain are modelled (Model/Problems.v) and tied to /repo by exact comparison of the produced matrices and by
   combinatorial oracles on the implementation (harness/props/c10.py); no theorem about their ground states is claimed. *)
From QV.Model Require Import Base Matrix Arith Expr Extrema Sat PCBO Logic Convert PCSO Problems.
From QV.Proofs Require Import BaseProofs KeyProofs ArithProofs PenaltyArith PCBOProofs ProblemsProofs SetCoverProofs ChainPbc GraphPart JobSeq.
From Coq Require Import Lia Lqa.
Open Scope Q_scope.

(* ---- VertexCover ---- *)
Theorem C10_vc_value : forall N edges A B Qf, vc_to_qubo N edges A B = Ok Qf -> ~ A == 0 ->
  exists Gs, Forall2 pen_ok edges Gs /\ forall x, boolean_env x -> eval x (tm Qf) == B * size N x + A * sum_pens Gs x.
Proof. exact vc_value. Qed.
Print Assumptions C10_vc_value.
Theorem C10_vc_ground : forall N edges A B Qf x, vc_to_qubo N edges A B = Ok Qf -> 0 < B -> B < A ->
  boolean_env x -> (forall x', boolean_env x' -> eval x (tm Qf) <= eval x' (tm Qf)) ->
  (forall e, In e edges -> covered x e)
  /\ eval x (tm Qf) == B * size N x
  /\ forall c, boolean_env c -> (forall e, In e edges -> covered c e) -> size N x <= size N c.
Proof. exact vc_ground. Qed.
Print Assumptions C10_vc_ground.

(* ---- NumberPartitioning ---- *)
Theorem C10_np_value : forall S A H, np_to_quso S A = Ok H -> forall z, spin_env z -> eval z (tm H) == A * np_diff S z * np_diff S z.
Proof. exact np_value. Qed.
Print Assumptions C10_np_value.
Theorem C10_np_ground : forall S A H z, np_to_quso S A = Ok H -> 0 < A -> spin_env z ->
  (forall z', spin_env z' -> eval z (tm H) <= eval z' (tm H)) ->
  forall z', spin_env z' -> np_diff S z * np_diff S z <= np_diff S z' * np_diff S z'.
Proof. exact np_ground. Qed.
Print Assumptions C10_np_ground.
Theorem C10_np_ground_even : forall S A H z z0, np_to_quso S A = Ok H -> 0 < A -> spin_env z ->
  (forall z', spin_env z' -> eval z (tm H) <= eval z' (tm H)) ->
  spin_env z0 -> np_diff S z0 == 0 -> np_diff S z == 0 /\ eval z (tm H) == 0.
Proof. exact np_ground_even. Qed.
Print Assumptions C10_np_ground_even.
Theorem C10_np_valid : forall S (z : label -> Z), (forall i, z i = 1%Z \/ z i = (-1)%Z) ->
  np_valid S z = true <-> np_diff S (fun i => inject_Z (z i)) == 0.
Proof. exact np_valid_iff. Qed.
Print Assumptions C10_np_valid.

(* ---- AlternatingSectorsChain, open boundary ---- *)
Theorem C10_asc_value : forall N chain min_s max_s H, asc_to_quso N chain min_s max_s false = Ok H ->
  forall z, spin_env z -> eval z (tm H) == chain_sum (asc_strength chain min_s max_s) z (seq 0 (N - 1)).
Proof. exact asc_value. Qed.
Print Assumptions C10_asc_value.
Theorem C10_asc_ground : forall N chain min_s max_s H z, asc_to_quso N chain min_s max_s false = Ok H ->
  0 < min_s -> 0 < max_s -> spin_env z -> (forall z', spin_env z' -> eval z (tm H) <= eval z' (tm H)) ->
  forall q, (q < N - 1)%nat -> z q * z (S q) == 1.
Proof. exact asc_ground. Qed.
Print Assumptions C10_asc_ground.

(* periodic boundary, N >= 3: the closing coupling (N-1, 0) is added; the ground states are still the uniform states *)
Theorem C10_asc_value_pbc : forall N chain min_s max_s H, asc_to_quso N chain min_s max_s true = Ok H -> (3 <= N)%nat ->
  forall z, spin_env z ->
  eval z (tm H) == chain_sum (asc_strength chain min_s max_s) z (seq 0 (N - 1))
                   + asc_strength chain min_s max_s (N - 1) * (z 0%nat * z (N - 1)%nat).
Proof. exact asc_value_pbc. Qed.
Print Assumptions C10_asc_value_pbc.
Theorem C10_asc_ground_pbc : forall N chain min_s max_s H z, asc_to_quso N chain min_s max_s true = Ok H -> (3 <= N)%nat ->
  0 < min_s -> 0 < max_s -> spin_env z -> (forall z', spin_env z' -> eval z (tm H) <= eval z' (tm H)) ->
  (forall q, (q < N - 1)%nat -> z q * z (S q) == 1) /\ z 0%nat * z (N - 1)%nat == 1.
Proof. exact asc_ground_pbc. Qed.
Print Assumptions C10_asc_ground_pbc.

(* two spins with periodic boundary: the closing coupling is the key (0, 1) again and replaces the open chain's coupling *)
Theorem C10_asc_value_pbc2 : forall chain min_s max_s H, asc_to_quso 2 chain min_s max_s true = Ok H ->
  forall z, spin_env z -> eval z (tm H) == asc_strength chain min_s max_s 1 * (z 0%nat * z 1%nat).
Proof. exact asc_value_pbc2. Qed.
Print Assumptions C10_asc_value_pbc2.
Theorem C10_asc_ground_pbc2 : forall chain min_s max_s H z, asc_to_quso 2 chain min_s max_s true = Ok H ->
  0 < min_s -> 0 < max_s -> spin_env z -> (forall z', spin_env z' -> eval z (tm H) <= eval z' (tm H)) ->
  z 0%nat * z 1%nat == 1.
Proof. exact asc_ground_pbc2. Qed.
Print Assumptions C10_asc_ground_pbc2.

(* ---- BILP: minimise c.x subject to S x = b (integer data) ---- *)
Theorem C10_bilp_value : forall c S b A B Qf, bilp_to_qubo c S b A B = Ok Qf ->
  (forall Sj bj, In (Sj, bj) (combine S b) -> length Sj = length c) ->
  forall x, boolean_env x -> eval x (tm Qf) == B * lin c x + A * viol (combine S b) x.
Proof. exact bilp_value. Qed.
Print Assumptions C10_bilp_value.
Theorem C10_bilp_ground : forall c S b A B Qf x0 xs, bilp_to_qubo c S b A B = Ok Qf ->
  (forall Sj bj, In (Sj, bj) (combine S b) -> length Sj = length c) -> int_rows (combine S b) ->
  0 < B -> B * sumabs c < A ->
  boolean_env x0 -> feasible (combine S b) x0 ->
  boolean_env xs -> (forall x, boolean_env x -> eval xs (tm Qf) <= eval x (tm Qf)) ->
  feasible (combine S b) xs /\
  (forall x, boolean_env x -> feasible (combine S b) x -> lin c xs <= lin c x) /\
  eval xs (tm Qf) == B * lin c xs.
Proof. exact bilp_ground. Qed.
Print Assumptions C10_bilp_ground.
Theorem C10_bilp_valid : forall S b (xb : label -> bool),
  bilp_valid S b xb = true <-> feasible (combine S b) (fun i => if xb i then 1 else 0).
Proof. exact bilp_valid_iff. Qed.
Print Assumptions C10_bilp_valid.

(* ---- SetCover (Lucas 5.1), unary and logarithmic counters ----
   n elements 0..n-1, V the subsets (lists of elements), ws their weights; variables 0..|V|-1 choose subsets, the labels from
   |V| upwards are the counters.  cnt x V a: number of chosen subsets containing a; sc_cost: weight of the chosen subsets;
   sc_pen: (1 - sum_m y_m)^2 + (sum_m m y_m - cnt)^2, or (1 + sum_m 2^m y_m - cnt)^2 with log_trick. *)
Theorem C10_setcover_value : forall n V ws log_trick M A B Qf, sc_to_qubo n V ws log_trick M A B = Ok Qf ->
  forall x, boolean_env x -> eval x (tm Qf) == B * sc_cost V ws x + A * lsum (sc_pen x n V log_trick M) (seq 0 n).
Proof. exact sc_value. Qed.
Print Assumptions C10_setcover_value.
(* A > B > 0, weights <= 1 (the class requires max weight = 1), every element in some subset, M at least the largest number
   of subsets sharing an element (the class's default M): every ground state chooses a cover, has energy B * weight, and no
   cover is lighter *)
Theorem C10_setcover_ground : forall n V ws lg M A B Qf x, sc_to_qubo n V ws lg M A B = Ok Qf ->
  0 < B -> B < A -> (forall w, In w ws -> w <= 1) ->
  (forall a, (a < n)%nat -> sc_filtered V a 0 <> [] /\ (length (sc_filtered V a 0) <= M)%nat) ->
  boolean_env x -> (forall y, boolean_env y -> eval x (tm Qf) <= eval y (tm Qf)) ->
  (forall a, (a < n)%nat -> 1 <= cnt x V a)
  /\ eval x (tm Qf) == B * sc_cost V ws x
  /\ forall z, boolean_env z -> (forall a, (a < n)%nat -> 1 <= cnt z V a) -> sc_cost V ws x <= sc_cost V ws z.
Proof. exact sc_ground. Qed.
Print Assumptions C10_setcover_ground.
Theorem C10_setcover_valid : forall n V (xb : label -> bool),
  sc_valid n V xb = true <-> forall a, (a < n)%nat -> exists k, (k < length V)%nat /\ xb k = true /\ sc_in a (nth k V []) = true.
Proof. exact sc_valid_iff. Qed.
Print Assumptions C10_setcover_valid.

(* ---- GraphPartitioning (Lucas 2.2) ----
   vertices 0..N-1, edges (u, v, weight); gp_S: sum of the spins; gp_cut: weight of the edges between the two sides.
   simple: no loops, no parallel edges, ends below N; weights in [0, 1] (1 for the unweighted class). *)
Theorem C10_gp_value : forall N edges A B Hf, gp_to_quso N edges A B = Ok Hf -> (1 <= N)%nat -> ~ A == 0 ->
  forall z, spin_env z -> eval z (tm Hf) == A * (gp_S N z * gp_S N z) + B * gp_cut z edges.
Proof. exact gp_value. Qed.
Print Assumptions C10_gp_value.
(* an even number of vertices and A > B * min(2 maxdegree, N) / 8: every ground state is balanced, has energy B * cut, and no
   balanced partition cuts less (moving one vertex off the larger side always pays) *)
Theorem C10_gp_ground : forall N h edges A B Hf z, gp_to_quso N edges A B = Ok Hf -> N = (2 * h)%nat -> (1 <= h)%nat ->
  simple N edges -> weights01 edges -> 0 < B -> B * nQ (Nat.min (2 * gp_degree (strip edges)) N) / 8 < A ->
  spin_env z -> (forall z', spin_env z' -> eval z (tm Hf) <= eval z' (tm Hf)) ->
  gp_S N z == 0 /\ eval z (tm Hf) == B * gp_cut z edges
  /\ forall z', spin_env z' -> gp_S N z' == 0 -> gp_cut z edges <= gp_cut z' edges.
Proof. exact gp_ground. Qed.
Print Assumptions C10_gp_ground.

(* ---- JobSequencing (Lucas 6.3), unary and logarithmic slack ----
   jobs 0..N-1 with integer lengths ls, m workers; x_(j,w) = job j on worker w, the slack variables of worker w >= 1 count how
   far it is below worker 0.  s_j: number of workers holding job j; L_w: load of worker w; js_res: slack + L_w - L_0. *)
Theorem C10_js_value : forall lengths m lg M A B Qf, js_to_qubo lengths m lg M A B = Ok Qf ->
  forall x, boolean_env x ->
  let N := length lengths in let jobs := js_jobs lengths in let maxM := js_maxM lg M in
  eval x (tm Qf) == B * L_w m jobs x 0%nat + A * js_pen1 m x jobs + A * js_pen2 m N jobs lg maxM x.
Proof. exact js_value. Qed.
Print Assumptions C10_js_value.
(* A > B * (largest length) and M at least the total length (the class's default M is N * largest): in every ground state each
   job is on exactly one worker, every worker w >= 1 carries at most worker 0's load (the slack equals the difference), the
   energy is B * load of worker 0, and no assignment of the jobs has a smaller makespan *)
Theorem C10_js_ground : forall m ls lg M Lmax A B Qf x, js_to_qubo (map nQ ls) m lg M A B = Ok Qf ->
  (1 <= m)%nat -> (forall l, In l ls -> (l <= Lmax)%nat) -> (1 <= Lmax)%nat -> (total ls <= M)%nat ->
  0 < B -> B * nQ Lmax < A ->
  boolean_env x -> (forall y, boolean_env y -> eval x (tm Qf) <= eval y (tm Qf)) ->
  let jobs := js_jobs (map nQ ls) in
  (forall j, (j < length ls)%nat -> s_j m x j == 1)
  /\ (forall w, (1 <= w < m)%nat -> js_res m (length ls) jobs lg (js_maxM lg M) x w == 0)
  /\ eval x (tm Qf) == B * L_w m jobs x 0%nat
  /\ forall a, (forall j, (a j < m)%nat) -> L_w m jobs x 0%nat <= nQ (makespan m ls a).
Proof. exact js_ground. Qed.
Print Assumptions C10_js_ground.
Theorem C10_js_valid : forall N m (xb : label -> bool),
  js_valid N m xb = true <-> forall j, (j < N)%nat -> length (filter (fun w => xb (js_x m j w)) (seq 0 m)) = 1%nat.
Proof. exact js_valid_iff. Qed.
Print Assumptions C10_js_valid.

(* non-vacuity: the path 0-1-2 with A = 2, B = 1 *)
Example C10_example : exists Qf, vc_to_qubo 3 [(0, 1); (1, 2)]%nat 2 1 = Ok Qf /\ kd Qf = KQuboM /\ (0 < length (tm Qf))%nat.
Proof. eexists. vm_compute. repeat split. apply Nat.lt_0_succ. Qed.

(* non-vacuity for SetCover: U = {0,1}, V = [{0}; {0,1}; {1}], both counter encodings build, and the instance hypotheses of
   C10_setcover_ground hold with M = 2 *)
Example C10_example_setcover :
  (exists Qf, sc_to_qubo 2 [[0]; [0; 1]; [1]]%nat [1; 1; 1] false 2 2 1 = Ok Qf /\ (0 < length (tm Qf))%nat)
  /\ (exists Qf, sc_to_qubo 2 [[0]; [0; 1]; [1]]%nat [1; 1; 1] true 2 2 1 = Ok Qf /\ (0 < length (tm Qf))%nat)
  /\ forall a, (a < 2)%nat -> sc_filtered [[0]; [0; 1]; [1]]%nat a 0 <> [] /\ (length (sc_filtered [[0]; [0; 1]; [1]]%nat a 0) <= 2)%nat.
Proof.
  split; [eexists; split; [vm_compute; reflexivity| vm_compute; lia]|]. split; [eexists; split; [vm_compute; reflexivity| vm_compute; lia]|].
  intros a Ha. destruct a as [|[|a]]; [vm_compute; split; [discriminate| lia]| vm_compute; split; [discriminate| lia]| lia].
Qed.

(* non-vacuity for GraphPartitioning: the path 0-1-2-3 builds, is simple, and balanced assignments exist *)
Example C10_example_gp :
  (exists Hf, gp_to_quso 4 [(0%nat, 1%nat, 1); (1%nat, 2%nat, 1); (2%nat, 3%nat, 1)] 1 1 = Ok Hf /\ (0 < length (tm Hf))%nat)
  /\ simple 4 [(0%nat, 1%nat, 1); (1%nat, 2%nat, 1); (2%nat, 3%nat, 1)] /\ weights01 [(0%nat, 1%nat, 1); (1%nat, 2%nat, 1); (2%nat, 3%nat, 1)]
  /\ exists z, spin_env z /\ gp_S (2 * 2) z == 0.
Proof.
  split; [eexists; split; [vm_compute; reflexivity| vm_compute; lia]|]. split.
  - split; [|split].
    + intros u v w [E|[E|[E|[]]]]; injection E as <- <- _; lia.
    + vm_compute. repeat constructor; simpl; intuition congruence.
    + intros u v w [E|[E|[E|[]]]]; injection E as <- <- _; lia.
  - split; [intros u v w [E|[E|[E|[]]]]; injection E as _ _ <-; split; lra| apply gp_balanced_exists].
Qed.

(* non-vacuity for JobSequencing: lengths 2, 1, 3 on two workers, both slack encodings build; total 6 <= M = 9 *)
Example C10_example_js :
  (exists Qf, js_to_qubo (map nQ [2; 1; 3]%nat) 2 false 9 4 1 = Ok Qf /\ (0 < length (tm Qf))%nat)
  /\ (exists Qf, js_to_qubo (map nQ [2; 1; 3]%nat) 2 true 9 4 1 = Ok Qf /\ (0 < length (tm Qf))%nat)
  /\ (total [2; 1; 3]%nat <= 9)%nat /\ makespan 2 [2; 1; 3]%nat (fun j => if (j =? 2)%nat then 0%nat else 1%nat) = 3%nat.
Proof.
  split; [eexists; split; [vm_compute; reflexivity| vm_compute; lia]|]. split; [eexists; split; [vm_compute; reflexivity| vm_compute; lia]|].
  split; [vm_compute; lia| vm_compute; reflexivity].
Qed.
