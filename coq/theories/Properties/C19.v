(* C19 — models survive copy and info round trips. Statements only; proofs in Proofs/InfoProofs.v,
   Proofs/InvProofs.v, Proofs/ArithProofs.v.  (The "never alias their inputs" half is decided by the
   correspondence against this value-semantics model: every function here returns new values.) *)
From QV.Model Require Import Base Matrix Arith Expr Extrema Sat PCBO Info.
From QV.Proofs Require Import BaseProofs KeyProofs ArithProofs InvProofs RefreshProofs InfoProofs.
Open Scope Q_scope.

(* create_from_info (get_info M) reproduces M's type, terms, name, mapping, ancilla count and recorded constraints *)
Theorem C19_roundtrip : forall m m', kd m <> KDict -> wf (kd m) (tm m) ->
  (forall r P, In (r, P) (cons m) -> wf (if is_spin (kd m) then KPuso else KPubo) P) ->
  create_from_info (get_info m) = Ok m' ->
  kd m' = kd m /\ (forall k, get_sq (tm m') k == get_sq (tm m) k) /\ nm m' = nm m
  /\ (is_labelled (kd m) = true -> mp m' = mp m)
  /\ (is_pc (kd m) = true -> anc m' = anc m /\ cons m' = map (fun '(r, P) => (r, requal P)) (cons m)).
Proof. exact roundtrip. Qed.
Print Assumptions C19_roundtrip.

(* the stored coefficients come back unchanged (requal only re-normalises the rational representation) *)
Theorem C19_requal : forall t k, get_sq (requal t) k == get_sq t k.
Proof. exact get_sq_requal. Qed.
Print Assumptions C19_requal.

(* copy(): same function, same kind, canonical, consistent bookkeeping *)
Theorem C19_copy : forall e m c, m_copy m = Ok c -> good_env (kd m) e ->
  eval e (tm c) == eval e (tm m) /\ kd c = kd m /\ wf (kd c) (tm c) /\ Inv c.
Proof.
  intros e m c H He. destruct (m_copy_eval e m c H He) as [A B].
  split; [exact A|]. split; [exact B|]. split; [eapply m_copy_wf, H| eapply m_copy_Inv, H].
Qed.
Print Assumptions C19_copy.

Example C19_example :
  exists m m', m_create KPcbo [([200; 201]%nat, 2); ([], 1)] = Ok m /\ create_from_info (get_info m) = Ok m'
               /\ mp m' = [(200, 0); (201, 1)]%nat.
Proof. eexists. eexists. split; [vm_compute; reflexivity|]. split; vm_compute; reflexivity. Qed.
