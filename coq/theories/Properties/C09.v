(* C09 — brute-force solvers return the exact minimum and exactly the
   minimisers. Statements only; proofs in Proofs/BruteforceProofs.v.
   X = every assignment of the variables, value a = the model evaluated at a. *)
From QV.Model Require Import Base Bruteforce.
From QV.Proofs Require Import BruteforceProofs.
Open Scope Q_scope.

Definition X (spin : bool) (vars : list label) := all_asg (spin_vals spin) (length vars).
Definition value (vars : list label) (D : terms) := fun a : asg => eval (env_of_asg vars a) D.

(* the objective is attained by every returned assignment, which is valid, and
   it is a lower bound over all valid assignments; something is returned *)
Theorem C09_min : forall spin vars D valid, has_nonconst D = true -> forall all v sols,
  solve spin vars D all valid = (Some v, sols) ->
  sols <> [] /\ forall x, In x sols ->
    In x (X spin vars) /\ valid x = true /\ value vars D x == v
    /\ forall y, In y (X spin vars) -> valid y = true -> v <= value vars D y.
Proof. exact solve_min. Qed.
Print Assumptions C09_min.

(* all_solutions: every minimiser exactly once and nothing else *)
Theorem C09_all : forall spin vars D valid, has_nonconst D = true -> forall v sols,
  solve spin vars D true valid = (Some v, sols) ->
  NoDup sols /\ forall y, In y sols <-> (In y (X spin vars) /\ valid y = true /\ value vars D y == v).
Proof. exact solve_all. Qed.
Print Assumptions C09_all.

(* the objective is None exactly when no assignment is valid *)
Theorem C09_none : forall spin vars D valid, has_nonconst D = true -> forall all,
  fst (solve spin vars D all valid) = None <-> forall y, In y (X spin vars) -> valid y = false.
Proof. exact solve_none. Qed.
Print Assumptions C09_none.

(* a constant model yields the constant with the empty assignment *)
Theorem C09_constant : forall spin vars D all valid, has_nonconst D = false ->
  solve spin vars D all valid = (Some (get_sq D []), [[]]).
Proof. exact solve_constant. Qed.
Print Assumptions C09_constant.

(* each returned assignment assigns exactly the variables *)
Theorem C09_vars : forall spin vars D valid, has_nonconst D = true -> forall all v sols,
  solve spin vars D all valid = (Some v, sols) -> forall x, In x sols -> length x = length vars.
Proof. exact solve_vars. Qed.
Print Assumptions C09_vars.

(* the enumeration is complete and duplicate free *)
Theorem C09_enumeration : forall spin n,
  NoDup (all_asg (spin_vals spin) n)
  /\ forall a, length a = n -> (forall v, In v a -> In v (spin_vals spin)) -> In a (all_asg (spin_vals spin) n).
Proof.
  intros spin n. split; [apply all_asg_NoDup, spin_vals_NoDup| intros a; apply all_asg_complete].
Qed.
Print Assumptions C09_enumeration.

Example C09_example :
  solve false [0; 1]%nat [([0; 1]%nat, 2); ([0]%nat, -(1)); ([1]%nat, -(1)); ([], 3)] true (fun _ => true)
  = (Some 2, [[0; 1]; [1; 0]]).
Proof. vm_compute. reflexivity. Qed.
