(* C13 — AnnealResults keeps `best` equal to the minimum under every list
   operation. Statements only; proofs in Proofs/AnnealResultsProofs.v. *)
From QV.Model Require Import Base AnnealResults.
From QV.Proofs Require Import AnnealResultsProofs.
From Coq Require Import Permutation.
Open Scope Q_scope.

(* every single operation keeps, in every register: best = None <-> empty, and
   otherwise best is an element with the smallest value *)
Theorem C13_step : forall s o s', SInv s -> step s o = Ok s' -> SInv s'.
Proof. exact step_inv. Qed.
Print Assumptions C13_step.

(* hence after every finite sequence of operations (an operation that raises
   leaves the collections as they were) *)
Theorem C13_inv : forall ops, SInv (run ops).
Proof. exact run_inv. Qed.
Print Assumptions C13_inv.

(* a collection built from any iterable (AnnealResults(...), +, *, slicing, copy,
   filter, apply_function, convert_states, to_boolean, to_spin all go through it) *)
Theorem C13_derived : forall l, CInv (c_of_list l) /\ items (c_of_list l) = l.
Proof. intros l. split; [apply c_of_list_inv| apply c_of_list_items]. Qed.
Print Assumptions C13_derived.

(* sort orders by value and is a permutation *)
Theorem C13_sort : forall rev l, sorted_by rev (sort_stable rev l) /\ Permutation l (sort_stable rev l).
Proof. intros rev l. split; [apply sort_stable_sorted| apply sort_stable_perm]. Qed.
Print Assumptions C13_sort.

(* to_boolean / to_spin preserve values and are mutually inverse on states *)
Theorem C13_convert : forall r,
  (rspin r = false -> r_to_bool (r_to_spin r) = r) /\ (rspin r = true -> r_to_spin (r_to_bool r) = r)
  /\ rval (r_to_spin r) = rval r /\ rval (r_to_bool r) = rval r.
Proof. intros r. split; [apply to_bool_to_spin|]. split; [apply to_spin_to_bool| apply to_spin_val]. Qed.
Print Assumptions C13_convert.

(* non-vacuity: the D3 / D4 histories *)
Example C13_example :
  let r v := {| rval := v; rbits := [true]; rspin := true |} in
  map (fun c => option_map rval (best c))
      (run [Extend 0%nat 1%nat; Construct 1%nat [r 3; r 1]; Extend 0%nat 1%nat; SetItem 0%nat 1%Z (r 5); DelItem 1%nat 0%Z])
  = [Some 3; Some 1; None].
Proof. vm_compute. reflexivity. Qed.
