(* C13 — AnnealResults keeps `best` equal to the minimum under every list
   operation. Statements only; proofs in Proofs/AnnealResultsProofs.v. *)
From QV.Model Require Import Base AnnealResults.
From QV.Proofs Require Import AnnealResultsProofs AnnealResultsRefine.
From Coq Require Import Permutation.
Open Scope Q_scope.

(* every single operation keeps, in every register: best = None <-> empty, and
   otherwise best is an element with the smallest value *)
Theorem C13_step : forall s o s', SInv s -> step s o = Ok s' -> SInv s'.
Proof. exact step_inv. Qed.
Print Assumptions C13_step.

(* hence after every finite sequence of operations (an operation that raises
   leaves the collections as they were) *)
Theorem C13_inv : forall ops, SInv (run ops).
Proof. exact run_inv. Qed.
Print Assumptions C13_inv.

(* a collection built from any iterable (AnnealResults(...), +, *, slicing, copy,
   filter, apply_function, convert_states, to_boolean, to_spin all go through it) *)
Theorem C13_derived : forall l, CInv (c_of_list l) /\ items (c_of_list l) = l.
Proof. intros l. split; [apply c_of_list_inv| apply c_of_list_items]. Qed.
Print Assumptions C13_derived.

(* sort orders by value and is a permutation *)
Theorem C13_sort : forall rev l, sorted_by rev (sort_stable rev l) /\ Permutation l (sort_stable rev l).
Proof. intros rev l. split; [apply sort_stable_sorted| apply sort_stable_perm]. Qed.
Print Assumptions C13_sort.

(* to_boolean / to_spin preserve values and are mutually inverse on states *)
Theorem C13_convert : forall r,
  (rspin r = false -> r_to_bool (r_to_spin r) = r) /\ (rspin r = true -> r_to_spin (r_to_bool r) = r)
  /\ rval (r_to_spin r) = rval r /\ rval (r_to_bool r) = rval r.
Proof. intros r. split; [apply to_bool_to_spin|]. split; [apply to_spin_to_bool| apply to_spin_val]. Qed.
Print Assumptions C13_convert.

(* refinement to a plain list: forgetting `best`, every operation yields, in every register, the list
   the Python list operation yields, and raises exactly the exception the list operation raises (none
   when the list operation accepts its operands) *)
Theorem C13_refines_list : forall s o, res_map labs (step s o) = lstep (labs s) o.
Proof. exact step_refines. Qed.
Print Assumptions C13_refines_list.

Theorem C13_raises_iff : forall s o e, step s o = Err e <-> lstep (labs s) o = Err e.
Proof. exact step_raises_iff. Qed.
Print Assumptions C13_raises_iff.

(* both halves together, for whole programs: in every register `best` is None exactly when the list
   the plain-list program holds there is empty, and otherwise a member of it with the smallest value *)
Theorem C13_best_of_list : forall ops r,
  match best (rd (run ops) r) with
  | None => lrd (lrun ops) r = []
  | Some b => In b (lrd (lrun ops) r) /\ forall x, In x (lrd (lrun ops) r) -> rval b <= rval x
  end.
Proof. exact run_best_of_list. Qed.
Print Assumptions C13_best_of_list.

(* non-vacuity: the D3 / D4 histories *)
Example C13_example :
  let r v := {| rval := v; rbits := [true]; rspin := true |} in
  map (fun c => option_map rval (best c))
      (run [Extend 0%nat 1%nat; Construct 1%nat [r 3; r 1]; Extend 0%nat 1%nat; SetItem 0%nat 1%Z (r 5); DelItem 1%nat 0%Z])
  = [Some 3; Some 1; None].
Proof. vm_compute. reflexivity. Qed.

(* the list program raises where a list would (pop from empty, remove of an absent element) and not elsewhere *)
Example C13_example_raises :
  let r v := {| rval := v; rbits := [true]; rspin := true |} in
  (lstep [[]; []; []] (Pop 0%nat (-1)%Z), lstep [[]; []; []] (Remove 0%nat (r 1)), lstep [[r 1]; []; []] (Pop 0%nat (-1)%Z))
  = (Err IndexError, Err ValueError, Ok [[]; []; []]).
Proof. vm_compute. reflexivity. Qed.
