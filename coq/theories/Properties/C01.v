(* C01 — degree reduction never undercuts the model and is exact on consistent ancillas.
   Statements only; proofs in Proofs/ReduceProofs.v.

   reduce_degree m out deg l pairs  is PUBO._reduce_degree: the model m (labels mapped to 0..n-1 through m.mapping), the
   class of the result, the requested degree, the penalty setting (default 1+|v|, a constant, or a function of the
   coefficient) and the `pairs` hint.  to_qubo / to_pubo are this function; to_quso / to_puso convert its result; the
   PUSO / PCSO methods first build the boolean form with the spin model's own mapping (_create_pubo).

     pull (mp m) s     : convert_solution -- the assignment of M's labels read off an assignment s of D's integers
     wfl n red         : the substitutions (x, y) -> z made by the run: every ancilla z is >= n, larger than the two labels
                         it stands for, and they are numbered in increasing order
     cons_red s red    : s sets every ancilla to the product it stands for *)
From QV.Model Require Import Base Matrix Arith Convert Reduce.
From QV.Proofs Require Import BaseProofs KeyProofs ArithProofs InvProofs ConvertProofs PenaltyArith ReduceProofs ReduceRenumbered.
Open Scope Q_scope.

(* everything at once, for any penalty setting and any pairs hint *)
Theorem C01_core : forall m out deg l pairs D,
  reduce_degree m out deg l pairs = Ok D -> bmat out -> mp_range m ->
  exists ms red,
    mapped_self (mp m) (tm m) = Ok ms /\ kd D = out /\ wfl (num_vars m) red /\
    (forall s, boolean_env s -> cons_red s red -> eval s (tm D) == eval (pull (mp m) s) (tm m)) /\
    (forall s, boolean_env s -> (forall k v, In (k, v) ms -> Qabs v <= lam_fun l v) ->
       eval (pull (mp m) s) (tm m) <= eval s (tm D)) /\
    ((2 <= req_deg m deg)%nat -> keys_le (req_deg m deg) (tm D)).
Proof. exact reduce_degree_spec. Qed.
Print Assumptions C01_core.

(* every assignment x of M has an extension s over D's variables with D(s) = M(x), whatever the penalty *)
Theorem C01_extension : forall m out deg l pairs D,
  reduce_degree m out deg l pairs = Ok D -> bmat out -> Inv m -> is_labelled (kd m) = true ->
  forall x, boolean_env x ->
  exists s, boolean_env s /\ (forall l0 n, mp_get l0 (mp m) = Some n -> s n == x l0) /\ eval s (tm D) == eval x (tm m).
Proof. exact reduce_extension. Qed.
Print Assumptions C01_extension.

(* with a penalty >= |coefficient| of every reduced term, D(s) >= M(convert_solution(s)) at EVERY s, consistent or not *)
Theorem C01_lower : forall m out deg l pairs D,
  reduce_degree m out deg l pairs = Ok D -> bmat out -> mp_range m ->
  (forall ms, mapped_self (mp m) (tm m) = Ok ms -> forall k v, In (k, v) ms -> Qabs v <= lam_fun l v) ->
  forall s, boolean_env s -> eval (pull (mp m) s) (tm m) <= eval s (tm D).
Proof. exact reduce_lower. Qed.
Print Assumptions C01_lower.
Theorem C01_lower_default : forall m out deg pairs D,
  reduce_degree m out deg LDefault pairs = Ok D -> bmat out -> mp_range m ->
  forall s, boolean_env s -> eval (pull (mp m) s) (tm m) <= eval s (tm D).
Proof. exact reduce_lower_default. Qed.
Print Assumptions C01_lower_default.

(* same minimum, and every minimiser of D converts to a minimiser of M *)
Theorem C01_minimiser : forall m out deg l pairs D,
  reduce_degree m out deg l pairs = Ok D -> bmat out -> Inv m -> is_labelled (kd m) = true ->
  (forall ms, mapped_self (mp m) (tm m) = Ok ms -> forall k v, In (k, v) ms -> Qabs v <= lam_fun l v) ->
  forall s, boolean_env s -> (forall s', boolean_env s' -> eval s (tm D) <= eval s' (tm D)) ->
  let x := pull (mp m) s in
  eval x (tm m) == eval s (tm D) /\ forall x', boolean_env x' -> eval x (tm m) <= eval x' (tm m).
Proof. exact reduce_minimiser. Qed.
Print Assumptions C01_minimiser.

(* degree of the produced form *)
Theorem C01_degree : forall m out deg l pairs D,
  reduce_degree m out deg l pairs = Ok D -> bmat out -> mp_range m -> (2 <= req_deg m deg)%nat -> keys_le (req_deg m deg) (tm D).
Proof. exact reduce_degree_bound. Qed.
Print Assumptions C01_degree.

(* to_quso / to_puso are the boolean reduced form under 0 <-> +1, 1 <-> -1 *)
Theorem C01_to_quso : forall m l pairs L, pubo_to_quso m l pairs = Ok L ->
  exists Q, pubo_to_qubo m l pairs = Ok Q /\ forall z, spin_env z -> eval z (tm L) == eval (s2b z) (tm Q).
Proof. exact pubo_to_quso_value. Qed.
Print Assumptions C01_to_quso.
Theorem C01_to_puso : forall m deg l pairs S, pubo_to_puso_m m deg l pairs = Ok S ->
  exists P, pubo_to_pubo m deg l pairs = Ok P /\ forall z, spin_env z -> eval z (tm S) == eval (s2b z) (tm P).
Proof. exact pubo_to_puso_value. Qed.
Print Assumptions C01_to_puso.

(* spin models: _create_pubo keeps the spin model's mapping, so the same two statements hold against the spin function *)
Theorem C01_spin_extension : forall m out deg l pairs P D,
  create_pubo m = Ok P -> reduce_degree P out deg l pairs = Ok D -> bmat out -> Inv m -> is_labelled (kd m) = true ->
  forall z, spin_env z ->
  exists s, boolean_env s /\ (forall l0 n, mp_get l0 (mp m) = Some n -> s n == s2b z l0) /\ eval s (tm D) == eval z (tm m).
Proof. exact spin_reduce_extension. Qed.
Print Assumptions C01_spin_extension.
Theorem C01_spin_lower : forall m out deg l pairs P D,
  create_pubo m = Ok P -> reduce_degree P out deg l pairs = Ok D -> bmat out -> Inv m -> is_labelled (kd m) = true ->
  (forall ms, mapped_self (mp P) (tm P) = Ok ms -> forall k v, In (k, v) ms -> Qabs v <= lam_fun l v) ->
  forall s, boolean_env s -> eval (b2s (pull (mp m) s)) (tm m) <= eval s (tm D).
Proof. exact spin_reduce_lower. Qed.
Print Assumptions C01_spin_lower.

(* the same two statements for a model renumbered by the user (set_mapping / set_reverse_mapping with the model's labels and
   pairwise different integers below their number): D is labelled by the installed numbering mpx, and convert_solution reads
   assignments of D back through mpx *)
Theorem C01_renumbered_extension : forall m mpx out deg l pairs D,
  Inv m -> is_labelled (kd m) = true ->
  (forall i, In i (map fst mpx) <-> In i (map fst (mp m))) -> NoDup (map fst mpx) -> snd_ok mpx ->
  reduce_degree (set_mapping m mpx) out deg l pairs = Ok D -> bmat out ->
  forall x, boolean_env x ->
  exists s, boolean_env s /\ (forall l0 n, mp_get l0 mpx = Some n -> s n == x l0) /\ eval s (tm D) == eval x (tm m).
Proof. exact reduce_extension_renumbered. Qed.
Print Assumptions C01_renumbered_extension.
Theorem C01_renumbered_minimiser : forall m mpx out deg l pairs D,
  Inv m -> is_labelled (kd m) = true ->
  (forall i, In i (map fst mpx) <-> In i (map fst (mp m))) -> NoDup (map fst mpx) -> snd_ok mpx ->
  reduce_degree (set_mapping m mpx) out deg l pairs = Ok D -> bmat out ->
  (forall ms, mapped_self mpx (tm m) = Ok ms -> forall k v, In (k, v) ms -> Qabs v <= lam_fun l v) ->
  forall s, boolean_env s -> (forall s', boolean_env s' -> eval s (tm D) <= eval s' (tm D)) ->
  let x := pull mpx s in
  eval x (tm m) == eval s (tm D) /\ forall x', boolean_env x' -> eval x (tm m) <= eval x' (tm m).
Proof. exact reduce_minimiser_renumbered. Qed.
Print Assumptions C01_renumbered_minimiser.

(* the inequality every substitution step rests on: replacing b*c by the ancilla a in a term v*b*c*R costs at most the gadget *)
Theorem C01_step : forall a b c R v lam, is_bool a -> is_bool b -> is_bool c -> is_bool R -> Qabs v <= lam ->
  v * (b * c * R) <= v * (a * R) + lam * (3 * a + b * c - 2 * b * a - 2 * c * a).
Proof. exact step_ineq. Qed.
Print Assumptions C01_step.

(* non-vacuity: x0 x1 x2 - 2 x0 x1 x3 to_qubo: one ancilla (label 4) shared by both terms, degree 2 *)
Example C01_example :
  exists m D, m_create KPubo [([0; 1; 2]%nat, 1); ([0; 1; 3]%nat, -(2))] = Ok m /\ pubo_to_qubo m LDefault [] = Ok D
    /\ kd D = KQuboM /\ forallb (fun '(k, _) => (length k <=? 2)%nat) (tm D) = true
    /\ existsb (fun '(k, _) => existsb (Nat.eqb 4) k) (tm D) = true.
Proof. eexists. eexists. vm_compute. repeat split. Qed.

(* non-vacuity of the renumbered statements: the same model numbered 0 -> 1, 1 -> 2, 2 -> 0, 3 -> 3 (a 3-cycle, not its own
   inverse) meets the side conditions on the numbering and reduces to a quadratic form whose ancilla is again label 4 *)
Example C01_example_renumbered :
  let mpx := [(0, 1); (1, 2); (2, 0); (3, 3)]%nat in
  NoDup (map fst mpx) /\ snd_ok mpx /\
  exists m D, m_create KPubo [([0; 1; 2]%nat, 1); ([0; 1; 3]%nat, -(2))] = Ok m /\
    (forall i, In i (map fst mpx) <-> In i (map fst (mp m))) /\
    pubo_to_qubo (set_mapping m mpx) LDefault [] = Ok D
    /\ kd D = KQuboM /\ forallb (fun '(k, _) => (length k <=? 2)%nat) (tm D) = true
    /\ existsb (fun '(k, _) => existsb (Nat.eqb 4) k) (tm D) = true.
Proof.
  cbv zeta. split; [|split].
  - cbn. repeat constructor; cbn; intuition discriminate.
  - split; cbn; [repeat constructor; cbn; intuition discriminate | intros n H; repeat (destruct H as [<-|H]; [repeat constructor|]); destruct H].
  - eexists. eexists. split; [vm_compute; reflexivity|]. split; [cbn; tauto|]. vm_compute. repeat split.
Qed.
