(* C14 — model bookkeeping stays consistent under every history of edits.
   Statements only; proofs in Proofs/InvProofs.v and Proofs/RefreshProofs.v.
   (The clauses about enumerated / reduced forms and ancilla names are
   C01_shape and C02_fresh_ancillas.) *)
From QV.Model Require Import Base Matrix Arith Expr Extrema Sat PCBO Convert PCSO.
From QV.Proofs Require Import BaseProofs KeyProofs ArithProofs InvProofs RefreshProofs LabelProofs PCBOProofs AncProofs InvConstraint.
Open Scope Q_scope.

(* a freshly constructed model satisfies the invariant *)
Theorem C14_init : forall k, Inv (empty_model k).
Proof. exact Inv_empty. Qed.
Print Assumptions C14_init.

(* every single edit preserves it: item assignment (zero included), augmented
   assignment, the five in-place operators with dict / model / scalar operands,
   update, clear, refresh, copy *)
Theorem C14_step : forall m e m', Inv m -> apply_edit m e = Ok m' -> Inv m'.
Proof. exact apply_edit_Inv. Qed.
Print Assumptions C14_step.

(* hence every reachable state satisfies it, for every finite history *)
Theorem C14_reachable : forall es m m', Inv m -> run_edits m es = Ok m' -> Inv m'.
Proof. exact run_edits_Inv. Qed.
Print Assumptions C14_reachable.

(* what the invariant says about labelled models: |mapping| = next label =
   num_binary_variables, mapping/reverse_mapping are mutually inverse, and the
   integers used are exactly 0 .. n-1 *)
(* adding constraints is an edit too: the six comparison methods of PCBO and of PCSO (every branch) preserve the invariant,
   so it holds after every history that mixes them with the edits above; and the ancilla names they create are new:
   every '__a j' present has j below the counter (C02_ancilla_bound / C03_ancilla_bound), which only grows *)
Theorem C14_constraint_step : forall m h m', Inv m -> apply_hedit m h = Ok m' -> Inv m'.
Proof. exact apply_hedit_Inv. Qed.
Print Assumptions C14_constraint_step.
Theorem C14_reachable_with_constraints : forall es m m', Inv m -> run_hedits m es = Ok m' -> Inv m'.
Proof. exact run_hedits_Inv. Qed.
Print Assumptions C14_reachable_with_constraints.
Theorem C14_ancilla_names : forall r m Pin lam lt b m' w t, add_constraint r m Pin lam lt b = Ok (m', w, t) ->
  LP (AB (anc m)) (tm m) -> LP (AB (anc m)) Pin -> LP (AB (anc m')) (tm m') /\ (anc m <= anc m')%nat.
Proof. exact add_constraint_AB. Qed.
Print Assumptions C14_ancilla_names.

Theorem C14_counts : forall m, Inv m -> is_labelled (kd m) = true ->
  length (mp m) = num_vars m /\ next_label m = num_vars m.
Proof. exact Inv_counts. Qed.
Print Assumptions C14_counts.
Theorem C14_bijection : forall m, Inv m -> is_labelled (kd m) = true ->
  forall i n, mp_get i (mp m) = Some n <-> rmp_get n (mp m) = Some i.
Proof. exact Inv_bijection. Qed.
Print Assumptions C14_bijection.
Theorem C14_range : forall m, Inv m -> is_labelled (kd m) = true ->
  forall n, In n (map snd (mp m)) <-> (n < num_vars m)%nat.
Proof. exact Inv_range. Qed.
Print Assumptions C14_range.

(* refresh(): same function, exact variables and degree, invariant kept *)
Theorem C14_refresh : forall e m m', wf (kd m) (tm m) -> m_refresh m = Ok m' -> good_env (kd m) e ->
  eval e (tm m') == eval e (tm m) /\ kd m' = kd m /\ Exact m' /\ Inv m'.
Proof. exact m_refresh_exact. Qed.
Print Assumptions C14_refresh.

(* non-vacuity: the D1 history (zero assignment, then a cubic term) on a PUBO *)
Example C14_example :
  exists m, run_edits (empty_model KPubo) [ESet [200]%nat 0; ESet [201; 202; 203]%nat 1; EAug [201]%nat (1#2); EIsub (ORaw [([201]%nat, 1#2)]); ERefresh] = Ok m
            /\ map fst (mp m) = [201; 202; 203]%nat /\ vars_c m = [201; 202; 203]%nat.
Proof. eexists. vm_compute. repeat split. Qed.
