(* C02 — PCBO comparison constraints become exact non-negative penalties.
   Statements only; proofs in Proofs/PCBOProofs.v (arithmetic in Proofs/PenaltyArith.v).

   Reading guide.  For a call  add_constraint_R_zero(P, lam, log_trick, bounds)  on a model m giving m':
     step_ok m m' lam G   : at every 0/1 assignment x,  m'(x) = m(x) + lam * G(x)     (the added terms F = lam * G)
     pen_rel R fresh pv G : G >= 0 everywhere; if R(P(x)) then some x' that differs from x only on the fresh
                            ancillas has G(x') = 0; if not R(P(x)) then G(x) >= 1 (so F >= lam) -- for every
                            value of the ancillas, because x ranges over all assignments
     fresh_lbl a a'       : the ancilla labels '__a k' with a <= k < a'
   call_result packages: the recorded constraint (cframe), the ancilla counter, G >= 0 in every branch
   (including the ones that warn), and pen_rel unless the library warned "cannot be satisfied". *)
From QV.Model Require Import Base Matrix Arith Expr Extrema Sat PCBO.
From QV.Proofs Require Import BaseProofs KeyProofs ArithProofs LabelProofs PenaltyArith PCBOProofs AncProofs.
Open Scope Q_scope.

(* one constraint, any of the six relations, every branch of the implementation (shortcut forms,
   unsatisfiable / always-satisfied branches, unary and binary slack), every lam <> 0 (lam > 0 in the property),
   every integer-valued P, omitted / partial / any valid bounds *)
Theorem C02_constraint : forall r m Pin lam lt b m' w t,
  add_constraint r m Pin lam lt b = Ok (m', w, t) -> bkind (kd m) -> ~ lam == 0 ->
  let pv := fun x => eval x Pin in
  int_v pv -> bvalid pv b -> (forall n, indep (fresh_lbl (anc m) (anc m + n)) pv) ->
  call_result r (rel_prop r) m m' lam Pin w.
Proof. exact add_constraint_spec. Qed.
Print Assumptions C02_constraint.

(* == and <= keep a gap of lam even when the library warns that the constraint cannot be satisfied *)
Theorem C02_le_strong : forall m Pin lam lt b m' w t,
  add_le m Pin lam lt b = Ok (m', w, t) -> bkind (kd m) -> ~ lam == 0 ->
  let pv := fun x => eval x Pin in
  int_v pv -> bvalid pv b -> (forall n, indep (fresh_lbl (anc m) (anc m + n)) pv) ->
  call_result_strong RLe (fun v => v <= 0) m m' lam Pin w.
Proof. exact add_le_spec. Qed.
Print Assumptions C02_le_strong.

(* a polynomial that mentions no ancilla label does not depend on the fresh ancillas *)
Theorem C02_no_anc_indep : forall P k0 k1, no_anc P -> indep (fresh_lbl k0 k1) (fun x => eval x P).
Proof. exact no_anc_indep. Qed.
Print Assumptions C02_no_anc_indep.

(* is_solution_valid(x) is true exactly when every recorded constraint holds at x *)
Theorem C02_valid_iff : forall m x,
  is_solution_valid m x = true <-> forall r P, In (r, P) (cons m) -> rel_prop r (eval x P).
Proof. exact is_solution_valid_iff. Qed.
Print Assumptions C02_valid_iff.

(* constraints added one after another: each is recorded, gets its own consecutive block of ancillas
   (the counter never decreases, so the blocks are pairwise disjoint), and contributes its exact penalty *)
Theorem C02_sequence : forall cs m m', run_calls m cs = Ok m' -> bkind (kd m) -> Forall call_ok cs -> seq_result m cs m'.
Proof. exact run_calls_spec. Qed.
Print Assumptions C02_sequence.
Theorem C02_ancilla_blocks : forall m cs m', seq_result m cs m' -> (anc m <= anc m')%nat.
Proof. exact seq_result_anc. Qed.
Print Assumptions C02_ancilla_blocks.

(* every ancilla label present in the model is below the counter -- syntactically, with no hypothesis on P's values;
   AB a i  reads: if i is the label '__a j' then j < a;   LP Q t: every label occurring in a key of t satisfies Q *)
Theorem C02_ancilla_bound : forall r m Pin lam lt b m' w t, add_constraint r m Pin lam lt b = Ok (m', w, t) ->
  LP (AB (anc m)) (tm m) -> LP (AB (anc m)) Pin -> LP (AB (anc m')) (tm m') /\ (anc m <= anc m')%nat.
Proof. exact add_constraint_AB. Qed.
Print Assumptions C02_ancilla_bound.
Theorem C02_sequence_bound : forall cs m m', run_calls m cs = Ok m' -> LP (AB (anc m)) (tm m) ->
  Forall (fun c => no_anc (cc_P c)) cs -> LP (AB (anc m')) (tm m') /\ (anc m <= anc m')%nat.
Proof. exact run_calls_AB. Qed.
Print Assumptions C02_sequence_bound.
(* hence what one call adds does not read ancillas created later: the penalties of a sequence can be minimised
   independently over their own blocks (used by C08_sequence) *)
Theorem C02_later : forall m m' lam G, step_ok m m' lam G -> ~ lam == 0 ->
  LP (AB (anc m')) (tm m) -> LP (AB (anc m')) (tm m') -> indep (later (anc m')) G.
Proof. exact step_later. Qed.
Print Assumptions C02_later.

(* the arithmetic facts the branches rest on *)
Theorem C02_and_gadget : forall a b c, is_bool a -> is_bool b -> is_bool c ->
  let G := 3 * a + b * c - 2 * a * (b + c) in 0 <= G /\ (a == b * c -> G == 0) /\ (~ a == b * c -> 1 <= G).
Proof. exact and_gadget_facts. Qed.
Print Assumptions C02_and_gadget.
Theorem C02_num_bits : forall val lt n, num_bits val lt = Ok n -> forall t : Z, (0 <= t)%Z -> inject_Z t <= val ->
  if lt then (t < 2 ^ Z.of_nat n)%Z else (t <= Z.of_nat n)%Z.
Proof. exact num_bits_enough. Qed.
Print Assumptions C02_num_bits.

(* non-vacuity: x + 2y + z - 2 <= 0 with unary slack on a PCBO; two ancillas are created and the constraint is recorded *)
Example C02_example :
  exists m' w t, add_constraint RLe (empty_model KPcbo) [([0]%nat, 1); ([1]%nat, 2); ([2]%nat, 1); ([], -(2))] 3 false (None, None) = Ok (m', w, t)
                 /\ anc m' = 2%nat /\ w = WNone /\ length (cons m') = 1%nat.
Proof. eexists. eexists. eexists. vm_compute. repeat split. Qed.
