(* C12 — annealer dynamics are reproducible Metropolis sweeps.
   Statements only; proofs in Proofs/AnnealProofs.v.

   metro_step E is the chain the property names: pick spin i (the sweep position, or pcg32_boundedrand), compute the EXACT
   energy difference dE = E(flip i s) - E(s) of the model, accept when dE <= 0, otherwise (T > 0) when the next uniform
   number is below exp(-dE/T).  The theorems say that both C kernels compute exactly this chain, step for step and with
   the same random stream -- the quadratic kernel through its cache of energy differences (C12_cache), the general kernel
   through its subgraph sums -- and what the chain does at temperature zero.  A model run is a function of its arguments
   (seed included), so identical calls agree; exp() itself is outside the model: acceptance at T > 0 is decided against
   rational enclosures of exp(-dE/T), and a run the enclosures cannot decide is reported as unknown, never guessed. *)
From QV.Model Require Import Base Matrix Convert Reduce Anneal.
From QV.Proofs Require Import BaseProofs AnnealProofs.
Open Scope Q_scope.

(* the cached entry of the quadratic kernel is the exact energy difference of the model *)
Theorem C12_quso_exact_dE : forall N t s i, qvalid N t -> NoDup (map fst t) -> (i < length s)%nat ->
  cf (quso_flatten N t) s i == E_puso (puso_flatten t) (upd i Z.opp s) - E_puso (puso_flatten t) s.
Proof. exact quso_flip_energy. Qed.
Print Assumptions C12_quso_exact_dE.

(* ... and stays exact across every accepted flip (the incremental update recompute_flip_dE) *)
Theorem C12_cache : forall a N s fl spin, args_ok a N -> length s = N -> (spin < N)%nat ->
  length fl = N -> (forall n, (n < N)%nat -> nth n fl 0 == cf a s n) ->
  length (recompute_flip a s fl spin) = N /\
  forall n, (n < N)%nat -> nth n (recompute_flip a s fl spin) 0 == cf a (upd spin Z.opp s) n.
Proof. exact recompute_correct. Qed.
Print Assumptions C12_cache.

(* the general kernel: -2 * (sum of the terms containing the spin) is the exact energy difference *)
Theorem C12_puso_exact_dE : forall a s i, nodup_keys a -> (i < length s)%nat ->
  E_puso a (upd i Z.opp s) == E_puso a s + -(2) * puso_subgraph_value a s i.
Proof. exact puso_flip_energy. Qed.
Print Assumptions C12_puso_exact_dE.

(* both kernels ARE the Metropolis chain with exact energy differences: whole anneals, any schedule, both visiting orders *)
Theorem C12_quso_refines : forall a N E tab io Ts r s, args_ok a N -> exact_dE a N E -> length s = N ->
  quso_single a tab io Ts r s = metro_single E tab io Ts r s.
Proof. exact quso_single_refines. Qed.
Print Assumptions C12_quso_refines.
Theorem C12_puso_refines : forall a tab io Ts r s, nodup_keys a ->
  puso_single a tab io Ts r s = metro_single (E_puso a) tab io Ts r s.
Proof. exact puso_single_refines. Qed.
Print Assumptions C12_puso_refines.

(* temperature zero: never uphill, so the final energy is at most the initial one ... *)
Theorem C12_zero_descent : forall E tab io Ts r s r' s', metro_single E tab io Ts r s = Some (r', s') ->
  length s' = length s /\ (pm1 s -> pm1 s') /\ (all_zero Ts -> E s' <= E s).
Proof. exact metro_single_spec. Qed.
Print Assumptions C12_zero_descent.
(* ... and visiting in order, spin j is flipped exactly when that does not raise the energy, without using the generator *)
Theorem C12_zero_inorder : forall E tab T r s j, T == 0 ->
  metro_step E tab true T (r, s) j = Some (r, if qle0 (E (upd j Z.opp s) - E s) then upd j Z.opp s else s).
Proof. exact metro_step_zero_inorder. Qed.
Print Assumptions C12_zero_inorder.

(* the acceptance rule: downhill always; uphill at T > 0 exactly according to the enclosure of exp(-dE/T) *)
Theorem C12_accept_downhill : forall tab r dE T, dE <= 0 -> accept tab r dE T = Some (r, true).
Proof. exact accept_downhill. Qed.
Print Assumptions C12_accept_downhill.
Theorem C12_accept_uphill : forall tab r dE T r' b, accept tab r dE T = Some (r', b) -> 0 < dE -> 0 < T ->
  exists lo hi, tab_get (dE / T) tab = Some (lo, hi) /\ r' = fst (rand_double r) /\
                (if b then snd (rand_double r) < lo else hi < snd (rand_double r)).
Proof. exact accept_uphill. Qed.
Print Assumptions C12_accept_uphill.
(* the random spin index is in range *)
Theorem C12_rand_int : forall r stop r' i, rand_int r stop = Some (r', i) -> (i < stop)%nat.
Proof. exact rand_int_lt. Qed.
Print Assumptions C12_rand_int.

(* non-vacuity: the hypotheses of C12_quso_refines are met by the arrays of a concrete model *)
Example C12_example : let t := [([0; 1]%nat, 1); ([1; 2]%nat, -(1)); ([0]%nat, 1 # 2)] in
  args_ok (quso_flatten 3 t) 3 /\ exact_dE (quso_flatten 3 t) 3 (E_puso (puso_flatten t)).
Proof.
  intros t.
  assert (Hv : qvalid 3 t).
  { intros k v [E|[E|[E|[]]]]; injection E as <- _; [right; right; exists 0%nat, 1%nat| right; right; exists 1%nat, 2%nat| right; left; exists 0%nat]; repeat split; auto; discriminate. }
  split; [apply flatten_ok, Hv|]. intros s i Ls Hi. apply quso_flip_energy; [exact Hv| |rewrite Ls; exact Hi].
  repeat constructor; simpl; intuition discriminate.
Qed.
