(* C18 — substitution and scaling utilities preserve the represented function.
   Statements only; proofs in Proofs/SubNormProofs.v. *)
From QV.Model Require Import Base Matrix Arith Extrema SubNorm.
From QV.Proofs Require Import BaseProofs KeyProofs ArithProofs SubNormProofs.
Open Scope Q_scope.

(* subvalue(values, G): for a model with canonically stored keys (and for any plain dict, KDict),
   the value at ANY assignment e of the remaining variables -- no boolean/spin restriction, so this
   covers numeric values outside the variable domain too -- equals G's value at e extended by `values`;
   the result has G's type *)
Theorem C18_subvalue : forall e kd0 values G D,
  (forall k v, In (k, v) G -> squash kd0 k = Ok k) -> subvalue kd0 values G = Ok D ->
  eval e (tm D) == eval (override e (fun i => negb (in_dom values i)) values 0) G /\ kd D = kd0.
Proof. exact subvalue_sound. Qed.
Print Assumptions C18_subvalue.

(* subgraph(G, nodes, connections): G without its constant, outside variables fixed to connections (default 0) *)
Theorem C18_subgraph : forall e kd0 nodes conn G D,
  (forall k v, In (k, v) G -> squash kd0 k = Ok k) -> subgraph kd0 nodes conn G = Ok D ->
  eval e (tm D) == eval (override e (fun i => mem i nodes) conn 0) (skipped true G) /\ kd D = kd0.
Proof. exact subgraph_sound. Qed.
Print Assumptions C18_subgraph.

(* what "extended by" means *)
Theorem C18_override : forall e keep vs dflt i,
  (keep i = true -> override e keep vs dflt i = e i) /\
  (keep i = false -> override e keep vs dflt i = match vget i vs with Some v => v | None => dflt end).
Proof. exact override_spec. Qed.
Print Assumptions C18_override.

(* normalize: one common factor value / max|coef|, type unchanged *)
Theorem C18_normalize : forall e kd0 D value R, wf kd0 D -> normalize kd0 D value = Ok R ->
  exists M, max_abs D = Some M /\ ~ M == 0 /\ eval e (tm R) == (value / M) * eval e D /\ kd R = kd0.
Proof. exact normalize_sound. Qed.
Print Assumptions C18_normalize.
Theorem C18_normalize_method : forall e m value m', wf (kd m) (tm m) -> normalize_method m value = Ok m' ->
  (tm m = [] /\ m' = m) \/
  exists M, max_abs (tm m) = Some M /\ ~ M == 0 /\ eval e (tm m') == (value / M) * eval e (tm m) /\ kd m' = kd m.
Proof. exact normalize_method_sound. Qed.
Print Assumptions C18_normalize_method.
(* ... and the largest magnitude of the scaled coefficients is |value| *)
Theorem C18_normalize_max : forall D value M, max_abs D = Some M -> ~ M == 0 ->
  forall M', qmax_list (map (fun '(_, v) => Qabs (value / M * v)) D) = Some M' -> M' == Qabs value.
Proof. exact normalize_max. Qed.
Print Assumptions C18_normalize_max.

Example C18_example :
  exists D, subvalue KPubo [(1%nat, 1); (3%nat, 1#2)] [([0;1]%nat, 2); ([1;3]%nat, 4); ([2]%nat, -(1)); ([], 5)] = Ok D
            /\ map_eqb (tm D) [([0]%nat, 2); ([2]%nat, -(1)); ([], 7)] = true.
Proof. eexists. split; vm_compute; reflexivity. Qed.
