(* C05 — model arithmetic and evaluation agree with polynomial arithmetic.
   Statements only; proofs in Proofs/ArithProofs.v, ExprProofs.v, ValuesProofs.v. *)
From QV.Model Require Import Base Matrix Arith Expr Values.
From QV.Proofs Require Import BaseProofs KeyProofs ArithProofs ExprProofs ValuesProofs UniqueProofs UniqueSpin.
Open Scope Q_scope.

(* Any expression tree over the ten model kinds, DictArithmetic, raw dicts and
   scalars, with forward / reflected / in-place operators: whenever the
   interpreter (= the Python operator dispatch) returns a value, that value
   denotes the polynomial-arithmetic value of the tree at every assignment that
   is boolean (resp. spin) for the kinds of the model leaves; the result is a
   model stored canonically (strictly sorted duplicate-free keys, one entry per
   key, no zero coefficient). *)
Theorem C05_tree : forall (env0 : env) (e : expr) (v : operand),
  leaves (fun k => good_env k env0) e -> interp e = Ok v ->
  operand_eval env0 v == denote env0 e /\ operand_ok env0 v.
Proof. exact interp_sound. Qed.
Print Assumptions C05_tree.

(* operator by operator (copying forms; the in-place forms are m_i*_eval) *)
Theorem C05_add : forall e m o m', m_add m o = Ok m' -> good_env (kd m) e ->
  eval e (tm m') == eval e (tm m) + operand_eval e o /\ kd m' = kd m.
Proof. exact m_add_eval. Qed.
Print Assumptions C05_add.
Theorem C05_sub : forall e m o m', m_sub m o = Ok m' -> good_env (kd m) e ->
  eval e (tm m') == eval e (tm m) - operand_eval e o /\ kd m' = kd m.
Proof. exact m_sub_eval. Qed.
Print Assumptions C05_sub.
Theorem C05_rsub : forall e m o m', m_rsub m o = Ok m' -> good_env (kd m) e ->
  eval e (tm m') == operand_eval e o - eval e (tm m) /\ kd m' = kd m.
Proof. exact m_rsub_eval. Qed.
Print Assumptions C05_rsub.
Theorem C05_mul : forall e m o m', m_mul m o = Ok m' -> good_env (kd m) e ->
  eval e (tm m') == eval e (tm m) * operand_eval e o /\ kd m' = kd m.
Proof. exact m_mul_eval. Qed.
Print Assumptions C05_mul.
Theorem C05_pow : forall e m n m', m_pow m n = Ok m' -> good_env (kd m) e ->
  (0 < n)%Z /\ eval e (tm m') == qpow (eval e (tm m)) (Z.to_nat n) /\ kd m' = kd m.
Proof. exact m_pow_eval. Qed.
Print Assumptions C05_pow.
Theorem C05_neg : forall e m m', m_neg m = Ok m' -> good_env (kd m) e ->
  eval e (tm m') == - eval e (tm m) /\ kd m' = kd m.
Proof. exact m_neg_eval. Qed.
Print Assumptions C05_neg.
Theorem C05_truediv : forall e m c m', m_truediv m c = Ok m' -> good_env (kd m) e ->
  eval e (tm m') == eval e (tm m) / c /\ kd m' = kd m.
Proof. exact m_truediv_eval. Qed.
Print Assumptions C05_truediv.
Theorem C05_iadd : forall e m o m', m_iadd m o = Ok m' -> good_env (kd m) e ->
  eval e (tm m') == eval e (tm m) + operand_eval e o /\ kd m' = kd m.
Proof. exact m_iadd_eval. Qed.
Print Assumptions C05_iadd.
Theorem C05_isub : forall e m o m', m_isub m o = Ok m' -> good_env (kd m) e ->
  eval e (tm m') == eval e (tm m) - operand_eval e o /\ kd m' = kd m.
Proof. exact m_isub_eval. Qed.
Print Assumptions C05_isub.
Theorem C05_imul : forall e m o m', wf (kd m) (tm m) -> m_imul m o = Ok m' -> good_env (kd m) e ->
  eval e (tm m') == eval e (tm m) * operand_eval e o /\ kd m' = kd m.
Proof. exact m_imul_eval. Qed.
Print Assumptions C05_imul.

(* the only way an operator fails on a key is KeyError from a degree-2 kind *)
Theorem C05_keyerror : forall kd0 k e0, squash kd0 k = Err e0 -> e0 = KeyError /\ is_quadratic kd0 = true.
Proof. exact squash_err. Qed.
Print Assumptions C05_keyerror.

(* the four value functions equal direct evaluation *)
Theorem C05_pubo_value : forall e P, boolean_env e -> pubo_value e P == eval e P.
Proof. exact pubo_value_eval. Qed.
Print Assumptions C05_pubo_value.
Theorem C05_qubo_value : forall e P, boolean_env e -> keys_le2 P -> qubo_value e P == eval e P.
Proof. exact qubo_value_eval. Qed.
Print Assumptions C05_qubo_value.
Theorem C05_puso_value : forall e H, spin_env e -> puso_value e H == eval e H.
Proof. exact puso_value_eval. Qed.
Print Assumptions C05_puso_value.
Theorem C05_quso_value : forall e L, keys_le2 L -> quso_value e L == eval e L.
Proof. exact quso_value_eval. Qed.
Print Assumptions C05_quso_value.

(* squashing a raw key does not change the monomial (idempotent booleans, involutive spins) *)
Theorem C05_squash : forall kd0 k k' e, squash kd0 k = Ok k' -> good_env kd0 e -> mon e k' == mon e k.
Proof. exact squash_mon. Qed.
Print Assumptions C05_squash.

(* uniqueness of the canonical form (boolean kinds): a canonically stored polynomial that is 0 at every 0/1 assignment has no
   terms, so two boolean models with equal values have the empty model as their difference -- the stored dictionary is
   determined by the function *)
Theorem C05_unique_zero : forall kd0 t, is_spin kd0 = false -> kd0 <> KDict -> wf kd0 t ->
  (forall x, boolean_env x -> eval x t == 0) -> t = [].
Proof. exact zero_poly_empty. Qed.
Print Assumptions C05_unique_zero.
Theorem C05_unique_sub : forall a b d, is_spin (kd a) = false -> kd a <> KDict -> wf (kd a) (tm a) ->
  m_sub a (OModel b) = Ok d -> (forall x, boolean_env x -> eval x (tm a) == eval x (tm b)) -> tm d = [].
Proof. exact equal_values_sub_empty. Qed.
Print Assumptions C05_unique_sub.
(* the same for the spin kinds: a canonically stored spin polynomial that is 0 at every +-1 assignment has no terms (split on
   one label at a time: both halves of t = z_a * t1 + t0 vanish, by induction on the total key length) *)
Theorem C05_unique_zero_spin : forall kd0 t, is_spin kd0 = true -> wf kd0 t ->
  (forall z, spin_env z -> eval z t == 0) -> t = [].
Proof. exact zero_poly_empty_spin. Qed.
Print Assumptions C05_unique_zero_spin.
Theorem C05_unique_sub_spin : forall a b d, is_spin (kd a) = true -> wf (kd a) (tm a) ->
  m_sub a (OModel b) = Ok d -> (forall z, spin_env z -> eval z (tm a) == eval z (tm b)) -> tm d = [].
Proof. exact equal_values_sub_empty_spin. Qed.
Print Assumptions C05_unique_sub_spin.

(* non-vacuity: a tree over a PUBO leaf, a raw dict and a scalar evaluates, and its leaves are boolean kinds *)
Example C05_example :
  exists v, interp (EBin false OpMul (EBin false OpSub (ERaw [([0;1;1]%nat, 2)]) (EModel KPubo [([1;0]%nat, 3#2); ([], 1)]))
                                     (EPow false (EModel KPubo [([2]%nat, 1); ([0]%nat, -(1))]) 2)) = Ok v.
Proof. eexists. vm_compute. reflexivity. Qed.
