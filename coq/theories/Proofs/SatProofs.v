(* C07: the sat builders compute their truth functions *)
From QV.Model Require Import Base Matrix Arith Expr Sat.
From QV.Proofs Require Import BaseProofs KeyProofs ArithProofs ExprProofs.
From Coq Require Import Lia Lqa Qfield.
Open Scope Q_scope.

Definition b2q (b : bool) : Q := if b then 1 else 0.

Lemma b2q_and a b : b2q a * b2q b == b2q (a && b).
Proof. destruct a, b; simpl; ring. Qed.
Lemma b2q_not a : 1 - b2q a == b2q (negb a).
Proof. destruct a; simpl; ring. Qed.
Lemma b2q_or a b : b2q a + b2q b * (1 - b2q a) == b2q (a || b).
Proof. destruct a, b; simpl; ring. Qed.
Lemma b2q_xor a b : (b2q a - b2q b) * ((b2q a - b2q b) * 1) == b2q (xorb a b).
Proof. destruct a, b; simpl; ring. Qed.

(* ---- denotation of the gate expressions in terms of the operands' denotations ---- *)
Lemma den_one x : denote x e_one == 1.
Proof. simpl. ring. Qed.

Lemma den_and_fold x es : forall P, denote x (fold_left (fun P v => EBin true OpMul P v) es P)
                                    == denote x P * fold_right (fun v acc => denote x v * acc) 1 es.
Proof. induction es as [|e es IH]; simpl; intros P; [ring| rewrite IH; simpl; ring]. Qed.

Lemma den_and x es bs : Forall2 (fun e b => denote x e == b2q b) es bs ->
  denote x (e_and es) == b2q (forallb (fun b => b) bs).
Proof.
  intros H. unfold e_and. destruct es as [|e0 es0] eqn:Ees.
  - inversion H; subst. simpl. ring.
  - rewrite <- Ees in *. clear Ees e0 es0. rewrite den_and_fold. simpl.
    induction H as [|e b es bs Hb _ IH]; simpl; [ring|].
    rewrite Hb. rewrite Qmult_1_l in IH. rewrite Qmult_1_l, IH. apply b2q_and.
Qed.

Lemma den_or_fold x rest bs : Forall2 (fun e b => denote x e == b2q b) rest bs -> forall a b0,
  denote x a == b2q b0 ->
  denote x (fold_left (fun x0 v => EBin false OpAdd x0 (EBin false OpMul v (EBin false OpSub (EScalar 1) x0))) rest a)
  == b2q (fold_left orb bs b0).
Proof.
  induction 1 as [|e b es bs Hb _ IH]; simpl; intros a b0 Ha; [exact Ha|].
  apply IH. simpl. rewrite Ha, Hb. apply b2q_or.
Qed.
Lemma existsb_fold bs : forall b0, fold_left orb bs b0 = b0 || existsb (fun b => b) bs.
Proof. induction bs as [|b bs IH]; simpl; intros b0; [rewrite orb_false_r; reflexivity| rewrite IH, orb_assoc; reflexivity]. Qed.

Lemma den_or x es bs : Forall2 (fun e b => denote x e == b2q b) es bs ->
  denote x (e_or es) == b2q (match bs with [] => true | _ => existsb (fun b => b) bs end).
Proof.
  intros H. destruct H as [|e b es bs Hb H]; [simpl; ring|].
  unfold e_or. rewrite (den_or_fold x es bs H e b Hb), existsb_fold. reflexivity.
Qed.

Lemma den_xor_fold x rest bs : Forall2 (fun e b => denote x e == b2q b) rest bs -> forall a b0,
  denote x a == b2q b0 ->
  denote x (fold_left (fun x0 v => EPow false (EBin false OpSub x0 v) 2) rest a) == b2q (fold_left xorb bs b0).
Proof.
  induction 1 as [|e b es bs Hb _ IH]; simpl; intros a b0 Ha; [exact Ha|].
  apply IH. simpl. rewrite Ha, Hb. apply b2q_xor.
Qed.
Lemma den_xor x es bs : Forall2 (fun e b => denote x e == b2q b) es bs ->
  denote x (e_xor es) == b2q (match bs with [] => true | _ => fold_left xorb bs false end).
Proof.
  intros H. destruct H as [|e b es bs Hb H]; [simpl; ring|].
  unfold e_xor. rewrite (den_xor_fold x es bs H e b Hb). simpl. destruct b; reflexivity.
Qed.

Lemma den_not x e b : denote x e == b2q b -> denote x (e_not e) == b2q (negb b).
Proof. intros H. simpl. rewrite H. apply b2q_not. Qed.

(* ---- a usable induction principle for the nested type ---- *)
Section SxInd.
  Variable P : sx -> Prop.
  Hypothesis Hl : forall l, P (SLbl l).
  Hypothesis Hd : forall t, P (SDict t).
  Hypothesis Hm : forall k t, P (SMdl k t).
  Hypothesis Hg : forall g args, Forall P args -> P (SGate g args).
  Fixpoint sx_ind' (e : sx) : P e :=
    match e with
    | SLbl l => Hl l
    | SDict t => Hd t
    | SMdl k t => Hm k t
    | SGate g args =>
        Hg g args ((fix go (l : list sx) : Forall P l :=
                      match l with [] => Forall_nil P | a :: l' => Forall_cons a (sx_ind' a) (go l') end) args)
    end.
End SxInd.

Lemma sx_ok_args env0 g args : sx_ok env0 (SGate g args) -> Forall (sx_ok env0) args.
Proof.
  simpl. intros [H _]. induction args as [|a args IH]; [constructor|]. destruct H as [Ha H]. constructor; [exact Ha| apply IH, H].
Qed.

Lemma qzero_b2q v : (v == 0 \/ v == 1) -> v == b2q (negb (qzero v)).
Proof.
  intros [H|H].
  - assert (qzero v = true) as -> by (apply qzero_spec, H). exact H.
  - destruct (qzero v) eqn:E; [apply qzero_spec in E; rewrite H in E; discriminate| exact H].
Qed.

Theorem sat_denote x e : sx_ok x e -> denote x (sat_expr e) == b2q (truth x e).
Proof.
  induction e as [l|t|k t|g args IH] using sx_ind'; intros Hok.
  - simpl in *. rewrite Qplus_0_r, Qmult_1_r, Qmult_1_l. apply qzero_b2q, Hok.
  - simpl in *. apply qzero_b2q, Hok.
  - simpl in *. apply qzero_b2q, (proj1 Hok).
  - pose proof (sx_ok_args _ _ _ Hok) as Hargs. destruct Hok as [_ Har].
    assert (F2 : Forall2 (fun e b => denote x e == b2q b) (map sat_expr args) (map (truth x) args)).
    { clear Har. induction args as [|a args IHa]; simpl; [constructor|].
      inversion IH; inversion Hargs; subst. constructor; [auto| apply IHa; assumption]. }
    cbn [sat_expr truth]. destruct g; cbn [gate_expr].
    + destruct args as [|a [|b args]]; simpl in Har; try lia. inversion F2; subst. assumption.
    + destruct args as [|a [|b args]]; simpl in Har; try lia. inversion F2; subst. simpl map. apply den_not. assumption.
    + apply den_and, F2.
    + apply den_not, den_and, F2.
    + apply den_or, F2.
    + apply den_not, den_or, F2.
    + apply den_xor, F2.
    + apply den_not, den_xor, F2.
Qed.

(* ---- the leaves of the generated expression are boolean kinds ---- *)
Lemma leaves_fold_and (P : kind -> Prop) es : forall a, leaves P a -> Forall (leaves P) es ->
  leaves P (fold_left (fun Q0 v => EBin true OpMul Q0 v) es a).
Proof. induction es as [|e es IH]; simpl; intros a Ha H; [exact Ha|]. inversion H; subst. apply IH; [simpl; auto| assumption]. Qed.
Lemma leaves_fold_or (P : kind -> Prop) es : forall a, leaves P a -> Forall (leaves P) es ->
  leaves P (fold_left (fun x0 v => EBin false OpAdd x0 (EBin false OpMul v (EBin false OpSub (EScalar 1) x0))) es a).
Proof. induction es as [|e es IH]; simpl; intros a Ha H; [exact Ha|]. inversion H; subst. apply IH; [simpl; auto| assumption]. Qed.
Lemma leaves_fold_xor (P : kind -> Prop) es : forall a, leaves P a -> Forall (leaves P) es ->
  leaves P (fold_left (fun x0 v => EPow false (EBin false OpSub x0 v) 2) es a).
Proof. induction es as [|e es IH]; simpl; intros a Ha H; [exact Ha|]. inversion H; subst. apply IH; [simpl; auto| assumption]. Qed.

Lemma leaves_gate (P : kind -> Prop) g es : P KPubo -> Forall (leaves P) es -> leaves P (gate_expr g es).
Proof.
  intros HP H. assert (Hand : leaves P (e_and es)).
  { unfold e_and. destruct es; [simpl; auto|]. apply leaves_fold_and; [exact I| exact H]. }
  assert (Hor : leaves P (e_or es)).
  { unfold e_or. destruct es; [simpl; auto|]. inversion H; subst. apply leaves_fold_or; assumption. }
  assert (Hxor : leaves P (e_xor es)).
  { unfold e_xor. destruct es; [simpl; auto|]. inversion H; subst. apply leaves_fold_xor; assumption. }
  destruct g; simpl; auto; destruct es as [|a [|b es]]; simpl; auto; inversion H; subst; simpl; auto.
Qed.

Lemma sat_leaves x e : boolean_env x -> sx_ok x e -> leaves (fun k => good_env k x) (sat_expr e).
Proof.
  intros Hx. induction e as [l|t|k t|g args IH] using sx_ind'; intros Hok; simpl; try exact Hx.
  - destruct Hok as (_ & Hs & Hk). unfold good_env. destruct k; simpl in *; try discriminate; try congruence; exact Hx.
  - pose proof (sx_ok_args _ _ _ Hok) as Hargs. apply leaves_gate; [exact Hx|].
    clear Hok. induction args as [|a args IHa]; simpl; [constructor|].
    inversion IH; inversion Hargs; subst. constructor; [auto| apply IHa; assumption].
Qed.

(* the model built by the sat functions evaluates, at every 0/1 assignment at which the operand
   models are boolean valued, to the truth value of the expression; and it is stored canonically *)
Theorem sat_truth x e v : boolean_env x -> sx_ok x e -> build e = Ok v ->
  operand_eval x v == b2q (truth x e) /\ operand_ok x v.
Proof.
  intros Hx Hok H. destruct (interp_sound x _ _ (sat_leaves x e Hx Hok) H) as [A B].
  split; [rewrite A; apply sat_denote, Hok| exact B].
Qed.
