From QV.Model Require Import Base Matrix Arith Expr.
From QV.Proofs Require Import BaseProofs KeyProofs ArithProofs.
From Coq Require Import Lia Lqa Qfield.
Open Scope Q_scope.

Definition operand_ok (env0 : env) (v : operand) : Prop :=
  match v with OModel m => good_env (kd m) env0 /\ wf (kd m) (tm m) | _ => True end.

Lemma bop_den_ext o x x' y y' : x == x' -> y == y' -> bop_den o x y == bop_den o x' y'.
Proof. intros Hx Hy. destruct o; simpl; rewrite Hx, Hy; reflexivity. Qed.

Lemma apply_bop_eval env0 ip o m v r : apply_bop ip o m v = Ok r -> good_env (kd m) env0 -> wf (kd m) (tm m) ->
  eval env0 (tm r) == bop_den o (eval env0 (tm m)) (operand_eval env0 v) /\ kd r = kd m /\ wf (kd r) (tm r).
Proof.
  intros H He Hwf. destruct o, ip; simpl in H.
  - destruct (m_iadd_eval _ _ _ _ H He). split; [assumption|]. split; [assumption| eapply m_iadd_wf; eassumption].
  - destruct (m_add_eval _ _ _ _ H He). split; [assumption|]. split; [assumption|].
    unfold m_add in H. inv_bind H. eapply m_iadd_wf; [eapply m_copy_wf, E| exact H].
  - destruct (m_isub_eval _ _ _ _ H He). split; [assumption|]. split; [assumption| eapply m_isub_wf; eassumption].
  - destruct (m_sub_eval _ _ _ _ H He). split; [assumption|]. split; [assumption|].
    unfold m_sub in H. inv_bind H. eapply m_isub_wf; [eapply m_copy_wf, E| exact H].
  - destruct (m_imul_eval _ _ _ _ Hwf H He). split; [assumption|]. split; [assumption| eapply m_imul_wf; eassumption].
  - destruct (m_mul_eval _ _ _ _ H He). split; [assumption|]. split; [assumption|].
    unfold m_mul in H. inv_bind H. eapply m_imul_wf; [eapply m_copy_wf, E| exact H].
Qed.

Lemma m_neg_wf m r : m_neg m = Ok r -> wf (kd r) (tm r).
Proof. unfold m_neg, m_mul. intros H. inv_bind H. eapply m_imul_wf; [eapply m_copy_wf, E| exact H]. Qed.

Lemma apply_rbop_eval env0 o m v r : apply_rbop o m v = Ok r -> good_env (kd m) env0 ->
  eval env0 (tm r) == bop_den o (operand_eval env0 v) (eval env0 (tm m)) /\ kd r = kd m /\ wf (kd r) (tm r).
Proof.
  intros H He. destruct o; simpl in H.
  - destruct (m_add_eval _ _ _ _ H He) as [A B]. split; [rewrite A; simpl; ring|]. split; [assumption|].
    unfold m_add in H. inv_bind H. eapply m_iadd_wf; [eapply m_copy_wf, E| exact H].
  - destruct (m_rsub_eval _ _ _ _ H He) as [A B]. split; [rewrite A; simpl; ring|]. split; [assumption|].
    unfold m_rsub in H. inv_bind H. unfold m_add in H. inv_bind H. eapply m_iadd_wf; [eapply m_copy_wf, E0| exact H].
  - destruct (m_mul_eval _ _ _ _ H He) as [A B]. split; [rewrite A; simpl; ring|]. split; [assumption|].
    unfold m_mul in H. inv_bind H. eapply m_imul_wf; [eapply m_copy_wf, E| exact H].
Qed.

Lemma m_pow_loop_wf old n : forall m m', wf (kd m) (tm m) -> m_pow_loop m old n = Ok m' -> wf (kd m') (tm m').
Proof.
  induction n as [|n IH]; cbn [m_pow_loop]; intros m m' Hwf H; [injection H as <-; exact Hwf|].
  destruct (m_imul m (OModel old)) as [a|] eqn:E; cbn [bind] in H; [|discriminate].
  eapply IH; [|exact H]. eapply m_imul_wf; eassumption.
Qed.
Lemma m_ipow_wf m n r : wf (kd m) (tm m) -> m_ipow m n = Ok r -> wf (kd r) (tm r).
Proof.
  unfold m_ipow. intros Hwf H. destruct (n <=? 0)%Z; [discriminate|]. destruct (n =? 1)%Z; [injection H as <-; exact Hwf|].
  inv_bind H. eapply m_pow_loop_wf; eassumption.
Qed.

(* the interpreter agrees with polynomial arithmetic, returns the kind of a
   model leaf, and always produces a canonically stored model *)
Theorem interp_sound env0 e : forall v,
  leaves (fun k => good_env k env0) e -> interp e = Ok v ->
  operand_eval env0 v == denote env0 e /\ operand_ok env0 v.
Proof.
  induction e as [k t|t|c|ip o a IHa b IHb|ip o a IHa|a IHa|ip a IHa n|ip a IHa c]; cbn [interp leaves denote]; intros v Hl H.
  - inv_bind H. injection H as <-. destruct (m_create_eval env0 _ _ _ E Hl) as [A B]. simpl.
    split; [exact A|]. rewrite B. split; [exact Hl|]. rewrite <- B. eapply m_create_wf, E.
  - injection H as <-. simpl. split; [reflexivity|exact I].
  - injection H as <-. simpl. split; [reflexivity|exact I].
  - destruct Hl as [Hla Hlb]. inv_bind H. inv_bind H.
    destruct (IHa _ Hla eq_refl) as [Da Oa]. destruct (IHb _ Hlb eq_refl) as [Db Ob].
    destruct a0 as [m|t|c].
    + inv_bind H. injection H as <-. destruct Oa as [He Hwf].
      destruct (apply_bop_eval env0 _ _ _ _ _ E1 He Hwf) as (A & B & C). simpl in *.
      split; [rewrite A; apply bop_den_ext; assumption|]. split; [rewrite B; exact He| exact C].
    + destruct a1 as [m| |]; try discriminate. inv_bind H. injection H as <-. destruct Ob as [He Hwf].
      destruct (apply_rbop_eval env0 _ _ _ _ E1 He) as (A & B & C). simpl in *.
      split; [rewrite A; apply bop_den_ext; assumption|]. split; [rewrite B; exact He| exact C].
    + destruct a1 as [m| |]; try discriminate. inv_bind H. injection H as <-. destruct Ob as [He Hwf].
      destruct (apply_rbop_eval env0 _ _ _ _ E1 He) as (A & B & C). simpl in *.
      split; [rewrite A; apply bop_den_ext; assumption|]. split; [rewrite B; exact He| exact C].
  - inv_bind H. destruct (IHa _ Hl eq_refl) as [Da Oa]. destruct a0 as [m| |]; try discriminate.
    inv_bind H. injection H as <-. destruct Oa as [He Hwf].
    destruct (apply_bop_eval env0 _ _ _ _ _ E0 He Hwf) as (A & B & C). simpl in *.
    split; [rewrite A; apply bop_den_ext; assumption|]. split; [rewrite B; exact He| exact C].
  - inv_bind H. destruct (IHa _ Hl eq_refl) as [Da Oa]. destruct a0 as [m| |]; try discriminate.
    inv_bind H. injection H as <-. destruct Oa as [He Hwf].
    destruct (m_neg_eval env0 _ _ E0 He) as [A B]. simpl in *.
    split; [rewrite A, Da; reflexivity|]. rewrite B. split; [exact He|]. rewrite <- B. eapply m_neg_wf, E0.
  - inv_bind H. destruct (IHa _ Hl eq_refl) as [Da Oa]. destruct a0 as [m| |]; try discriminate.
    inv_bind H. injection H as <-. destruct Oa as [He Hwf]. simpl in *. destruct ip.
    + destruct (m_ipow_eval env0 _ _ _ Hwf E0 He) as (_ & A & B).
      split; [rewrite A; apply qpow_ext, Da|]. rewrite B. split; [exact He|]. rewrite <- B. eapply m_ipow_wf; eassumption.
    + destruct (m_pow_eval env0 _ _ _ E0 He) as (_ & A & B).
      split; [rewrite A; apply qpow_ext, Da|]. rewrite B. split; [exact He|]. rewrite <- B.
      unfold m_pow in E0. inv_bind E0. eapply m_ipow_wf; [eapply m_copy_wf, E1| exact E0].
  - inv_bind H. destruct (IHa _ Hl eq_refl) as [Da Oa]. destruct a0 as [m| |]; try discriminate.
    destruct (qzero c) eqn:Hc; [discriminate|]. inv_bind H. injection H as <-. destruct Oa as [He Hwf]. simpl in *.
    destruct ip.
    + destruct (m_itruediv_eval env0 _ _ _ Hwf E0) as [A B].
      split; [rewrite A, Da; reflexivity|]. rewrite B. split; [exact He|]. rewrite <- B.
      unfold m_itruediv, m_scale in E0. eapply m_scale_keys_wf; eassumption.
    + destruct (m_truediv_eval env0 _ _ _ E0 He) as [A B].
      split; [rewrite A, Da; reflexivity|]. rewrite B. split; [exact He|]. rewrite <- B.
      unfold m_truediv in E0. inv_bind E0. unfold m_itruediv, m_scale in E0.
      eapply m_scale_keys_wf; [eapply m_copy_wf, E1| exact E0].
Qed.

(* a KeyError can only come from a degree-2 kind whose squashed key got longer than two labels *)
Lemma squash_err kd0 k e0 : squash kd0 k = Err e0 -> e0 = KeyError /\ is_quadratic kd0 = true.
Proof.
  unfold squash. destruct kd0; simpl; try discriminate;
    destruct (2 <? _)%nat; try discriminate; intros [= <-]; auto.
Qed.

(* the kind of the result is the kind of one of the model leaves *)
Lemma good_env_exists k : exists e, good_env k e.
Proof.
  destruct (is_spin k) eqn:Es.
  - exists (fun _ => 1). unfold good_env. destruct k; simpl in *; try discriminate; intros i; left; reflexivity.
  - exists (fun _ => 0). unfold good_env. destruct k; simpl in *; try discriminate; try exact I; intros i; left; reflexivity.
Qed.

Lemma m_scale_keys_kind f ks : forall m m', m_scale_keys m ks f = Ok m' -> kd m' = kd m.
Proof.
  induction ks as [|k ks IH]; simpl; intros m m' H; [injection H as <-; reflexivity|].
  inv_bind H. inv_bind H. rewrite (IH _ _ H). apply m_setitem_spec in E0. destruct E0 as (_ & _ & _ & K & _). exact K.
Qed.

Lemma apply_bop_kind ip o m v r : apply_bop ip o m v = Ok r -> kd r = kd m.
Proof.
  intros H. destruct (good_env_exists (kd m)) as [e He]. destruct o, ip; simpl in H.
  - apply (m_iadd_eval e _ _ _ H He).
  - apply (m_add_eval e _ _ _ H He).
  - apply (m_isub_eval e _ _ _ H He).
  - apply (m_sub_eval e _ _ _ H He).
  - unfold m_imul in H. destruct v as [b|t|c].
    + destruct (clear_for_imul_spec m) as [_ Hk]. rewrite <- Hk in He.
      destruct (m_mul_rows_eval e _ _ _ _ H He) as [_ B]. congruence.
    + destruct (clear_for_imul_spec m) as [_ Hk]. rewrite <- Hk in He.
      destruct (m_mul_rows_eval e _ _ _ _ H He) as [_ B]. congruence.
    + unfold m_scale in H. eapply m_scale_keys_kind, H.
  - apply (m_mul_eval e _ _ _ H He).
Qed.

Lemma m_create_kind k t m : m_create k t = Ok m -> kd m = k.
Proof. intros H. destruct (good_env_exists k) as [e He]. apply (m_create_eval e _ _ _ H He). Qed.

Lemma apply_rbop_kind o m v r : apply_rbop o m v = Ok r -> kd r = kd m.
Proof.
  intros H. destruct (good_env_exists (kd m)) as [e He]. destruct o; simpl in H.
  - apply (m_add_eval e _ _ _ H He).
  - apply (m_rsub_eval e _ _ _ H He).
  - apply (m_mul_eval e _ _ _ H He).
Qed.

Lemma m_copy_kind m c : m_copy m = Ok c -> kd c = kd m.
Proof. intros H. destruct (good_env_exists (kd m)) as [e He]. apply (m_copy_eval e _ _ H He). Qed.
Lemma m_imul_kind m o r : m_imul m o = Ok r -> kd r = kd m.
Proof. intros H. apply (apply_bop_kind true OpMul m o r H). Qed.
Lemma m_pow_loop_kind old n : forall m m', m_pow_loop m old n = Ok m' -> kd m' = kd m.
Proof.
  induction n as [|n IH]; cbn [m_pow_loop]; intros m m' H; [injection H as <-; reflexivity|].
  destruct (m_imul m (OModel old)) as [a|] eqn:E; cbn [bind] in H; [|discriminate].
  rewrite (IH _ _ H). apply (m_imul_kind _ _ _ E).
Qed.
Lemma m_ipow_kind m n r : m_ipow m n = Ok r -> kd r = kd m.
Proof.
  unfold m_ipow. intros H. destruct (n <=? 0)%Z; [discriminate|]. destruct (n =? 1)%Z; [injection H as <-; reflexivity|].
  inv_bind H. apply (m_pow_loop_kind _ _ _ _ H).
Qed.
Lemma m_pow_kind m n r : m_pow m n = Ok r -> kd r = kd m.
Proof. unfold m_pow. intros H. inv_bind H. rewrite (m_ipow_kind _ _ _ H). apply (m_copy_kind _ _ E). Qed.
Lemma m_itruediv_kind m c r : m_itruediv m c = Ok r -> kd r = kd m.
Proof. unfold m_itruediv, m_scale. apply m_scale_keys_kind. Qed.
Lemma m_truediv_kind m c r : m_truediv m c = Ok r -> kd r = kd m.
Proof. unfold m_truediv. intros H. inv_bind H. rewrite (m_itruediv_kind _ _ _ H). apply (m_copy_kind _ _ E). Qed.

Theorem interp_kind (P : kind -> Prop) e : forall m, leaves P e -> interp e = Ok (OModel m) -> P (kd m).
Proof.
  induction e as [k t|t|c|ip o a IHa b IHb|ip o a IHa|a IHa|ip a IHa n|ip a IHa c]; cbn [interp leaves]; intros m Hl H.
  - inv_bind H. injection H as <-. rewrite (m_create_kind _ _ _ E). exact Hl.
  - discriminate.
  - discriminate.
  - destruct Hl as [Hla Hlb]. inv_bind H. inv_bind H. destruct a0 as [ma|ta|ca].
    + inv_bind H. injection H as <-. rewrite (apply_bop_kind _ _ _ _ _ E1). apply (IHa _ Hla eq_refl).
    + destruct a1 as [mb| |]; try discriminate. inv_bind H. injection H as <-.
      rewrite (apply_rbop_kind _ _ _ _ E1). apply (IHb _ Hlb eq_refl).
    + destruct a1 as [mb| |]; try discriminate. inv_bind H. injection H as <-.
      rewrite (apply_rbop_kind _ _ _ _ E1). apply (IHb _ Hlb eq_refl).
  - inv_bind H. destruct a0 as [ma| |]; try discriminate. inv_bind H. injection H as <-.
    rewrite (apply_bop_kind _ _ _ _ _ E0). apply (IHa _ Hl eq_refl).
  - inv_bind H. destruct a0 as [ma| |]; try discriminate. inv_bind H. injection H as <-.
    unfold m_neg in E0. rewrite (apply_bop_kind false OpMul _ _ _ E0). apply (IHa _ Hl eq_refl).
  - inv_bind H. destruct a0 as [ma| |]; try discriminate. inv_bind H. injection H as <-.
    pose proof (IHa _ Hl eq_refl) as Pa. destruct ip; [rewrite (m_ipow_kind _ _ _ E0)| rewrite (m_pow_kind _ _ _ E0)]; exact Pa.
  - inv_bind H. destruct a0 as [ma| |]; try discriminate. destruct (qzero c); [discriminate|].
    inv_bind H. injection H as <-.
    pose proof (IHa _ Hl eq_refl) as Pa. destruct ip; [rewrite (m_itruediv_kind _ _ _ E0)| rewrite (m_truediv_kind _ _ _ E0)]; exact Pa.
Qed.
