(* C10: SetCover (Lucas 5.1, unary or logarithmic counters): what the produced QUBO computes, and that with A > B > 0 and
   weights <= 1 every ground state chooses a cover of least weight and has energy B * weight. *)
From QV.Model Require Import Base Matrix Arith Expr Extrema Sat PCBO Problems.
From QV.Proofs Require Import BaseProofs KeyProofs ArithProofs ExprProofs InvProofs ConvertProofs.
From QV.Proofs Require PenaltyArith.
From Coq Require Import Lia Lqa.
Open Scope Q_scope.

(* ---- sums over lists of indices ---- *)
Fixpoint lsum (h : nat -> Q) (l : list nat) : Q := match l with [] => 0 | a :: r => h a + lsum h r end.
Lemma lsum_ext h h' l : (forall a, In a l -> h a == h' a) -> lsum h l == lsum h' l.
Proof. induction l as [|a l IH]; simpl; intros H; [reflexivity|]. rewrite (H a (or_introl eq_refl)), IH; [reflexivity| intros b Hb; apply H; right; exact Hb]. Qed.
Lemma lsum_add h g l : lsum (fun a => h a + g a) l == lsum h l + lsum g l.
Proof. induction l as [|a l IH]; simpl; [ring|]. rewrite IH. ring. Qed.
Lemma lsum_scale c h l : lsum (fun a => c * h a) l == c * lsum h l.
Proof. induction l as [|a l IH]; simpl; [ring|]. rewrite IH. ring. Qed.
Lemma lsum_nonneg h l : (forall a, In a l -> 0 <= h a) -> 0 <= lsum h l.
Proof.
  induction l as [|a l IH]; simpl; intros H; [lra|]. pose proof (H a (or_introl eq_refl)).
  assert (0 <= lsum h l) by (apply IH; intros b Hb; apply H; right; exact Hb). lra.
Qed.
Lemma lsum_le h g l : (forall a, In a l -> h a <= g a) -> lsum h l <= lsum g l.
Proof.
  induction l as [|a l IH]; simpl; intros H; [lra|]. pose proof (H a (or_introl eq_refl)).
  assert (lsum h l <= lsum g l) by (apply IH; intros b Hb; apply H; right; exact Hb). lra.
Qed.
Lemma lsum_flat_map x (f : nat -> terms) l : eval x (flat_map f l) == lsum (fun a => eval x (f a)) l.
Proof. induction l as [|a l IH]; simpl; [reflexivity|]. rewrite eval_app, IH. reflexivity. Qed.

(* ---- the triangular double loops of the source: for a in l: ... for b in (the part of l after a): ... ---- *)
Fixpoint tri (f : nat -> list nat -> terms) (l : list nat) : terms := match l with [] => [] | a :: r => f a r ++ tri f r end.

Lemma flat_map_ext_in' {A B} (f g : A -> list B) l : (forall a, In a l -> f a = g a) -> flat_map f l = flat_map g l.
Proof. induction l as [|a l IH]; simpl; intros H; [reflexivity|]. rewrite (H a (or_introl eq_refl)), IH; [reflexivity| intros b Hb; apply H; right; exact Hb]. Qed.

Lemma tri_seq g : forall len lo, flat_map (fun m => g m (seq (S m) (lo + len - S m))) (seq lo len) = tri g (seq lo len).
Proof.
  induction len as [|len IH]; intros lo; [reflexivity|]. cbn [seq flat_map tri].
  replace (lo + S len - S lo)%nat with len by lia. f_equal. rewrite <- (IH (S lo)). apply flat_map_ext_in'.
  intros m _. replace (lo + S len - S m)%nat with (S lo + len - S m)%nat by lia. reflexivity.
Qed.

Lemma tri_filter (p : nat -> bool) g : forall len lo,
  flat_map (fun i => g i (filter p (seq (S i) (lo + len - S i)))) (filter p (seq lo len)) = tri g (filter p (seq lo len)).
Proof.
  induction len as [|len IH]; intros lo; [reflexivity|]. cbn [seq filter].
  assert (R : flat_map (fun i => g i (filter p (seq (S i) (lo + S len - S i)))) (filter p (seq (S lo) len)) = tri g (filter p (seq (S lo) len))).
  { rewrite <- (IH (S lo)). apply flat_map_ext_in'. intros m _. replace (lo + S len - S m)%nat with (S lo + len - S m)%nat by lia. reflexivity. }
  destruct (p lo); [|exact R]. cbn [flat_map tri]. replace (lo + S len - S lo)%nat with len by lia. f_equal. exact R.
Qed.

(* the value of one such loop nest: diagonal entries d, cross entries 2 w_a w_b, further entries ext *)
Lemma bool_sq x i : boolean_env x -> x i * x i == x i.
Proof. intros H. destruct (H i) as [E|E]; rewrite E; ring. Qed.

Lemma eval_cross x (lab : nat -> label) (w : nat -> Q) (cr : nat -> Q) a0 (c0 : Q) r :
  (forall b, cr b == c0 * w b) ->
  eval x (map (fun b => ([a0; lab b], cr b)) r) == c0 * x a0 * lsum (fun b => w b * x (lab b)) r.
Proof. intros H. induction r as [|b r IH]; simpl; [ring|]. rewrite IH, H. ring. Qed.

Lemma eval_cross2 x a0 (c0 : Q) r : eval x (map (fun j : nat => ([j; a0], c0)) r) == c0 * x a0 * lsum (fun j => x j) r.
Proof. induction r as [|b r IH]; simpl; [ring|]. rewrite IH. ring. Qed.

Lemma eval_tri_sq x (lab : nat -> label) (A' : Q) (w : nat -> Q) (dk : nat -> key) (d : nat -> Q) (cr : nat -> nat -> Q) (ext : nat -> terms) l :
  boolean_env x -> (forall a, mon x (dk a) == x (lab a)) -> (forall a b, cr a b == 2 * A' * w a * w b) ->
  eval x (tri (fun a r => (dk a, d a) :: map (fun b => ([lab a; lab b], cr a b)) r ++ ext a) l)
  == lsum (fun a => (d a - A' * w a * w a) * x (lab a)) l
     + A' * (lsum (fun a => w a * x (lab a)) l * lsum (fun a => w a * x (lab a)) l)
     + lsum (fun a => eval x (ext a)) l.
Proof.
  intros Hx Hdk Hcr. induction l as [|a l IH]; [simpl; ring|]. cbn [tri lsum]. rewrite eval_app. cbn [eval]. rewrite eval_app, IH, Hdk.
  rewrite (eval_cross x lab w (cr a) (lab a) (2 * A' * w a) l) by (intros b; apply Hcr).
  pose proof (bool_sq x (lab a) Hx) as Hs.
  set (La := lsum (fun a0 : nat => w a0 * x (lab a0)) l) in *.
  set (R1 := lsum (fun a0 : nat => (d a0 - A' * w a0 * w a0) * x (lab a0)) l).
  set (R3 := lsum (fun a0 : nat => eval x (ext a0)) l).
  transitivity (d a * x (lab a) - A' * w a * w a * (x (lab a) * x (lab a)) + A' * w a * w a * (x (lab a) * x (lab a))
                + 2 * A' * w a * x (lab a) * La + eval x (ext a) + (R1 + A' * (La * La) + R3)); [ring|].
  rewrite Hs at 1. ring.
Qed.

Lemma tri_ext f g l : (forall a r, f a r = g a r) -> tri f l = tri g l.
Proof. intros H. induction l as [|a l IH]; simpl; [reflexivity|]. rewrite H, IH. reflexivity. Qed.

Lemma eval_tri_sq0 x (lab : nat -> label) (A' : Q) (w : nat -> Q) (dk : nat -> key) (d : nat -> Q) (cr : nat -> nat -> Q) l :
  boolean_env x -> (forall a, mon x (dk a) == x (lab a)) -> (forall a b, cr a b == 2 * A' * w a * w b) ->
  eval x (tri (fun a r => (dk a, d a) :: map (fun b => ([lab a; lab b], cr a b)) r) l)
  == lsum (fun a => (d a - A' * w a * w a) * x (lab a)) l
     + A' * (lsum (fun a => w a * x (lab a)) l * lsum (fun a => w a * x (lab a)) l).
Proof.
  intros Hx Hdk Hcr.
  rewrite (tri_ext _ (fun a r => (dk a, d a) :: map (fun b => ([lab a; lab b], cr a b)) r ++ (fun _ => []) a) l)
    by (intros a r; rewrite app_nil_r; reflexivity).
  rewrite (eval_tri_sq x lab A' w dk d cr (fun _ => []) l Hx Hdk Hcr).
  assert (Z : lsum (fun _ : nat => eval x []) l == 0) by (induction l as [|a l IH]; simpl; [reflexivity| rewrite IH; ring]).
  rewrite Z. ring.
Qed.

Lemma pow2_plus a b : pow2 (a + b) == pow2 a * pow2 b.
Proof. induction a as [|a IH]; cbn [Nat.add pow2]; [ring|]. rewrite IH. ring. Qed.
Lemma pow2_double a : pow2 (2 * a) == pow2 a * pow2 a.
Proof. replace (2 * a)%nat with (a + a)%nat by lia. apply pow2_plus. Qed.
Lemma nQ_S n : nQ (S n) == nQ n + 1.
Proof. unfold nQ. rewrite Nat2Z.inj_succ. unfold Z.succ. rewrite inject_Z_plus. reflexivity. Qed.
Lemma lsum_const c l : lsum (fun _ => c) l == nQ (length l) * c.
Proof. induction l as [|a l IH]; [simpl; unfold nQ; simpl; ring|]. cbn [lsum length]. rewrite IH, nQ_S. ring. Qed.

(* ---- the entries SetCover.to_qubo adds for one element alpha ---- *)
Definition sc_p (V : list (list nat)) (alpha : nat) (k : nat) : bool := sc_in alpha (nth k V []).
Lemma sc_filtered_eq V alpha start : sc_filtered V alpha start = filter (sc_p V alpha) (seq start (length V - start)).
Proof. reflexivity. Qed.
Lemma sc_filtered_0 V alpha : sc_filtered V alpha 0 = filter (sc_p V alpha) (seq 0 (length V)).
Proof. rewrite sc_filtered_eq, Nat.sub_0_r. reflexivity. Qed.

Definition sc_items_alpha (n : nat) (V : list (list nat)) (log_trick : bool) (M : nat) (A : Q) (alpha : nat) : terms :=
  let N := length V in
  let x := sc_x N n log_trick in
  let lm := sc_logM M in
  let p2 (e : nat) : Q := pow2 e in
    (if log_trick then
       flat_map (fun m =>
         ([x alpha m; x alpha m], A * (p2 (2 * m)%nat + 2 * p2 m))
         :: map (fun mp => ([x alpha m; x alpha mp], 2 * A * p2 (m + mp)%nat)) (seq (S m) (lm - m)%nat)
         ++ map (fun j => ([j; x alpha m], - (2 * A * p2 m))) (sc_filtered V alpha 0)) (seq 0 (S lm))
     else
       flat_map (fun m =>
         ([x alpha m; x alpha m], - A)
         :: map (fun mp => ([x alpha m; x alpha mp], 2 * A)) (seq (S m) (M - m)%nat)) (seq 1 M)
       ++ flat_map (fun m =>
         ([x alpha m; x alpha m], A * nQ m * nQ m)
         :: map (fun mp => ([x alpha m; x alpha mp], 2 * A * nQ m * nQ mp)) (seq (S m) (M - m)%nat)
         ++ map (fun j => ([j; x alpha m], - (2 * A * nQ m))) (sc_filtered V alpha 0)) (seq 1 M))
    ++ flat_map (fun i =>
         ([i], if log_trick then - A else A)
         :: map (fun j => ([i; j], 2 * A)) (sc_filtered V alpha (S i))) (sc_filtered V alpha 0).

Lemma sc_to_qubo_unfold n V weights log_trick M A B :
  sc_to_qubo n V weights log_trick M A B =
  bind (m_iadd (empty_model KQuboM) (OScalar (nQ n * A))) (fun Q0 =>
  bind (add_items Q0 (map (fun '(i, w) => ([i], w * B)) (combine (seq 0 (length V)) weights))) (fun Q1 =>
  add_items Q1 (flat_map (sc_items_alpha n V log_trick M A) (seq 0 n)))).
Proof. reflexivity. Qed.

(* the counters: chosen sets containing alpha; the unary / binary ancilla sums *)
Definition cnt (x : env) (V : list (list nat)) alpha : Q := lsum (fun j => x j) (sc_filtered V alpha 0).
Definition sc_S (x : env) n (V : list (list nat)) M alpha : Q := lsum (fun m => x (sc_x (length V) n false alpha m)) (seq 1 M).
Definition sc_T (x : env) n (V : list (list nat)) M alpha : Q := lsum (fun m => nQ m * x (sc_x (length V) n false alpha m)) (seq 1 M).
Definition sc_Y (x : env) n (V : list (list nat)) M alpha : Q := lsum (fun m => pow2 m * x (sc_x (length V) n true alpha m)) (seq 0 (S (sc_logM M))).
Definition sc_pen (x : env) n (V : list (list nat)) (log_trick : bool) M alpha : Q :=
  if log_trick then (1 + sc_Y x n V M alpha - cnt x V alpha) * (1 + sc_Y x n V M alpha - cnt x V alpha)
  else (1 - sc_S x n V M alpha) * (1 - sc_S x n V M alpha) + (sc_T x n V M alpha - cnt x V alpha) * (sc_T x n V M alpha - cnt x V alpha).

Lemma sets_part x V alpha (d A : Q) : boolean_env x ->
  eval x (flat_map (fun i => ([i], d) :: map (fun j => ([i; j], 2 * A)) (sc_filtered V alpha (S i))) (sc_filtered V alpha 0))
  == (d - A) * cnt x V alpha + A * (cnt x V alpha * cnt x V alpha).
Proof.
  intros Hx. unfold cnt. rewrite sc_filtered_0.
  assert (T : flat_map (fun i => ([i], d) :: map (fun j => ([i; j], 2 * A)) (sc_filtered V alpha (S i))) (filter (sc_p V alpha) (seq 0 (length V)))
              = tri (fun i r => ([i], d) :: map (fun j => ([i; j], 2 * A)) r) (filter (sc_p V alpha) (seq 0 (length V))))
    by exact (tri_filter (sc_p V alpha) (fun i r => ([i], d) :: map (fun j => ([i; j], 2 * A)) r) (length V) 0).
  rewrite T.
  rewrite (eval_tri_sq0 x (fun i => i) A (fun _ => 1) (fun i => [i]) (fun _ => d) (fun _ _ => 2 * A) _ Hx)
    by (intros; simpl; ring).
  set (F := filter (sc_p V alpha) (seq 0 (length V))).
  rewrite (lsum_ext (fun a => (d - A * 1 * 1) * x a) (fun a => (d - A) * x a) F) by (intros; ring).
  rewrite lsum_scale. rewrite (lsum_ext (fun a => 1 * x a) (fun a => x a) F) by (intros; ring). reflexivity.
Qed.

Lemma mon_sq x l : boolean_env x -> mon x [l; l] == x l.
Proof. intros Hx. simpl. rewrite Qmult_1_r. apply bool_sq, Hx. Qed.

Lemma sc_alpha_value x n V (log_trick : bool) M A alpha : boolean_env x ->
  eval x (sc_items_alpha n V log_trick M A alpha) == A * sc_pen x n V log_trick M alpha - A.
Proof.
  intros Hx. unfold sc_items_alpha, sc_pen. cbv zeta. rewrite eval_app. destruct log_trick.
  - (* binary counters *)
    rewrite (sets_part x V alpha (- A) A Hx).
    set (lab := sc_x (length V) n true alpha). set (lm := sc_logM M). set (F := sc_filtered V alpha 0).
    set (g := fun (m : nat) (r : list nat) =>
                ([lab m; lab m], A * (pow2 (2 * m) + 2 * pow2 m))
                :: map (fun mp => ([lab m; lab mp], 2 * A * pow2 (m + mp))) r
                ++ map (fun j : nat => ([j; lab m], - (2 * A * pow2 m))) F).
    assert (T : flat_map (fun m => g m (seq (S m) (lm - m))) (seq 0 (S lm)) = tri g (seq 0 (S lm))) by exact (tri_seq g (S lm) 0).
    unfold g in T. rewrite T. clear T g.
    pose proof (eval_tri_sq x lab A pow2 (fun m => [lab m; lab m]) (fun m => A * (pow2 (2 * m) + 2 * pow2 m))
               (fun m mp => 2 * A * pow2 (m + mp)) (fun m => map (fun j : nat => ([j; lab m], - (2 * A * pow2 m))) F) (seq 0 (S lm)) Hx
               (fun a => mon_sq x (lab a) Hx) ltac:(intros a b; cbv beta; rewrite pow2_plus; ring)) as E1.
    etransitivity; [apply Qplus_comp; [exact E1| reflexivity]|]. clear E1.
    unfold sc_Y. fold lab lm. set (Y := lsum (fun m => pow2 m * x (lab m)) (seq 0 (S lm))).
    unfold cnt. fold F. set (c := lsum (fun j => x j) F).
    rewrite (lsum_ext (fun a => (A * (pow2 (2 * a) + 2 * pow2 a) - A * pow2 a * pow2 a) * x (lab a)) (fun a => (2 * A) * (pow2 a * x (lab a))) (seq 0 (S lm)))
      by (intros a _; rewrite pow2_double; ring).
    rewrite lsum_scale. fold Y.
    rewrite (lsum_ext (fun a => eval x (map (fun j : nat => ([j; lab a], - (2 * A * pow2 a))) F)) (fun a => (- (2 * A * c)) * (pow2 a * x (lab a))) (seq 0 (S lm)))
      by (intros a _; rewrite eval_cross2; fold c; ring).
    rewrite lsum_scale. fold Y. ring.
  - (* unary counters *)
    rewrite (sets_part x V alpha A A Hx). rewrite eval_app.
    set (lab := sc_x (length V) n false alpha). set (F := sc_filtered V alpha 0).
    set (g1 := fun (m : nat) (r : list nat) => ([lab m; lab m], - A) :: map (fun mp => ([lab m; lab mp], 2 * A)) r).
    set (g2 := fun (m : nat) (r : list nat) =>
                ([lab m; lab m], A * nQ m * nQ m)
                :: map (fun mp => ([lab m; lab mp], 2 * A * nQ m * nQ mp)) r
                ++ map (fun j : nat => ([j; lab m], - (2 * A * nQ m))) F).
    assert (T1 : flat_map (fun m => g1 m (seq (S m) (M - m))) (seq 1 M) = tri g1 (seq 1 M)) by exact (tri_seq g1 M 1).
    assert (T2 : flat_map (fun m => g2 m (seq (S m) (M - m))) (seq 1 M) = tri g2 (seq 1 M)) by exact (tri_seq g2 M 1).
    unfold g1 in T1. unfold g2 in T2. rewrite T1, T2. clear T1 T2 g1 g2.
    pose proof (eval_tri_sq0 x lab A (fun _ => 1) (fun m => [lab m; lab m]) (fun _ => - A) (fun _ _ => 2 * A) (seq 1 M) Hx
               (fun a => mon_sq x (lab a) Hx) ltac:(intros a b; cbv beta; ring)) as E1.
    pose proof (eval_tri_sq x lab A nQ (fun m => [lab m; lab m]) (fun m => A * nQ m * nQ m)
               (fun m mp => 2 * A * nQ m * nQ mp) (fun m => map (fun j : nat => ([j; lab m], - (2 * A * nQ m))) F) (seq 1 M) Hx
               (fun a => mon_sq x (lab a) Hx) ltac:(intros a b; cbv beta; ring)) as E2.
    etransitivity; [apply Qplus_comp; [apply Qplus_comp; [exact E1| exact E2]| reflexivity]|]. clear E1 E2.
    unfold sc_S, sc_T. fold lab. set (S0 := lsum (fun m => x (lab m)) (seq 1 M)). set (T0 := lsum (fun m => nQ m * x (lab m)) (seq 1 M)).
    unfold cnt. fold F. set (c := lsum (fun j => x j) F).
    rewrite (lsum_ext (fun a => (- A - A * 1 * 1) * x (lab a)) (fun a => (- (2 * A)) * x (lab a)) (seq 1 M)) by (intros; ring).
    rewrite lsum_scale. fold S0.
    rewrite (lsum_ext (fun a => 1 * x (lab a)) (fun a => x (lab a)) (seq 1 M)) by (intros; ring). fold S0.
    rewrite (lsum_ext (fun a => (A * nQ a * nQ a - A * nQ a * nQ a) * x (lab a)) (fun a => 0 * x (lab a)) (seq 1 M)) by (intros; ring).
    rewrite lsum_scale.
    rewrite (lsum_ext (fun a => eval x (map (fun j : nat => ([j; lab a], - (2 * A * nQ a))) F)) (fun a => (- (2 * A * c)) * (nQ a * x (lab a))) (seq 1 M))
      by (intros a _; rewrite eval_cross2; fold c; ring).
    rewrite lsum_scale. fold T0. ring.
Qed.

(* ---- the whole QUBO ---- *)
Definition sc_cost (V : list (list nat)) (weights : list Q) (x : env) : Q :=
  eval x (map (fun '(i, w) => ([i], w)) (combine (seq 0 (length V)) weights)).

Lemma eval_scaled_r x (B : Q) (l : list (nat * Q)) :
  eval x (map (fun '(i, w) => ([i], w * B)) l) == B * eval x (map (fun '(i, w) => ([i], w)) l).
Proof. induction l as [|[i w] l IH]; simpl; [ring|]. rewrite IH. ring. Qed.

Theorem sc_value n V weights log_trick M A B Qf : sc_to_qubo n V weights log_trick M A B = Ok Qf ->
  forall x, boolean_env x -> eval x (tm Qf) == B * sc_cost V weights x + A * lsum (sc_pen x n V log_trick M) (seq 0 n).
Proof.
  rewrite sc_to_qubo_unfold. unfold add_items. intros H x Hx.
  destruct (m_iadd (empty_model KQuboM) (OScalar (nQ n * A))) as [Q0|e] eqn:E0; cbn [bind] in H; [|discriminate].
  destruct (m_addall Q0 _) as [Q1|e] eqn:E1; cbn [bind] in H; [|discriminate].
  assert (B0 : boolean_env (fun _ => 0)) by (intros i; left; reflexivity).
  assert (K0 : kd Q0 = KQuboM) by (destruct (m_iadd_eval _ _ _ _ E0 B0) as [_ K]; exact K).
  assert (K1 : kd Q1 = KQuboM) by (destruct (m_addall_eval (fun _ => 0) _ _ _ E1) as [_ K]; [rewrite K0; exact B0| congruence]).
  destruct (m_addall_eval x _ _ _ H) as [A2 _]; [rewrite K1; exact Hx|].
  destruct (m_addall_eval x _ _ _ E1) as [A1 _]; [rewrite K0; exact Hx|].
  destruct (m_iadd_eval x _ _ _ E0) as [A0 _]; [exact Hx|].
  rewrite A2, A1, A0. cbn [operand_eval tm empty_model eval]. rewrite eval_scaled_r. fold (sc_cost V weights x).
  rewrite lsum_flat_map.
  rewrite (lsum_ext (fun a => eval x (sc_items_alpha n V log_trick M A a)) (fun a => A * sc_pen x n V log_trick M a + (- A)) (seq 0 n))
    by (intros a _; rewrite (sc_alpha_value x n V log_trick M A a Hx); ring).
  rewrite lsum_add, lsum_scale, lsum_const, seq_length. ring.
Qed.

(* ================= ground states ================= *)
Lemma sq_nonneg (a : Q) : 0 <= a * a.
Proof. nra. Qed.

Lemma bool_lsum_cases x (lab : nat -> label) l : boolean_env x ->
  lsum (fun a => x (lab a)) l == 0 \/ 1 <= lsum (fun a => x (lab a)) l.
Proof.
  intros Hx. induction l as [|a l IH]; simpl; [left; reflexivity|].
  destruct (Hx (lab a)) as [E|E]; rewrite E; destruct IH as [I|I]; [left; rewrite I; ring| right; lra| right; rewrite I; lra| right; lra].
Qed.
Lemma bool_lsum_nonneg x (lab : nat -> label) (w : nat -> Q) l : boolean_env x -> (forall a, In a l -> 0 <= w a) ->
  0 <= lsum (fun a => w a * x (lab a)) l.
Proof.
  intros Hx Hw. apply lsum_nonneg. intros a Ha. pose proof (Hw a Ha). destruct (Hx (lab a)) as [E|E]; rewrite E; lra.
Qed.

Lemma pen_nonneg x n V (log_trick : bool) M alpha : 0 <= sc_pen x n V log_trick M alpha.
Proof.
  unfold sc_pen. destruct log_trick; [apply sq_nonneg|].
  pose proof (sq_nonneg (1 - sc_S x n V M alpha)). pose proof (sq_nonneg (sc_T x n V M alpha - cnt x V alpha)). lra.
Qed.

Lemma nQ_ge1 m : (1 <= m)%nat -> 1 <= nQ m.
Proof. intros H. unfold nQ. change 1 with (inject_Z 1). rewrite <- Zle_Qle. lia. Qed.
Lemma nQ_nonneg m : 0 <= nQ m.
Proof. unfold nQ. change 0 with (inject_Z 0). rewrite <- Zle_Qle. lia. Qed.

(* an element no chosen set contains costs at least one unit of penalty, whatever the ancillas say *)
Lemma pen_uncovered x n V (log_trick : bool) M alpha : boolean_env x -> cnt x V alpha == 0 ->
  1 <= sc_pen x n V log_trick M alpha.
Proof.
  intros Hx Hc. unfold sc_pen. destruct log_trick; rewrite Hc.
  - assert (HY : 0 <= sc_Y x n V M alpha).
    { unfold sc_Y. apply (bool_lsum_nonneg x (sc_x (length V) n true alpha) pow2); [exact Hx|]. intros a _. pose proof (PenaltyArith.pow2_pos a). lra. }
    nra.
  - assert (HT : sc_S x n V M alpha <= sc_T x n V M alpha).
    { unfold sc_S, sc_T. apply lsum_le. intros a Ha. apply in_seq in Ha. pose proof (nQ_ge1 a ltac:(lia)).
      destruct (Hx (sc_x (length V) n false alpha a)) as [E|E]; rewrite E; lra. }
    destruct (bool_lsum_cases x (sc_x (length V) n false alpha) (seq 1 M) Hx) as [E|E]; fold (sc_S x n V M alpha) in E.
    + rewrite E. pose proof (sq_nonneg (sc_T x n V M alpha - 0)). lra.
    + pose proof (sq_nonneg (1 - sc_S x n V M alpha)). nra.
Qed.

(* ---- ancilla values that make the penalty of a covered element vanish ---- *)
Definition chosen (x : env) (j : nat) : bool := negb (qzero (x j)).
Definition cntn (x : env) (V : list (list nat)) (alpha : nat) : nat := length (filter (chosen x) (sc_filtered V alpha 0)).

Lemma cnt_cntn x V alpha : boolean_env x -> cnt x V alpha == nQ (cntn x V alpha).
Proof.
  intros Hx. unfold cnt, cntn. induction (sc_filtered V alpha 0) as [|a l IH]; [simpl; unfold nQ; simpl; reflexivity|].
  cbn [lsum filter]. unfold chosen at 1. destruct (Hx a) as [E|E].
  - assert (Z : qzero (x a) = true) by (apply qzero_spec; exact E). rewrite Z. cbn [negb]. rewrite E, IH. ring.
  - assert (Z : qzero (x a) = false).
    { destruct (qzero (x a)) eqn:Ez; [|reflexivity]. apply qzero_spec in Ez. rewrite E in Ez. discriminate. }
    rewrite Z. cbn [negb length]. rewrite E, IH, nQ_S. ring.
Qed.

Lemma filtered_lt V alpha j : In j (sc_filtered V alpha 0) -> (j < length V)%nat.
Proof. rewrite sc_filtered_0. intros H. apply filter_In in H. destruct H as [H _]. apply in_seq in H. lia. Qed.

Definition anc_env (log_trick : bool) (n : nat) (V : list (list nat)) (x : env) : env := fun l =>
  if (l <? length V)%nat then x l else
  let d := (l - length V)%nat in
  let c := cntn x V (d mod n) in
  if log_trick then nQ (((c - 1) / 2 ^ (d / n)) mod 2) else (if (S (d / n) =? c)%nat then 1 else 0).

Lemma anc_low lg n V x l : (l < length V)%nat -> anc_env lg n V x l = x l.
Proof. intros H. unfold anc_env. destruct (Nat.ltb_spec l (length V)); [reflexivity| lia]. Qed.

Lemma anc_bool lg n V x : boolean_env x -> boolean_env (anc_env lg n V x).
Proof.
  intros Hx l. unfold anc_env. destruct (Nat.ltb_spec l (length V)); [apply Hx|]. cbv zeta. destruct lg.
  - set (r := ((cntn x V ((l - length V) mod n) - 1) / 2 ^ ((l - length V) / n))%nat).
    pose proof (Nat.mod_upper_bound r 2 ltac:(lia)) as Hb. destruct (r mod 2)%nat as [|[|k]]; [left| right| lia]; reflexivity.
  - destruct (S ((l - length V) / n) =? cntn x V ((l - length V) mod n))%nat; [right| left]; reflexivity.
Qed.

Lemma anc_cnt lg n V x alpha : cnt (anc_env lg n V x) V alpha == cnt x V alpha.
Proof. unfold cnt. apply lsum_ext. intros j Hj. rewrite (anc_low lg n V x j (filtered_lt V alpha j Hj)). reflexivity. Qed.

Lemma decode n alpha m : (alpha < n)%nat -> ((alpha + n * m) mod n = alpha /\ (alpha + n * m) / n = m)%nat.
Proof.
  intros H. rewrite (Nat.mul_comm n m). split.
  - rewrite Nat.mod_add by lia. apply Nat.mod_small, H.
  - rewrite Nat.div_add by lia. rewrite (Nat.div_small alpha n H). reflexivity.
Qed.

Lemma anc_at lg n V x alpha mm : (alpha < n)%nat ->
  anc_env lg n V x (length V + alpha + n * mm)%nat =
  if lg then nQ (((cntn x V alpha - 1) / 2 ^ mm) mod 2) else (if (S mm =? cntn x V alpha)%nat then 1 else 0).
Proof.
  intros H. unfold anc_env. destruct (Nat.ltb_spec (length V + alpha + n * mm) (length V)); [lia|]. cbv zeta.
  replace (length V + alpha + n * mm - length V)%nat with (alpha + n * mm)%nat by lia.
  destruct (decode n alpha mm H) as [-> ->]. reflexivity.
Qed.

Lemma lsum_app h a b : lsum h (a ++ b) == lsum h a + lsum h b.
Proof. induction a as [|x a IH]; simpl; [ring|]. rewrite IH. ring. Qed.

Lemma nQ_mul a b : nQ (a * b) == nQ a * nQ b.
Proof. unfold nQ. rewrite Nat2Z.inj_mul, inject_Z_mult. reflexivity. Qed.
Lemma nQ_add a b : nQ (a + b) == nQ a + nQ b.
Proof. unfold nQ. rewrite Nat2Z.inj_add, inject_Z_plus. reflexivity. Qed.
Lemma pow2_nQ k : pow2 k == nQ (2 ^ k).
Proof. induction k as [|k IH]; [reflexivity|]. cbn [pow2]. rewrite IH. change (2 ^ S k)%nat with (2 * 2 ^ k)%nat. rewrite nQ_mul. reflexivity. Qed.

Lemma bits_sum r K : lsum (fun m => pow2 m * nQ ((r / 2 ^ m) mod 2)) (seq 0 K) == nQ (r mod 2 ^ K).
Proof.
  induction K as [|K IH]; [cbn [seq lsum]; change (2 ^ 0)%nat with 1%nat; rewrite Nat.mod_1_r; reflexivity|].
  rewrite seq_S, lsum_app, IH. cbn [lsum Nat.add]. rewrite pow2_nQ.
  change (2 ^ S K)%nat with (2 * 2 ^ K)%nat. rewrite (Nat.mul_comm 2 (2 ^ K)).
  rewrite (Nat.mod_mul_r r (2 ^ K) 2) by (try apply Nat.pow_nonzero; lia). rewrite nQ_add, nQ_mul. ring.
Qed.

Lemma log2_bound : forall fuel n, (n <= fuel)%nat -> (n < 2 ^ S (log2_nat fuel n))%nat.
Proof.
  induction fuel as [|f IH]; intros n H; [simpl; lia|]. cbn [log2_nat]. destruct (Nat.leb_spec n 1) as [H1|H1]; [simpl; lia|].
  assert (Hd : (n / 2 <= f)%nat).
  { pose proof (Nat.div_mod_eq n 2). pose proof (Nat.mod_upper_bound n 2 ltac:(lia)). lia. }
  specialize (IH (n / 2)%nat Hd). pose proof (Nat.div_mod_eq n 2). pose proof (Nat.mod_upper_bound n 2 ltac:(lia)).
  change (2 ^ S (S (log2_nat f (n / 2))))%nat with (2 * 2 ^ S (log2_nat f (n / 2)))%nat. lia.
Qed.

Lemma lsum_delta (h : nat -> Q) c l : NoDup l -> In c l -> lsum (fun m => if (m =? c)%nat then h m else 0) l == h c.
Proof.
  induction l as [|a l IH]; intros Hn Hin; [destruct Hin|]. inversion Hn as [|? ? Hna Hn']; subst. cbn [lsum].
  destruct (Nat.eqb_spec a c) as [->|Hne].
  - assert (Z : lsum (fun m => if (m =? c)%nat then h m else 0) l == 0).
    { clear IH Hn Hn' Hin. induction l as [|b l IH]; [reflexivity|]. cbn [lsum]. destruct (Nat.eqb_spec b c) as [->|_]; [exfalso; apply Hna; left; reflexivity|].
      rewrite IH; [ring|]. intros H. apply Hna. right. exact H. }
    rewrite Z. ring.
  - destruct Hin as [->|Hin]; [congruence|]. rewrite (IH Hn' Hin). ring.
Qed.

Lemma pen_zero lg n V M x alpha : boolean_env x -> (alpha < n)%nat -> (1 <= cntn x V alpha)%nat -> (cntn x V alpha <= M)%nat ->
  sc_pen (anc_env lg n V x) n V lg M alpha == 0.
Proof.
  intros Hx Ha H1 HM. set (c := cntn x V alpha) in *.
  assert (Ec : cnt (anc_env lg n V x) V alpha == nQ c) by (rewrite anc_cnt; apply cnt_cntn, Hx).
  assert (Ec1 : nQ c == nQ (c - 1) + 1) by (rewrite <- nQ_S; replace (S (c - 1)) with c by lia; reflexivity).
  unfold sc_pen. destruct lg; rewrite Ec.
  - assert (EY : sc_Y (anc_env true n V x) n V M alpha == nQ (c - 1)).
    { unfold sc_Y.
      rewrite (lsum_ext _ (fun m => pow2 m * nQ (((c - 1) / 2 ^ m) mod 2)) (seq 0 (S (sc_logM M)))).
      - rewrite bits_sum. rewrite Nat.mod_small; [reflexivity|].
        pose proof (log2_bound M M (Nat.le_refl M)) as HB. unfold sc_logM.
        change (2 ^ S (S (log2_nat M M)))%nat with (2 * 2 ^ S (log2_nat M M))%nat. lia.
      - intros m _. unfold sc_x. rewrite (anc_at true n V x alpha m Ha). reflexivity. }
    rewrite EY, Ec1. ring.
  - assert (Hin : In c (seq 1 M)) by (apply in_seq; lia).
    assert (ES : sc_S (anc_env false n V x) n V M alpha == 1).
    { unfold sc_S. rewrite (lsum_ext _ (fun m => if (m =? c)%nat then 1 else 0) (seq 1 M)).
      - apply (lsum_delta (fun _ => 1) c (seq 1 M) (seq_NoDup M 1) Hin).
      - intros m Hm. apply in_seq in Hm. unfold sc_x. rewrite (anc_at false n V x alpha (m - 1) Ha).
        replace (S (m - 1)) with m by lia. reflexivity. }
    assert (ET : sc_T (anc_env false n V x) n V M alpha == nQ c).
    { unfold sc_T. rewrite (lsum_ext _ (fun m => if (m =? c)%nat then nQ m else 0) (seq 1 M)).
      - apply (lsum_delta nQ c (seq 1 M) (seq_NoDup M 1) Hin).
      - intros m Hm. apply in_seq in Hm. unfold sc_x. rewrite (anc_at false n V x alpha (m - 1) Ha).
        replace (S (m - 1)) with m by lia. fold c. destruct (m =? c)%nat; ring. }
    rewrite ES, ET. ring.
Qed.

(* ---- repairing an assignment that leaves elements uncovered ---- *)
Definition set1 (x : env) (j : nat) : env := fun i => if (i =? j)%nat then 1 else x i.
Definition le_env (x y : env) : Prop := forall i, x i <= y i.
Definition unc1 (x : env) (V : list (list nat)) (alpha : nat) : Q := if qzero (cnt x V alpha) then 1 else 0.
Definition fix_step (V : list (list nat)) (x : env) (alpha : nat) : env :=
  if qzero (cnt x V alpha) then set1 x (hd 0%nat (sc_filtered V alpha 0)) else x.
Definition fix_all (V : list (list nat)) (l : list nat) (x : env) : env := fold_left (fix_step V) l x.

Lemma set1_bool x j : boolean_env x -> boolean_env (set1 x j).
Proof. intros Hx i. unfold set1. destruct (i =? j)%nat; [right; reflexivity| apply Hx]. Qed.
Lemma set1_le x j : boolean_env x -> le_env x (set1 x j).
Proof. intros Hx i. unfold set1. destruct (i =? j)%nat; [destruct (Hx i) as [E|E]; rewrite E; lra| lra]. Qed.
Lemma fix_step_bool V x a : boolean_env x -> boolean_env (fix_step V x a).
Proof. intros Hx. unfold fix_step. destruct (qzero _); [apply set1_bool, Hx| exact Hx]. Qed.
Lemma fix_step_le V x a : boolean_env x -> le_env x (fix_step V x a).
Proof. intros Hx. unfold fix_step. destruct (qzero _); [apply set1_le, Hx| intros i; lra]. Qed.

Lemma cnt_mono x y V alpha : le_env x y -> cnt x V alpha <= cnt y V alpha.
Proof. intros H. unfold cnt. apply lsum_le. intros a _. apply H. Qed.
Lemma cnt_cases x V alpha : boolean_env x -> cnt x V alpha == 0 \/ 1 <= cnt x V alpha.
Proof. intros Hx. apply (bool_lsum_cases x (fun j => j) _ Hx). Qed.
Lemma qzero_false_ge x V alpha : boolean_env x -> qzero (cnt x V alpha) = false -> 1 <= cnt x V alpha.
Proof.
  intros Hx Hz. destruct (cnt_cases x V alpha Hx) as [E|E]; [|exact E]. apply qzero_spec in E. congruence.
Qed.
Lemma lsum_ge_term (h : nat -> Q) j l : (forall a, In a l -> 0 <= h a) -> In j l -> h j <= lsum h l.
Proof.
  induction l as [|a l IH]; intros Hn Hin; [destruct Hin|]. cbn [lsum].
  assert (0 <= lsum h l) by (apply lsum_nonneg; intros b Hb; apply Hn; right; exact Hb).
  destruct Hin as [->|Hin]; [lra|]. pose proof (Hn a (or_introl eq_refl)).
  assert (h j <= lsum h l) by (apply IH; [intros b Hb; apply Hn; right; exact Hb| exact Hin]). lra.
Qed.
Lemma fix_step_covers V x a : boolean_env x -> sc_filtered V a 0 <> [] -> 1 <= cnt (fix_step V x a) V a.
Proof.
  intros Hx Hne. unfold fix_step. destruct (qzero (cnt x V a)) eqn:Ez; [|apply qzero_false_ge; assumption].
  destruct (sc_filtered V a 0) as [|j F] eqn:EF; [congruence|]. cbn [hd]. unfold cnt. rewrite EF.
  pose proof (lsum_ge_term (fun i => set1 x j i) j (j :: F)) as G. cbv beta in G.
  assert (set1 x j j = 1) by (unfold set1; rewrite Nat.eqb_refl; reflexivity). rewrite H in G. apply G; [|left; reflexivity].
  intros b _. destruct (set1_bool x j Hx b) as [E|E]; rewrite E; lra.
Qed.

Lemma unc1_mono x y V alpha : boolean_env x -> boolean_env y -> le_env x y -> unc1 y V alpha <= unc1 x V alpha.
Proof.
  intros Hx Hy Hle. unfold unc1. destruct (qzero (cnt x V alpha)) eqn:Ex; destruct (qzero (cnt y V alpha)) eqn:Ey; try lra.
  exfalso. pose proof (qzero_false_ge x V alpha Hx Ex). pose proof (cnt_mono x y V alpha Hle). apply qzero_spec in Ey. lra.
Qed.
Lemma unc1_nonneg x V alpha : 0 <= unc1 x V alpha.
Proof. unfold unc1. destruct (qzero _); lra. Qed.

(* the weight of the chosen sets *)
Definition wterms (l : list (nat * Q)) : terms := map (fun '(i, w) => ([i], w)) l.
Lemma cost_set1_high x j ws : forall len a, (j < a)%nat ->
  eval (set1 x j) (wterms (combine (seq a len) ws)) == eval x (wterms (combine (seq a len) ws)).
Proof.
  revert ws. induction ws as [|w ws IH]; intros len a H; [destruct len; reflexivity|]. destruct len as [|len]; [reflexivity|].
  cbn [seq combine wterms map eval mon]. rewrite (IH len (S a)) by lia. unfold set1 at 1.
  destruct (Nat.eqb_spec a j); [lia| reflexivity].
Qed.
Lemma cost_set1 x j ws : boolean_env x -> (forall w, In w ws -> w <= 1) -> forall len a,
  eval (set1 x j) (wterms (combine (seq a len) ws)) <= eval x (wterms (combine (seq a len) ws)) + 1.
Proof.
  intros Hx. induction ws as [|w ws IH]; intros Hw len a; [destruct len; simpl; lra|]. destruct len as [|len]; [simpl; lra|].
  cbn [seq combine wterms map eval mon]. pose proof (Hw w (or_introl eq_refl)) as Hw1. unfold set1 at 1.
  destruct (Nat.eqb_spec a j) as [->|Hne].
  - fold (wterms (combine (seq (S j) len) ws)). rewrite (cost_set1_high x j ws len (S j)) by lia.
    destruct (Hx j) as [E|E]; rewrite E; lra.
  - fold (wterms (combine (seq (S a) len) ws)).
    assert (Hw' : forall w0, In w0 ws -> w0 <= 1) by (intros w0 H0; apply Hw; right; exact H0).
    pose proof (IH Hw' len (S a)). lra.
Qed.

Lemma cost_ext V ws x y : (forall i, (i < length V)%nat -> x i == y i) -> sc_cost V ws x == sc_cost V ws y.
Proof.
  intros H. unfold sc_cost. apply eval_ext_in. intros k v i Hin Hi. apply in_map_iff in Hin. destruct Hin as ([i0 w0] & E & Hin).
  injection E as <- <-. destruct Hi as [<-|[]]. apply in_combine_l in Hin. apply in_seq in Hin. apply H. lia.
Qed.

Lemma fix_step_cost V ws x a : boolean_env x -> (forall w, In w ws -> w <= 1) ->
  sc_cost V ws (fix_step V x a) <= sc_cost V ws x + unc1 x V a.
Proof.
  intros Hx Hw. unfold fix_step, unc1. destruct (qzero (cnt x V a)); [|lra].
  unfold sc_cost. apply (cost_set1 x _ ws Hx Hw (length V) 0%nat).
Qed.

Lemma fix_all_spec V ws : (forall w, In w ws -> w <= 1) -> forall l x, boolean_env x ->
  boolean_env (fix_all V l x) /\ le_env x (fix_all V l x)
  /\ (forall a, In a l -> sc_filtered V a 0 <> [] -> 1 <= cnt (fix_all V l x) V a)
  /\ sc_cost V ws (fix_all V l x) <= sc_cost V ws x + lsum (unc1 x V) l.
Proof.
  intros Hw. induction l as [|a l IH]; intros x Hx.
  - simpl. split; [exact Hx|]. split; [intros i; lra|]. split; [intros a []| lra].
  - cbn [fix_all fold_left]. fold (fix_all V l (fix_step V x a)).
    pose proof (fix_step_bool V x a Hx) as Hb. pose proof (fix_step_le V x a Hx) as Hl.
    destruct (IH (fix_step V x a) Hb) as (B1 & L1 & C1 & K1).
    split; [exact B1|]. split; [intros i; pose proof (Hl i); pose proof (L1 i); lra|]. split.
    + intros b [<-|Hb'] Hne; [|apply C1; assumption].
      pose proof (fix_step_covers V x a Hx Hne). pose proof (cnt_mono _ _ V a L1). lra.
    + cbn [lsum]. pose proof (fix_step_cost V ws x a Hx Hw).
      assert (lsum (unc1 (fix_step V x a) V) l <= lsum (unc1 x V) l) by (apply lsum_le; intros b _; apply unc1_mono; assumption).
      lra.
Qed.

Lemma filter_length_le' {T} (f : T -> bool) (l : list T) : (length (filter f l) <= length l)%nat.
Proof. induction l as [|a l IH]; simpl; [lia|]. destruct (f a); simpl; lia. Qed.

Lemma nQ_ge1_inv c : 1 <= nQ c -> (1 <= c)%nat.
Proof. intros H. destruct c; [|lia]. exfalso. change (1 <= 0) in H. lra. Qed.

Lemma lsum_zero_each h l : (forall a, In a l -> 0 <= h a) -> lsum h l == 0 -> forall a, In a l -> h a == 0.
Proof.
  intros Hn Hz a Ha. pose proof (lsum_ge_term h a l Hn Ha). pose proof (Hn a Ha). lra.
Qed.

(* an assignment whose chosen sets cover every element, completed with the right counters: energy = B * weight *)
Lemma covered_energy n V ws lg M A B Qf z : sc_to_qubo n V ws lg M A B = Ok Qf -> boolean_env z ->
  (forall a, (a < n)%nat -> length (sc_filtered V a 0) <= M)%nat ->
  (forall a, (a < n)%nat -> 1 <= cnt z V a) ->
  boolean_env (anc_env lg n V z) /\ eval (anc_env lg n V z) (tm Qf) == B * sc_cost V ws z.
Proof.
  intros H Hz HM Hc. pose proof (anc_bool lg n V z Hz) as Hb. split; [exact Hb|].
  rewrite (sc_value _ _ _ _ _ _ _ _ H _ Hb).
  rewrite (cost_ext V ws (anc_env lg n V z) z) by (intros i Hi; rewrite (anc_low lg n V z i Hi); reflexivity).
  rewrite (lsum_ext (sc_pen (anc_env lg n V z) n V lg M) (fun _ => 0) (seq 0 n)).
  - rewrite lsum_const. ring.
  - intros a Ha. apply in_seq in Ha. apply pen_zero; [exact Hz| lia| |].
    + apply nQ_ge1_inv. rewrite <- (cnt_cntn z V a Hz). apply Hc. lia.
    + unfold cntn. eapply Nat.le_trans; [apply filter_length_le'| apply HM; lia].
Qed.

Theorem sc_ground n V ws lg M A B Qf x : sc_to_qubo n V ws lg M A B = Ok Qf ->
  0 < B -> B < A -> (forall w, In w ws -> w <= 1) ->
  (forall a, (a < n)%nat -> sc_filtered V a 0 <> [] /\ (length (sc_filtered V a 0) <= M)%nat) ->
  boolean_env x -> (forall y, boolean_env y -> eval x (tm Qf) <= eval y (tm Qf)) ->
  (forall a, (a < n)%nat -> 1 <= cnt x V a)
  /\ eval x (tm Qf) == B * sc_cost V ws x
  /\ forall z, boolean_env z -> (forall a, (a < n)%nat -> 1 <= cnt z V a) -> sc_cost V ws x <= sc_cost V ws z.
Proof.
  intros H HB HA Hw Hinst Hx Hmin.
  assert (HM : forall a, (a < n)%nat -> (length (sc_filtered V a 0) <= M)%nat) by (intros a Ha; apply (Hinst a Ha)).
  pose proof (sc_value _ _ _ _ _ _ _ _ H x Hx) as Ex.
  set (U := lsum (unc1 x V) (seq 0 n)).
  assert (HU0 : 0 <= U) by (apply lsum_nonneg; intros a _; apply unc1_nonneg).
  assert (Hpen : U <= lsum (sc_pen x n V lg M) (seq 0 n)).
  { apply lsum_le. intros a _. unfold unc1. destruct (qzero (cnt x V a)) eqn:Ez; [|apply pen_nonneg].
    apply pen_uncovered; [exact Hx| apply qzero_spec, Ez]. }
  (* step 1: every element is covered *)
  destruct (fix_all_spec V ws Hw (seq 0 n) x Hx) as (Fb & Fl & Fc & Fk). fold U in Fk.
  set (xf := fix_all V (seq 0 n) x) in *.
  assert (Cf : forall a, (a < n)%nat -> 1 <= cnt xf V a).
  { intros a Ha. apply Fc; [apply in_seq; lia| apply (Hinst a Ha)]. }
  destruct (covered_energy n V ws lg M A B Qf xf H Fb HM Cf) as [Yb Ey].
  pose proof (Hmin _ Yb) as M1. rewrite Ex, Ey in M1.
  assert (HUz : U == 0).
  { assert (B * sc_cost V ws xf <= B * sc_cost V ws x + B * U) by nra.
    assert (A * U <= A * lsum (sc_pen x n V lg M) (seq 0 n)) by nra.
    assert ((A - B) * U <= 0) by lra. nra. }
  assert (Cx : forall a, (a < n)%nat -> 1 <= cnt x V a).
  { intros a Ha. pose proof (lsum_zero_each (unc1 x V) (seq 0 n) ltac:(intros b _; apply unc1_nonneg) HUz a ltac:(apply in_seq; lia)) as Z.
    unfold unc1 in Z. destruct (qzero (cnt x V a)) eqn:Ez; [lra|]. apply qzero_false_ge; assumption. }
  split; [exact Cx|].
  (* step 2: the counters are right *)
  destruct (covered_energy n V ws lg M A B Qf x H Hx HM Cx) as [Yb2 Ey2].
  pose proof (Hmin _ Yb2) as M2. rewrite Ex, Ey2 in M2.
  assert (HP : 0 <= lsum (sc_pen x n V lg M) (seq 0 n)) by (apply lsum_nonneg; intros a _; apply pen_nonneg).
  assert (HPz : lsum (sc_pen x n V lg M) (seq 0 n) == 0) by nra.
  split; [rewrite Ex, HPz; ring|].
  (* step 3: no cover is lighter *)
  intros z Hz Cz. destruct (covered_energy n V ws lg M A B Qf z H Hz HM Cz) as [Yb3 Ey3].
  pose proof (Hmin _ Yb3) as M3. rewrite Ex, Ey3, HPz in M3. nra.
Qed.

(* the validity test is coverage *)
Lemma sc_valid_iff n V (xb : label -> bool) :
  sc_valid n V xb = true <-> forall a, (a < n)%nat -> exists k, (k < length V)%nat /\ xb k = true /\ sc_in a (nth k V []) = true.
Proof.
  unfold sc_valid. rewrite forallb_forall. split.
  - intros H a Ha. specialize (H a ltac:(apply in_seq; lia)). apply existsb_exists in H. destruct H as (k & Hk & Hb).
    apply in_seq in Hk. apply andb_true_iff in Hb. exists k. split; [lia| exact Hb].
  - intros H a Ha. apply in_seq in Ha. destruct (H a ltac:(lia)) as (k & Hk & Hb1 & Hb2). apply existsb_exists. exists k.
    split; [apply in_seq; lia| rewrite Hb1, Hb2; reflexivity].
Qed.
