(* Ancilla labels stay below the counter: after any constraint method, every ancilla label '__a j' that occurs in the
   model has j < num_ancillas.  Purely syntactic (no hypothesis on the polynomial's values). *)
From QV.Model Require Import Base Matrix Arith Expr Extrema Sat PCBO Logic Convert PCSO.
From QV.Proofs Require Import BaseProofs KeyProofs ArithProofs ExprProofs InvProofs LabelProofs PCBOProofs.
From Coq Require Import Lia Lqa.
From QV.Proofs Require ConvertProofs.
Open Scope Q_scope.

Definition AB (a : nat) (i : label) : Prop := forall j, i = anc_label j -> (j < a)%nat.
Lemma AB_mono a a' t : (a <= a')%nat -> LP (AB a) t -> LP (AB a') t.
Proof. intros Ha H k v i Hin Hi j Hj. specialize (H k v i Hin Hi j Hj). lia. Qed.
Lemma anc_label_inj j j' : anc_label j = anc_label j' -> j = j'.
Proof. unfold anc_label. lia. Qed.

Lemma ev_LP P e X : ev e = Ok X -> eLP P e -> LP P (tm X).
Proof.
  unfold ev. intros H Hl. destruct (interp e) as [[m| |]|] eqn:E; try discriminate. injection H as <-.
  apply (interp_LP P e _ Hl E).
Qed.
Lemma iadd_m_LP P m X m' : iadd_m m X = Ok m' -> LP P (tm m) -> LP P (tm X) -> LP P (tm m') /\ anc m' = anc m.
Proof.
  intros H Hm HX. split; [apply (m_iadd_LP P m (OModel X) m' Hm HX H)|]. destruct (iadd_m_frame _ _ _ H) as (_ & A & _). exact A.
Qed.
Lemma isub_m_LP P m X m' : isub_m m X = Ok m' -> LP P (tm m) -> LP P (tm X) -> LP P (tm m') /\ anc m' = anc m.
Proof.
  intros H Hm HX. split; [apply (m_isub_LP P m (OModel X) m' Hm HX H)|]. destruct (isub_m_frame _ _ _ H) as (_ & A & _). exact A.
Qed.
Lemma as_pubo_LP P Pin Pm : as_pubo Pin = Ok Pm -> LP P Pin -> LP P (tm Pm).
Proof. unfold as_pubo. intros H Hl. eapply m_create_LP; eassumption. Qed.

Ltac b0 H n e :=
  match type of H with
  | bind ?s _ = Ok _ => destruct s as [n|] eqn:e; cbn [bind] in H; [|discriminate]
  end.

Lemma core_LP P m Pm lam b m' w t : eq_zero_core m Pm lam b = Ok (m', w, t) ->
  LP P (tm m) -> LP P (tm Pm) -> LP P (tm m') /\ anc m' = anc m.
Proof.
  intros H Hm HP. unfold eq_zero_core in H. destruct (get_bounds (tm Pm) b) as [lo hi].
  assert (L1 : eLP P (lamP lam Pm)) by (simpl; split; [exact I| exact HP]).
  assert (L2 : eLP P (EBin false OpMul (lamP lam Pm) (EM Pm))) by (simpl; repeat split; try exact I; exact HP).
  destruct (qeq0 lo && qeq0 hi); [injection H as <- _ _; auto|].
  destruct (qgt0 lo). { b0 H X E. b0 H a A. injection H as <- _ _. eapply iadd_m_LP; [exact A| exact Hm| eapply ev_LP; eassumption]. }
  destruct (qlt0 hi). { b0 H X E. b0 H a A. injection H as <- _ _. eapply isub_m_LP; [exact A| exact Hm| eapply ev_LP; eassumption]. }
  destruct (qeq0 lo). { b0 H X E. b0 H a A. injection H as <- _ _. eapply iadd_m_LP; [exact A| exact Hm| eapply ev_LP; eassumption]. }
  destruct (qeq0 hi). { b0 H X E. b0 H a A. injection H as <- _ _. eapply isub_m_LP; [exact A| exact Hm| eapply ev_LP; eassumption]. }
  b0 H X E. b0 H a A. injection H as <- _ _. eapply iadd_m_LP; [exact A| exact Hm| eapply ev_LP; eassumption].
Qed.

Lemma EL_eLP (P : label -> Prop) l : P l -> eLP P (EL l).
Proof. intros H k v i [E|[]] Hi. injection E as <- _. destruct Hi as [<-|[]]. exact H. Qed.

Lemma gadget_eLP (P : label -> Prop) a b c : P a -> P b -> P c ->
  eLP P (and_gadget_expr (EL a) (one_times (EL b)) (one_times (EL c))).
Proof.
  intros Ha Hb Hc. pose proof (EL_eLP P a Ha). pose proof (EL_eLP P b Hb). pose proof (EL_eLP P c Hc).
  unfold and_gadget_expr, one_times. cbn [eLP]. tauto.
Qed.

Lemma special_eq_LP P m Pm lam r : special_eq m Pm lam = Ok r -> LP P (tm m) -> LP P (tm Pm) ->
  match r with Some m' => LP P (tm m') /\ anc m' = anc m | None => True end.
Proof.
  intros H Hm HP. unfold special_eq in H.
  destruct (tm Pm) as [|[k0 v0] [|[k1 v1] [|? ?]]] eqn:ET; try (injection H as <-; exact I).
  destruct (qeq0 _ && Nat.eqb _ 3 && Qeq_bool v0 (- v1)); [|injection H as <-; exact I].
  assert (K0 : KP P k0) by (intros i Hi; eapply HP; [left; reflexivity| exact Hi]).
  assert (K1 : KP P k1) by (intros i Hi; eapply HP; [right; left; reflexivity| exact Hi]).
  destruct k0 as [|a0 [|b0 [|? ?]]], k1 as [|a1 [|b1 [|? ?]]]; try (injection H as <-; exact I).
  - b0 H G EG. b0 H G' EG'.
    destruct (eq_zero_core empty_pcbo G' lam (Some 0, Some 3)) as [[[tmp w0] t0]|] eqn:EC; cbn [bind] in H; [|discriminate].
    b0 H m2 EA. injection H as <-.
    assert (LG : LP P (tm G)).
    { eapply ev_LP; [exact EG|]. apply gadget_eLP; solve [apply K0; simpl; auto | apply K1; simpl; auto]. }
    destruct (core_LP P _ _ _ _ _ _ _ EC (LP_nil P) (as_pubo_LP P _ _ EG' LG)) as [Lt _].
    apply (iadd_m_LP P _ _ _ EA Hm Lt).
  - b0 H G EG. b0 H G' EG'.
    destruct (eq_zero_core empty_pcbo G' lam (Some 0, Some 3)) as [[[tmp w0] t0]|] eqn:EC; cbn [bind] in H; [|discriminate].
    b0 H m2 EA. injection H as <-.
    assert (LG : LP P (tm G)).
    { eapply ev_LP; [exact EG|]. apply gadget_eLP; solve [apply K0; simpl; auto | apply K1; simpl; auto]. }
    destruct (core_LP P _ _ _ _ _ _ _ EC (LP_nil P) (as_pubo_LP P _ _ EG' LG)) as [Lt _].
    apply (iadd_m_LP P _ _ _ EA Hm Lt).
Qed.

Lemma add_eq_LP P m Pin lam b m' w t : add_eq m Pin lam b = Ok (m', w, t) -> LP P (tm m) -> LP P Pin ->
  LP P (tm m') /\ anc m' = anc m.
Proof.
  intros H Hm HP. unfold add_eq in H. b0 H Pm EP. pose proof (as_pubo_LP P _ _ EP HP) as LPm.
  destruct (qeq0 lam); [injection H as <- _ _; auto|].
  set (m1 := append_constraint m REq (tm Pm)) in *.
  b0 H s ES. pose proof (special_eq_LP P m1 Pm lam s ES Hm LPm) as Hs.
  destruct s as [m2|]; [injection H as <- _ _; exact Hs|].
  apply (core_LP P m1 Pm lam b m' w t H Hm LPm).
Qed.

(* ---- helper expressions ---- *)
Lemma e_and_eLP (P : label -> Prop) es : Forall (eLP P) es -> eLP P (e_and es).
Proof.
  intros H. unfold e_and. destruct es as [|e0 es0] eqn:Ees; [unfold e_one; simpl; split; [intros k v i []| exact I]|].
  rewrite <- Ees in *. clear Ees e0 es0.
  assert (G : forall acc, eLP P acc -> eLP P (fold_left (fun Pa v => EBin true OpMul Pa v) es acc)).
  { induction H as [|e es' He Hes IH]; intros acc Ha; simpl; [exact Ha|]. apply IH. simpl. split; assumption. }
  apply G. exact I.
Qed.
Lemma AND_of_key_eLP (P : label -> Prop) k : KP P k -> eLP P (AND_of_key k).
Proof.
  intros Hk. unfold AND_of_key. apply e_and_eLP. induction k as [|i k IH]; simpl; [constructor|].
  constructor; [apply EL_eLP, Hk; left; reflexivity| apply IH; intros j Hj; apply Hk; right; exact Hj].
Qed.
Lemma e_or2_eLP (P : label -> Prop) a b : eLP P a -> eLP P b -> eLP P (e_not (e_or [a; b])).
Proof. intros Ha Hb. unfold e_not, e_or. simpl. tauto. Qed.

Lemma mk_ancs_LP a0 : forall n0 i A ancs top, mk_ancs A a0 i n0 = Ok ancs -> (a0 + i + n0 <= top)%nat ->
  LP (AB top) (tm A) -> LP (AB top) (tm ancs).
Proof.
  induction n0 as [|n0 IH]; intros i A ancs top H Ht HA; cbn [mk_ancs] in H; [injection H as <-; exact HA|].
  b0 H A' EA. apply (IH (S i) A' ancs top H ltac:(lia)).
  eapply m_additem_LP; [exact HA| |exact EA]. intros l [<-|[]] j Hj. apply anc_label_inj in Hj. lia.
Qed.
Lemma add_slack_LP a0 lt : forall n i Pm hi Ps hi' top, add_slack Pm a0 n i lt hi = Ok (Ps, hi') -> (a0 + i + n <= top)%nat ->
  LP (AB top) (tm Pm) -> LP (AB top) (tm Ps).
Proof.
  induction n as [|n IH]; intros i Pm hi Ps hi' top H Ht HP; cbn [add_slack] in H; [injection H as <- _; exact HP|].
  b0 H P' EA. apply (IH (S i) P' _ Ps hi' top H ltac:(lia)).
  eapply m_additem_LP; [exact HP| |exact EA]. intros l [<-|[]] j Hj. apply anc_label_inj in Hj. lia.
Qed.

(* ---- <= and the rest ---- *)
Lemma EM_eLP (P : label -> Prop) (X : model) : LP P (tm X) -> eLP P (EM X).
Proof. intros H. exact H. Qed.

Lemma special_le_AB m Pm lam lt lo hi r : special_le m Pm lam lt lo hi = Ok r ->
  LP (AB (anc m)) (tm m) -> LP (AB (anc m)) (tm Pm) ->
  match r with Some (m', _) => LP (AB (anc m')) (tm m') /\ (anc m <= anc m')%nat | None => True end.
Proof.
  intros H Hm HP. unfold special_le in H. set (off := get_sq (tm Pm) []) in *.
  b0 H Pwo EW.
  assert (LW : LP (AB (anc m)) (tm Pwo)) by (eapply ev_LP; [exact EW|]; simpl; split; [exact HP| exact I]).
  destruct (Qeq_bool off (-(1)) && forallb (fun '(_, v) => Qeq_bool v 1) (tm Pwo)).
  { b0 H X EX. b0 H m2 EA. injection H as <-.
    assert (LX : LP (AB (anc m)) (tm X)) by (eapply ev_LP; [exact EX|]; simpl; repeat split; try exact I; assumption).
    destruct (iadd_m_LP _ _ _ _ EA Hm LX) as [L A]. rewrite A. split; [exact L| lia]. }
  destruct (negb lt && qeq0 (lo - off) && negb (qgt0 off) && negb (qeq0 lo)).
  { b0 H n En. b0 H ancs Ea. b0 H diff Ed. b0 H X EX. b0 H m2 EA. injection H as <-.
    set (top := (anc m + n)%nat).
    assert (Lanc : LP (AB top) (tm ancs)) by (eapply (mk_ancs_LP (anc m) n 0 _ _ top Ea); [unfold top; lia| intros k v i []]).
    assert (LW' : LP (AB top) (tm Pwo)) by (eapply AB_mono; [|exact LW]; unfold top; lia).
    assert (Ld : LP (AB top) (tm diff)) by (eapply ev_LP; [exact Ed|]; simpl; split; assumption).
    assert (LX : LP (AB top) (tm X)) by (eapply ev_LP; [exact EX|]; simpl; repeat split; try exact I; assumption).
    assert (Hm' : LP (AB top) (tm (with_anc m top))) by (simpl; eapply AB_mono; [|exact Hm]; unfold top; lia).
    destruct (iadd_m_LP _ _ _ _ EA Hm' LX) as [L A]. rewrite A. simpl. split; [exact L| unfold top; lia]. }
  destruct (Qeq_bool off 1 && Nat.eqb (length (tm Pwo)) 2 && forallb (fun '(_, v) => Qeq_bool v (-(1))) (tm Pwo)).
  { destruct (tm Pwo) as [|[k0 v0] [|[k1 v1] [|? ?]]] eqn:ET; try (injection H as <-; exact I).
    b0 H P2 EP2. b0 H P2' EP2'.
    destruct (eq_zero_core empty_pcbo P2' lam (Some 0, Some 1)) as [[[tmp w0] t0]|] eqn:EC; cbn [bind] in H; [|discriminate].
    b0 H m2 EA. injection H as <-.
    assert (K0 : KP (AB (anc m)) k0) by (intros i Hi; eapply LW; [left; reflexivity| exact Hi]).
    assert (K1 : KP (AB (anc m)) k1) by (intros i Hi; eapply LW; [right; left; reflexivity| exact Hi]).
    assert (L2 : LP (AB (anc m)) (tm P2)) by (eapply ev_LP; [exact EP2|]; apply e_or2_eLP; apply AND_of_key_eLP; assumption).
    destruct (core_LP _ _ _ _ _ _ _ _ EC (LP_nil _) (as_pubo_LP _ _ _ EP2' L2)) as [Lt _].
    destruct (iadd_m_LP _ _ _ _ EA Hm Lt) as [L A]. rewrite A. split; [exact L| lia]. }
  destruct (qeq0 off && Nat.eqb (length (tm Pm)) 2 && _); [|injection H as <-; exact I].
  destruct (tm Pm) as [|[k0 v0] [|[k1 v1] [|? ?]]] eqn:ET; try (injection H as <-; exact I).
  assert (K0 : KP (AB (anc m)) k0) by (intros i Hi; eapply HP; [left; reflexivity| exact Hi]).
  assert (K1 : KP (AB (anc m)) k1) by (intros i Hi; eapply HP; [right; left; reflexivity| exact Hi]).
  destruct (if Qeq_bool v0 1 then (k0, k1) else (k1, k0)) as [kp kn] eqn:Ek.
  assert (Kp : KP (AB (anc m)) kp /\ KP (AB (anc m)) kn) by (destruct (Qeq_bool v0 1); injection Ek as <- <-; auto).
  b0 H X EX. b0 H m2 EA. injection H as <-.
  assert (LX : LP (AB (anc m)) (tm X)).
  { eapply ev_LP; [exact EX|]. pose proof (AND_of_key_eLP _ kp (proj1 Kp)). pose proof (AND_of_key_eLP _ kn (proj2 Kp)).
    cbn [eLP]. tauto. }
  destruct (iadd_m_LP _ _ _ _ EA Hm LX) as [L A]. rewrite A. split; [exact L| lia].
Qed.

Lemma pop_tm m r : tm (pop_constraint m r) = tm m /\ anc (pop_constraint m r) = anc m.
Proof. split; reflexivity. Qed.

Theorem add_le_AB m Pin lam lt b m' w t : add_le m Pin lam lt b = Ok (m', w, t) ->
  LP (AB (anc m)) (tm m) -> LP (AB (anc m)) Pin -> LP (AB (anc m')) (tm m') /\ (anc m <= anc m')%nat.
Proof.
  intros H Hm HP. unfold add_le in H. b0 H Pm EP. pose proof (as_pubo_LP _ _ _ EP HP) as LPm.
  destruct (qeq0 lam); [injection H as <- _ _; simpl; split; [exact Hm| lia]|].
  set (m1 := append_constraint m RLe (tm Pm)) in *.
  destruct (get_bounds (tm Pm) b) as [lo hi].
  b0 H s ES. pose proof (special_le_AB m1 Pm lam lt lo hi s ES Hm LPm) as Hs.
  destruct s as [[m2 t2]|]; [injection H as <- _ _; exact Hs|].
  destruct (qgt0 lo).
  { b0 H X EX. b0 H a A. injection H as <- _ _.
    assert (LX : LP (AB (anc m)) (tm X)) by (eapply ev_LP; [exact EX|]; simpl; split; [exact I| exact LPm]).
    destruct (iadd_m_LP _ _ _ _ A Hm LX) as [L An]. rewrite An. simpl. split; [exact L| lia]. }
  destruct (negb (qgt0 hi)); [injection H as <- _ _; simpl; split; [exact Hm| lia]|].
  b0 H Pc EPc. b0 H q Eqq. destruct q as [[Ps hi'] n].
  destruct (add_eq (with_anc m1 (anc m1 + n)) (tm Ps) lam (Some lo, Some hi')) as [[[m3 w3] t3]|] eqn:A1; cbn [bind] in H; [|discriminate].
  injection H as <- _ _.
  set (top := (anc m + n)%nat).
  assert (LPc : LP (AB (anc m)) (tm Pc)) by (eapply m_copy_LP; eassumption).
  assert (LPs : LP (AB top) (tm Ps)).
  { destruct (qeq0 lo).
    - injection Eqq as <- _ <-. eapply AB_mono; [|exact LPc]. unfold top. lia.
    - b0 Eqq n' En. destruct (add_slack Pc (anc m1) n' 0 lt hi) as [[Ps' hi'']|] eqn:ES'; cbn [bind] in Eqq; [|discriminate].
      injection Eqq as <- _ <-. eapply (add_slack_LP (anc m1) lt n' 0 Pc hi Ps' hi'' top ES'); [unfold top; simpl; lia|].
      eapply AB_mono; [|exact LPc]. unfold top. lia. }
  destruct (add_eq_LP (AB top) _ _ _ _ _ _ _ A1) as [L An].
  - simpl. eapply AB_mono; [|exact Hm]. unfold top. lia.
  - exact LPs.
  - simpl in An. cbn [pop_constraint with_cons tm anc]. rewrite An. split; [exact L| unfold top; lia].
Qed.

Theorem add_lt_AB m Pin lam lt b m' w t : add_lt m Pin lam lt b = Ok (m', w, t) ->
  LP (AB (anc m)) (tm m) -> LP (AB (anc m)) Pin -> LP (AB (anc m')) (tm m') /\ (anc m <= anc m')%nat.
Proof.
  intros H Hm HP. unfold add_lt in H. b0 H Pm EP. pose proof (as_pubo_LP _ _ _ EP HP) as LPm.
  destruct (qeq0 lam); [injection H as <- _ _; simpl; split; [exact Hm| lia]|].
  set (m1 := append_constraint m RLt (tm Pm)) in *.
  destruct (get_bounds (tm Pm) b) as [lo hi].
  destruct (negb (qlt0 lo)).
  { b0 H X EX. b0 H a A. injection H as <- _ _.
    assert (LX : LP (AB (anc m)) (tm X)) by (eapply ev_LP; [exact EX|]; simpl; split; [exact I| exact LPm]).
    destruct (iadd_m_LP _ _ _ _ A Hm LX) as [L An]. rewrite An. simpl. split; [exact L| lia]. }
  destruct (qlt0 hi); [injection H as <- _ _; simpl; split; [exact Hm| lia]|].
  b0 H P1 EP1.
  destruct (add_le m1 (tm P1) lam lt (Some (lo + 1), Some (hi + 1))) as [[[m2 w2] t2]|] eqn:A1; cbn [bind] in H; [|discriminate].
  injection H as <- _ _.
  assert (L1 : LP (AB (anc m)) (tm P1)) by (apply (m_add_LP _ Pm (OScalar 1) P1 LPm I EP1)).
  destruct (add_le_AB _ _ _ _ _ _ _ _ A1 Hm L1) as [L An]. exact (conj L An).
Qed.
Theorem add_gt_AB m Pin lam lt b m' w t : add_gt m Pin lam lt b = Ok (m', w, t) ->
  LP (AB (anc m)) (tm m) -> LP (AB (anc m)) Pin -> LP (AB (anc m')) (tm m') /\ (anc m <= anc m')%nat.
Proof.
  intros H Hm HP. unfold add_gt in H. b0 H Pm EP. pose proof (as_pubo_LP _ _ _ EP HP) as LPm.
  destruct (qeq0 lam); [injection H as <- _ _; simpl; split; [exact Hm| lia]|].
  set (m1 := append_constraint m RGt (tm Pm)) in *.
  destruct (get_bounds (tm Pm) b) as [lo hi]. b0 H Pn EPn.
  destruct (add_lt m1 (tm Pn) lam lt (Some (- hi), Some (- lo))) as [[[m2 w2] t2]|] eqn:A1; cbn [bind] in H; [|discriminate].
  injection H as <- _ _.
  assert (L1 : LP (AB (anc m)) (tm Pn)) by (eapply m_neg_LP; eassumption).
  destruct (add_lt_AB _ _ _ _ _ _ _ _ A1 Hm L1) as [L An]. exact (conj L An).
Qed.
Theorem add_ge_AB m Pin lam lt b m' w t : add_ge m Pin lam lt b = Ok (m', w, t) ->
  LP (AB (anc m)) (tm m) -> LP (AB (anc m)) Pin -> LP (AB (anc m')) (tm m') /\ (anc m <= anc m')%nat.
Proof.
  intros H Hm HP. unfold add_ge in H. b0 H Pm EP. pose proof (as_pubo_LP _ _ _ EP HP) as LPm.
  destruct (qeq0 lam); [injection H as <- _ _; simpl; split; [exact Hm| lia]|].
  set (m1 := append_constraint m RGe (tm Pm)) in *.
  destruct (get_bounds (tm Pm) b) as [lo hi]. b0 H Pn EPn.
  destruct (add_le m1 (tm Pn) lam lt (Some (- hi), Some (- lo))) as [[[m2 w2] t2]|] eqn:A1; cbn [bind] in H; [|discriminate].
  injection H as <- _ _.
  assert (L1 : LP (AB (anc m)) (tm Pn)) by (eapply m_neg_LP; eassumption).
  destruct (add_le_AB _ _ _ _ _ _ _ _ A1 Hm L1) as [L An]. exact (conj L An).
Qed.

Lemma bvar_eLP (P : label -> Prop) l : P l -> eLP P (boolean_var_expr l).
Proof. intros H k v i [E|[]] Hi. injection E as <- _. destruct Hi as [<-|[]]. exact H. Qed.
Lemma ne_slack_LP sign a0 lt : forall n i Pm lo hi P2 lo2 hi2 top, ne_slack Pm sign a0 n i lt lo hi = Ok (P2, lo2, hi2) ->
  (a0 + i + n <= top)%nat -> eLP (AB top) sign -> LP (AB top) (tm Pm) -> LP (AB top) (tm P2).
Proof.
  induction n as [|n IH]; intros i Pm lo hi P2 lo2 hi2 top H Ht Hs HP; cbn [ne_slack] in H; [injection H as <- _ _; exact HP|].
  b0 H T ET. b0 H P' EA. apply (IH (S i) P' _ _ P2 lo2 hi2 top H ltac:(lia) Hs).
  apply (m_iadd_LP (AB top) Pm (OModel T) P' HP); [|exact EA]. simpl. eapply ev_LP; [exact ET|].
  cbn [eLP]. split; [split; [exact Hs| exact I]|]. apply bvar_eLP. intros j Hj. apply anc_label_inj in Hj. lia.
Qed.

Theorem add_ne_AB m Pin lam lt b m' w t : add_ne m Pin lam lt b = Ok (m', w, t) ->
  LP (AB (anc m)) (tm m) -> LP (AB (anc m)) Pin -> LP (AB (anc m')) (tm m') /\ (anc m <= anc m')%nat.
Proof.
  intros H Hm HP. unfold add_ne in H. b0 H Pm EP. pose proof (as_pubo_LP _ _ _ EP HP) as LPm.
  destruct (qeq0 lam); [injection H as <- _ _; simpl; split; [exact Hm| lia]|].
  set (m1 := append_constraint m RNe (tm Pm)) in *.
  destruct (get_bounds (tm Pm) b) as [lo hi].
  destruct (qeq0 lo && qeq0 hi).
  { b0 H a A. injection H as <- _ _. destruct (m_iadd_frame _ _ _ A) as (_ & An & _).
    split; [rewrite An; apply (m_iadd_LP _ m1 (OScalar lam) a Hm I A)| rewrite An; simpl; lia]. }
  destruct (qgt0 lo); [injection H as <- _ _; simpl; split; [exact Hm| lia]|].
  destruct (qlt0 hi); [injection H as <- _ _; simpl; split; [exact Hm| lia]|].
  destruct (qeq0 lo).
  { destruct (add_gt m1 (tm Pm) lam true (Some lo, Some hi)) as [[[m2 w2] t2]|] eqn:A1; cbn [bind] in H; [|discriminate].
    injection H as <- _ _. destruct (add_gt_AB _ _ _ _ _ _ _ _ A1 Hm LPm) as [L An]. exact (conj L An). }
  destruct (qeq0 hi).
  { destruct (add_lt m1 (tm Pm) lam true (Some lo, Some hi)) as [[[m2 w2] t2]|] eqn:A1; cbn [bind] in H; [|discriminate].
    injection H as <- _ _. destruct (add_lt_AB _ _ _ _ _ _ _ _ A1 Hm LPm) as [L An]. exact (conj L An). }
  b0 H Pc EPc. b0 H S0 ES0. b0 H P1 EP1. b0 H n En. b0 H q Eqq. destruct q as [[P2 lo2] hi2].
  match type of H with bind (add_eq ?mm _ _ _) _ = _ => set (m2 := mm) in H end.
  destruct (add_eq m2 (tm P2) lam (Some lo2, Some hi2)) as [[[m3 w3] t3]|] eqn:A1; cbn [bind] in H; [|discriminate].
  injection H as <- _ _.
  set (a0 := anc m) in *. set (top := (S a0 + n)%nat).
  assert (Hsign : eLP (AB top) (EBin false OpSub (EBin false OpMul (EScalar 2) (boolean_var_expr (anc_label a0))) (EScalar 1))).
  { cbn [eLP]. split; [split; [exact I|]| exact I]. apply bvar_eLP. intros j Hj. apply anc_label_inj in Hj. unfold top. lia. }
  assert (LPc : LP (AB top) (tm Pc)) by (eapply AB_mono; [|eapply m_copy_LP; eassumption]; unfold top, a0; lia).
  assert (LS0 : LP (AB top) (tm S0)) by (eapply ev_LP; [exact ES0| exact Hsign]).
  assert (LP1 : LP (AB top) (tm P1)) by (apply (m_iadd_LP _ Pc (OModel S0) P1 LPc LS0 EP1)).
  assert (LP2 : LP (AB top) (tm P2)).
  { eapply (ne_slack_LP _ (S a0) lt n 0 P1 _ _ P2 lo2 hi2 top Eqq); [unfold top; lia| exact Hsign| exact LP1]. }
  destruct (add_eq_LP (AB top) m2 _ _ _ _ _ _ A1) as [L An].
  - unfold m2. simpl. eapply AB_mono; [|exact Hm]. unfold top, a0. lia.
  - exact LP2.
  - unfold m2 in An. simpl in An. cbn [pop_constraint with_cons tm anc]. rewrite An. fold a0. split; [exact L| unfold a0; lia].
Qed.

Theorem add_constraint_AB r m Pin lam lt b m' w t : add_constraint r m Pin lam lt b = Ok (m', w, t) ->
  LP (AB (anc m)) (tm m) -> LP (AB (anc m)) Pin -> LP (AB (anc m')) (tm m') /\ (anc m <= anc m')%nat.
Proof.
  destruct r; unfold add_constraint; intros H Hm HP.
  - destruct (add_eq_LP _ _ _ _ _ _ _ _ H Hm HP) as [L A]. rewrite A. split; [exact L| lia].
  - exact (add_ne_AB _ _ _ _ _ _ _ _ H Hm HP).
  - exact (add_lt_AB _ _ _ _ _ _ _ _ H Hm HP).
  - exact (add_le_AB _ _ _ _ _ _ _ _ H Hm HP).
  - exact (add_gt_AB _ _ _ _ _ _ _ _ H Hm HP).
  - exact (add_ge_AB _ _ _ _ _ _ _ _ H Hm HP).
Qed.

(* ---- consequences ---- *)
Definition later (a : nat) (l : label) : Prop := exists j, (a <= j)%nat /\ l = anc_label j.
Lemma LP_AB_indep a t : LP (AB a) t -> indep (later a) (fun x => eval x t).
Proof.
  intros H x x' _ _ Ha. apply ConvertProofs.eval_ext_in. intros k v i Hin Hi. first [apply (Ha i)| symmetry; apply (Ha i)].
  intros (j & Hj & E). specialize (H k v i Hin Hi j E). lia.
Qed.
(* what a call adds does not look at ancillas numbered from the new counter upwards *)
Theorem step_later m m' lam G : step_ok m m' lam G -> ~ lam == 0 ->
  LP (AB (anc m')) (tm m) -> LP (AB (anc m')) (tm m') -> indep (later (anc m')) G.
Proof.
  intros S Hl Lm Lm' x x' Hx Hx' Ha.
  pose proof (S x Hx) as E1. pose proof (S x' Hx') as E2.
  pose proof (LP_AB_indep _ _ Lm x x' Hx Hx' Ha) as I1. pose proof (LP_AB_indep _ _ Lm' x x' Hx Hx' Ha) as I2.
  cbv beta in I1, I2.
  assert (lam * G x' == lam * G x) by lra. apply (Qmult_inj_l _ _ lam Hl). exact H.
Qed.

Definition no_anc_terms (t : terms) : Prop := LP (AB 0) t.
Lemma no_anc_LP t : no_anc t -> forall a, LP (AB a) t.
Proof. intros H a k v i Hin Hi j Hj. exfalso. apply (H k v i j Hin Hi Hj). Qed.

Theorem run_calls_AB cs : forall m m', run_calls m cs = Ok m' -> LP (AB (anc m)) (tm m) ->
  Forall (fun c => no_anc (cc_P c)) cs -> LP (AB (anc m')) (tm m') /\ (anc m <= anc m')%nat.
Proof.
  induction cs as [|c cs IH]; simpl; intros m m' H Hm Hc.
  - injection H as <-. split; [exact Hm| lia].
  - destruct (add_constraint (cc_rel c) m (cc_P c) (cc_lam c) (cc_log c) (cc_bounds c)) as [[[m1 w] t]|] eqn:E; cbn [bind] in H; [|discriminate].
    inversion Hc as [|? ? Hn Hc']; subst.
    destruct (add_constraint_AB _ _ _ _ _ _ _ _ _ E Hm (no_anc_LP _ Hn _)) as [L1 A1].
    destruct (IH _ _ H L1 Hc') as [L2 A2]. split; [exact L2| lia].
Qed.

(* ---- PCSO: the conversions only re-use labels of their input ---- *)
From QV.Model Require Import Convert.
Lemma gen_b2s_sub k : forall key value i, In (key, value) (gen_b2s k) -> In i key -> In i k.
Proof.
  induction k as [|x k IH]; simpl; intros key value i H Hi; [destruct H as [E|[]]; injection E as <- _; destruct Hi|].
  apply in_flat_map in H. destruct H as ([key0 v0] & Hin & Hx). destruct Hx as [E|[E|[]]]; injection E as <- _.
  - destruct Hi as [<-|Hi]; [left; reflexivity| right; eapply IH; eassumption].
  - right. eapply IH; eassumption.
Qed.
Lemma gen_s2b_sub k : forall key value i, In (key, value) (gen_s2b k) -> In i key -> In i k.
Proof.
  induction k as [|x k IH]; simpl; intros key value i H Hi; [destruct H as [E|[]]; injection E as <- _; destruct Hi|].
  apply in_flat_map in H. destruct H as ([key0 v0] & Hin & Hx). destruct Hx as [E|[E|[]]]; injection E as <- _.
  - destruct Hi as [<-|Hi]; [left; reflexivity| right; eapply IH; eassumption].
  - right. eapply IH; eassumption.
Qed.
Lemma expand_LP (P : label -> Prop) gen t : (forall k key value i, In (key, value) (gen k) -> In i key -> In i k) ->
  LP P t -> LP P (expand gen t).
Proof.
  intros Hg H key value i Hin Hi. unfold expand in Hin. apply in_flat_map in Hin. destruct Hin as ([k v] & Hkv & Hm).
  apply in_map_iff in Hm. destruct Hm as ([key0 v0] & E & Hg0). injection E as <- _.
  eapply H; [exact Hkv| eapply Hg; eassumption].
Qed.
Lemma pubo_to_puso_LP P src t S : pubo_to_puso src t = Ok S -> LP P t -> LP P (tm S).
Proof. unfold pubo_to_puso. intros H Hl. eapply m_create_LP; [|exact H]. apply expand_LP; [apply gen_b2s_sub| exact Hl]. Qed.
Lemma puso_to_pubo_LP P src t S : puso_to_pubo src t = Ok S -> LP P t -> LP P (tm S).
Proof. unfold puso_to_pubo. intros H Hl. eapply m_create_LP; [|exact H]. apply expand_LP; [apply gen_s2b_sub| exact Hl]. Qed.

(* every ancilla spin present in a PCSO is below num_ancillas *)
Theorem pcso_add_AB r m Hin lam lt b m' w t : pcso_add r m Hin lam lt b = Ok (m', w, t) ->
  LP (AB (anc m)) (tm m) -> LP (AB (anc m)) Hin -> LP (AB (anc m')) (tm m') /\ (anc m <= anc m')%nat.
Proof.
  intros H Hm HP. unfold pcso_add in H. b0 H Hs EH.
  assert (LH : LP (AB (anc m)) (tm Hs)) by (eapply m_create_LP; eassumption).
  destruct (qeq0 lam); [injection H as <- _ _; simpl; split; [exact Hm| lia]|].
  b0 H Pb EPb. pose proof (puso_to_pubo_LP _ _ _ _ EPb LH) as LPb.
  destruct (add_constraint r (with_anc empty_pcbo (anc (append_constraint m r (tm Hs)))) (tm Pb) lam lt b) as [[[h w'] t']|] eqn:EA; cbn [bind] in H; [|discriminate].
  b0 H Sp ES. b0 H m2 EMi. injection H as <- _ _.
  destruct (add_constraint_AB _ _ _ _ _ _ _ _ _ EA) as [Lh Ah]; [simpl; intros k v i []| exact LPb|].
  simpl in Ah. pose proof (pubo_to_puso_LP _ _ _ _ ES Lh) as LS.
  destruct (m_iadd_frame _ _ _ EMi) as (_ & A2 & _). simpl in A2. rewrite A2. split; [|exact Ah].
  apply (m_iadd_LP (AB (anc h)) (with_anc (append_constraint m r (tm Hs)) (anc h)) (OModel Sp) m2); [simpl; eapply AB_mono; [exact Ah| exact Hm]| exact LS| exact EMi].
Qed.
