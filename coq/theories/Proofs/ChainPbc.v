(* C10: AlternatingSectorsChain with periodic boundary (N >= 3): value and ground states *)
From QV.Model Require Import Base Matrix Arith Expr Extrema Sat PCBO Logic Convert PCSO Problems.
From QV.Proofs Require Import BaseProofs KeyProofs ArithProofs ExprProofs InvProofs RefreshProofs ProblemsProofs.
From Coq Require Import Lia Lqa.
Open Scope Q_scope.

Lemma m_update_chain_keys (f : nat -> Q) : forall qs m m',
  m_update m (map (fun q => ([q; S q], f q)) qs) = Ok m' -> kd m = KQusoM ->
  forall k, In k (map fst (tm m')) -> In k (map fst (tm m)) \/ exists q, In q qs /\ k = [q; S q].
Proof.
  induction qs as [|q qs IH]; intros m m' H K k Hk; cbn [map m_update] in H.
  - injection H as <-. left. exact Hk.
  - destruct (m_setitem m [q; S q] (f q)) as [m1|] eqn:E1; cbn [bind] in H; [|discriminate].
    destruct (m_setitem_spec _ _ _ _ E1) as (k' & Hs & Ht & K1 & _). rewrite K, squash_pair in Hs. injection Hs as <-.
    destruct (IH m1 m' H ltac:(congruence) k Hk) as [Hin|(q' & Hq' & E)].
    + rewrite Ht in Hin. apply in_map_iff in Hin. destruct Hin as ([k0 v0] & <- & Hin0). apply set_sq_In in Hin0.
      destruct Hin0 as [[-> _]|Hin0]; [right; exists q; split; [left; reflexivity| reflexivity]| left; apply (in_map fst _ _ Hin0)].
    + right. exists q'. split; [right; exact Hq'| exact E].
Qed.

Lemma squash_wrap N : (3 <= N)%nat -> squash KQusoM [(N - 1)%nat; 0%nat] = Ok [0%nat; (N - 1)%nat].
Proof.
  intros H. unfold squash. cbn [is_spin is_quadratic squashS fold_right tog andb].
  destruct (N - 1)%nat as [|n] eqn:E; [lia|]. reflexivity.
Qed.

Theorem asc_value_pbc N chain min_s max_s H : asc_to_quso N chain min_s max_s true = Ok H -> (3 <= N)%nat ->
  forall z, spin_env z ->
  eval z (tm H) == chain_sum (asc_strength chain min_s max_s) z (seq 0 (N - 1))
                   + asc_strength chain min_s max_s (N - 1) * (z 0%nat * z (N - 1)%nat).
Proof.
  unfold asc_to_quso. intros HH HN z Hz.
  destruct (m_update (empty_model KQusoM) _) as [L|] eqn:EL; cbn [bind] in HH; [|discriminate].
  destruct (m_update_chain (asc_strength chain min_s max_s) z Hz (seq 0 (N - 1)) _ _ EL eq_refl (seq_NoDup _ _)) as [A KL]; [intros k []|].
  destruct (m_setitem_spec _ _ _ _ HH) as (k' & Hs & Ht & _). rewrite KL, (squash_wrap N HN) in Hs. injection Hs as <-.
  assert (Hfresh : ~ In [0%nat; (N - 1)%nat] (map fst (tm L))).
  { intros Hin. destruct (m_update_chain_keys _ _ _ _ EL eq_refl _ Hin) as [[]|(q & _ & E)]. injection E as <- E2. lia. }
  assert (G0 : get_sq (tm L) [0%nat; (N - 1)%nat] = 0) by (unfold get_sq; rewrite (lookup_None_notin _ _ Hfresh); reflexivity).
  rewrite Ht, eval_set_sq, G0, A. fold (asc_strength chain min_s max_s (N - 1)). simpl. ring.
Qed.

Theorem asc_ground_pbc N chain min_s max_s H z : asc_to_quso N chain min_s max_s true = Ok H -> (3 <= N)%nat ->
  0 < min_s -> 0 < max_s -> spin_env z -> (forall z', spin_env z' -> eval z (tm H) <= eval z' (tm H)) ->
  (forall q, (q < N - 1)%nat -> z q * z (S q) == 1) /\ z 0%nat * z (N - 1)%nat == 1.
Proof.
  intros HH HN Hmin Hmax Hz Hm.
  assert (Hneg : forall q0, asc_strength chain min_s max_s q0 < 0).
  { intros q0. unfold asc_strength. destruct (Nat.even (q0 / chain)); lra. }
  destruct (chain_lower (asc_strength chain min_s max_s) z (seq 0 (N - 1)) Hz (fun q0 _ => Hneg q0)) as [L1 L2].
  assert (H1 : spin_env (fun _ => 1)) by (intros i; left; reflexivity).
  pose proof (Hm _ H1) as M. rewrite (asc_value_pbc _ _ _ _ _ HH HN z Hz), (asc_value_pbc _ _ _ _ _ HH HN _ H1) in M.
  pose proof (Hneg (N - 1)%nat) as Hg.
  assert (P : z 0%nat * z (N - 1)%nat == 1 \/ z 0%nat * z (N - 1)%nat == -(1)).
  { destruct (Hz 0%nat) as [E1|E1], (Hz (N - 1)%nat) as [E2|E2]; rewrite E1, E2; [left|right|right|left]; ring. }
  destruct P as [P|P]; rewrite P in M.
  - split; [|exact P]. intros q Hq. apply L2; [lra| apply in_seq; lia].
  - exfalso. lra.
Qed.

(* two spins with periodic boundary: the closing coupling (1, 0) is the key (0, 1) again and overwrites the open chain's single
   coupling with the strength of position 1 *)
Theorem asc_value_pbc2 chain min_s max_s H : asc_to_quso 2 chain min_s max_s true = Ok H ->
  forall z, spin_env z -> eval z (tm H) == asc_strength chain min_s max_s 1 * (z 0%nat * z 1%nat).
Proof.
  unfold asc_to_quso. intros HH z Hz.
  destruct (m_update (empty_model KQusoM) _) as [L|] eqn:EL; cbn [bind] in HH; [|discriminate].
  destruct (m_update_chain (asc_strength chain min_s max_s) z Hz (seq 0 (2 - 1)) _ _ EL eq_refl (seq_NoDup _ _)) as [A KL]; [intros k []|].
  destruct (m_setitem_spec _ _ _ _ HH) as (k' & Hs & Ht & _). rewrite KL in Hs.
  assert (Ek : k' = [0%nat; 1%nat]) by (vm_compute in Hs; congruence). subst k'.
  rewrite Ht, eval_set_sq.
  (* the open chain's coupling is the stored value of that key *)
  assert (G : get_sq (tm L) [0%nat; 1%nat] * (z 0%nat * z 1%nat) == eval z (tm L)).
  { cbn [map seq Nat.sub m_update] in EL. destruct (m_setitem (empty_model KQusoM) [0%nat; 1%nat] _) as [m1|] eqn:E1; cbn [bind] in EL; [|discriminate].
    injection EL as <-. destruct (m_setitem_spec _ _ _ _ E1) as (k1 & Hs1 & Ht1 & _).
    assert (Ek1 : k1 = [0%nat; 1%nat]) by (vm_compute in Hs1; congruence). subst k1.
    rewrite Ht1. cbn [tm empty_model]. unfold set_sq, get_sq. destruct (qzero _) eqn:Ez.
    - simpl. ring.
    - simpl. ring. }
  unfold asc_strength. change ((2 - 1) / chain)%nat with (1 / chain)%nat. cbn [mon].
  set (f := if Nat.even (1 / chain) then - max_s else - min_s). rewrite <- G. ring.
Qed.

Theorem asc_ground_pbc2 chain min_s max_s H z : asc_to_quso 2 chain min_s max_s true = Ok H ->
  0 < min_s -> 0 < max_s -> spin_env z -> (forall z', spin_env z' -> eval z (tm H) <= eval z' (tm H)) ->
  z 0%nat * z 1%nat == 1.
Proof.
  intros HH Hmin Hmax Hz Hm.
  assert (Hneg : asc_strength chain min_s max_s 1 < 0) by (unfold asc_strength; destruct (Nat.even (1 / chain)); lra).
  assert (H1 : spin_env (fun _ => 1)) by (intros i; left; reflexivity).
  pose proof (Hm _ H1) as M. rewrite (asc_value_pbc2 _ _ _ _ HH z Hz), (asc_value_pbc2 _ _ _ _ HH _ H1) in M.
  destruct (Hz 0%nat) as [E1|E1], (Hz 1%nat) as [E2|E2]; rewrite E1, E2 in *; try ring; exfalso; nra.
Qed.
