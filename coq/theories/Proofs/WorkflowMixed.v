(* C08: sequences that mix comparison constraints and logic constraints on one PCBO.
   Part 1: where the labels of a logic constraint's penalty come from (the operands); part 2: the exchange theorem. *)
From QV.Model Require Import Base Matrix Arith Expr Extrema Sat PCBO Logic.
From QV.Proofs Require Import BaseProofs KeyProofs ArithProofs LabelProofs SatProofs PenaltyArith PCBOProofs LogicProofs
  AncProofs WorkflowProofs WorkflowSeq.
From QV.Proofs Require ConvertProofs.
From Coq Require Import Lia Lqa.
Open Scope Q_scope.

(* ---- part 1: label provenance ---- *)
Fixpoint sx_LP (P : label -> Prop) (v : sx) : Prop :=
  match v with
  | SLbl l => P l
  | SDict t => LP P t
  | SMdl _ t => LP P t
  | SGate _ args => (fix go (l : list sx) : Prop := match l with [] => True | a :: l' => sx_LP P a /\ go l' end) args
  end.
Lemma sx_LP_args P g args : sx_LP P (SGate g args) -> Forall (sx_LP P) args.
Proof. simpl. induction args as [|a l IH]; intros H; [constructor|]. destruct H as [Ha Hl]. constructor; [exact Ha| apply IH, Hl]. Qed.

Lemma e_one_eLP (P : label -> Prop) : eLP P e_one.
Proof. unfold e_one. simpl. split; [intros k v i []| exact I]. Qed.
Lemma e_not_eLP (P : label -> Prop) x : eLP P x -> eLP P (e_not x).
Proof. intros H. unfold e_not. simpl. split; [exact I| exact H]. Qed.
Lemma e_or_eLP (P : label -> Prop) es : Forall (eLP P) es -> eLP P (e_or es).
Proof.
  intros H. unfold e_or. destruct H as [|a rest Ha Hr]; [apply e_one_eLP|].
  revert a Ha. induction Hr as [|e es' He Hes IH]; intros a Ha; simpl; [exact Ha|].
  apply IH. simpl. tauto.
Qed.
Lemma e_xor_eLP (P : label -> Prop) es : Forall (eLP P) es -> eLP P (e_xor es).
Proof.
  intros H. unfold e_xor. destruct H as [|a rest Ha Hr]; [apply e_one_eLP|].
  revert a Ha. induction Hr as [|e es' He Hes IH]; intros a Ha; simpl; [exact Ha|].
  apply IH. simpl. tauto.
Qed.
Lemma gate_expr_eLP (P : label -> Prop) g es : Forall (eLP P) es -> eLP P (gate_expr g es).
Proof.
  intros H. destruct g; simpl.
  - destruct H as [|a rest Ha Hr]; [exact I|]. destruct Hr; [exact Ha| exact I].
  - destruct H as [|a rest Ha Hr]; [exact I|]. destruct Hr; [apply e_not_eLP, Ha| exact I].
  - apply e_and_eLP, H.
  - apply e_not_eLP, e_and_eLP, H.
  - apply e_or_eLP, H.
  - apply e_not_eLP, e_or_eLP, H.
  - apply e_xor_eLP, H.
  - apply e_not_eLP, e_xor_eLP, H.
Qed.
Lemma sat_expr_eLP (P : label -> Prop) v : sx_LP P v -> eLP P (sat_expr v).
Proof.
  induction v as [l|t|k t|g args IH] using sx_ind'; intros H; simpl.
  - intros k v i [E|[]] Hi. injection E as <- _. destruct Hi as [<-|[]]. exact H.
  - exact H.
  - exact H.
  - apply gate_expr_eLP. pose proof (sx_LP_args P g args H) as Ha. clear H.
    induction IH as [|a l Pa Pl IHl]; [constructor|]. inversion Ha; subst. constructor; [apply Pa; assumption| apply IHl; assumption].
Qed.
Lemma map_B_eLP (P : label -> Prop) vs : Forall (sx_LP P) vs -> Forall (eLP P) (map B vs).
Proof. intros H. induction H as [|v vs Hv Hvs IH]; simpl; constructor; [apply sat_expr_eLP, Hv| exact IH]. Qed.

Lemma empty_pcbo_LP (P : label -> Prop) : LP P (tm empty_pcbo).
Proof. intros k v i []. Qed.
Lemma tmp_eq01_LP (P : label -> Prop) X t : tmp_eq01 X = Ok t -> eLP P X -> LP P (tm t).
Proof.
  unfold tmp_eq01. intros H HX. inv_bind H. inv_bind H. destruct a0 as [[t0 w0] g0]. injection H as <-.
  apply (add_eq_LP P empty_pcbo (tm a) 1 (Some 0, Some 1) t0 w0 g0 E0 (empty_pcbo_LP P) (ev_LP P X a E HX)).
Qed.

Lemma Forall_firstn' {A} (Q0 : A -> Prop) n : forall l, Forall Q0 l -> Forall Q0 (firstn n l).
Proof. induction n as [|n IH]; intros l H; [constructor|]. destruct H as [|a l Ha Hl]; simpl; [constructor|]. constructor; [exact Ha| apply IH, Hl]. Qed.
Lemma Forall_skipn' {A} (Q0 : A -> Prop) n : forall l, Forall Q0 l -> Forall Q0 (skipn n l).
Proof. induction n as [|n IH]; intros l H; [exact H|]. destruct H as [|a l Ha Hl]; simpl; [constructor|]. apply IH, Hl. Qed.

Ltac elp :=
  repeat match goal with
  | |- eLP _ (esub _ _) => unfold esub; cbn [eLP]; split
  | |- eLP _ (eadd _ _) => unfold eadd; cbn [eLP]; split
  | |- eLP _ (emul _ _) => unfold emul; cbn [eLP]; split
  | |- eLP _ (sub1 _) => unfold sub1; cbn [eLP]; split
  | |- eLP _ (EScalar _) => exact I
  | |- eLP _ (e_not _) => apply e_not_eLP
  | |- eLP _ (B _) => apply sat_expr_eLP; assumption
  | |- eLP _ (e_and (map B _)) => apply e_and_eLP, map_B_eLP; try assumption
  | |- eLP _ (e_or (map B _)) => apply e_or_eLP, map_B_eLP; try assumption
  | |- eLP _ (e_xor (map B _)) => apply e_xor_eLP, map_B_eLP; try assumption
  | |- eLP _ (EM _) => apply EM_eLP
  | |- Forall _ (firstn _ _) => apply Forall_firstn'; assumption
  | |- Forall _ (skipn _ _) => apply Forall_skipn'; assumption
  | |- True => exact I
  | |- _ /\ _ => split
  end.

Lemma logic_poly_eLP (P : label -> Prop) g is_eq ops X lo hi : logic_poly g is_eq ops = Ok (X, lo, hi) ->
  Forall (sx_LP P) ops -> eLP P X.
Proof.
  intros H Hops. unfold logic_poly, halves in H. cbv beta zeta in H.
  destruct is_eq.
  - destruct ops as [|a vs]; [destruct g; discriminate|]. inversion Hops as [|? ? Ha Hvs]; subst.
    destruct g.
    + (* BUFFER *) destruct vs as [|b [|? ?]]; try discriminate. inversion Hvs; subst. injection H as <- _ _. elp.
    + (* NOT *) destruct vs as [|b [|? ?]]; try discriminate. inversion Hvs; subst.
      inv_bind H. injection H as <- _ _. pose proof (tmp_eq01_LP P _ _ E ltac:(elp)). elp; assumption.
    + (* AND *) destruct (length vs <? 2)%nat; [discriminate|]. cbv beta iota zeta in H. injection H as <- _ _.
      unfold and_gadget_expr. cbn [eLP]. repeat split; elp.
    + (* NAND *) destruct (length vs <? 2)%nat; [discriminate|]. cbv beta iota zeta in H. injection H as <- _ _. elp.
    + (* OR *) destruct (length vs <? 2)%nat; [discriminate|].
      destruct vs as [|v1 [|v2 [|v3 vs']]].
      * inv_bind H. inv_bind H. injection H as <- _ _.
        pose proof (tmp_eq01_LP P _ _ E ltac:(elp)) as L1. pose proof (tmp_eq01_LP P _ _ E0 ltac:(elp; exact L1)) as L2. elp; assumption.
      * inv_bind H. inv_bind H. injection H as <- _ _.
        pose proof (tmp_eq01_LP P _ _ E ltac:(elp)) as L1. pose proof (tmp_eq01_LP P _ _ E0 ltac:(elp; exact L1)) as L2. elp; assumption.
      * inversion Hvs as [|? ? H1 H2']; subst. inversion H2' as [|? ? H2 _]; subst. injection H as <- _ _. elp.
      * inv_bind H. inv_bind H. injection H as <- _ _.
        pose proof (tmp_eq01_LP P _ _ E ltac:(elp)) as L1. pose proof (tmp_eq01_LP P _ _ E0 ltac:(elp; exact L1)) as L2. elp; assumption.
    + (* NOR *) destruct (length vs <? 2)%nat; [discriminate|].
      destruct vs as [|v1 [|v2 [|v3 vs']]].
      * inv_bind H. injection H as <- _ _. pose proof (tmp_eq01_LP P _ _ E ltac:(elp)) as L1. elp; assumption.
      * inv_bind H. injection H as <- _ _. pose proof (tmp_eq01_LP P _ _ E ltac:(elp)) as L1. elp; assumption.
      * inversion Hvs as [|? ? H1 H2']; subst. inversion H2' as [|? ? H2 _]; subst. injection H as <- _ _. elp.
      * inv_bind H. injection H as <- _ _. pose proof (tmp_eq01_LP P _ _ E ltac:(elp)) as L1. elp; assumption.
    + (* XOR *) inv_bind H. inv_bind H. injection H as <- _ _.
      pose proof (tmp_eq01_LP P _ _ E ltac:(elp)) as L1. pose proof (tmp_eq01_LP P _ _ E0 ltac:(elp; exact L1)) as L2. elp; assumption.
    + (* XNOR *) inv_bind H. injection H as <- _ _. pose proof (tmp_eq01_LP P _ _ E ltac:(elp)) as L1. elp; assumption.
  - destruct g.
    + destruct ops as [|a [|? ?]]; try discriminate. inversion Hops; subst. injection H as <- _ _. elp.
    + destruct ops as [|a [|? ?]]; try discriminate. inversion Hops; subst. injection H as <- _ _. elp.
    + injection H as <- _ _. elp.
    + injection H as <- _ _. elp.
    + injection H as <- _ _. elp.
    + inv_bind H. injection H as <- _ _. pose proof (tmp_eq01_LP P _ _ E ltac:(elp)) as L1. elp; assumption.
    + injection H as <- _ _. elp.
    + inv_bind H. injection H as <- _ _. pose proof (tmp_eq01_LP P _ _ E ltac:(elp)) as L1. elp; assumption.
Qed.

Theorem add_logic_LP (P : label -> Prop) g is_eq m ops lam m' w t : add_logic g is_eq m ops lam = Ok (m', w, t) ->
  LP P (tm m) -> Forall (sx_LP P) ops -> LP P (tm m') /\ anc m' = anc m.
Proof.
  unfold add_logic. intros H Hm Hops. inv_bind H. inv_bind H. destruct a0 as [[X lo] hi]. inv_bind H.
  apply (add_eq_LP P m (tm a0) lam (Some lo, Some hi) m' w t H Hm).
  apply (ev_LP P X a0 E1). apply (logic_poly_eLP P g is_eq ops X lo hi E0 Hops).
Qed.

(* ---- part 2: sequences of comparison and logic constraints ---- *)
Lemma sx_LP_mono (P P' : label -> Prop) v : (forall l, P l -> P' l) -> sx_LP P v -> sx_LP P' v.
Proof.
  intros HP. induction v as [l|t|k t|g args IH] using sx_ind'; intros H; simpl in *.
  - apply HP, H.
  - intros k v i Hin Hi. apply HP, (H k v i Hin Hi).
  - intros k0 v i Hin Hi. apply HP, (H k0 v i Hin Hi).
  - induction IH as [|a l Pa Pl IHl]; [exact I|]. destruct H as [Ha Hl]. split; [apply Pa, Ha| apply IHl, Hl].
Qed.

Lemma qzero_ext a b : a == b -> qzero a = qzero b.
Proof.
  intros E. destruct (qzero a) eqn:Ea, (qzero b) eqn:Eb; try reflexivity.
  - apply qzero_spec in Ea. rewrite E in Ea. apply qzero_spec in Ea. congruence.
  - apply qzero_spec in Eb. rewrite <- E in Eb. apply qzero_spec in Eb. congruence.
Qed.

Lemma truth_ext (P : label -> Prop) x x' v : (forall l, P l -> x' l == x l) -> sx_LP P v -> truth x' v = truth x v.
Proof.
  intros Hx. induction v as [l|t|k t|g args IH] using sx_ind'; intros H; cbn [truth].
  - f_equal. apply qzero_ext, Hx, H.
  - f_equal. apply qzero_ext. apply ConvertProofs.eval_ext_in. intros k v i Hin Hi. apply Hx, (H k v i Hin Hi).
  - f_equal. apply qzero_ext. apply ConvertProofs.eval_ext_in. intros k0 v i Hin Hi. apply Hx, (H k0 v i Hin Hi).
  - assert (E : map (truth x') args = map (truth x) args).
    { pose proof (sx_LP_args P g args H) as Ha. clear H. induction IH as [|a l Pa Pl IHl]; [reflexivity|].
      inversion Ha; subst. cbn [map]. rewrite Pa by assumption. rewrite IHl by assumption. reflexivity. }
    rewrite E. reflexivity.
Qed.

Lemma logic_holds_ext (P : label -> Prop) g is_eq x x' ops : (forall l, P l -> x' l == x l) -> Forall (sx_LP P) ops ->
  logic_holds g is_eq x' ops = logic_holds g is_eq x ops.
Proof.
  intros Hx Hops. assert (E : forall vs, Forall (sx_LP P) vs -> map (truth x') vs = map (truth x) vs).
  { intros vs Hv. induction Hv as [|a l Ha Hl IH]; [reflexivity|]. cbn [map]. rewrite (truth_ext P x x' a Hx Ha), IH. reflexivity. }
  unfold logic_holds. destruct is_eq.
  - destruct Hops as [|a vs Ha Hvs]; [reflexivity|]. rewrite (truth_ext P x x' a Hx Ha), (E vs Hvs). reflexivity.
  - rewrite (E ops Hops). reflexivity.
Qed.

Inductive mcall := MC (c : ccall) | ML (g : gate) (is_eq : bool) (ops : list sx) (lam : Q).
Fixpoint run_mixed (m : model) (cs : list mcall) : result model :=
  match cs with
  | [] => Ok m
  | MC c :: cs' => bind (add_constraint (cc_rel c) m (cc_P c) (cc_lam c) (cc_log c) (cc_bounds c))
                        (fun '(m', w, _) => match w with WUnsat => Err ValueError | _ => run_mixed m' cs' end)
  | ML g e ops lam :: cs' => bind (add_logic g e m ops lam) (fun '(m', _, _) => run_mixed m' cs')
  end.
Definition mR (c : mcall) (x : env) : Prop :=
  match c with MC c => cR c x | ML g e ops _ => logic_holds g e x ops = true end.
Definition mlam (c : mcall) : Q := match c with MC c => cc_lam c | ML _ _ _ lam => lam end.
(* a logic call: positive weight, operands 0/1-valued on boolean assignments, and free of ancilla labels *)
Definition mcall_ok (c : mcall) : Prop :=
  match c with
  | MC c => call_ok c
  | ML g e ops lam => 0 < lam /\ (forall x, boolean_env x -> Forall (sx_ok x) ops) /\ Forall (sx_LP (AB 0)) ops
  end.

Lemma AB0_any a l : AB 0 l -> AB a l.
Proof. intros H j Hj. specialize (H j Hj). lia. Qed.

Lemma run_mixed_pens : forall cs m m', run_mixed m cs = Ok m' -> bkind (kd m) -> LP (AB (anc m)) (tm m) -> Forall mcall_ok cs ->
  exists ps,
    Forall2 (fun c p => plam p = mlam c /\ pR p = mR c) cs ps /\
    (forall x, boolean_env x -> eval x (tm m') == eval x (tm m) + sumL ps x) /\
    Forall (pen_good boolean_env) ps /\ later_ok boolean_env ps /\
    (forall p l, In p ps -> pfr p l -> later (anc m) l) /\
    LP (AB (anc m')) (tm m') /\ kd m' = kd m.
Proof.
  induction cs as [|c cs IH]; intros m m' H Hk Hm Hok; cbn [run_mixed] in H.
  - injection H as <-. exists []. split; [constructor|]. split; [intros x _; simpl; ring|]. split; [constructor|].
    split; [exact I|]. split; [intros p l []|]. split; [exact Hm| reflexivity].
  - inversion Hok as [|? ? Hc Hok']; subst. destruct c as [c|g e ops lam].
    + (* a comparison constraint: as in run_ok_pens *)
      destruct (add_constraint (cc_rel c) m (cc_P c) (cc_lam c) (cc_log c) (cc_bounds c)) as [[[m1 w] t]|] eqn:E; cbn [bind] in H; [|discriminate].
      assert (Hw : w <> WUnsat) by (intros ->; discriminate).
      assert (H1 : run_mixed m1 cs = Ok m') by (destruct w; [exact H| contradiction| exact H]). clear H.
      destruct Hc as (Hl & Hi & Hb & Hn).
      assert (Hlam : ~ cc_lam c == 0) by (intros Hz; rewrite Hz in Hl; apply (Qlt_irrefl 0), Hl).
      destruct (add_constraint_spec _ _ _ _ _ _ _ _ _ E Hk Hlam Hi Hb (fun n => no_anc_indep _ _ _ Hn))
        as (G & P & _ & Sok & (K1 & _) & A1 & NN & PR).
      destruct (PR Hw) as (PN & PS & PU).
      destruct (add_constraint_AB _ _ _ _ _ _ _ _ _ E Hm (no_anc_LP _ Hn _)) as [L1 _].
      assert (Hk1 : bkind (kd m1)) by (rewrite K1; exact Hk).
      destruct (IH m1 m' H1 Hk1 L1 Hok') as (ps & F2 & V & Gd & Lo & Fr & Lm' & Km').
      set (p0 := {| plam := cc_lam c; pG := G; pR := cR c; pfr := fresh_lbl (anc m) (anc m1) |}).
      exists (p0 :: ps). split; [constructor; [split; reflexivity| exact F2]|]. split.
      { intros x Hx. rewrite (V x Hx), (Sok x Hx). simpl. ring. }
      split.
      { constructor; [|exact Gd]. split; [exact PN|]. split; [|split].
        - intros x Hx HR. destruct (PS x Hx HR) as (x' & B1 & B2 & B3). exists x'. auto.
        - exact PU.
        - intros x. apply rel_prop_dec. }
      split.
      { split; [|exact Lo]. intros x x' Hx Hx' Ha.
        apply (step_later m m1 (cc_lam c) G Sok Hlam (AB_mono _ _ _ A1 Hm) L1 x x' Hx Hx').
        intros l Hnl. apply Ha. intros (q & Hq & Hfl). apply Hnl. apply (Fr q l Hq Hfl). }
      split.
      { intros q l [<-|Hq] Hfl; [apply (fresh_later _ _ _ Hfl)| apply (later_mono _ _ _ A1), (Fr q l Hq Hfl)]. }
      split; [exact Lm'| congruence].
    + (* a logic constraint: no ancillas, the penalty vanishes exactly where the gate relation holds *)
      destruct (add_logic g e m ops lam) as [[[m1 w] t]|] eqn:E; cbn [bind] in H; [|discriminate].
      destruct Hc as (Hl & Hsx & Hlp).
      assert (Hlam : ~ lam == 0) by (intros Hz; rewrite Hz in Hl; apply (Qlt_irrefl 0), Hl).
      destruct (add_logic_spec g e m ops lam m1 w t E Hk Hlam Hsx) as (G & Pc & Sok & A1 & K1 & _ & _ & PG).
      assert (Hops : Forall (sx_LP (AB (anc m))) ops).
      { eapply Forall_impl; [|exact Hlp]. intros v Hv. eapply sx_LP_mono; [|exact Hv]. intros l. apply AB0_any. }
      destruct (add_logic_LP (AB (anc m)) g e m ops lam m1 w t E Hm Hops) as [L1 _].
      rewrite <- A1 in L1.
      assert (Hk1 : bkind (kd m1)) by (rewrite K1; exact Hk).
      destruct (IH m1 m' H Hk1 L1 Hok') as (ps & F2 & V & Gd & Lo & Fr & Lm' & Km').
      set (p0 := {| plam := lam; pG := G; pR := (fun x => logic_holds g e x ops = true); pfr := (fun _ => False) |}).
      exists (p0 :: ps). split; [constructor; [split; reflexivity| exact F2]|]. split.
      { intros x Hx. rewrite (V x Hx), (Sok x Hx). simpl. ring. }
      split.
      { constructor; [|exact Gd]. split; [intros x Hx; apply (PG x Hx)|]. split; [|split].
        - intros x Hx HR. exists x. split; [exact Hx|]. split; [apply agree_off_refl| apply (PG x Hx), HR].
        - intros x Hx HR. apply (PG x Hx). cbn [pR p0] in HR. destruct (logic_holds g e x ops); [congruence| reflexivity].
        - intros x. cbn [pR p0]. destruct (logic_holds g e x ops); [left; reflexivity| right; discriminate]. }
      split.
      { split; [|exact Lo]. intros x x' Hx Hx' Ha.
        assert (Lm1 : LP (AB (anc m1)) (tm m)) by (rewrite A1; exact Hm).
        apply (step_later m m1 lam G Sok Hlam Lm1 L1 x x' Hx Hx').
        intros l Hnl. apply Ha. intros (q & Hq & Hfl). apply Hnl. apply (Fr q l Hq Hfl). }
      split.
      { intros q l [<-|Hq] Hfl; [destruct Hfl| rewrite <- A1; apply (Fr q l Hq Hfl)]. }
      split; [exact Lm'| congruence].
Qed.

Theorem workflow_mixed cs m m' W x0 xs :
  run_mixed m cs = Ok m' -> bkind (kd m) -> no_anc (tm m) -> Forall mcall_ok cs ->
  let f := fun x => eval x (tm m) in
  (forall x x', boolean_env x -> boolean_env x' -> f x - f x' <= W) ->
  (forall c, In c cs -> W < mlam c) ->
  boolean_env x0 -> (forall c, In c cs -> mR c x0) ->
  boolean_env xs -> (forall x, boolean_env x -> eval xs (tm m') <= eval x (tm m')) ->
  (forall c, In c cs -> mR c xs) /\
  (forall x, boolean_env x -> (forall c, In c cs -> mR c x) -> f xs <= f x) /\
  eval xs (tm m') == f xs.
Proof.
  intros H Hk Hna Hok f HW Hlam Hx0 HR0 Hxs Hmin.
  destruct (run_mixed_pens cs m m' H Hk (no_anc_LP _ Hna _) Hok) as (ps & F2 & V & Gd & Lo & Fr & _ & _).
  assert (In_c : forall c, In c cs -> exists p, In p ps /\ plam p = mlam c /\ pR p = mR c).
  { clear -F2. induction F2 as [|c p cs ps [A B0] F IH]; intros c0 Hin; [destruct Hin|].
    destruct Hin as [<-|Hin]; [exists p; split; [left; reflexivity| auto]|]. destruct (IH c0 Hin) as (q & Hq & Hr). exists q. split; [right; exact Hq| exact Hr]. }
  assert (In_p : forall p, In p ps -> exists c, In c cs /\ plam p = mlam c /\ pR p = mR c).
  { clear -F2. induction F2 as [|c p cs ps [A B0] F IH]; intros p0 Hin; [destruct Hin|].
    destruct Hin as [<-|Hin]; [exists c; split; [left; reflexivity| auto]|]. destruct (IH p0 Hin) as (q & Hq & Hr). exists q. split; [right; exact Hq| exact Hr]. }
  assert (Hanc : forall l, anyL ps l -> exists j, l = anc_label j).
  { intros l (p & Hp & Hfl). destruct (Fr p l Hp Hfl) as (j & _ & E). exists j. exact E. }
  assert (Hind : forall t, no_anc t -> forall x x', agree_off (anyL ps) x x' -> eval x' t == eval x t).
  { intros t Hn x x' Ha. apply ConvertProofs.eval_ext_in. intros k v i Hin Hi. apply (Ha i).
    intros Hc. destruct (Hanc i Hc) as (j & E). apply (Hn k v i j Hin Hi E). }
  destruct (minimiser_feasible_optimalL boolean_env f W HW ps x0 xs Gd Lo) as (F1 & F3 & F4).
  - intros x x' _ _ Ha. apply (Hind _ Hna x x' Ha).
  - intros p x x' Hp _ _ Ha. destruct (In_p p Hp) as (c & Hc & _ & ER). rewrite ER.
    pose proof (proj1 (Forall_forall _ _) Hok c Hc) as Hcok. destruct c as [c|g e ops lam]; cbn [mR mcall_ok] in *.
    + unfold cR. destruct Hcok as (_ & _ & _ & Hn). pose proof (Hind _ Hn x x' Ha) as E. destruct (cc_rel c); simpl; rewrite E; tauto.
    + destruct Hcok as (_ & _ & Hlp).
      assert (E : logic_holds g e x' ops = logic_holds g e x ops).
      { apply (logic_holds_ext (AB 0)); [|exact Hlp]. intros l Hl. apply (Ha l). intros Hc'. destruct (Hanc l Hc') as (j & Ej).
        specialize (Hl j Ej). lia. }
      rewrite E. tauto.
  - intros p Hp. destruct (In_p p Hp) as (c & Hc & EL & _). rewrite EL. apply Hlam, Hc.
  - exact Hx0.
  - intros p Hp. destruct (In_p p Hp) as (c & Hc & _ & ER). rewrite ER. apply HR0, Hc.
  - exact Hxs.
  - intros x Hx. unfold f. rewrite <- (V xs Hxs), <- (V x Hx). apply Hmin, Hx.
  - split; [|split].
    + intros c Hc. destruct (In_c c Hc) as (p & Hp & _ & ER). rewrite <- ER. apply F1, Hp.
    + intros x Hx Hfx. apply F3; [exact Hx|]. intros p Hp. destruct (In_p p Hp) as (c & Hc & _ & ER). rewrite ER. apply Hfx, Hc.
    + rewrite (V xs Hxs). unfold f in F4. exact F4.
Qed.

(* ... and through degree reduction, from the bookkeeping invariant of the objective model *)
From QV.Model Require Import Convert Reduce.
From QV.Proofs Require Import InvProofs ReduceProofs InvConstraint.

Lemma add_logic_Inv g e m ops lam m' w t : add_logic g e m ops lam = Ok (m', w, t) -> Inv m -> Inv m'.
Proof.
  unfold add_logic. intros H HI. inv_bind H. inv_bind H. destruct a0 as [[X lo] hi]. inv_bind H.
  eapply add_eq_Inv; eassumption.
Qed.

Lemma run_mixed_Inv cs : forall m m', run_mixed m cs = Ok m' -> Inv m -> Inv m'.
Proof.
  induction cs as [|c cs IH]; intros m m' H HI; cbn [run_mixed] in H; [injection H as <-; exact HI|]. destruct c as [c|g e ops lam].
  - destruct (add_constraint (cc_rel c) m (cc_P c) (cc_lam c) (cc_log c) (cc_bounds c)) as [[[m1 w] t]|] eqn:E; cbn [bind] in H; [|discriminate].
    assert (H1 : run_mixed m1 cs = Ok m') by (destruct w; [exact H| discriminate| exact H]).
    apply (IH m1 m' H1). eapply add_constraint_Inv; eassumption.
  - destruct (add_logic g e m ops lam) as [[[m1 w] t]|] eqn:E; cbn [bind] in H; [|discriminate].
    apply (IH m1 m' H). eapply add_logic_Inv; eassumption.
Qed.

Theorem workflow_mixed_reduced cs m m' W x0 out deg l pairs D s :
  run_mixed m cs = Ok m' -> bkind (kd m) -> no_anc (tm m) -> Forall mcall_ok cs ->
  let f := fun x => eval x (tm m) in
  (forall x x', boolean_env x -> boolean_env x' -> f x - f x' <= W) ->
  (forall c, In c cs -> W < mlam c) ->
  boolean_env x0 -> (forall c, In c cs -> mR c x0) ->
  reduce_degree m' out deg l pairs = Ok D -> bmat out -> Inv m -> is_labelled (kd m) = true ->
  (forall ms, mapped_self (mp m') (tm m') = Ok ms -> forall k v, In (k, v) ms -> Qabs v <= lam_fun l v) ->
  boolean_env s -> (forall s', boolean_env s' -> eval s (tm D) <= eval s' (tm D)) ->
  let xs := ConvertProofs.pull (mp m') s in
  (forall c, In c cs -> mR c xs) /\
  (forall x, boolean_env x -> (forall c, In c cs -> mR c x) -> f xs <= f x) /\
  eval s (tm D) == f xs.
Proof.
  intros H Hk Hna Hok f HW Hlam Hx0 HR0 HD Hbm HI Hl Hpen Hs Hmin xs.
  destruct (run_mixed_pens cs m m' H Hk (no_anc_LP _ Hna _) Hok) as (_ & _ & _ & _ & _ & _ & _ & Kd).
  destruct (reduce_minimiser _ _ _ _ _ _ HD Hbm (run_mixed_Inv cs m m' H HI) ltac:(rewrite Kd; exact Hl) Hpen s Hs Hmin) as [E Mx].
  fold xs in E, Mx.
  destruct (workflow_mixed cs m m' W x0 xs H Hk Hna Hok HW Hlam Hx0 HR0 (pull_bool _ _ Hs) Mx) as (A & B0 & C0).
  split; [exact A|]. split; [exact B0|]. rewrite <- E. exact C0.
Qed.
