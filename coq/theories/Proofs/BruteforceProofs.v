(* C09: the brute-force loop returns the exact minimum over the valid
   assignments and, with all_solutions, exactly the minimisers, each once. *)
From QV.Model Require Import Base Bruteforce.
From Coq Require Import Lia Lqa.
Open Scope Q_scope.

Lemma qle_spec a b : if qle a b then a <= b else b < a.
Proof.
  unfold qle. destruct (a ?= b) eqn:E.
  - apply Qeq_alt in E. rewrite E. apply Qle_refl.
  - apply Qlt_alt in E. apply Qlt_le_weak, E.
  - apply Qgt_alt in E. exact E.
Qed.
Lemma qltb_spec a b : if qltb a b then a < b else b <= a.
Proof.
  unfold qltb. destruct (a ?= b) eqn:E.
  - apply Qeq_alt in E. rewrite E. apply Qle_refl.
  - apply Qlt_alt in E. exact E.
  - apply Qgt_alt in E. apply Qlt_le_weak, E.
Qed.

(* ---- buckets ---- *)
Lemma Qeq_bool_ext v v' w : v == v' -> Qeq_bool v w = Qeq_bool v' w.
Proof.
  intros H. destruct (Qeq_bool v w) eqn:E, (Qeq_bool v' w) eqn:E'; try reflexivity.
  - apply Qeq_bool_iff in E. rewrite H in E. apply Qeq_bool_iff in E. congruence.
  - apply Qeq_bool_iff in E'. rewrite <- H in E'. apply Qeq_bool_iff in E'. congruence.
Qed.
Lemma bucket_get_ext v v' b : v == v' -> bucket_get v b = bucket_get v' b.
Proof.
  intros H. induction b as [|[w l] b IH]; simpl; [reflexivity|].
  rewrite (Qeq_bool_ext v v' w H), IH. reflexivity.
Qed.
Lemma bucket_get_add v x b w y :
  In y (bucket_get w (bucket_add v x b)) <-> In y (bucket_get w b) \/ (y = x /\ w == v).
Proof.
  induction b as [|[u l] b IH]; simpl.
  - destruct (Qeq_bool w v) eqn:E.
    + apply Qeq_bool_iff in E. simpl. split; [intros [<-|[]]; right; auto| intros [[]|[-> _]]; left; reflexivity].
    + simpl. split; [tauto|]. intros [[]|[_ H]]. apply Qeq_bool_iff in H. congruence.
  - destruct (Qeq_bool v u) eqn:Evu; simpl.
    + apply Qeq_bool_iff in Evu. destruct (Qeq_bool w u) eqn:Ewu.
      * apply Qeq_bool_iff in Ewu. rewrite in_app_iff. simpl.
        split; [intros [H|[<-|[]]]; [left; exact H| right; split; [reflexivity| rewrite Ewu, Evu; reflexivity]]|].
        intros [H|[-> _]]; [left; exact H| right; left; reflexivity].
      * split; [tauto|]. intros [H|[_ H]]; [exact H|].
        rewrite Evu in H. apply Qeq_bool_iff in H. congruence.
    + destruct (Qeq_bool w u) eqn:Ewu.
      * split; [tauto|]. intros [H|[_ H]]; [exact H|].
        apply Qeq_bool_iff in Ewu. rewrite H in Ewu. apply Qeq_bool_iff in Ewu. congruence.
      * exact IH.
Qed.
Lemma NoDup_app_l {A} (l1 l2 : list A) : NoDup (l1 ++ l2) -> NoDup l1.
Proof.
  induction l1 as [|a l1 IH]; simpl; intros H; [constructor|]. inversion H; subst.
  constructor; [intros Hin; apply H2, in_or_app; left; exact Hin| apply IH; assumption].
Qed.
Lemma NoDup_app_r {A} (l1 l2 : list A) : NoDup (l1 ++ l2) -> NoDup l2.
Proof. induction l1 as [|a l1 IH]; simpl; intros H; [exact H|]. inversion H; subst. apply IH; assumption. Qed.
Lemma NoDup_app_intro {A} (l1 l2 : list A) : NoDup l1 -> NoDup l2 -> (forall a, In a l1 -> In a l2 -> False) -> NoDup (l1 ++ l2).
Proof.
  induction l1 as [|a l1 IH]; simpl; intros H1 H2 Hd; [exact H2|]. inversion H1; subst. constructor.
  - rewrite in_app_iff. intros [H|H]; [contradiction| eapply Hd; [left; reflexivity| exact H]].
  - apply IH; [assumption| assumption| intros b Hb1 Hb2; eapply Hd; [right; exact Hb1| exact Hb2]].
Qed.

(* a simpler global invariant: every assignment occurs at most once over all buckets *)
Definition all_bucketed (b : list (Q * list asg)) : list asg := flat_map snd b.

Lemma bucket_add_perm v x b : exists l1 l2, all_bucketed (bucket_add v x b) = l1 ++ x :: l2 /\ all_bucketed b = l1 ++ l2.
Proof.
  induction b as [|[u l] b IH]; simpl.
  - exists [], []. split; reflexivity.
  - destruct (Qeq_bool v u); simpl.
    + exists l, (all_bucketed b). unfold all_bucketed. simpl. rewrite <- app_assoc. split; reflexivity.
    + destruct IH as (l1 & l2 & A & B). exists (l ++ l1), l2. unfold all_bucketed in *. simpl.
      rewrite A, B, !app_assoc. split; reflexivity.
Qed.
Lemma bucket_get_incl w b y : In y (bucket_get w b) -> In y (all_bucketed b).
Proof.
  induction b as [|[u l] b IH]; simpl; [tauto|]. unfold all_bucketed. simpl. rewrite in_app_iff.
  destruct (Qeq_bool w u); [tauto| intros H; right; apply IH, H].
Qed.
Lemma NoDup_sub_bucket w b : NoDup (all_bucketed b) -> NoDup (bucket_get w b).
Proof.
  induction b as [|[u l] b IH]; simpl; [constructor|]. unfold all_bucketed. simpl. intros H.
  destruct (Qeq_bool w u).
  - apply NoDup_app_l in H. exact H.
  - apply IH. apply NoDup_app_r in H. exact H.
Qed.
Lemma NoDup_insert_mid {A} (l1 l2 : list A) x : NoDup (l1 ++ l2) -> ~ In x (l1 ++ l2) -> NoDup (l1 ++ x :: l2).
Proof.
  intros Hn Hx. apply NoDup_Add with (a := x) (l := l1 ++ l2); [apply Add_app| split; assumption].
Qed.

(* ---- the loop ---- *)
Section Loop.
  Variable value : asg -> Q.

  Definition minimal_in (p : list asg) (y : asg) : Prop := In y p /\ forall z, In z p -> value y <= value z.

  Definition LInvAll (p : list asg) (st : bstate) : Prop :=
    match bbest st with
    | None => p = [] /\ bbuckets st = []
    | Some (v, x) =>
        minimal_in p x /\ value x == v
        /\ (forall w y, In y (bucket_get w (bbuckets st)) -> In y p /\ value y == w)
        /\ (forall y, minimal_in p y -> In y (bucket_get (value y) (bbuckets st)))
    end /\ NoDup (all_bucketed (bbuckets st)) /\ (forall y, In y (all_bucketed (bbuckets st)) -> In y p).

  Lemma bstep_all_inv p st x : NoDup (p ++ [x]) -> LInvAll p st -> LInvAll (p ++ [x]) (bstep true st x (value x)).
  Proof.
    intros Hnd (HB & HN & HI). unfold bstep.
    assert (Hxp : ~ In x p).
    { apply NoDup_remove_2 with (l' := []) in Hnd. rewrite app_nil_r in Hnd. exact Hnd. }
    assert (ADD : forall b0, b0 = bbuckets st ->
              NoDup (all_bucketed (bucket_add (value x) x b0)) /\
              (forall y, In y (all_bucketed (bucket_add (value x) x b0)) -> In y (p ++ [x]))).
    { intros b0 ->. destruct (bucket_add_perm (value x) x (bbuckets st)) as (l1 & l2 & A & B). rewrite A. split.
      - apply NoDup_insert_mid; rewrite <- B; [exact HN| intros H; apply Hxp, HI, H].
      - intros y Hy. apply in_app_iff. apply in_app_or in Hy. destruct Hy as [Hy|[<-|Hy]].
        + left. apply HI. rewrite B. apply in_or_app. left. exact Hy.
        + right. left. reflexivity.
        + left. apply HI. rewrite B. apply in_or_app. right. exact Hy. }
    destruct (bbest st) as [[b xb]|] eqn:Eb.
    - destruct HB as ((Hin & Hmin) & Hv & HB3 & HB4).
      pose proof (qle_spec (value x) b) as Hq. destruct (qle (value x) b).
      + unfold LInvAll. simpl. split; [|apply ADD; reflexivity]. split; [|split; [reflexivity|split]].
        * split; [apply in_or_app; right; left; reflexivity|]. intros z Hz. apply in_app_or in Hz.
          destruct Hz as [Hz|[<-|[]]]; [specialize (Hmin z Hz); lra| apply Qle_refl].
        * intros w y Hy. apply bucket_get_add in Hy. destruct Hy as [Hy|[-> Hw]].
          -- destruct (HB3 w y Hy) as [A B]. split; [apply in_or_app; left; exact A| exact B].
          -- split; [apply in_or_app; right; left; reflexivity| symmetry; exact Hw].
        * intros y [Hy Hym]. apply bucket_get_add. apply in_app_or in Hy. destruct Hy as [Hy|[<-|[]]].
          -- left. apply HB4. split; [exact Hy|]. intros z Hz. apply Hym. apply in_or_app. left. exact Hz.
          -- right. split; reflexivity.
      + unfold LInvAll. rewrite Eb. split; [|split; [exact HN| intros y Hy; apply in_or_app; left; apply HI, Hy]].
        split; [|split; [exact Hv|split]].
        * split; [apply in_or_app; left; exact Hin|]. intros z Hz. apply in_app_or in Hz.
          destruct Hz as [Hz|[<-|[]]]; [apply Hmin, Hz| lra].
        * intros w y Hy. destruct (HB3 w y Hy) as [A B]. split; [apply in_or_app; left; exact A| exact B].
        * intros y [Hy Hym]. apply in_app_or in Hy. destruct Hy as [Hy|[<-|[]]].
          -- apply HB4. split; [exact Hy|]. intros z Hz. apply Hym. apply in_or_app. left. exact Hz.
          -- exfalso. specialize (Hym xb (in_or_app _ _ _ (or_introl Hin))). lra.
    - destruct HB as [-> Hbk]. unfold LInvAll. simpl. split; [|apply ADD; reflexivity].
      split; [|split; [reflexivity|split]].
      * split; [left; reflexivity|]. intros z [<-|[]]. apply Qle_refl.
      * intros w y Hy. apply bucket_get_add in Hy. rewrite Hbk in Hy. simpl in Hy. destruct Hy as [[]|[-> Hw]].
        split; [left; reflexivity| symmetry; exact Hw].
      * intros y [[<-|[]] _]. apply bucket_get_add. right. split; reflexivity.
  Qed.

  Definition LInvOne (p : list asg) (st : bstate) : Prop :=
    match bbest st with
    | None => p = []
    | Some (v, x) => minimal_in p x /\ value x == v
    end.

  Lemma bstep_one_inv p st x : LInvOne p st -> LInvOne (p ++ [x]) (bstep false st x (value x)).
  Proof.
    unfold LInvOne, bstep. destruct (bbest st) as [[b xb]|] eqn:Eb.
    - intros ((Hin & Hmin) & Hv). pose proof (qltb_spec (value x) b) as Hq. destruct (qltb (value x) b); simpl.
      + split; [|reflexivity]. split; [apply in_or_app; right; left; reflexivity|]. intros z Hz. apply in_app_or in Hz.
        destruct Hz as [Hz|[<-|[]]]; [specialize (Hmin z Hz); lra| apply Qle_refl].
      + rewrite Eb. split; [|exact Hv]. split; [apply in_or_app; left; exact Hin|]. intros z Hz. apply in_app_or in Hz.
        destruct Hz as [Hz|[<-|[]]]; [apply Hmin, Hz| lra].
    - intros ->. simpl. split; [|reflexivity]. split; [left; reflexivity|]. intros z [<-|[]]. apply Qle_refl.
  Qed.

  (* fold over a list = fold over its valid part; generalised over the processed prefix *)
  Lemma bloop_all_gen valid xs : forall p st, NoDup (p ++ filter valid xs) -> LInvAll p st ->
    LInvAll (p ++ filter valid xs)
            (fold_left (fun st x => if valid x then bstep true st x (value x) else st) xs st).
  Proof.
    induction xs as [|x xs IH]; simpl; intros p st Hnd Hinv; [rewrite app_nil_r; exact Hinv|].
    destruct (valid x) eqn:Hv.
    - simpl in Hnd. replace (p ++ x :: filter valid xs) with ((p ++ [x]) ++ filter valid xs) in * by (rewrite <- app_assoc; reflexivity).
      apply IH; [exact Hnd|]. apply bstep_all_inv; [|exact Hinv].
      apply NoDup_app_l in Hnd. exact Hnd.
    - apply IH; assumption.
  Qed.
  Lemma bloop_one_gen valid xs : forall p st, LInvOne p st ->
    LInvOne (p ++ filter valid xs)
            (fold_left (fun st x => if valid x then bstep false st x (value x) else st) xs st).
  Proof.
    induction xs as [|x xs IH]; simpl; intros p st Hinv; [rewrite app_nil_r; exact Hinv|].
    destruct (valid x) eqn:Hv.
    - simpl. replace (p ++ x :: filter valid xs) with ((p ++ [x]) ++ filter valid xs) by (rewrite <- app_assoc; reflexivity).
      apply IH. apply bstep_one_inv, Hinv.
    - apply IH; assumption.
  Qed.

  Lemma NoDup_filter {A} (f : A -> bool) l : NoDup l -> NoDup (filter f l).
  Proof.
    induction l as [|a l IH]; simpl; intros H; [constructor|]. inversion H; subst.
    destruct (f a); [constructor; [rewrite filter_In; tauto| apply IH; assumption]| apply IH; assumption].
  Qed.

  Theorem bloop_all_spec valid xs : NoDup xs ->
    LInvAll (filter valid xs) (bloop true value valid xs).
  Proof.
    intros Hnd. unfold bloop. apply (bloop_all_gen valid xs [] _); [apply NoDup_filter, Hnd|].
    unfold LInvAll. simpl. split; [auto|]. split; [constructor| intros y []].
  Qed.
  Theorem bloop_one_spec valid xs : LInvOne (filter valid xs) (bloop false value valid xs).
  Proof. unfold bloop. apply (bloop_one_gen valid xs [] _). reflexivity. Qed.
End Loop.

(* ---- the enumeration ---- *)
Lemma all_asg_length vals n a : In a (all_asg vals n) -> length a = n.
Proof.
  revert a; induction n as [|n IH]; simpl; intros a H.
  - destruct H as [<-|[]]. reflexivity.
  - apply in_flat_map in H. destruct H as (v & _ & H). apply in_map_iff in H. destruct H as (a' & <- & H).
    simpl. f_equal. apply IH, H.
Qed.
Lemma all_asg_complete vals n a : length a = n -> (forall v, In v a -> In v vals) -> In a (all_asg vals n).
Proof.
  revert a; induction n as [|n IH]; intros [|v a] Hl Hv; simpl in *; try discriminate; [left; reflexivity|].
  apply in_flat_map. exists v. split; [apply Hv; left; reflexivity|]. apply in_map. apply IH; [lia|].
  intros w Hw. apply Hv. right. exact Hw.
Qed.
Lemma NoDup_map_cons (v : Q) (l : list asg) : NoDup l -> NoDup (map (cons v) l).
Proof.
  induction l as [|a l IH]; simpl; intros H; [constructor|]. inversion H; subst. constructor; [|apply IH; assumption].
  intros Hin. apply in_map_iff in Hin. destruct Hin as (b & [= ->] & Hb). contradiction.
Qed.
Lemma NoDup_flat_map_cons (L : list asg) vals : NoDup L -> NoDup vals ->
  NoDup (flat_map (fun v => map (cons v) L) vals).
Proof.
  intros HL. induction vals as [|v vals IHv]; simpl; intros Hv; [constructor|]. inversion Hv; subst.
  apply NoDup_app_intro; [apply NoDup_map_cons, HL| apply IHv; assumption|].
  intros a Ha Hb. apply in_map_iff in Ha. destruct Ha as (a' & <- & _).
  apply in_flat_map in Hb. destruct Hb as (w & Hw & Hb). apply in_map_iff in Hb. destruct Hb as (b' & [= -> _] & _).
  contradiction.
Qed.
Lemma all_asg_NoDup vals n : NoDup vals -> NoDup (all_asg vals n).
Proof.
  intros Hv. induction n as [|n IH]; simpl; [constructor; [tauto|constructor]|].
  apply NoDup_flat_map_cons; assumption.
Qed.

(* ---- the solver ---- *)
Definition spin_vals (spin : bool) : list Q := if spin then [1; -(1)] else [0; 1].
Lemma spin_vals_NoDup spin : NoDup (spin_vals spin).
Proof.
  destruct spin; simpl; (constructor; [intros [H|[]]; discriminate| constructor; [tauto|constructor]]).
Qed.

Lemma solve_unfold0 spin vars D all valid : has_nonconst D = true ->
  solve spin vars D all valid =
  let value := fun a => eval (env_of_asg vars a) D in
  let X := all_asg (spin_vals spin) (length vars) in
  match bbest (bloop all value valid X) with
  | None => (None, [[]])
  | Some (v, x) => (Some v, if all then bucket_get v (bbuckets (bloop all value valid X)) else [x])
  end.
Proof.
  intros H. unfold solve. destruct D as [|p D']; [discriminate|]. rewrite H. cbn [negb].
  unfold spin_vals. destruct spin; reflexivity.
Qed.

Section Solve.
  Variables (spin : bool) (vars : list label) (D : terms) (valid : asg -> bool).
  Let X := all_asg (spin_vals spin) (length vars).
  Let value := fun a => eval (env_of_asg vars a) D.
  Hypothesis Hnc : has_nonconst D = true.

  Lemma solve_unfold all :
    solve spin vars D all valid =
    match bbest (bloop all value valid X) with
    | None => (None, [[]])
    | Some (v, x) => (Some v, if all then bucket_get v (bbuckets (bloop all value valid X)) else [x])
    end.
  Proof. apply solve_unfold0, Hnc. Qed.

  Theorem solve_min all v sols : solve spin vars D all valid = (Some v, sols) ->
    sols <> [] /\ forall x, In x sols ->
      In x X /\ valid x = true /\ value x == v /\ forall y, In y X -> valid y = true -> v <= value y.
  Proof.
    rewrite solve_unfold. destruct all.
    - pose proof (bloop_all_spec value valid X (all_asg_NoDup _ _ (spin_vals_NoDup spin))) as (HB & _).
      destruct (bbest (bloop true value valid X)) as [[b xb]|]; [|discriminate].
      intros [= <- <-]. destruct HB as ((Hin & Hmin) & Hv & HB3 & HB4). split.
      + assert (Hx : In xb (bucket_get b (bbuckets (bloop true value valid X)))).
        { rewrite <- (bucket_get_ext _ _ _ Hv). apply HB4. split; assumption. }
        intros E. rewrite E in Hx. destruct Hx.
      + intros x Hx. destruct (HB3 _ _ Hx) as [Hxin Hxv]. apply filter_In in Hxin. destruct Hxin as [A B].
        split; [exact A|]. split; [exact B|]. split; [exact Hxv|].
        intros y Hy Hyv. rewrite <- Hv. apply Hmin. apply filter_In. auto.
    - pose proof (bloop_one_spec value valid X) as HB. unfold LInvOne in HB.
      destruct (bbest (bloop false value valid X)) as [[b xb]|]; [|discriminate].
      intros [= <- <-]. destruct HB as ((Hin & Hmin) & Hv). split; [discriminate|].
      intros x [<-|[]]. apply filter_In in Hin. destruct Hin as [A B].
      split; [exact A|]. split; [exact B|]. split; [exact Hv|].
      intros y Hy Hyv. rewrite <- Hv. apply Hmin. apply filter_In. auto.
  Qed.

  Theorem solve_all v sols : solve spin vars D true valid = (Some v, sols) ->
    NoDup sols /\ forall y, In y sols <-> (In y X /\ valid y = true /\ value y == v).
  Proof.
    rewrite solve_unfold.
    pose proof (bloop_all_spec value valid X (all_asg_NoDup _ _ (spin_vals_NoDup spin))) as (HB & HN & _).
    destruct (bbest (bloop true value valid X)) as [[b xb]|]; [|discriminate].
    intros [= <- <-]. destruct HB as ((Hin & Hmin) & Hv & HB3 & HB4). split; [apply NoDup_sub_bucket, HN|].
    intros y. split.
    - intros Hy. destruct (HB3 _ _ Hy) as [A B]. apply filter_In in A. tauto.
    - intros (A & B & Cv). rewrite <- (bucket_get_ext _ _ _ Cv). apply HB4. split; [apply filter_In; auto|].
      intros z Hz. rewrite Cv, <- Hv. apply Hmin, Hz.
  Qed.

  Theorem solve_none all : fst (solve spin vars D all valid) = None <-> forall y, In y X -> valid y = false.
  Proof.
    rewrite solve_unfold. destruct all.
    - pose proof (bloop_all_spec value valid X (all_asg_NoDup _ _ (spin_vals_NoDup spin))) as (HB & _).
      destruct (bbest (bloop true value valid X)) as [[b xb]|]; simpl.
      + destruct HB as ((Hin & _) & _). apply filter_In in Hin. split; [discriminate|]. intros H.
        rewrite (H xb (proj1 Hin)) in Hin. destruct Hin; discriminate.
      + destruct HB as [HB _]. split; [|reflexivity]. intros _ y Hy. destruct (valid y) eqn:E; [|reflexivity].
        assert (In y (filter valid X)) by (apply filter_In; auto). rewrite HB in H. destruct H.
    - pose proof (bloop_one_spec value valid X) as HB. unfold LInvOne in HB.
      destruct (bbest (bloop false value valid X)) as [[b xb]|]; simpl.
      + destruct HB as ((Hin & _) & _). apply filter_In in Hin. split; [discriminate|]. intros H.
        rewrite (H xb (proj1 Hin)) in Hin. destruct Hin; discriminate.
      + split; [|reflexivity]. intros _ y Hy. destruct (valid y) eqn:E; [|reflexivity].
        assert (In y (filter valid X)) by (apply filter_In; auto). rewrite HB in H. destruct H.
  Qed.

  (* every returned assignment has one value per variable, each in the variable domain *)
  Theorem solve_vars all v sols : solve spin vars D all valid = (Some v, sols) ->
    forall x, In x sols -> length x = length vars.
  Proof.
    intros H x Hx. destruct (solve_min all v sols H) as [_ Hs]. destruct (Hs x Hx) as [A _].
    eapply all_asg_length, A.
  Qed.
End Solve.

(* a constant model (no non-empty key) yields its constant and the empty assignment *)
Theorem solve_constant spin vars D all valid : has_nonconst D = false ->
  solve spin vars D all valid = (Some (get_sq D []), [[]]).
Proof.
  unfold solve. intros H. destruct D as [|p D']; [reflexivity|]. rewrite H. reflexivity.
Qed.
