(* C14: the bookkeeping invariant and its preservation by every edit of the
   Matrix / BO layer. *)
From QV.Model Require Import Base Matrix Arith.
From QV.Proofs Require Import BaseProofs KeyProofs ArithProofs TempRangeQ.
From Coq Require Import Lia.
Open Scope Q_scope.

Definition labels_in (t : terms) (vs : list label) : Prop :=
  forall k v i, In (k, v) t -> In i k -> In i vs.
Definition deg_ok (t : terms) (d : option nat) : Prop :=
  forall k v, In (k, v) t -> match d with Some n => (length k <= n)%nat | None => False end.

(* PUBOMatrix layer: reported variables / degree are upper bounds; the variable
   list is duplicate free, so num_binary_variables = |variables| *)
Definition BInv (m : model) : Prop :=
  kd m <> KDict -> NoDup (vars_c m) /\ labels_in (tm m) (vars_c m) /\ deg_ok (tm m) (deg_c m).
(* BO layer: mapping is a bijection between exactly the reported variables and 0..n-1 *)
(* the integers of a mapping: pairwise different and below the number of entries -- a permutation of 0..n-1 (the order in which
   they were handed out is not part of the invariant: set_mapping may renumber) *)
Definition snd_ok (mpx : list (label * nat)) : Prop :=
  NoDup (map snd mpx) /\ forall n, In n (map snd mpx) -> (n < length mpx)%nat.
Definition LInv (m : model) : Prop :=
  is_labelled (kd m) = true ->
  (forall i, In i (map fst (mp m)) <-> In i (vars_c m)) /\ NoDup (map fst (mp m))
  /\ snd_ok (mp m) /\ next_label m = length (mp m).
Definition Inv (m : model) : Prop := BInv m /\ LInv m.

Lemma Inv_empty k : Inv (empty_model k).
Proof.
  split.
  - intros _. simpl. split; [constructor|]. split; [intros ? ? ? []| intros ? ? []].
  - intros _. simpl. split; [intros i; tauto|]. split; [constructor|]. split; [split; [constructor| intros n []]| reflexivity].
Qed.

(* ------------------------------------------------------------ squash ---- *)
Lemma ins_In i x k : In i (ins x k) -> i = x \/ In i k.
Proof.
  induction k as [|y k IH]; simpl; [intuition|].
  destruct (x <? y)%nat; simpl; [intuition|]. destruct (x =? y)%nat; simpl; [intuition|]. intuition.
Qed.
Lemma squashB_In i k : In i (squashB k) -> In i k.
Proof.
  induction k as [|x k IH]; simpl; [tauto|]. unfold squashB in *. simpl. intros H.
  apply ins_In in H. destruct H; [left; auto| right; apply IH; assumption].
Qed.
Lemma tog_In i x k : In i (tog x k) -> i = x \/ In i k.
Proof.
  induction k as [|y k IH]; simpl; [intuition|].
  destruct (x <? y)%nat; simpl; [intuition|]. destruct (x =? y)%nat; simpl; [intuition|]. intuition.
Qed.
Lemma squashS_In i k : In i (squashS k) -> In i k.
Proof.
  induction k as [|x k IH]; simpl; [tauto|]. unfold squashS in *. simpl. intros H.
  apply tog_In in H. destruct H; [left; auto| right; apply IH; assumption].
Qed.
Lemma squash_In kd0 k k' i : squash kd0 k = Ok k' -> In i k' -> In i k.
Proof.
  unfold squash. destruct kd0; simpl; try (intros [= <-]; tauto);
    try (destruct (2 <? _)%nat; [discriminate|]); intros [= <-];
    first [apply squashB_In | apply squashS_In].
Qed.

(* ----------------------------------------------------------- add_vars ---- *)
Lemma add_vars_spec k : forall vs i, In i (add_vars vs k) <-> In i vs \/ In i k.
Proof.
  unfold add_vars. induction k as [|x k IH]; simpl; intros vs i; [tauto|].
  rewrite IH. destruct (mem x vs) eqn:Hm.
  - apply mem_In in Hm. split; [intuition| intros [H|[<-|H]]; auto].
  - rewrite in_app_iff. simpl. intuition.
Qed.
Lemma add_vars_NoDup k : forall vs, NoDup vs -> NoDup (add_vars vs k).
Proof.
  unfold add_vars. induction k as [|x k IH]; simpl; intros vs Hnd; [exact Hnd|].
  apply IH. destruct (mem x vs) eqn:Hm; [exact Hnd|].
  assert (~ In x vs) by (intros Hin; apply mem_In in Hin; congruence).
  clear - Hnd H. induction vs as [|y vs IHv]; simpl; [constructor; [tauto|constructor]|].
  inversion Hnd; subst. constructor.
  - rewrite in_app_iff. simpl. intros [Hy|[Hy|[]]]; [contradiction| subst; apply H; left; reflexivity].
  - apply IHv; [assumption| intros Hx; apply H; right; exact Hx].
Qed.

(* ----------------------------------------------------------- register ---- *)
Lemma mp_get_None i mpx : mp_get i mpx = None <-> ~ In i (map fst mpx).
Proof.
  induction mpx as [|[y n] mpx IH]; simpl; [tauto|].
  destruct (i =? y)%nat eqn:E.
  - apply Nat.eqb_eq in E. subst. split; [discriminate| intros H; exfalso; apply H; left; reflexivity].
  - apply Nat.eqb_neq in E. rewrite IH. split; [intros H [H'|H']; [congruence|contradiction]| tauto].
Qed.

Definition MInv (mpx : list (label * nat)) (nl : nat) : Prop :=
  NoDup (map fst mpx) /\ snd_ok mpx /\ nl = length mpx.

Lemma register_spec vs raw : forall mpx nl, MInv mpx nl ->
  let '(mp', nl') := register vs raw mpx nl in
  MInv mp' nl' /\ forall i, In i (map fst mp') <-> In i (map fst mpx) \/ (In i raw /\ In i vs).
Proof.
  unfold register. induction raw as [|x raw IH]; simpl; intros mpx nl HM.
  - split; [exact HM| intros i; tauto].
  - destruct (mp_get x mpx) eqn:Hg.
    + specialize (IH mpx nl HM). destruct (fold_left _ raw (mpx, nl)) as [mp' nl'].
      destruct IH as [A B]. split; [exact A|]. intros i. rewrite B.
      split; [intuition|]. intros [H|[[<-|H] Hv]]; auto.
      left. apply Decidable.not_not; [|rewrite <- mp_get_None, Hg; discriminate].
      destruct (in_dec Nat.eq_dec x (map fst mpx)); [left|right]; assumption.
    + apply mp_get_None in Hg. destruct (mem x vs) eqn:Hm.
      * assert (HM' : MInv (mpx ++ [(x, nl)]) (S nl)).
        { destruct HM as (N & S0 & L). subst nl. split; [|split].
          - rewrite map_app. simpl. apply NoDup_snoc; assumption.
          - destruct S0 as [Sn Sb]. split.
            + rewrite map_app. simpl. apply NoDup_snoc; [exact Sn|]. intros Hc. specialize (Sb _ Hc). lia.
            + intros n0 Hn0. rewrite map_app, in_app_iff in Hn0. rewrite app_length. simpl.
              destruct Hn0 as [Hn0|[E0|[]]]; [apply Nat.lt_lt_add_r; exact (Sb _ Hn0)| rewrite <- E0; apply Nat.lt_add_pos_r; constructor].
          - rewrite app_length. simpl. lia. }
        specialize (IH _ _ HM'). destruct (fold_left _ raw _) as [mp' nl'].
        destruct IH as [A B]. split; [exact A|]. intros i. rewrite B, map_app, in_app_iff. simpl.
        apply mem_In in Hm. split; [intros [[H|[<-|[]]]|H]; auto; intuition| intros [H|[[<-|H] Hv]]; auto].
      * specialize (IH mpx nl HM). destruct (fold_left _ raw (mpx, nl)) as [mp' nl'].
        destruct IH as [A B]. split; [exact A|]. intros i. rewrite B.
        split; [intuition|]. intros [H|[[<-|H] Hv]]; auto.
        apply mem_In in Hv. congruence.
Qed.

(* ----------------------------------------------------------- set_sq ---- *)
Lemma set_sq_In t k v k' v' : In (k', v') (set_sq t k v) -> (k' = k /\ qzero v = false) \/ In (k', v') t.
Proof.
  unfold set_sq. destruct (qzero v) eqn:Hz; intros H.
  - right. eapply remove_keys_incl, H.
  - apply set_In in H. destruct H as [[= <- <-]|H]; [left; auto| right; exact H].
Qed.

(* ---------------------------------------------------------- m_setitem ---- *)
Lemma Inv_ext m m' : kd m' = kd m -> tm m' = tm m -> deg_c m' = deg_c m -> vars_c m' = vars_c m ->
  mp m' = mp m -> next_label m' = next_label m -> Inv m -> Inv m'.
Proof.
  intros K T D V M N [B L]. split.
  - intros Hk. rewrite K in Hk. rewrite T, D, V. apply B, Hk.
  - intros Hl. rewrite K in Hl. rewrite M, V, N. apply L, Hl.
Qed.

Lemma max_deg_ge d n : match max_deg d n with Some x => (n <= x)%nat | None => False end.
Proof. destruct d; simpl; lia. Qed.
Lemma max_deg_mono d n j : match d with Some x => (j <= x)%nat | None => False end ->
  match max_deg d n with Some x => (j <= x)%nat | None => False end.
Proof. destruct d; simpl; [lia|tauto]. Qed.

Lemma kind_eqb_eq a b : kind_eqb a b = true <-> a = b.
Proof. destruct a, b; simpl; split; intros H; try reflexivity; try discriminate. Qed.

Lemma m_setitem_Inv m k v m' : Inv m -> m_setitem m k v = Ok m' -> Inv m'.
Proof.
  intros [B L] H. unfold m_setitem in H. inv_bind H. rename a into k'.
  destruct (kind_eqb (kd m) KDict) eqn:Hkd.
  { apply kind_eqb_eq in Hkd.
    destruct (if is_labelled (kd m) then _ else _) as [mp' nl']. injection H as <-.
    split; [intros Hn; simpl in Hn; congruence| intros Hl; simpl in Hl; rewrite Hkd in Hl; discriminate]. }
  assert (Hk : kd m <> KDict) by (intros Hx; apply kind_eqb_eq in Hx; congruence).
  cbn [negb] in H. rewrite !andb_true_r in H.
  destruct (B Hk) as (N & LI & DG).
  set (vars' := if negb (qzero v) then add_vars (vars_c m) k' else vars_c m) in *.
  destruct (if is_labelled (kd m) then register vars' k (mp m) (next_label m) else (mp m, next_label m))
    as [mp' nl'] eqn:Hreg.
  injection H as <-. split.
  - unfold BInv. simpl. intros _. split; [|split].
    + unfold vars'. destruct (negb (qzero v)); [apply add_vars_NoDup, N| exact N].
    + intros k0 v0 i Hin Hi. apply set_sq_In in Hin. destruct Hin as [[-> Hz]|Hin].
      * unfold vars'. rewrite Hz. simpl. apply add_vars_spec. right. exact Hi.
      * unfold vars'. destruct (negb (qzero v)); [apply add_vars_spec; left|]; eapply LI; eassumption.
    + intros k0 v0 Hin. apply set_sq_In in Hin. destruct Hin as [[-> Hz]|Hin].
      * rewrite Hz. simpl. apply max_deg_ge.
      * destruct (negb (qzero v)); simpl; [apply max_deg_mono|]; eapply DG; eassumption.
  - unfold LInv. simpl. intros Hl. rewrite Hl in Hreg. destruct (L Hl) as (S1 & N1 & S2 & NL).
    pose proof (register_spec vars' k (mp m) (next_label m) (conj N1 (conj S2 NL))) as R.
    rewrite Hreg in R. destruct R as [(N' & S' & L') R]. split; [|tauto].
    intros i. rewrite R, S1. unfold vars'. destruct (negb (qzero v)).
    + rewrite add_vars_spec. split; [intuition|]. intros [H|H]; [left; exact H|].
      right. split; [eapply squash_In; eassumption| right; exact H].
    + tauto.
Qed.

Lemma m_additem_Inv m k v m' : Inv m -> m_additem m k v = Ok m' -> Inv m'.
Proof. unfold m_additem. intros HI H. inv_bind H. eapply m_setitem_Inv; eassumption. Qed.
Lemma m_addall_Inv o : forall m m', Inv m -> m_addall m o = Ok m' -> Inv m'.
Proof.
  induction o as [|[k v] o IH]; simpl; intros m m' HI H; [injection H as <-; exact HI|].
  inv_bind H. eapply IH; [|exact H]. eapply m_additem_Inv; eassumption.
Qed.
Lemma m_update_Inv o : forall m m', Inv m -> m_update m o = Ok m' -> Inv m'.
Proof.
  induction o as [|[k v] o IH]; simpl; intros m m' HI H; [injection H as <-; exact HI|].
  inv_bind H. eapply IH; [|exact H]. eapply m_setitem_Inv; eassumption.
Qed.
Lemma m_create_Inv k o m : m_create k o = Ok m -> Inv m.
Proof. unfold m_create. intros H. eapply m_addall_Inv; [apply Inv_empty| exact H]. Qed.
Lemma m_copy_Inv m c : m_copy m = Ok c -> Inv c.
Proof.
  unfold m_copy. intros H. inv_bind H. injection H as <-.
  eapply Inv_ext; [..|eapply m_create_Inv, E]; reflexivity.
Qed.
Lemma m_clear_Inv m : Inv (m_clear m).
Proof. apply Inv_empty. Qed.
Lemma clear_for_imul_Inv m : Inv m -> Inv (clear_for_imul m).
Proof.
  intros HI. unfold clear_for_imul. destruct (kd m) eqn:Hk;
    try (eapply Inv_ext; [..|apply (Inv_empty (kd m))]; simpl; congruence).
  split; [intros Hn; simpl in Hn; rewrite Hk in Hn; congruence| intros Hl; simpl in Hl; rewrite Hk in Hl; discriminate].
Qed.
Lemma m_mul_row_Inv k v o : forall m m', Inv m -> m_mul_row m k v o = Ok m' -> Inv m'.
Proof.
  induction o as [|[ko vo] o IH]; simpl; intros m m' HI H; [injection H as <-; exact HI|].
  inv_bind H. eapply IH; [|exact H]. eapply m_additem_Inv; eassumption.
Qed.
Lemma m_mul_rows_Inv o items : forall m m', Inv m -> m_mul_rows m items o = Ok m' -> Inv m'.
Proof.
  induction items as [|[k v] items IH]; simpl; intros m m' HI H; [injection H as <-; exact HI|].
  inv_bind H. eapply IH; [|exact H]. eapply m_mul_row_Inv; eassumption.
Qed.
Lemma m_scale_keys_Inv f ks : forall m m', Inv m -> m_scale_keys m ks f = Ok m' -> Inv m'.
Proof.
  induction ks as [|k ks IH]; simpl; intros m m' HI H; [injection H as <-; exact HI|].
  inv_bind H. inv_bind H. eapply IH; [|exact H]. eapply m_setitem_Inv; eassumption.
Qed.
Lemma m_iadd_Inv m o m' : Inv m -> m_iadd m o = Ok m' -> Inv m'.
Proof. destruct o; simpl; intros HI H; first [eapply m_addall_Inv; eassumption| eapply m_additem_Inv; eassumption]. Qed.
Lemma m_isub_Inv m o m' : Inv m -> m_isub m o = Ok m' -> Inv m'.
Proof. destruct o; simpl; intros HI H; first [eapply m_addall_Inv; eassumption| eapply m_additem_Inv; eassumption]. Qed.
Lemma m_imul_Inv m o m' : Inv m -> m_imul m o = Ok m' -> Inv m'.
Proof.
  destruct o; simpl; intros HI H.
  - eapply m_mul_rows_Inv; [apply clear_for_imul_Inv, HI| exact H].
  - eapply m_mul_rows_Inv; [apply clear_for_imul_Inv, HI| exact H].
  - eapply m_scale_keys_Inv; eassumption.
Qed.
Lemma m_itruediv_Inv m c m' : Inv m -> m_itruediv m c = Ok m' -> Inv m'.
Proof. unfold m_itruediv, m_scale. intros HI H. eapply m_scale_keys_Inv; eassumption. Qed.
Lemma m_pow_loop_Inv old n : forall m m', Inv m -> m_pow_loop m old n = Ok m' -> Inv m'.
Proof.
  induction n as [|n IH]; cbn [m_pow_loop]; intros m m' HI H; [injection H as <-; exact HI|].
  destruct (m_imul m (OModel old)) as [a|] eqn:E; cbn [bind] in H; [|discriminate].
  eapply IH; [|exact H]. eapply m_imul_Inv; eassumption.
Qed.
Lemma m_ipow_Inv m n m' : Inv m -> m_ipow m n = Ok m' -> Inv m'.
Proof.
  unfold m_ipow. intros HI H. destruct (n <=? 0)%Z; [discriminate|].
  destruct (n =? 1)%Z; [injection H as <-; exact HI|]. inv_bind H. eapply m_pow_loop_Inv; eassumption.
Qed.

(* ------------------------------------------------------ edit histories ---- *)
Inductive edit :=
| ESet (k : key) (v : Q)            (* m[k] = v, zero included *)
| EAug (k : key) (v : Q)            (* m[k] += v *)
| EIadd (o : operand) | EIsub (o : operand) | EImul (o : operand)
| EIpow (n : Z) | EIdiv (c : Q)
| EUpdate (o : terms) | EClear | ERefresh | ECopy.   (* ECopy: continue with m.copy() *)

Definition apply_edit (m : model) (e : edit) : result model :=
  match e with
  | ESet k v => m_setitem m k v
  | EAug k v => m_additem m k v
  | EIadd o => m_iadd m o | EIsub o => m_isub m o | EImul o => m_imul m o
  | EIpow n => m_ipow m n | EIdiv c => m_itruediv m c
  | EUpdate o => m_update m o
  | EClear => Ok (m_clear m)
  | ERefresh => m_refresh m
  | ECopy => m_copy m
  end.

(* an edit that raises leaves the model as the failed Python statement leaves
   it only partially; the history model stops at the first error *)
Fixpoint run_edits (m : model) (es : list edit) : result model :=
  match es with
  | [] => Ok m
  | e :: es' => bind (apply_edit m e) (fun m' => run_edits m' es')
  end.

Lemma apply_edit_Inv m e m' : Inv m -> apply_edit m e = Ok m' -> Inv m'.
Proof.
  destruct e; simpl; intros HI H.
  - eapply m_setitem_Inv; eassumption.
  - eapply m_additem_Inv; eassumption.
  - eapply m_iadd_Inv; eassumption.
  - eapply m_isub_Inv; eassumption.
  - eapply m_imul_Inv; eassumption.
  - eapply m_ipow_Inv; eassumption.
  - eapply m_itruediv_Inv; eassumption.
  - eapply m_update_Inv; eassumption.
  - injection H as <-. apply m_clear_Inv.
  - eapply m_copy_Inv; eassumption.
  - eapply m_copy_Inv; eassumption.
Qed.

Theorem run_edits_Inv es : forall m m', Inv m -> run_edits m es = Ok m' -> Inv m'.
Proof.
  induction es as [|e es IH]; simpl; intros m m' HI H; [injection H as <-; exact HI|].
  inv_bind H. eapply IH; [|exact H]. eapply apply_edit_Inv; eassumption.
Qed.

(* consequences of Inv for labelled models *)
Lemma NoDup_incl_length (a b : list label) : NoDup a -> (forall i, In i a -> In i b) -> (length a <= length b)%nat.
Proof. intros Hn Hi. apply NoDup_incl_length; assumption. Qed.

Theorem Inv_counts m : Inv m -> is_labelled (kd m) = true ->
  length (mp m) = num_vars m /\ next_label m = num_vars m.
Proof.
  intros [B L] Hl. destruct (L Hl) as (S1 & N1 & S2 & NL).
  assert (Hk : kd m <> KDict) by (destruct (kd m) eqn:Ek; simpl in Hl; congruence).
  destruct (B Hk) as (N & _ & _). unfold num_vars.
  assert (length (map fst (mp m)) = length (vars_c m)).
  { apply Nat.le_antisymm; apply NoDup_incl_length; try assumption; intros i; apply S1. }
  rewrite map_length in H. split; congruence.
Qed.

(* mapping and reverse mapping are mutually inverse *)
Lemma mp_get_In i n mpx : mp_get i mpx = Some n -> In i (map fst mpx) /\ In n (map snd mpx).
Proof.
  induction mpx as [|[a b] mpx IH]; simpl; [discriminate|].
  destruct (Nat.eqb_spec i a) as [->|Hne]; [intros [= <-]; auto|]. intros H. destruct (IH H). auto.
Qed.
Lemma rmp_get_In i n mpx : rmp_get n mpx = Some i -> In i (map fst mpx) /\ In n (map snd mpx).
Proof.
  induction mpx as [|[a b] mpx IH]; simpl; [discriminate|].
  destruct (Nat.eqb_spec n b) as [->|Hne]; [intros [= <-]; auto|]. intros H. destruct (IH H). auto.
Qed.

Lemma mp_rmp_inverse mpx : NoDup (map fst mpx) -> NoDup (map snd mpx) ->
  forall i n, mp_get i mpx = Some n <-> rmp_get n mpx = Some i.
Proof.
  induction mpx as [|[y n0] mpx IH]; simpl; intros N1 N2 i n; [split; discriminate|].
  inversion N1 as [|? ? Hy N1']; inversion N2 as [|? ? Hn N2']; subst.
  destruct (Nat.eqb_spec i y) as [->|E1], (Nat.eqb_spec n n0) as [->|E2].
  - tauto.
  - split; [intros [= <-]; congruence|]. intros H. apply rmp_get_In in H. tauto.
  - split; [|intros [= <-]; congruence]. intros H. apply mp_get_In in H. tauto.
  - apply IH; assumption.
Qed.

Theorem Inv_bijection m : Inv m -> is_labelled (kd m) = true ->
  forall i n, mp_get i (mp m) = Some n <-> rmp_get n (mp m) = Some i.
Proof.
  intros [B L] Hl. destruct (L Hl) as (S1 & N1 & S2 & NL).
  apply mp_rmp_inverse; [exact N1| exact (proj1 S2)].
Qed.

Theorem Inv_range m : Inv m -> is_labelled (kd m) = true ->
  forall n, In n (map snd (mp m)) <-> (n < num_vars m)%nat.
Proof.
  intros HI Hl n. destruct (Inv_counts m HI Hl) as [Hc _]. destruct HI as [B L].
  destruct (L Hl) as (S1 & N1 & [Sn Sb] & NL). rewrite <- Hc. split; [apply Sb|].
  (* pairwise different numbers below the length: every number below the length occurs *)
  intros Hn. assert (Hincl : incl (seq 0 (length (mp m))) (map snd (mp m))).
  { apply NoDup_length_incl; [exact Sn| rewrite seq_length, map_length; lia|].
    intros a Ha. apply in_seq. specialize (Sb a Ha). lia. }
  apply Hincl, in_seq. lia.
Qed.

(* a renumbering of the variables (set_mapping / set_reverse_mapping with the model's own labels and a permutation of 0..n-1)
   keeps the invariant, so everything proved from it -- enumerated forms, convert_solution, the annealers' front ends -- holds
   for renumbered models as well *)
Theorem set_mapping_Inv m mpx : Inv m -> is_labelled (kd m) = true ->
  (forall i, In i (map fst mpx) <-> In i (map fst (mp m))) -> NoDup (map fst mpx) -> snd_ok mpx ->
  Inv (set_mapping m mpx).
Proof.
  intros [B L] Hl Hsame Hnd Hs. split; [exact B|]. intros _. cbn [set_mapping mp vars_c next_label kd].
  destruct (L Hl) as (S1 & N1 & S2 & NL).
  split; [intros i; rewrite Hsame; apply S1|]. split; [exact Hnd|]. split; [exact Hs|].
  rewrite NL. rewrite <- (map_length fst (mp m)), <- (map_length fst mpx).
  apply Nat.le_antisymm; apply NoDup_incl_length; try assumption; intros i; apply Hsame.
Qed.
