(* C02: every branch of the PCBO comparison-constraint methods adds lam * G with G >= 0,
   G = 0 reachable exactly when the relation holds, G >= 1 otherwise. *)
From QV.Model Require Import Base Matrix Arith Expr Extrema Sat PCBO.
From QV.Proofs Require Import BaseProofs KeyProofs ArithProofs ExprProofs ExtremaProofs InvProofs RefreshProofs ConvertProofs PenaltyArith.
From Coq Require Import Lia Lqa Qfield Qround.
Open Scope Q_scope.

(* ------------------------------------------------------------------ infrastructure ---- *)
Definition bkind (k : kind) : Prop := is_spin k = false /\ k <> KDict.
Lemma bkind_env k x : bkind k -> boolean_env x -> good_env k x.
Proof. intros [Hs Hk] Hx. unfold good_env. destruct k; simpl in *; try discriminate; try congruence; exact Hx. Qed.
Lemma bkind_pcbo : bkind KPcbo. Proof. split; [reflexivity| discriminate]. Qed.
Lemma bkind_pubo : bkind KPubo. Proof. split; [reflexivity| discriminate]. Qed.

Lemma ev_sound x e X : ev e = Ok X -> leaves (fun k => good_env k x) e ->
  eval x (tm X) == denote x e /\ wf (kd X) (tm X).
Proof.
  unfold ev. intros H Hl. destruct (interp e) as [[m| |]|] eqn:E; try discriminate. injection H as <-.
  destruct (interp_sound x e _ Hl E) as [A [B C]]. auto.
Qed.
Lemma ev_sound_env x e X : ev e = Ok X -> leaves (fun k => good_env k x) e -> good_env (kd X) x.
Proof.
  unfold ev. intros H Hl. destruct (interp e) as [[m| |]|] eqn:E; try discriminate. injection H as <-.
  destruct (interp_sound x e _ Hl E) as [A [B C]]. exact B.
Qed.

(* what an edit of the term dictionary leaves alone *)
Definition frame (m m' : model) : Prop := kd m' = kd m /\ anc m' = anc m /\ cons m' = cons m.
Lemma frame_refl m : frame m m. Proof. repeat split. Qed.
Lemma frame_trans a b c : frame a b -> frame b c -> frame a c.
Proof. intros (A1 & A2 & A3) (B1 & B2 & B3). repeat split; congruence. Qed.

Lemma m_additem_frame m k v m' : m_additem m k v = Ok m' -> frame m m'.
Proof.
  unfold m_additem. intros H. inv_bind H. apply m_setitem_spec in H. destruct H as (k' & _ & _ & K & A & Cn & _).
  repeat split; assumption.
Qed.
Lemma m_addall_frame o : forall m m', m_addall m o = Ok m' -> frame m m'.
Proof.
  induction o as [|[k v] o IH]; simpl; intros m m' H; [injection H as <-; apply frame_refl|].
  inv_bind H. eapply frame_trans; [eapply m_additem_frame, E| eapply IH, H].
Qed.
Lemma m_iadd_frame m o m' : m_iadd m o = Ok m' -> frame m m'.
Proof. destruct o; simpl; intros H; first [eapply m_addall_frame, H| eapply m_additem_frame, H]. Qed.
Lemma m_isub_frame m o m' : m_isub m o = Ok m' -> frame m m'.
Proof. destruct o; simpl; intros H; first [eapply m_addall_frame, H| eapply m_additem_frame, H]. Qed.
Lemma iadd_m_frame m X m' : iadd_m m X = Ok m' -> frame m m'.
Proof. unfold iadd_m. apply m_iadd_frame. Qed.
Lemma isub_m_frame m X m' : isub_m m X = Ok m' -> frame m m'.
Proof. unfold isub_m. apply m_isub_frame. Qed.

(* the function added by one step, as a multiple of the weight *)
Definition step_ok (m m' : model) (lam : Q) (G : env -> Q) : Prop :=
  forall x, boolean_env x -> eval x (tm m') == eval x (tm m) + lam * G x.

Lemma iadd_m_step x m X m' : iadd_m m X = Ok m' -> bkind (kd m) -> boolean_env x ->
  eval x (tm m') == eval x (tm m) + eval x (tm X).
Proof. unfold iadd_m. intros H Hk Hx. destruct (m_iadd_eval x _ _ _ H (bkind_env _ _ Hk Hx)) as [A _]. exact A. Qed.
Lemma isub_m_step x m X m' : isub_m m X = Ok m' -> bkind (kd m) -> boolean_env x ->
  eval x (tm m') == eval x (tm m) - eval x (tm X).
Proof. unfold isub_m. intros H Hk Hx. destruct (m_isub_eval x _ _ _ H (bkind_env _ _ Hk Hx)) as [A _]. exact A. Qed.

Lemma EM_leaves x P : bkind (kd P) -> boolean_env x -> leaves (fun k => good_env k x) (EM P).
Proof. intros Hk Hx. simpl. apply bkind_env; assumption. Qed.

Lemma as_pubo_spec Pin P : as_pubo Pin = Ok P ->
  kd P = KPubo /\ wf KPubo (tm P) /\ forall x, boolean_env x -> eval x (tm P) == eval x Pin.
Proof.
  unfold as_pubo. intros H. split; [|split].
  - destruct (m_create_eval (fun _ => 0) _ _ _ H) as [_ K]; [intros i; left; reflexivity| exact K].
  - pose proof (m_create_wf _ _ _ H) as W. destruct (m_create_eval (fun _ => 0) _ _ _ H) as [_ K]; [intros i; left; reflexivity|].
    rewrite K in W. exact W.
  - intros x Hx. destruct (m_create_eval x _ _ _ H Hx) as [A _]. exact A.
Qed.

Lemma sq_nonneg q : 0 <= q * q.
Proof.
  destruct (Qlt_le_dec q 0) as [H|H].
  - assert (E : q * q == (- q) * (- q)) by ring. rewrite E. apply Qmult_le_0_compat; lra.
  - apply Qmult_le_0_compat; assumption.
Qed.
Lemma sq_ge1 q : 1 <= q -> 1 <= q * q.
Proof. intros H. assert (E : 1 * 1 <= q * q) by (apply Qmult_le_compat_nonneg; split; lra). lra. Qed.

(* ------------------------------------------------------------------ comparisons on Q ---- *)
Lemma qeq0_spec v : qeq0 v = true <-> v == 0.
Proof. unfold qeq0. apply Qeq_bool_iff. Qed.
Lemma qgt0_spec v : if qgt0 v then 0 < v else v <= 0.
Proof.
  unfold qgt0. destruct (v ?= 0) eqn:E.
  - apply Qeq_alt in E. rewrite E. apply Qle_refl.
  - apply Qlt_alt in E. apply Qlt_le_weak, E.
  - apply Qgt_alt in E. exact E.
Qed.
Lemma qlt0_spec v : if qlt0 v then v < 0 else 0 <= v.
Proof.
  unfold qlt0. destruct (v ?= 0) eqn:E.
  - apply Qeq_alt in E. rewrite E. apply Qle_refl.
  - apply Qlt_alt in E. exact E.
  - apply Qgt_alt in E. apply Qlt_le_weak, E.
Qed.

(* ------------------------------------------------------------------ bounds ---- *)
(* the user-supplied parts of the bounds enclose the polynomial; omitted parts are filled by approximate_pubo_extrema *)
Definition bvalid (pv : env -> Q) (b : bounds) : Prop :=
  (forall l, fst b = Some l -> forall x, boolean_env x -> l <= pv x) /\
  (forall h, snd b = Some h -> forall x, boolean_env x -> pv x <= h).

Lemma get_bounds_valid P b : bvalid (fun x => eval x P) b ->
  forall x, boolean_env x -> fst (get_bounds P b) <= eval x P /\ eval x P <= snd (get_bounds P b).
Proof.
  intros [Hl Hh] x Hx. unfold get_bounds. destruct (approx_pubo_sound x P Hx) as [A B].
  destruct (approx_pubo P) as [lo hi]. simpl in A, B. destruct b as [[l|] [h|]]; simpl in *.
  - split; [apply (Hl l eq_refl x Hx)| apply (Hh h eq_refl x Hx)].
  - split; [apply (Hl l eq_refl x Hx)| exact B].
  - split; [exact A| apply (Hh h eq_refl x Hx)].
  - split; assumption.
Qed.

(* ------------------------------------------------------------------ == 0 ---- *)
Definition pen_nonneg (G : env -> Q) : Prop := forall x, boolean_env x -> 0 <= G x.
(* the penalty of an equality constraint: no ancillas *)
Definition pen_eq (pv G : env -> Q) : Prop :=
  pen_nonneg G /\ (forall x, boolean_env x -> pv x == 0 -> G x == 0) /\ (forall x, boolean_env x -> ~ pv x == 0 -> 1 <= G x).
Definition int_v (pv : env -> Q) : Prop := forall x, boolean_env x -> is_int (pv x).

Lemma lamP_step m P lam X m' : ev (lamP lam P) = Ok X -> iadd_m m X = Ok m' -> bkind (kd m) -> bkind (kd P) ->
  step_ok m m' lam (fun x => eval x (tm P)) /\ frame m m'.
Proof.
  intros HX Hm Hk HP. split; [|eapply iadd_m_frame, Hm]. intros x Hx.
  destruct (ev_sound x _ _ HX) as [A _]; [simpl; split; [exact I| apply bkind_env; assumption]|].
  rewrite (iadd_m_step x _ _ _ Hm Hk Hx), A. simpl. reflexivity.
Qed.
Lemma lamP_step_neg m P lam X m' : ev (lamP lam P) = Ok X -> isub_m m X = Ok m' -> bkind (kd m) -> bkind (kd P) ->
  step_ok m m' lam (fun x => - eval x (tm P)) /\ frame m m'.
Proof.
  intros HX Hm Hk HP. split; [|eapply isub_m_frame, Hm]. intros x Hx.
  destruct (ev_sound x _ _ HX) as [A _]; [simpl; split; [exact I| apply bkind_env; assumption]|].
  rewrite (isub_m_step x _ _ _ Hm Hk Hx), A. simpl. ring.
Qed.
Lemma lamPP_step m P lam X m' : ev (EBin false OpMul (lamP lam P) (EM P)) = Ok X -> iadd_m m X = Ok m' ->
  bkind (kd m) -> bkind (kd P) ->
  step_ok m m' lam (fun x => eval x (tm P) * eval x (tm P)) /\ frame m m'.
Proof.
  intros HX Hm Hk HP. split; [|eapply iadd_m_frame, Hm]. intros x Hx.
  destruct (ev_sound x _ _ HX) as [A _].
  { simpl. repeat split; try exact I; apply bkind_env; assumption. }
  rewrite (iadd_m_step x _ _ _ Hm Hk Hx), A. simpl. ring.
Qed.

Theorem eq_zero_core_spec m P lam b m' w t :
  eq_zero_core m P lam b = Ok (m', w, t) -> bkind (kd m) -> bkind (kd P) ->
  let pv := fun x => eval x (tm P) in
  int_v pv -> bvalid pv b ->
  exists G, step_ok m m' lam G /\ frame m m' /\ pen_nonneg G /\ (w <> WUnsat -> pen_eq pv G)
            /\ (w = WUnsat -> 0 < fst (get_bounds (tm P) b) \/ snd (get_bounds (tm P) b) < 0)
            /\ (w = WUnsat -> forall x, boolean_env x -> ~ pv x == 0 /\ 1 <= G x).
Proof.
  intros H Hk HP pv Hint Hb. unfold eq_zero_core in H.
  pose proof (get_bounds_valid (tm P) b Hb) as HB. destruct (get_bounds (tm P) b) as [lo hi]. simpl in HB.
  destruct (qeq0 lo && qeq0 hi) eqn:E0.
  { apply andb_true_iff in E0. destruct E0 as [E1 E2]. apply qeq0_spec in E1. apply qeq0_spec in E2.
    injection H as <- <- <-. exists (fun _ => 0). split; [intros x Hx; ring|]. split; [apply frame_refl|].
    split; [intros x Hx; lra|]. split; [|split; discriminate]. intros _. split; [intros x Hx; lra|]. split; [intros; reflexivity|].
    intros x Hx Hn. exfalso. apply Hn. destruct (HB x Hx). unfold pv. lra. }
  pose proof (qgt0_spec lo) as Hlo. destruct (qgt0 lo).
  { inv_bind H. inv_bind H. injection H as <- <- <-. destruct (lamP_step _ _ _ _ _ E E1 Hk HP) as [S F].
    exists pv. split; [exact S|]. split; [exact F|]. split; [intros x Hx; destruct (HB x Hx); unfold pv; lra|].
    split; [intros Hw; congruence|]. split; [intros _; left; simpl; exact Hlo|].
    intros _ x Hx. destruct (HB x Hx). assert (0 < pv x) by (unfold pv; lra).
    split; [lra| apply int_pos_ge1; [apply Hint, Hx| assumption]]. }
  pose proof (qlt0_spec hi) as Hhi. destruct (qlt0 hi).
  { inv_bind H. inv_bind H. injection H as <- <- <-. destruct (lamP_step_neg _ _ _ _ _ E E1 Hk HP) as [S F].
    exists (fun x => - pv x). split; [exact S|]. split; [exact F|]. split; [intros x Hx; destruct (HB x Hx); unfold pv; lra|].
    split; [intros Hw; congruence|]. split; [intros _; right; simpl; exact Hhi|].
    intros _ x Hx. destruct (HB x Hx). assert (0 < - pv x) by (unfold pv; lra).
    split; [lra| apply int_pos_ge1; [apply is_int_opp, Hint, Hx| assumption]]. }
  destruct (qeq0 lo) eqn:El.
  { apply qeq0_spec in El. inv_bind H. inv_bind H. injection H as <- <- <-.
    destruct (lamP_step _ _ _ _ _ E E1 Hk HP) as [S F].
    exists pv. split; [exact S|]. split; [exact F|].
    assert (Hnn : pen_nonneg pv) by (intros x Hx; destruct (HB x Hx); unfold pv; lra).
    split; [exact Hnn|]. split; [|split; discriminate]. intros _. split; [exact Hnn|]. split; [intros x Hx Hz; exact Hz|].
    intros x Hx Hn. apply int_nonneg_nonzero; [apply Hint, Hx| apply Hnn, Hx| exact Hn]. }
  destruct (qeq0 hi) eqn:Eh.
  { apply qeq0_spec in Eh. inv_bind H. inv_bind H. injection H as <- <- <-.
    destruct (lamP_step_neg _ _ _ _ _ E E1 Hk HP) as [S F].
    exists (fun x => - pv x). split; [exact S|]. split; [exact F|].
    assert (Hnn : pen_nonneg (fun x => - pv x)) by (intros x Hx; destruct (HB x Hx); unfold pv; lra).
    split; [exact Hnn|]. split; [|split; discriminate]. intros _. split; [exact Hnn|]. split; [intros x Hx Hz; rewrite Hz; ring|].
    intros x Hx Hn. apply int_nonneg_nonzero; [apply is_int_opp, Hint, Hx| apply Hnn, Hx|].
    intros Hz. apply Hn. lra. }
  inv_bind H. inv_bind H. injection H as <- <- <-. destruct (lamPP_step _ _ _ _ _ E E1 Hk HP) as [S F].
  exists (fun x => pv x * pv x). split; [exact S|]. split; [exact F|].
  assert (Hnn : pen_nonneg (fun x => pv x * pv x)) by (intros x Hx; apply sq_nonneg).
  split; [exact Hnn|]. split; [|split; discriminate]. intros _. split; [exact Hnn|]. split; [intros x Hx Hz; rewrite Hz; ring|].
  intros x Hx Hn. apply int_nonzero_sq; [apply Hint, Hx| exact Hn].
Qed.

(* ------------------------------------------------------------------ the a == b*c shortcut ---- *)
Definition and_val (x : env) (a b c : label) : Q := 3 * x a + x b * x c - 2 * x a * (x b + x c).

Lemma get_bounds_given P l h : get_bounds P (Some l, Some h) = (l, h).
Proof. unfold get_bounds. destruct (approx_pubo P). reflexivity. Qed.

Lemma and_chain_step m lam a b c m' :
  bind (ev (and_gadget_expr (EL a) (one_times (EL b)) (one_times (EL c)))) (fun G =>
  bind (as_pubo (tm G)) (fun G' =>
  bind (eq_zero_core empty_pcbo G' lam (Some 0, Some 3)) (fun '(tmp, _, _) =>
  bind (iadd_m m tmp) (fun m' => Ok (Some m'))))) = Ok (Some m') ->
  bkind (kd m) -> step_ok m m' lam (fun x => and_val x a b c) /\ frame m m'.
Proof.
  intros H Hk.
  destruct (ev (and_gadget_expr (EL a) (one_times (EL b)) (one_times (EL c)))) as [G|] eqn:EG; cbn [bind] in H; [|discriminate].
  destruct (as_pubo (tm G)) as [G'|] eqn:EG'; cbn [bind] in H; [|discriminate].
  destruct (eq_zero_core empty_pcbo G' lam (Some 0, Some 3)) as [[[tmp w0] t0]|] eqn:Ecore; cbn [bind] in H; [|discriminate].
  destruct (iadd_m m tmp) as [m2|] eqn:Eadd; cbn [bind] in H; [|discriminate]. injection H as <-.
  destruct (as_pubo_spec _ _ EG') as (K1 & W1 & V1).
  unfold eq_zero_core in Ecore. rewrite get_bounds_given in Ecore.
  change (qeq0 0) with true in Ecore. change (qeq0 3) with false in Ecore. change (qgt0 0) with false in Ecore.
  change (qlt0 3) with false in Ecore. cbn [andb] in Ecore.
  destruct (ev (lamP lam G')) as [X|] eqn:EX; cbn [bind] in Ecore; [|discriminate].
  destruct (iadd_m empty_pcbo X) as [tmp'|] eqn:Etmp; cbn [bind] in Ecore; [|discriminate].
  injection Ecore as <- _ _.
  assert (HP1 : bkind (kd G')) by (rewrite K1; apply bkind_pubo).
  destruct (lamP_step _ _ _ _ _ EX Etmp bkind_pcbo HP1) as [S1 F1].
  split; [|eapply iadd_m_frame, Eadd]. intros x Hx.
  rewrite (iadd_m_step x _ _ _ Eadd Hk Hx), (S1 x Hx), (V1 x Hx).
  destruct (ev_sound x _ _ EG) as [A _].
  { simpl. repeat split; try exact I; exact Hx. }
  rewrite A. unfold and_val. simpl. ring.
Qed.

Lemma and_val_facts x a b c : boolean_env x ->
  0 <= and_val x a b c /\ (x a == x b * x c -> and_val x a b c == 0) /\ (~ x a == x b * x c -> 1 <= and_val x a b c).
Proof. intros Hx. apply (and_gadget_facts (x a) (x b) (x c)); apply Hx. Qed.

Theorem special_eq_spec m P lam m' : special_eq m P lam = Ok (Some m') -> bkind (kd m) -> wf (kd P) (tm P) ->
  exists G, step_ok m m' lam G /\ frame m m' /\ pen_eq (fun x => eval x (tm P)) G.
Proof.
  intros H Hk [_ Hnz]. unfold special_eq in H.
  destruct (tm P) as [|[k0 v0] [|[k1 v1] [|? ?]]] eqn:ET; try discriminate.
  destruct (qeq0 _ && Nat.eqb _ 3 && Qeq_bool v0 (- v1)) eqn:Ec; [|discriminate].
  apply andb_true_iff in Ec. destruct Ec as [_ Ev]. apply Qeq_bool_iff in Ev.
  assert (Hv0 : ~ v0 == 0) by (apply (Hnz k0 v0); left; reflexivity).
  destruct k0 as [|a0 [|b0 [|? ?]]], k1 as [|a1 [|b1 [|? ?]]]; try discriminate.
  - (* k0 = [a0], k1 = [a1; b1] *)
    destruct (and_chain_step _ _ _ _ _ _ H Hk) as [S F].
    exists (fun x => and_val x a0 a1 b1). split; [exact S|]. split; [exact F|].
    assert (Hpv : forall x, eval x [([a0], v0); ([a1; b1], v1)] == v0 * (x a0 - x a1 * x b1)).
    { intros x. simpl. rewrite Ev. ring. }
    split; [intros x Hx; apply and_val_facts, Hx|]. split; intros x Hx Hz.
    + apply and_val_facts; [exact Hx|]. rewrite Hpv in Hz.
      assert (x a0 - x a1 * x b1 == 0) by (destruct (Qmult_integral _ _ Hz); [contradiction| assumption]). lra.
    + apply and_val_facts; [exact Hx|]. intros Heq. apply Hz. rewrite Hpv, Heq. ring.
  - (* k0 = [a0; b0], k1 = [a1] *)
    destruct (and_chain_step _ _ _ _ _ _ H Hk) as [S F].
    exists (fun x => and_val x a1 a0 b0). split; [exact S|]. split; [exact F|].
    assert (Hpv : forall x, eval x [([a0; b0], v0); ([a1], v1)] == v0 * (x a0 * x b0 - x a1)).
    { intros x. simpl. rewrite Ev. ring. }
    split; [intros x Hx; apply and_val_facts, Hx|]. split; intros x Hx Hz.
    + apply and_val_facts; [exact Hx|]. rewrite Hpv in Hz.
      assert (x a0 * x b0 - x a1 == 0) by (destruct (Qmult_integral _ _ Hz); [contradiction| assumption]). lra.
    + apply and_val_facts; [exact Hx|]. intros Heq. apply Hz. rewrite Hpv, Heq. ring.
Qed.

Lemma special_eq_none m P lam : forall r, special_eq m P lam = Ok r -> r = None \/ exists m', r = Some m'.
Proof. intros [m'|]; eauto. Qed.

(* ------------------------------------------------------------------ add_constraint_eq_zero ---- *)
Lemma append_frame m r P : kd (append_constraint m r P) = kd m /\ tm (append_constraint m r P) = tm m
  /\ anc (append_constraint m r P) = anc m /\ cons (append_constraint m r P) = cons m ++ [(r, P)].
Proof. repeat split. Qed.

(* what one constraint call does to the bookkeeping *)
Definition cframe (m m' : model) (r : rel) (P : terms) : Prop :=
  kd m' = kd m /\ cons m' = cons m ++ [(r, P)].

Theorem add_eq_spec m Pin lam b m' w t :
  add_eq m Pin lam b = Ok (m', w, t) -> bkind (kd m) -> ~ lam == 0 ->
  let pv := fun x => eval x Pin in
  int_v pv -> bvalid pv b ->
  exists G P, as_pubo Pin = Ok P /\ step_ok m m' lam G /\ cframe m m' REq (tm P) /\ anc m' = anc m
              /\ pen_nonneg G /\ (w <> WUnsat -> pen_eq pv G)
              /\ (w = WUnsat -> 0 < fst (get_bounds (tm P) b) \/ snd (get_bounds (tm P) b) < 0)
              /\ (w = WUnsat -> forall x, boolean_env x -> ~ pv x == 0 /\ 1 <= G x).
Proof.
  intros H Hk Hlam pv Hint Hb. unfold add_eq in H. inv_bind H. rename a into P.
  destruct (as_pubo_spec _ _ E) as (KP & WP & VP).
  assert (HkP : bkind (kd P)) by (rewrite KP; apply bkind_pubo).
  destruct (qeq0 lam) eqn:El; [apply qeq0_spec in El; contradiction|].
  set (m1 := append_constraint m REq (tm P)) in *.
  assert (Hk1 : bkind (kd m1)) by exact Hk.
  assert (Hint' : int_v (fun x => eval x (tm P))) by (intros x Hx; eapply is_int_ext; [symmetry; apply VP, Hx| apply Hint, Hx]).
  assert (Hb' : bvalid (fun x => eval x (tm P)) b).
  { destruct Hb as [Bl Bh]. split; intros v Hv x Hx; rewrite (VP x Hx); [eapply Bl| eapply Bh]; eassumption. }
  assert (Hpe : forall G, pen_eq (fun x => eval x (tm P)) G -> pen_eq pv G).
  { intros G (A & B & C0). split; [exact A|]. split; intros x Hx Hz; [apply B| apply C0]; try exact Hx; unfold pv in Hz; rewrite (VP x Hx); exact Hz. }
  inv_bind H. destruct a as [m2|].
  - injection H as <- <- <-. rewrite <- KP in WP. destruct (special_eq_spec _ _ _ _ E0 Hk1 WP) as (G & S & (F1 & F2 & F3) & PE).
    exists G, P. split; [reflexivity|]. split; [exact S|]. split; [split; [exact F1| exact F3]|]. split; [exact F2|].
    split; [apply PE|]. split; [intros _; apply Hpe, PE| split; discriminate].
  - destruct (eq_zero_core_spec _ _ _ _ _ _ _ H Hk1 HkP Hint' Hb') as (G & S & (F1 & F2 & F3) & NN & PE & UN & US).
    exists G, P. split; [reflexivity|]. split; [exact S|]. split; [split; [exact F1| exact F3]|]. split; [exact F2|].
    split; [exact NN|]. split; [intros Hw; apply Hpe, PE, Hw|]. split; [exact UN|].
    intros Hw x Hx. destruct (US Hw x Hx) as [A B]. split; [|exact B]. unfold pv. rewrite <- (VP x Hx). exact A.
Qed.

(* ------------------------------------------------------------------ ancillas ---- *)
(* the ancilla labels '__a k' for k0 <= k < k1 *)
Definition fresh_lbl (k0 k1 : nat) (l : label) : Prop := exists k, (k0 <= k < k1)%nat /\ l = anc_label k.
Definition agree_off (fr : label -> Prop) (x x' : env) : Prop := forall l, ~ fr l -> x' l == x l.
Definition indep (fr : label -> Prop) (pv : env -> Q) : Prop :=
  forall x x', boolean_env x -> boolean_env x' -> agree_off fr x x' -> pv x' == pv x.

(* penalty of a constraint  R(P)  that may use fresh ancillas *)
Definition pen_rel (R : Q -> Prop) (fr : label -> Prop) (pv G : env -> Q) : Prop :=
  pen_nonneg G /\
  (forall x, boolean_env x -> R (pv x) -> exists x', boolean_env x' /\ agree_off fr x x' /\ G x' == 0) /\
  (forall x, boolean_env x -> ~ R (pv x) -> 1 <= G x).

Lemma agree_off_refl fr x : agree_off fr x x.
Proof. intros l _. reflexivity. Qed.
Lemma pen_eq_rel fr pv G : pen_eq pv G -> pen_rel (fun v => v == 0) fr pv G.
Proof.
  intros (A & B & C0). split; [exact A|]. split; [|exact C0].
  intros x Hx Hz. exists x. split; [exact Hx|]. split; [apply agree_off_refl| apply B; assumption].
Qed.
Lemma pen_rel_weaken_fresh (R : Q -> Prop) (fr fr' : label -> Prop) pv G :
  (forall l, fr l -> fr' l) -> pen_rel R fr pv G -> pen_rel R fr' pv G.
Proof.
  intros Hs (A & B & C0). split; [exact A|]. split; [|exact C0].
  intros x Hx HR. destruct (B x Hx HR) as (x' & Hb & Ha & Hz). exists x'. split; [exact Hb|]. split; [|exact Hz].
  intros l Hl. apply Ha. intros Hf. apply Hl, Hs, Hf.
Qed.

(* overriding the ancillas k0 .. k0+n-1 with chosen bits *)
Definition set_anc (x : env) (k0 n : nat) (a : nat -> Q) : env :=
  fun l => if ((100 + k0 <=? l) && (l <? 100 + k0 + n))%nat then a (l - 100 - k0)%nat else x l.
Lemma set_anc_at x k0 n a j : (j < n)%nat -> set_anc x k0 n a (anc_label (k0 + j)) = a j.
Proof.
  intros Hj. unfold set_anc, anc_label.
  assert (((100 + k0 <=? 100 + (k0 + j)) && (100 + (k0 + j) <? 100 + k0 + n))%nat = true) as ->.
  { apply andb_true_iff. split; [apply Nat.leb_le; lia| apply Nat.ltb_lt; lia]. }
  f_equal. lia.
Qed.
Lemma set_anc_bool x k0 n a : boolean_env x -> (forall j, is_bool (a j)) -> boolean_env (set_anc x k0 n a).
Proof. intros Hx Ha l. unfold set_anc. destruct (_ && _); [apply Ha| apply Hx]. Qed.
Lemma set_anc_agree x k0 n a : agree_off (fresh_lbl k0 (k0 + n)) x (set_anc x k0 n a).
Proof.
  intros l Hl. unfold set_anc. destruct ((100 + k0 <=? l) && (l <? 100 + k0 + n))%nat eqn:E; [|reflexivity].
  exfalso. apply Hl. apply andb_true_iff in E. destruct E as [E1 E2]. apply Nat.leb_le in E1. apply Nat.ltb_lt in E2.
  exists (l - 100)%nat. split; [lia| unfold anc_label; lia].
Qed.

(* P[(next_ancilla,)] += v, num_bits times *)
Lemma add_slack_spec x lt a0 : forall n i P hi Ps hi', add_slack P a0 n i lt hi = Ok (Ps, hi') -> bkind (kd P) -> boolean_env x ->
  eval x (tm Ps) == eval x (tm P) + slack_val lt (fun j => x (anc_label (a0 + j))) n i
  /\ hi' == hi + slack_val lt (fun _ => 1) n i /\ kd Ps = kd P.
Proof.
  induction n as [|n IH]; simpl; intros i P hi Ps hi' H Hk Hx.
  - injection H as <- <-. split; [ring|]. split; [ring| reflexivity].
  - destruct (m_additem P [anc_label (a0 + i)] (if lt then pow2 i else 1)) as [P'|] eqn:E; cbn [bind] in H; [|discriminate].
    destruct (m_additem_eval x _ _ _ _ E (bkind_env _ _ Hk Hx)) as [A K].
    assert (Hk' : bkind (kd P')) by (rewrite K; exact Hk).
    destruct (IH _ _ _ _ _ H Hk' Hx) as (B & C0 & K'). split; [|split; [|congruence]].
    + rewrite B, A. simpl. ring.
    + rewrite C0. ring.
Qed.

Lemma slack_total_ge lt a n : (forall j, is_bool (a j)) -> forall i, slack_val lt a n i <= slack_val lt (fun _ => 1) n i.
Proof.
  intros Ha. induction n as [|n IH]; intros i; simpl; [lra|]. specialize (IH (S i)). pose proof (pow2_pos i).
  destruct (Ha i) as [H0|H0]; rewrite H0; destruct lt; lra.
Qed.

Lemma pop_last_app r l P : pop_last r (l ++ [(r, P)]) = l.
Proof.
  induction l as [|[r' P'] l IH]; simpl.
  - assert (rel_eqb r r = true) as -> by (destruct r; reflexivity). reflexivity.
  - rewrite IH. destruct (rel_eqb r r') eqn:E; [|reflexivity]. simpl.
    assert (existsb (fun p => rel_eqb r (fst p)) (l ++ [(r, P)]) = true) as ->; [|reflexivity].
    rewrite existsb_app. simpl. assert (rel_eqb r r = true) as -> by (destruct r; reflexivity).
    rewrite orb_true_r. reflexivity.
Qed.

Lemma slack_val_ext lt a a' n : forall i, (forall j, (i <= j < i + n)%nat -> a j == a' j) -> slack_val lt a n i == slack_val lt a' n i.
Proof.
  induction n as [|n IH]; intros i H; simpl; [reflexivity|].
  rewrite (H i) by lia. rewrite (IH (S i)); [reflexivity|]. intros j Hj. apply H. lia.
Qed.

(* every integer 0 <= t <= val is reached by num_bits(val) slack bits *)
Lemma slack_repr val lt n (t : Z) : num_bits val lt = Ok n -> (0 <= t)%Z -> inject_Z t <= val ->
  exists a : nat -> Q, (forall j, is_bool (a j)) /\ slack_val lt a n 0 == inject_Z t.
Proof.
  intros Hn Ht Hv. pose proof (num_bits_enough _ _ _ Hn t Ht Hv) as Hb. destruct lt.
  - destruct (binary_repr n 0 t) as (a & Ha & Hs); [lia|]. exists a. split; [exact Ha|]. rewrite Hs. simpl. ring.
  - destruct (unary_repr n 0 t) as (a & Ha & Hs); [lia|]. exists a. split; [exact Ha| exact Hs].
Qed.

(* P + slack == 0 as a penalty for P <= 0 *)
Lemma slack_le_pen pv G lo lt n k0 :
  int_v pv -> (forall x, boolean_env x -> lo <= pv x) -> indep (fresh_lbl k0 (k0 + n)) pv ->
  num_bits (- lo) lt = Ok n ->
  pen_eq (fun x => pv x + slack_val lt (fun j => x (anc_label (k0 + j))) n 0) G ->
  pen_rel (fun v => v <= 0) (fresh_lbl k0 (k0 + n)) pv G.
Proof.
  intros Hint Hlo Hind Hn (NN & Z0 & G1). split; [exact NN|]. split.
  - intros x Hx Hle. destruct (Hint x Hx) as [z Hz].
    assert (Hz0 : (z <= 0)%Z) by (rewrite Hz in Hle; change 0 with (inject_Z 0) in Hle; rewrite <- Zle_Qle in Hle; exact Hle).
    destruct (slack_repr (- lo) lt n (- z)%Z Hn) as (a & Ha & Hs); [lia| |].
    { rewrite inject_Z_opp, <- Hz. specialize (Hlo x Hx). lra. }
    exists (set_anc x k0 n a). split; [apply set_anc_bool; assumption|]. split; [apply set_anc_agree|].
    apply Z0; [apply set_anc_bool; assumption|].
    rewrite (Hind x _ Hx (set_anc_bool x k0 n a Hx Ha) (set_anc_agree x k0 n a)).
    rewrite (slack_val_ext lt _ a n 0).
    + rewrite Hs, Hz, inject_Z_opp. ring.
    + intros j Hj. rewrite set_anc_at by lia. reflexivity.
  - intros x Hx Hnle. apply G1; [exact Hx|]. intros Hz.
    assert (Hp : 1 <= pv x) by (apply int_le_lt; [apply Hint, Hx| exact Hnle]).
    pose proof (slack_val_nonneg lt (fun j => x (anc_label (k0 + j))) n (fun j => Hx _) 0). lra.
Qed.

(* ------------------------------------------------------------------ the <= 0 shortcuts ---- *)
Lemma core_min_zero P2 lam h tmp w t : eq_zero_core empty_pcbo P2 lam (Some 0, Some h) = Ok (tmp, w, t) -> 0 < h ->
  bkind (kd P2) -> step_ok empty_pcbo tmp lam (fun x => eval x (tm P2)).
Proof.
  intros H Hh HP. unfold eq_zero_core in H. rewrite get_bounds_given in H.
  assert (qeq0 h = false) as Eh.
  { destruct (qeq0 h) eqn:E; [apply qeq0_spec in E; lra| reflexivity]. }
  change (qeq0 0) with true in H. rewrite Eh in H. change (qgt0 0) with false in H. cbn [andb] in H.
  pose proof (qlt0_spec h) as Hl. destruct (qlt0 h); [lra|].
  destruct (ev (lamP lam P2)) as [X|] eqn:EX; cbn [bind] in H; [|discriminate].
  destruct (iadd_m empty_pcbo X) as [tmp'|] eqn:Et; cbn [bind] in H; [|discriminate]. injection H as <- _ _.
  apply (lamP_step _ _ _ _ _ EX Et bkind_pcbo HP).
Qed.

Lemma den_AND_of_key x k : denote x (AND_of_key k) == mon x k.
Proof.
  unfold AND_of_key, e_and. destruct k as [|i k]; [simpl; ring|].
  cbn [map]. set (es := EL i :: map EL k).
  assert (G : forall l P, denote x (fold_left (fun P v => EBin true OpMul P v) (map EL l) P) == denote x P * mon x l).
  { induction l as [|j l IH]; intros P; simpl; [ring|]. rewrite IH. simpl. ring. }
  change es with (map EL (i :: k)). rewrite G. simpl. ring.
Qed.
Lemma AND_of_key_leaves x k : boolean_env x -> leaves (fun kd0 => good_env kd0 x) (AND_of_key k).
Proof.
  intros Hx. unfold AND_of_key, e_and. destruct k as [|i k]; [simpl; auto|].
  assert (G : forall l P, leaves (fun kd0 => good_env kd0 x) P ->
            leaves (fun kd0 => good_env kd0 x) (fold_left (fun P v => EBin true OpMul P v) (map EL l) P)).
  { induction l as [|j l IH]; intros P HP; simpl; [exact HP|]. apply IH. simpl. split; [exact HP| exact Hx]. }
  apply G. exact I.
Qed.

(* eval of a term list whose coefficients are all 1 (resp. the monomials are booleans) *)
Lemma eval_all_ones x t : boolean_env x -> forallb (fun '(_, v) => Qeq_bool v 1) t = true -> 0 <= eval x t /\ is_int (eval x t).
Proof.
  intros Hx. induction t as [|[k v] t IH]; simpl; intros H; [split; [lra| exists 0%Z; reflexivity]|].
  apply andb_true_iff in H. destruct H as [Hv Ht]. apply Qeq_bool_iff in Hv. destruct (IH Ht) as [A B].
  pose proof (mon_is_bool x k Hx) as Hm. split.
  - rewrite Hv. destruct Hm as [Hm|Hm]; rewrite Hm; lra.
  - apply is_int_plus; [|exact B]. apply is_int_mult; [exists 1%Z; exact Hv| apply is_bool_int, Hm].
Qed.

(* the offset is the value at the all-zero assignment *)
Lemma mon_zero k : mon (fun _ => 0) k == match k with [] => 1 | _ => 0 end.
Proof. destruct k; simpl; ring. Qed.
Lemma eval_zero_offset t : NoDup (map fst t) -> eval (fun _ => 0) t == get_sq t [].
Proof.
  unfold get_sq. induction t as [|[k v] t IH]; simpl; intros Hnd; [reflexivity|]. inversion Hnd; subst.
  rewrite mon_zero. destruct k as [|i k]; simpl.
  - rewrite (IH H2). assert (lookup [] t = None) as ->; [|ring].
    apply lookup_None_notin. exact H1.
  - rewrite (IH H2). ring.
Qed.

Lemma iadd_ev_step x m e X m' : ev e = Ok X -> iadd_m m X = Ok m' -> bkind (kd m) -> boolean_env x ->
  leaves (fun k => good_env k x) e -> eval x (tm m') == eval x (tm m) + denote x e.
Proof.
  intros HX Hm Hk Hx Hl. destruct (ev_sound x _ _ HX Hl) as [A _]. rewrite (iadd_m_step x _ _ _ Hm Hk Hx), A. reflexivity.
Qed.

Lemma mk_ancs_spec x a0 : forall n i A ancs, mk_ancs A a0 i n = Ok ancs -> bkind (kd A) -> boolean_env x ->
  eval x (tm ancs) == eval x (tm A) + slack_val false (fun j => x (anc_label (a0 + j))) n i /\ kd ancs = kd A.
Proof.
  induction n as [|n IH]; simpl; intros i A ancs H Hk Hx.
  - injection H as <-. split; [ring| reflexivity].
  - destruct (m_additem A [anc_label (a0 + i)] 1) as [A'|] eqn:E; cbn [bind] in H; [|discriminate].
    destruct (m_additem_eval x _ _ _ _ E (bkind_env _ _ Hk Hx)) as [B K].
    assert (Hk' : bkind (kd A')) by (rewrite K; exact Hk).
    destruct (IH _ _ _ H Hk' Hx) as [C0 K']. split; [|congruence]. rewrite C0, B. simpl. ring.
Qed.

(* unary slack squared: (W - sum a)^2 for 0 <= W integer, as a penalty for W <= n *)
Lemma unary_sq_pen (W : env -> Q) n k0 cap :
  (forall x, boolean_env x -> is_int (W x) /\ 0 <= W x) -> indep (fresh_lbl k0 (k0 + n)) W ->
  num_bits cap false = Ok n -> is_int cap ->
  pen_rel (fun v => v <= cap) (fresh_lbl k0 (k0 + n)) W
          (fun x => (W x - slack_val false (fun j => x (anc_label (k0 + j))) n 0) * (W x - slack_val false (fun j => x (anc_label (k0 + j))) n 0)).
Proof.
  intros HW Hind Hn Hcap. split; [intros x Hx; apply sq_nonneg|]. split.
  - intros x Hx Hle. destruct (HW x Hx) as [[z Hz] H0].
    assert (Hz0 : (0 <= z)%Z) by (rewrite Hz in H0; change 0 with (inject_Z 0) in H0; rewrite <- Zle_Qle in H0; exact H0).
    destruct (slack_repr cap false n z Hn Hz0) as (a & Ha & Hs); [rewrite <- Hz; exact Hle|].
    exists (set_anc x k0 n a). split; [apply set_anc_bool; assumption|]. split; [apply set_anc_agree|].
    rewrite (Hind x _ Hx (set_anc_bool x k0 n a Hx Ha) (set_anc_agree x k0 n a)). rewrite (slack_val_ext false _ a n 0).
    + rewrite Hs, Hz. ring.
    + intros j Hj. rewrite set_anc_at by lia. reflexivity.
  - intros x Hx Hnle. destruct (HW x Hx) as [Hi H0].
    set (s := slack_val false (fun j => x (anc_label (k0 + j))) n 0).
    assert (Hsi : is_int s) by (apply slack_val_int; intros j; apply Hx).
    assert (Hs0 : s <= slack_val false (fun _ => 1) n 0) by (apply slack_total_ge; intros j; apply Hx).
    assert (Hn1 : slack_val false (fun _ => 1) n 0 == inject_Z (Z.of_nat n)).
    { clear. generalize 0%nat. induction n as [|n IH]; intros i; [reflexivity|].
      cbn [slack_val]. rewrite IH, Nat2Z.inj_succ. unfold Z.succ. rewrite inject_Z_plus. ring. }
    assert (Hnc : inject_Z (Z.of_nat n) <= cap \/ True) by (right; exact I).
    (* W > cap >= ... ; n = ceil(cap) so that s <= n <= W - 1 when W, cap are integers *)
    assert (Hn' : inject_Z (Z.of_nat n) <= cap).
    { unfold num_bits in Hn. destruct (Qlt_le_dec cap 0) as [Hc|Hc]; [discriminate|]. injection Hn as <-.
      destruct Hcap as [c Hc']. unfold qceil.
      assert (Ef : Qfloor (- cap) = (- c)%Z).
      { assert (E1 : - cap == inject_Z (- c)) by (rewrite Hc', inject_Z_opp; reflexivity).
        rewrite (Qfloor_comp _ _ E1). apply Qfloor_Z. }
      rewrite Ef, Z.opp_involutive.
      assert (Hc0 : (0 <= c)%Z) by (rewrite Hc' in Hc; change 0 with (inject_Z 0) in Hc; rewrite <- Zle_Qle in Hc; exact Hc).
      rewrite Z2Nat.id by exact Hc0. rewrite Hc'. apply Qle_refl. }
    assert (Hd : 1 <= W x - s).
    { apply int_le_lt; [apply is_int_plus; [exact Hi| apply is_int_opp, Hsi]|]. intros Hle. apply Hnle. lra. }
    nra.
Qed.

(* what a shortcut / branch of a <= 0 constraint establishes *)
Definition le_result (m m' : model) (lam : Q) (pv : env -> Q) : Prop :=
  exists G, step_ok m m' lam G /\ kd m' = kd m /\ cons m' = cons m /\ (anc m <= anc m')%nat
            /\ pen_rel (fun v => v <= 0) (fresh_lbl (anc m) (anc m')) pv G.

Lemma fresh_empty k l : ~ fresh_lbl k k l.
Proof. intros (j & Hj & _). lia. Qed.

Theorem special_le_spec m P lam lt lo hi m' t :
  special_le m P lam lt lo hi = Ok (Some (m', t)) -> bkind (kd m) -> bkind (kd P) -> wf (kd P) (tm P) ->
  let pv := fun x => eval x (tm P) in
  int_v pv -> (forall x, boolean_env x -> lo <= pv x) ->
  (forall n, indep (fresh_lbl (anc m) (anc m + n)) pv) ->
  le_result m m' lam pv.
Proof.
  intros H Hk HP [Hnd Hnz] pv Hint Hlo Hind. unfold special_le in H.
  set (off := get_sq (tm P) []) in *.
  destruct (ev (EBin false OpSub (EM P) (EScalar off))) as [Pwo|] eqn:EW; cbn [bind] in H; [|discriminate].
  assert (HWl : forall x, boolean_env x -> leaves (fun k => good_env k x) (EBin false OpSub (EM P) (EScalar off))).
  { intros x Hx. simpl. split; [apply bkind_env; assumption| exact I]. }
  assert (HW : forall x, boolean_env x -> eval x (tm Pwo) == pv x - off).
  { intros x Hx. destruct (ev_sound x _ _ EW (HWl x Hx)) as [A _]. rewrite A. reflexivity. }
  assert (HWe : forall x, boolean_env x -> good_env (kd Pwo) x) by (intros x Hx; apply (ev_sound_env x _ _ EW (HWl x Hx))).
  assert (Hoff : is_int off).
  { eapply is_int_ext; [apply eval_zero_offset, Hnd|]. apply Hint. intros i. left. reflexivity. }
  destruct (Qeq_bool off (-(1)) && forallb (fun '(_, v) => Qeq_bool v 1) (tm Pwo)) eqn:E1.
  { (* sum of monomials - 1 <= 0 : lam * P * (P + 1) / 2 *)
    apply andb_true_iff in E1. destruct E1 as [Eo Eall]. apply Qeq_bool_iff in Eo.
    destruct (ev (EDiv false (EBin false OpMul (lamP lam P) (EM Pwo)) 2)) as [X|] eqn:EX; cbn [bind] in H; [|discriminate].
    destruct (iadd_m m X) as [m2|] eqn:Em; cbn [bind] in H; [|discriminate]. injection H as <- <-.
    destruct (iadd_m_frame _ _ _ Em) as (F1 & F2 & F3).
    exists (fun x => pv x * (pv x + 1) / 2). split; [|split; [exact F1|split; [exact F3|split; [rewrite F2; lia|]]]].
    - intros x Hx. rewrite (iadd_ev_step x _ _ _ _ EX Em Hk Hx).
      + simpl. rewrite (HW x Hx), Eo. unfold pv. field.
      + simpl. repeat split; try exact I; [apply bkind_env; assumption| apply HWe, Hx].
    - assert (Hge : forall x, boolean_env x -> -(1) <= pv x).
      { intros x Hx. destruct (eval_all_ones x _ Hx Eall) as [A _]. rewrite (HW x Hx), Eo in A. lra. }
      split; [intros x Hx; apply tri_nonneg, Hint, Hx|]. split.
      + intros x Hx Hle. exists x. split; [exact Hx|]. split; [apply agree_off_refl|]. apply tri_zero.
        destruct (Qlt_le_dec (pv x) 0) as [Hn|Hn].
        * right. pose proof (int_neg_le_m1 _ (Hint x Hx) Hn). specialize (Hge x Hx). lra.
        * left. lra.
      + intros x Hx Hn. apply tri_ge1; [apply Hint, Hx| apply int_le_lt; [apply Hint, Hx| exact Hn]]. }
  destruct (negb lt && qeq0 (lo - off) && negb (qgt0 off) && negb (qeq0 lo)) eqn:E2.
  { (* unary slack: lam * (P - offset - sum a)^2 *)
    apply andb_true_iff in E2. destruct E2 as [E2 Elo]. apply andb_true_iff in E2. destruct E2 as [E2 Eoff].
    apply andb_true_iff in E2. destruct E2 as [Elt Ediff]. apply negb_true_iff in Elt. subst lt.
    apply qeq0_spec in Ediff. apply negb_true_iff in Eoff.
    destruct (num_bits (- off) false) as [n|] eqn:En; cbn [bind] in H; [|discriminate].
    destruct (mk_ancs (empty_model KPubo) (anc m) 0 n) as [ancs|] eqn:Ea; cbn [bind] in H; [|discriminate].
    destruct (ev (EBin false OpSub (EM Pwo) (EM ancs))) as [diff|] eqn:Ed; cbn [bind] in H; [|discriminate].
    destruct (ev (EBin false OpMul (lamP lam diff) (EM diff))) as [X|] eqn:EX; cbn [bind] in H; [|discriminate].
    destruct (iadd_m (with_anc m (anc m + n)) X) as [m2|] eqn:Em; cbn [bind] in H; [|discriminate]. injection H as <- <-.
    destruct (iadd_m_frame _ _ _ Em) as (F1 & F2 & F3). simpl in F1, F2, F3.
    set (sl := fun x => slack_val false (fun j => x (anc_label (anc m + j))) n 0).
    assert (Hanc : forall x, boolean_env x -> eval x (tm ancs) == sl x /\ kd ancs = KPubo).
    { intros x Hx. destruct (mk_ancs_spec x (anc m) n 0 _ _ Ea bkind_pubo Hx) as [A K]. split; [rewrite A; simpl; unfold sl; ring| exact K]. }
    assert (Hdl : forall x, boolean_env x -> leaves (fun k => good_env k x) (EBin false OpSub (EM Pwo) (EM ancs))).
    { intros x Hx. simpl. split; [apply HWe, Hx|]. destruct (Hanc x Hx) as [_ K]. rewrite K. exact Hx. }
    assert (Hd : forall x, boolean_env x -> eval x (tm diff) == pv x - off - sl x).
    { intros x Hx. destruct (ev_sound x _ _ Ed (Hdl x Hx)) as [A _]. rewrite A. simpl. rewrite (HW x Hx), (proj1 (Hanc x Hx)). reflexivity. }
    exists (fun x => (pv x - off - sl x) * (pv x - off - sl x)).
    split; [|split; [exact F1|split; [exact F3|split; [rewrite F2; lia|]]]].
    - intros x Hx.
      assert (Hk' : bkind (kd (with_anc m (anc m + n)))) by exact Hk.
      rewrite (iadd_ev_step x _ _ _ _ EX Em Hk' Hx).
      + simpl. rewrite (Hd x Hx). ring.
      + pose proof (ev_sound_env x _ _ Ed (Hdl x Hx)) as He. simpl. repeat split; try exact I; exact He.
    - rewrite F2.
      pose proof (unary_sq_pen (fun x => pv x - off) n (anc m) (- off)) as U.
      assert (Hoff0 : off <= 0) by (pose proof (qgt0_spec off) as Hq; rewrite Eoff in Hq; exact Hq).
      destruct U as (U1 & U2 & U3).
      + intros x Hx. split; [apply is_int_plus; [apply Hint, Hx| apply is_int_opp, Hoff]|]. specialize (Hlo x Hx). lra.
      + intros x x' Hx Hx' Ha. rewrite (Hind n x x' Hx Hx' Ha). reflexivity.
      + exact En.
      + apply is_int_opp, Hoff.
      + split; [exact U1|]. split.
        * intros x Hx Hle. apply (U2 x Hx). lra.
        * intros x Hx Hn. apply (U3 x Hx). intros Hc. apply Hn. lra. }
  destruct (Qeq_bool off 1 && Nat.eqb (length (tm Pwo)) 2 && forallb (fun '(_, v) => Qeq_bool v (-(1))) (tm Pwo)) eqn:E3.
  { (* 1 - M0 - M1 <= 0 : lam * (1 - OR(M0, M1)) *)
    apply andb_true_iff in E3. destruct E3 as [E3 Eall]. apply andb_true_iff in E3. destruct E3 as [Eo _].
    apply Qeq_bool_iff in Eo.
    destruct (tm Pwo) as [|[k0 v0] [|[k1 v1] [|? ?]]] eqn:ET; try discriminate.
    simpl in Eall. apply andb_true_iff in Eall. destruct Eall as [Ev0 Ev1]. rewrite andb_true_r in Ev1.
    apply Qeq_bool_iff in Ev0. apply Qeq_bool_iff in Ev1.
    destruct (ev (e_not (e_or [AND_of_key k0; AND_of_key k1]))) as [P2|] eqn:E2'; cbn [bind] in H; [|discriminate].
    destruct (as_pubo (tm P2)) as [P2'|] eqn:E2''; cbn [bind] in H; [|discriminate].
    destruct (eq_zero_core empty_pcbo P2' lam (Some 0, Some 1)) as [[[tmp w0] t0]|] eqn:Ec; cbn [bind] in H; [|discriminate].
    destruct (iadd_m m tmp) as [m2|] eqn:Em; cbn [bind] in H; [|discriminate]. injection H as <- <-.
    destruct (iadd_m_frame _ _ _ Em) as (F1 & F2 & F3).
    destruct (as_pubo_spec _ _ E2'') as (K2 & _ & V2).
    assert (HP2 : bkind (kd P2')) by (rewrite K2; apply bkind_pubo).
    pose proof (core_min_zero _ _ _ _ _ _ Ec ltac:(lra) HP2) as S2.
    set (M0 := fun x => mon x k0). set (M1 := fun x => mon x k1).
    exists (fun x => 1 - (M0 x + M1 x * (1 - M0 x))).
    split; [|split; [exact F1|split; [exact F3|split; [rewrite F2; lia|]]]].
    - intros x Hx. rewrite (iadd_m_step x _ _ _ Em Hk Hx), (S2 x Hx), (V2 x Hx).
      destruct (ev_sound x _ _ E2') as [A _].
      { simpl. repeat split; try exact I; apply AND_of_key_leaves, Hx. }
      rewrite A. simpl. rewrite !den_AND_of_key. unfold M0, M1. ring.
    - assert (Hpv : forall x, boolean_env x -> pv x == 1 - M0 x - M1 x).
      { intros x Hx. pose proof (HW x Hx) as Hw. simpl in Hw. rewrite Ev0, Ev1, Eo in Hw. unfold M0, M1. lra. }
      assert (HB0 : forall x, boolean_env x -> is_bool (M0 x)) by (intros x Hx; apply mon_is_bool, Hx).
      assert (HB1 : forall x, boolean_env x -> is_bool (M1 x)) by (intros x Hx; apply mon_is_bool, Hx).
      split; [intros x Hx; apply (or_gadget_facts (M0 x) (M1 x)); auto|]. split.
      + intros x Hx Hle. exists x. split; [exact Hx|]. split; [apply agree_off_refl|].
        apply (or_gadget_facts (M0 x) (M1 x)); auto. rewrite (Hpv x Hx) in Hle. lra.
      + intros x Hx Hn. apply (or_gadget_facts (M0 x) (M1 x)); auto. intros Hc. apply Hn. rewrite (Hpv x Hx). lra. }
  destruct (qeq0 off && Nat.eqb (length (tm P)) 2 && _) eqn:E4; [|discriminate].
  (* Mp - Mn <= 0 : lam * Mp * (1 - Mn) *)
  apply andb_true_iff in E4. destruct E4 as [E4 Evals]. apply andb_true_iff in E4. destruct E4 as [Eo _]. apply qeq0_spec in Eo.
  destruct (tm P) as [|[k0 v0] [|[k1 v1] [|? ?]]] eqn:ET; try discriminate.
  set (kp := if Qeq_bool v0 1 then k0 else k1) in *. set (kn := if Qeq_bool v0 1 then k1 else k0) in *.
  assert (Hsel : (if Qeq_bool v0 1 then (k0, k1) else (k1, k0)) = (kp, kn)) by (unfold kp, kn; destruct (Qeq_bool v0 1); reflexivity).
  rewrite Hsel in H.
  destruct (ev (EBin false OpMul (EBin false OpMul (EScalar lam) (AND_of_key kp)) (EBin false OpSub (EScalar 1) (AND_of_key kn)))) as [X|] eqn:EX;
    cbn [bind] in H; [|discriminate].
  destruct (iadd_m m X) as [m2|] eqn:Em; cbn [bind] in H; [|discriminate]. injection H as <- <-.
  destruct (iadd_m_frame _ _ _ Em) as (F1 & F2 & F3).
  exists (fun x => mon x kp * (1 - mon x kn)).
  split; [|split; [exact F1|split; [exact F3|split; [rewrite F2; lia|]]]].
  - intros x Hx. rewrite (iadd_ev_step x _ _ _ _ EX Em Hk Hx).
    + simpl. rewrite !den_AND_of_key. ring.
    + simpl. repeat split; try exact I; apply AND_of_key_leaves, Hx.
  - assert (Hpv : forall x, pv x == mon x kp - mon x kn).
    { intros x. unfold pv. simpl. unfold kp, kn.
      apply orb_true_iff in Evals. destruct Evals as [Ev|Ev]; apply andb_true_iff in Ev; destruct Ev as [Ea Eb];
        apply Qeq_bool_iff in Ea; apply Qeq_bool_iff in Eb.
      - assert (Qeq_bool v0 1 = true) as -> by (apply Qeq_bool_iff; exact Ea). rewrite Ea, Eb. ring.
      - assert (Qeq_bool v0 1 = false) as ->.
        { destruct (Qeq_bool v0 1) eqn:Eq; [|reflexivity]. apply Qeq_bool_iff in Eq. rewrite Eq in Ea. discriminate. }
        rewrite Ea, Eb. ring. }
    split; [intros x Hx; apply (implies_gadget_facts (mon x kp) (mon x kn)); apply mon_is_bool, Hx|]. split.
    + intros x Hx Hle. exists x. split; [exact Hx|]. split; [apply agree_off_refl|].
      apply (implies_gadget_facts (mon x kp) (mon x kn)); try (apply mon_is_bool, Hx). rewrite (Hpv x) in Hle. exact Hle.
    + intros x Hx Hn. apply (implies_gadget_facts (mon x kp) (mon x kn)); try (apply mon_is_bool, Hx).
      intros Hc. apply Hn. rewrite (Hpv x). exact Hc.
Qed.

(* ------------------------------------------------------------------ add_constraint_le_zero ---- *)
Definition call_result (r : rel) (R : Q -> Prop) (m m' : model) (lam : Q) (Pin : terms) (w : warn) : Prop :=
  let pv := fun x => eval x Pin in
  exists G P, as_pubo Pin = Ok P /\ step_ok m m' lam G /\ cframe m m' r (tm P) /\ (anc m <= anc m')%nat
              /\ pen_nonneg G /\ (w <> WUnsat -> pen_rel R (fresh_lbl (anc m) (anc m')) pv G).
(* for == and <= an "unsatisfiable" warning still comes with a penalty of at least one everywhere *)
Definition call_result_strong (r : rel) (R : Q -> Prop) (m m' : model) (lam : Q) (Pin : terms) (w : warn) : Prop :=
  let pv := fun x => eval x Pin in
  exists G P, as_pubo Pin = Ok P /\ step_ok m m' lam G /\ cframe m m' r (tm P) /\ (anc m <= anc m')%nat
              /\ pen_nonneg G /\ (w <> WUnsat -> pen_rel R (fresh_lbl (anc m) (anc m')) pv G)
              /\ (w = WUnsat -> forall x, boolean_env x -> ~ R (pv x) /\ 1 <= G x).
Lemma call_result_weaken r R m m' lam Pin w : call_result_strong r R m m' lam Pin w -> call_result r R m m' lam Pin w.
Proof. intros (G & P & A & B & C0 & D & E & F & _). exists G, P. tauto. Qed.

Lemma pen_rel_ext (R : Q -> Prop) fr pv pv' G :
  (forall x, boolean_env x -> pv' x == pv x) -> (forall a b, a == b -> R a -> R b) ->
  pen_rel R fr pv G -> pen_rel R fr pv' G.
Proof.
  intros He HR (A & B & C0). split; [exact A|]. split.
  - intros x Hx Hr. apply (B x Hx). eapply HR; [apply He, Hx| exact Hr].
  - intros x Hx Hn. apply (C0 x Hx). intros Hr. apply Hn. eapply HR; [symmetry; apply He, Hx| exact Hr].
Qed.
Lemma Rle0_ext a b : a == b -> a <= 0 -> b <= 0. Proof. intros H. rewrite H. auto. Qed.
Lemma Req0_ext a b : a == b -> a == 0 -> b == 0. Proof. intros H. rewrite H. auto. Qed.

Lemma pop_constraint_spec m r P : cons m = cons (pop_constraint (append_constraint m r P) r) /\ True.
Proof. split; [|exact I]. simpl. rewrite pop_last_app. reflexivity. Qed.

Lemma indep_ext fr pv pv' : (forall x, boolean_env x -> pv' x == pv x) -> indep fr pv -> indep fr pv'.
Proof. intros He Hi x x' Hx Hx' Ha. rewrite (He x Hx), (He x' Hx'). apply Hi; assumption. Qed.

Lemma m_copy_boolean Pc P : m_copy P = Ok Pc -> bkind (kd P) ->
  kd Pc = kd P /\ forall x, boolean_env x -> eval x (tm Pc) == eval x (tm P).
Proof.
  intros H Hk. split.
  - destruct (m_copy_eval (fun _ => 0) _ _ H) as [_ K]; [apply bkind_env; [exact Hk| intros i; left; reflexivity]| exact K].
  - intros x Hx. destruct (m_copy_eval x _ _ H (bkind_env _ _ Hk Hx)) as [A _]. exact A.
Qed.

Theorem add_le_spec m Pin lam lt b m' w t :
  add_le m Pin lam lt b = Ok (m', w, t) -> bkind (kd m) -> ~ lam == 0 ->
  let pv := fun x => eval x Pin in
  int_v pv -> bvalid pv b -> (forall n, indep (fresh_lbl (anc m) (anc m + n)) pv) ->
  call_result_strong RLe (fun v => v <= 0) m m' lam Pin w.
Proof.
  intros H Hk Hlam pv Hint Hb Hind. unfold add_le in H.
  destruct (as_pubo Pin) as [P|] eqn:EP; cbn [bind] in H; [|discriminate].
  destruct (as_pubo_spec _ _ EP) as (KP & WP & VP).
  assert (HkP : bkind (kd P)) by (rewrite KP; apply bkind_pubo).
  destruct (qeq0 lam) eqn:El; [apply qeq0_spec in El; contradiction|].
  set (m1 := append_constraint m RLe (tm P)) in *.
  assert (Hk1 : bkind (kd m1)) by exact Hk.
  set (pvP := fun x => eval x (tm P)).
  assert (Hint' : int_v pvP) by (intros x Hx; eapply is_int_ext; [symmetry; apply VP, Hx| apply Hint, Hx]).
  assert (Hb' : bvalid pvP b).
  { destruct Hb as [Bl Bh]. split; intros v Hv x Hx; unfold pvP; rewrite (VP x Hx); [eapply Bl| eapply Bh]; eassumption. }
  assert (Hind' : forall n, indep (fresh_lbl (anc m1) (anc m1 + n)) pvP) by (intros n; eapply indep_ext; [apply VP| apply Hind]).
  pose proof (get_bounds_valid (tm P) b Hb') as HB. destruct (get_bounds (tm P) b) as [lo hi]. simpl in HB.
  unfold call_result_strong. fold pv.
  assert (Hrel : forall fr G, pen_rel (fun v => v <= 0) fr pvP G -> pen_rel (fun v => v <= 0) fr pv G).
  { intros fr G. apply pen_rel_ext; [intros x Hx; symmetry; apply VP, Hx| apply Rle0_ext]. }
  destruct (special_le m1 P lam lt lo hi) as [[[m2 t2]|]|] eqn:Esp; cbn [bind] in H; [| |discriminate].
  { injection H as <- <- <-. rewrite <- KP in WP.
    destruct (special_le_spec _ _ _ _ _ _ _ _ Esp Hk1 HkP WP Hint' (fun x Hx => proj1 (HB x Hx)) Hind') as (G & S & F1 & F3 & F2 & PR).
    exists G, P. split; [exact EP|]. split; [exact S|]. split; [split; [exact F1| exact F3]|]. split; [exact F2|].
    split; [apply PR|]. split; [intros _; apply Hrel, PR| discriminate]. }
  pose proof (qgt0_spec lo) as Hlo. destruct (qgt0 lo).
  { destruct (ev (lamP lam P)) as [X|] eqn:EX; cbn [bind] in H; [|discriminate].
    destruct (iadd_m m1 X) as [m2|] eqn:Em; cbn [bind] in H; [|discriminate]. injection H as <- <- <-.
    destruct (lamP_step _ _ _ _ _ EX Em Hk1 HkP) as [S (F1 & F2 & F3)].
    exists pvP, P. split; [exact EP|]. split; [exact S|]. split; [split; [exact F1| exact F3]|]. split; [rewrite F2; simpl; lia|].
    split; [intros x Hx; destruct (HB x Hx); unfold pvP; lra|]. split; [congruence|].
    intros _ x Hx. destruct (HB x Hx). assert (0 < pvP x) by (unfold pvP; lra).
    split; [unfold pv; rewrite <- (VP x Hx); fold (pvP x); lra| apply int_pos_ge1; [apply Hint', Hx| assumption]]. }
  pose proof (qgt0_spec hi) as Hhi. destruct (qgt0 hi); cbn [negb] in H.
  2:{ injection H as <- <- <-. exists (fun _ => 0), P. split; [exact EP|]. split; [intros x Hx; simpl; ring|].
      split; [split; reflexivity|]. split; [simpl; lia|]. split; [intros x Hx; lra|]. split; [|discriminate]. intros _.
      split; [intros x Hx; lra|]. split.
      - intros x Hx _. exists x. split; [exact Hx|]. split; [apply agree_off_refl| reflexivity].
      - intros x Hx Hn. exfalso. apply Hn. unfold pv. rewrite <- (VP x Hx). destruct (HB x Hx). lra. }
  destruct (m_copy P) as [Pc|] eqn:Ec; cbn [bind] in H; [|discriminate].
  destruct (m_copy_boolean _ _ Ec HkP) as [KPc VPc].
  assert (HkPc : bkind (kd Pc)) by (rewrite KPc; exact HkP).
  destruct (qeq0 lo) eqn:El0.
  - (* no slack needed: min is 0 *)
    apply qeq0_spec in El0. cbn [bind] in H. set (m2 := with_anc m1 (anc m1 + 0)) in *.
    destruct (add_eq m2 (tm Pc) lam (Some lo, Some hi)) as [[[m3 w3] t3]|] eqn:Eeq; cbn [bind] in H; [|discriminate].
    injection H as <- <- <-.
    assert (Hint3 : int_v (fun x => eval x (tm Pc))) by (intros x Hx; eapply is_int_ext; [symmetry; apply VPc, Hx| apply Hint', Hx]).
    assert (Hb3 : bvalid (fun x => eval x (tm Pc)) (Some lo, Some hi)).
    { split; intros v [= <-] x Hx; rewrite (VPc x Hx); apply (HB x Hx). }
    destruct (add_eq_spec _ _ _ _ _ _ _ Eeq Hk1 Hlam Hint3 Hb3) as (G & P3 & _ & S & (F1 & F3) & F2 & NN & PE & UN & _).
    assert (Hw3 : w3 <> WUnsat).
    { intros Hw. destruct (UN Hw) as [U|U]; rewrite get_bounds_given in U; simpl in U; lra. }
    exists G, P. split; [exact EP|]. split; [exact S|]. split.
    { split; [exact F1|]. simpl. rewrite F3. simpl. rewrite pop_last_app. reflexivity. }
    split; [simpl; rewrite F2; simpl; lia|]. split; [exact NN|]. split; [|discriminate]. intros _.
    assert (Ea : anc (pop_constraint m3 REq) = anc m) by (simpl; rewrite F2; simpl; lia).
    rewrite Ea. destruct (PE Hw3) as (A & B & C0). split; [exact A|]. split.
    + intros x Hx Hle. exists x. split; [exact Hx|]. split; [apply agree_off_refl|]. apply (B x Hx).
      rewrite (VPc x Hx). unfold pv in Hle. rewrite <- (VP x Hx) in Hle. destruct (HB x Hx). lra.
    + intros x Hx Hn. apply (C0 x Hx). intros Hz. apply Hn. unfold pv. rewrite <- (VP x Hx), <- (VPc x Hx), Hz. lra.
  - (* slack *)
    destruct (num_bits (- lo) lt) as [n|] eqn:En; cbn [bind] in H; [|discriminate].
    destruct (add_slack Pc (anc m1) n 0 lt hi) as [[Ps hi']|] eqn:Es; cbn [bind] in H; [|discriminate].
    set (m2 := with_anc m1 (anc m1 + n)) in *.
    destruct (add_eq m2 (tm Ps) lam (Some lo, Some hi')) as [[[m3 w3] t3]|] eqn:Eeq; cbn [bind] in H; [|discriminate].
    injection H as <- <- <-.
    set (sl := fun x => slack_val lt (fun j => x (anc_label (anc m1 + j))) n 0).
    assert (HPs : forall x, boolean_env x -> eval x (tm Ps) == pvP x + sl x).
    { intros x Hx. destruct (add_slack_spec x lt (anc m1) n 0 _ _ _ _ Es HkPc Hx) as (A & _ & _). rewrite A, (VPc x Hx). reflexivity. }
    assert (Hhi' : hi' == hi + slack_val lt (fun _ => 1) n 0).
    { destruct (add_slack_spec (fun _ => 0) lt (anc m1) n 0 _ _ _ _ Es HkPc) as (_ & B & _); [intros i; left; reflexivity| exact B]. }
    assert (Hint3 : int_v (fun x => eval x (tm Ps))).
    { intros x Hx. eapply is_int_ext; [symmetry; apply HPs, Hx|]. apply is_int_plus; [apply Hint', Hx|].
      apply slack_val_int. intros j. apply Hx. }
    assert (Hb3 : bvalid (fun x => eval x (tm Ps)) (Some lo, Some hi')).
    { split; intros v [= <-] x Hx; rewrite (HPs x Hx); destruct (HB x Hx) as [B1 B2]; unfold pvP in *.
      - pose proof (slack_val_nonneg lt (fun j => x (anc_label (anc m1 + j))) n (fun j => Hx _) 0). unfold sl. lra.
      - pose proof (slack_total_ge lt (fun j => x (anc_label (anc m1 + j))) n (fun j => Hx _) 0). unfold sl. lra. }
    destruct (add_eq_spec _ _ _ _ _ _ _ Eeq Hk1 Hlam Hint3 Hb3) as (G & P3 & _ & S & (F1 & F3) & F2 & NN & PE & UN & _).
    assert (Hw3 : w3 <> WUnsat).
    { intros Hw. pose proof (slack_val_nonneg lt (fun _ => 1) n (fun _ => or_intror (Qeq_refl 1)) 0).
      destruct (UN Hw) as [U|U]; rewrite get_bounds_given in U; simpl in U; lra. }
    exists G, P. split; [exact EP|]. split; [exact S|]. split.
    { split; [exact F1|]. simpl. rewrite F3. simpl. rewrite pop_last_app. reflexivity. }
    split; [simpl; rewrite F2; simpl; lia|]. split; [exact NN|]. split; [|discriminate]. intros _.
    assert (Ea : anc (pop_constraint m3 REq) = (anc m + n)%nat) by (simpl; rewrite F2; reflexivity).
    rewrite Ea. apply Hrel.
    apply (slack_le_pen pvP G lo lt n (anc m)); try assumption.
    + intros x Hx. apply (HB x Hx).
    + apply Hind'.
    + destruct (PE Hw3) as (A & B & C0). split; [exact A|]. split; intros x Hx Hz.
      * apply (B x Hx). rewrite (HPs x Hx). exact Hz.
      * apply (C0 x Hx). intros Hc. apply Hz. rewrite (HPs x Hx) in Hc. exact Hc.
Qed.

(* ------------------------------------------------------------------ <, >, >= ---- *)
Lemma unsat_strong_pen_rel (R : Q -> Prop) fr pv G :
  pen_nonneg G -> (forall x, boolean_env x -> ~ R (pv x) /\ 1 <= G x) -> pen_rel R fr pv G.
Proof.
  intros NN US. split; [exact NN|]. split.
  - intros x Hx Hr. exfalso. apply (proj1 (US x Hx)), Hr.
  - intros x Hx _. apply (US x Hx).
Qed.
Lemma pen_rel_map (R R' : Q -> Prop) fr pv pv' G :
  (forall x, boolean_env x -> (R (pv x) <-> R' (pv' x))) -> pen_rel R fr pv G -> pen_rel R' fr pv' G.
Proof.
  intros He (A & B & C0). split; [exact A|]. split.
  - intros x Hx Hr. apply (B x Hx), He; assumption.
  - intros x Hx Hn. apply (C0 x Hx). intros Hr. apply Hn, He; assumption.
Qed.

Lemma m_add1_spec P P1 : m_add P (OScalar 1) = Ok P1 -> bkind (kd P) ->
  kd P1 = kd P /\ forall x, boolean_env x -> eval x (tm P1) == eval x (tm P) + 1.
Proof.
  intros H Hk. split.
  - destruct (m_add_eval (fun _ => 0) _ _ _ H) as [_ K]; [apply bkind_env; [exact Hk| intros i; left; reflexivity]| exact K].
  - intros x Hx. destruct (m_add_eval x _ _ _ H (bkind_env _ _ Hk Hx)) as [A _]. rewrite A. reflexivity.
Qed.
Lemma m_neg_spec P Pn : m_neg P = Ok Pn -> bkind (kd P) ->
  kd Pn = kd P /\ forall x, boolean_env x -> eval x (tm Pn) == - eval x (tm P).
Proof.
  intros H Hk. split.
  - destruct (m_neg_eval (fun _ => 0) _ _ H) as [_ K]; [apply bkind_env; [exact Hk| intros i; left; reflexivity]| exact K].
  - intros x Hx. destruct (m_neg_eval x _ _ H (bkind_env _ _ Hk Hx)) as [A _]. exact A.
Qed.

Theorem add_lt_spec m Pin lam lt b m' w t :
  add_lt m Pin lam lt b = Ok (m', w, t) -> bkind (kd m) -> ~ lam == 0 ->
  let pv := fun x => eval x Pin in
  int_v pv -> bvalid pv b -> (forall n, indep (fresh_lbl (anc m) (anc m + n)) pv) ->
  call_result RLt (fun v => v < 0) m m' lam Pin w.
Proof.
  intros H Hk Hlam pv Hint Hb Hind. unfold add_lt in H.
  destruct (as_pubo Pin) as [P|] eqn:EP; cbn [bind] in H; [|discriminate].
  destruct (as_pubo_spec _ _ EP) as (KP & WP & VP).
  assert (HkP : bkind (kd P)) by (rewrite KP; apply bkind_pubo).
  destruct (qeq0 lam) eqn:El; [apply qeq0_spec in El; contradiction|].
  set (m1 := append_constraint m RLt (tm P)) in *.
  assert (Hk1 : bkind (kd m1)) by exact Hk.
  set (pvP := fun x => eval x (tm P)).
  assert (Hint' : int_v pvP) by (intros x Hx; eapply is_int_ext; [symmetry; apply VP, Hx| apply Hint, Hx]).
  assert (Hb' : bvalid pvP b).
  { destruct Hb as [Bl Bh]. split; intros v Hv x Hx; unfold pvP; rewrite (VP x Hx); [eapply Bl| eapply Bh]; eassumption. }
  pose proof (get_bounds_valid (tm P) b Hb') as HB. destruct (get_bounds (tm P) b) as [lo hi]. simpl in HB.
  unfold call_result. fold pv.
  pose proof (qlt0_spec lo) as Hlo. destruct (qlt0 lo); cbn [negb] in H.
  2:{ destruct (ev (lamP lam P)) as [X|] eqn:EX; cbn [bind] in H; [|discriminate].
      destruct (iadd_m m1 X) as [m2|] eqn:Em; cbn [bind] in H; [|discriminate]. injection H as <- <- <-.
      destruct (lamP_step _ _ _ _ _ EX Em Hk1 HkP) as [S (F1 & F2 & F3)].
      exists pvP, P. split; [exact EP|]. split; [exact S|]. split; [split; [exact F1| exact F3]|]. split; [rewrite F2; simpl; lia|].
      split; [intros x Hx; destruct (HB x Hx); unfold pvP; lra| congruence]. }
  pose proof (qlt0_spec hi) as Hhi. destruct (qlt0 hi).
  { injection H as <- <- <-. exists (fun _ => 0), P. split; [exact EP|]. split; [intros x Hx; simpl; ring|].
    split; [split; reflexivity|]. split; [simpl; lia|]. split; [intros x Hx; lra|]. intros _.
    split; [intros x Hx; lra|]. split.
    - intros x Hx _. exists x. split; [exact Hx|]. split; [apply agree_off_refl| reflexivity].
    - intros x Hx Hn. exfalso. apply Hn. unfold pv. rewrite <- (VP x Hx). destruct (HB x Hx). lra. }
  destruct (m_add P (OScalar 1)) as [P1|] eqn:E1; cbn [bind] in H; [|discriminate].
  destruct (m_add1_spec _ _ E1 HkP) as [K1 V1].
  destruct (add_le m1 (tm P1) lam lt (Some (lo + 1), Some (hi + 1))) as [[[m2 w2] t2]|] eqn:Ele; cbn [bind] in H; [|discriminate].
  injection H as <- <- <-.
  set (pv1 := fun x => eval x (tm P1)).
  assert (Hint1 : int_v pv1) by (intros x Hx; eapply is_int_ext; [symmetry; apply V1, Hx| apply is_int_plus; [apply Hint', Hx| exists 1%Z; reflexivity]]).
  assert (Hb1 : bvalid pv1 (Some (lo + 1), Some (hi + 1))).
  { split; intros v [= <-] x Hx; unfold pv1; rewrite (V1 x Hx); destruct (HB x Hx); lra. }
  assert (Hind1 : forall n, indep (fresh_lbl (anc m1) (anc m1 + n)) pv1).
  { intros n x x' Hx Hx' Ha. unfold pv1. rewrite (V1 x Hx), (V1 x' Hx'), (VP x Hx), (VP x' Hx').
    pose proof (Hind n x x' Hx Hx' Ha) as Hi. unfold pv in Hi. rewrite Hi. reflexivity. }
  destruct (add_le_spec _ _ _ _ _ _ _ _ Ele Hk1 Hlam Hint1 Hb1 Hind1) as (G & P3 & _ & S & (F1 & F3) & F2 & NN & PR & US).
  exists G, P. split; [exact EP|]. split; [exact S|]. split.
  { split; [exact F1|]. simpl. rewrite F3. simpl. rewrite pop_last_app. reflexivity. }
  split; [exact F2|]. split; [exact NN|]. intros _.
  assert (Hiff : forall x, boolean_env x -> (pv1 x <= 0 <-> pv x < 0)).
  { intros x Hx. unfold pv1, pv. rewrite (V1 x Hx), (VP x Hx). split; intros Hc.
    - lra.
    - pose proof (int_neg_le_m1 _ (Hint x Hx) Hc). unfold pv in *. lra. }
  change (anc (pop_constraint m2 RLe)) with (anc m2).
  destruct w2; try (apply (pen_rel_map (fun v => v <= 0) (fun v => v < 0) _ pv1 pv G Hiff), PR; discriminate).
  apply unsat_strong_pen_rel; [exact NN|]. intros x Hx. destruct (US eq_refl x Hx) as [A B]. split; [|exact B].
  intros Hc. apply A. apply (Hiff x Hx), Hc.
Qed.

Theorem add_gt_spec m Pin lam lt b m' w t :
  add_gt m Pin lam lt b = Ok (m', w, t) -> bkind (kd m) -> ~ lam == 0 ->
  let pv := fun x => eval x Pin in
  int_v pv -> bvalid pv b -> (forall n, indep (fresh_lbl (anc m) (anc m + n)) pv) ->
  call_result RGt (fun v => 0 < v) m m' lam Pin w.
Proof.
  intros H Hk Hlam pv Hint Hb Hind. unfold add_gt in H.
  destruct (as_pubo Pin) as [P|] eqn:EP; cbn [bind] in H; [|discriminate].
  destruct (as_pubo_spec _ _ EP) as (KP & WP & VP).
  assert (HkP : bkind (kd P)) by (rewrite KP; apply bkind_pubo).
  destruct (qeq0 lam) eqn:El; [apply qeq0_spec in El; contradiction|].
  set (m1 := append_constraint m RGt (tm P)) in *.
  assert (Hk1 : bkind (kd m1)) by exact Hk.
  set (pvP := fun x => eval x (tm P)).
  assert (Hb' : bvalid pvP b).
  { destruct Hb as [Bl Bh]. split; intros v Hv x Hx; unfold pvP; rewrite (VP x Hx); [eapply Bl| eapply Bh]; eassumption. }
  pose proof (get_bounds_valid (tm P) b Hb') as HB. destruct (get_bounds (tm P) b) as [lo hi]. simpl in HB.
  destruct (m_neg P) as [Pn|] eqn:En; cbn [bind] in H; [|discriminate].
  destruct (m_neg_spec _ _ En HkP) as [Kn Vn].
  destruct (add_lt m1 (tm Pn) lam lt (Some (- hi), Some (- lo))) as [[[m2 w2] t2]|] eqn:Elt; cbn [bind] in H; [|discriminate].
  injection H as <- <- <-.
  set (pvn := fun x => eval x (tm Pn)).
  assert (Vn' : forall x, boolean_env x -> pvn x == - pv x) by (intros x Hx; unfold pvn, pv; rewrite (Vn x Hx), (VP x Hx); reflexivity).
  assert (Hintn : int_v pvn) by (intros x Hx; eapply is_int_ext; [symmetry; apply Vn', Hx| apply is_int_opp, Hint, Hx]).
  assert (Hbn : bvalid pvn (Some (- hi), Some (- lo))).
  { split; intros v [= <-] x Hx; unfold pvn; rewrite (Vn x Hx); destruct (HB x Hx); lra. }
  assert (Hindn : forall n, indep (fresh_lbl (anc m1) (anc m1 + n)) pvn).
  { intros n x x' Hx Hx' Ha. rewrite (Vn' x Hx), (Vn' x' Hx'). rewrite (Hind n x x' Hx Hx' Ha). reflexivity. }
  destruct (add_lt_spec _ _ _ _ _ _ _ _ Elt Hk1 Hlam Hintn Hbn Hindn) as (G & P3 & _ & S & (F1 & F3) & F2 & NN & PR).
  exists G, P. split; [exact EP|]. split; [exact S|]. split.
  { split; [exact F1|]. simpl. rewrite F3. simpl. rewrite pop_last_app. reflexivity. }
  split; [exact F2|]. split; [exact NN|]. intros Hw.
  change (anc (pop_constraint m2 RLt)) with (anc m2).
  apply (pen_rel_map (fun v => v < 0) (fun v => 0 < v) _ pvn pv G); [|apply PR, Hw].
  intros x Hx. rewrite (Vn' x Hx). split; intros Hc; lra.
Qed.

Theorem add_ge_spec m Pin lam lt b m' w t :
  add_ge m Pin lam lt b = Ok (m', w, t) -> bkind (kd m) -> ~ lam == 0 ->
  let pv := fun x => eval x Pin in
  int_v pv -> bvalid pv b -> (forall n, indep (fresh_lbl (anc m) (anc m + n)) pv) ->
  call_result RGe (fun v => 0 <= v) m m' lam Pin w.
Proof.
  intros H Hk Hlam pv Hint Hb Hind. unfold add_ge in H.
  destruct (as_pubo Pin) as [P|] eqn:EP; cbn [bind] in H; [|discriminate].
  destruct (as_pubo_spec _ _ EP) as (KP & WP & VP).
  assert (HkP : bkind (kd P)) by (rewrite KP; apply bkind_pubo).
  destruct (qeq0 lam) eqn:El; [apply qeq0_spec in El; contradiction|].
  set (m1 := append_constraint m RGe (tm P)) in *.
  assert (Hk1 : bkind (kd m1)) by exact Hk.
  set (pvP := fun x => eval x (tm P)).
  assert (Hb' : bvalid pvP b).
  { destruct Hb as [Bl Bh]. split; intros v Hv x Hx; unfold pvP; rewrite (VP x Hx); [eapply Bl| eapply Bh]; eassumption. }
  pose proof (get_bounds_valid (tm P) b Hb') as HB. destruct (get_bounds (tm P) b) as [lo hi]. simpl in HB.
  destruct (m_neg P) as [Pn|] eqn:En; cbn [bind] in H; [|discriminate].
  destruct (m_neg_spec _ _ En HkP) as [Kn Vn].
  destruct (add_le m1 (tm Pn) lam lt (Some (- hi), Some (- lo))) as [[[m2 w2] t2]|] eqn:Ele; cbn [bind] in H; [|discriminate].
  injection H as <- <- <-.
  set (pvn := fun x => eval x (tm Pn)).
  assert (Vn' : forall x, boolean_env x -> pvn x == - pv x) by (intros x Hx; unfold pvn, pv; rewrite (Vn x Hx), (VP x Hx); reflexivity).
  assert (Hintn : int_v pvn) by (intros x Hx; eapply is_int_ext; [symmetry; apply Vn', Hx| apply is_int_opp, Hint, Hx]).
  assert (Hbn : bvalid pvn (Some (- hi), Some (- lo))).
  { split; intros v [= <-] x Hx; unfold pvn; rewrite (Vn x Hx); destruct (HB x Hx); lra. }
  assert (Hindn : forall n, indep (fresh_lbl (anc m1) (anc m1 + n)) pvn).
  { intros n x x' Hx Hx' Ha. rewrite (Vn' x Hx), (Vn' x' Hx'). rewrite (Hind n x x' Hx Hx' Ha). reflexivity. }
  destruct (add_le_spec _ _ _ _ _ _ _ _ Ele Hk1 Hlam Hintn Hbn Hindn) as (G & P3 & _ & S & (F1 & F3) & F2 & NN & PR & _).
  exists G, P. split; [exact EP|]. split; [exact S|]. split.
  { split; [exact F1|]. simpl. rewrite F3. simpl. rewrite pop_last_app. reflexivity. }
  split; [exact F2|]. split; [exact NN|]. intros Hw.
  change (anc (pop_constraint m2 RLe)) with (anc m2).
  apply (pen_rel_map (fun v => v <= 0) (fun v => 0 <= v) _ pvn pv G); [|apply PR, Hw].
  intros x Hx. rewrite (Vn' x Hx). split; intros Hc; lra.
Qed.

(* ------------------------------------------------------------------ != ---- *)
Definition sign_expr (l0 : label) : expr := EBin false OpSub (EBin false OpMul (EScalar 2) (boolean_var_expr l0)) (EScalar 1).
Definition sign_val (x : env) (l0 : label) : Q := 2 * x l0 - 1.

Lemma sign_leaves x l0 : boolean_env x -> leaves (fun k => good_env k x) (sign_expr l0).
Proof. intros Hx. simpl. repeat split; try exact I; exact Hx. Qed.
Lemma sign_denote x l0 : denote x (sign_expr l0) == sign_val x l0.
Proof. unfold sign_val. simpl. ring. Qed.

Lemma ne_slack_spec x lt l0 a0 : forall n i P lo hi P2 lo2 hi2,
  ne_slack P (sign_expr l0) a0 n i lt lo hi = Ok (P2, lo2, hi2) -> bkind (kd P) -> boolean_env x ->
  eval x (tm P2) == eval x (tm P) + sign_val x l0 * slack_val lt (fun j => x (anc_label (a0 + j))) n i
  /\ lo2 == lo - slack_val lt (fun _ => 1) n i /\ hi2 == hi + slack_val lt (fun _ => 1) n i /\ kd P2 = kd P.
Proof.
  induction n as [|n IH]; cbn [ne_slack slack_val]; intros i P lo hi P2 lo2 hi2 H Hk Hx.
  - injection H as <- <- <-. repeat split; try ring.
  - set (v := if lt then pow2 i else 1) in *.
    destruct (ev (EBin false OpMul (EBin false OpMul (sign_expr l0) (EScalar v)) (boolean_var_expr (anc_label (a0 + i))))) as [T|] eqn:ET;
      cbn [bind] in H; [|discriminate].
    destruct (m_iadd P (OModel T)) as [P'|] eqn:EP; cbn [bind] in H; [|discriminate].
    destruct (m_iadd_eval x _ _ _ EP (bkind_env _ _ Hk Hx)) as [A K].
    assert (Hk' : bkind (kd P')) by (rewrite K; exact Hk).
    destruct (IH _ _ _ _ _ _ _ H Hk' Hx) as (B & C0 & D & K').
    destruct (ev_sound x _ _ ET) as [AT _].
    { simpl. repeat split; try exact I; exact Hx. }
    split; [|split; [|split; [|congruence]]].
    + rewrite B, A. simpl. rewrite AT. unfold sign_val. simpl. fold v. ring.
    + rewrite C0. fold v. ring.
    + rewrite D. fold v. ring.
Qed.

(* P + s (1 + slack) == 0 with s = +-1 as a penalty for P != 0 *)
Lemma ne_gadget_pen pv G lo hi lt n k0 :
  int_v pv -> (forall x, boolean_env x -> lo <= pv x /\ pv x <= hi) -> lo < 0 -> 0 < hi ->
  indep (fresh_lbl k0 (k0 + S n)) pv ->
  num_bits (hi - lo + 1) lt = Ok n ->
  pen_eq (fun x => pv x + sign_val x (anc_label k0) * (1 + slack_val lt (fun j => x (anc_label (S k0 + j))) n 0)) G ->
  pen_rel (fun v => ~ v == 0) (fresh_lbl k0 (k0 + S n)) pv G.
Proof.
  intros Hint HB Hlo Hhi Hind Hn (NN & Z0 & G1). split; [exact NN|]. split.
  - intros x Hx Hne. destruct (Hint x Hx) as [z Hz]. destruct (HB x Hx) as [B1 B2].
    assert (Hz0 : z <> 0%Z) by (intros ->; apply Hne; rewrite Hz; reflexivity).
    set (t := (Z.abs z - 1)%Z).
    assert (Ht : (0 <= t)%Z) by (unfold t; lia).
    assert (Hcap : inject_Z t <= hi - lo + 1).
    { unfold t. unfold Z.sub. rewrite inject_Z_plus, inject_Z_opp.
      destruct (Z_lt_le_dec z 0) as [Hn0|Hn0].
      - rewrite Z.abs_neq by lia. rewrite inject_Z_opp, <- Hz. change (inject_Z 1) with 1. lra.
      - rewrite Z.abs_eq by lia. rewrite <- Hz. change (inject_Z 1) with 1. lra. }
    destruct (slack_repr (hi - lo + 1) lt n t Hn Ht Hcap) as (a & Ha & Hs).
    (* the sign bit: 0 (s = -1) when P > 0, 1 (s = +1) when P < 0; then the slack bits *)
    set (sb := if Z_lt_le_dec z 0 then 1 else 0).
    set (bits := fun j => match j with O => sb | S j' => a j' end).
    assert (Hbits : forall j, is_bool (bits j)).
    { intros [|j]; simpl; [unfold sb; destruct (Z_lt_le_dec z 0); [right|left]; reflexivity| apply Ha]. }
    exists (set_anc x k0 (S n) bits). split; [apply set_anc_bool; assumption|].
    split; [apply set_anc_agree|]. apply Z0; [apply set_anc_bool; assumption|].
    rewrite (Hind x _ Hx (set_anc_bool x k0 (S n) bits Hx Hbits) (set_anc_agree x k0 (S n) bits)).
    assert (E0 : set_anc x k0 (S n) bits (anc_label k0) = sb).
    { replace k0 with (k0 + 0)%nat at 2 by lia. rewrite set_anc_at by lia. reflexivity. }
    unfold sign_val. rewrite E0.
    rewrite (slack_val_ext lt _ a n 0).
    2:{ intros j Hj. replace (S k0 + j)%nat with (k0 + S j)%nat by lia. rewrite set_anc_at by lia. reflexivity. }
    rewrite Hs, Hz. unfold t, sb. unfold Z.sub. rewrite inject_Z_plus, inject_Z_opp. change (inject_Z 1) with 1.
    destruct (Z_lt_le_dec z 0) as [Hn0|Hn0].
    + rewrite Z.abs_neq by lia. rewrite inject_Z_opp. ring.
    + rewrite Z.abs_eq by lia. ring.
  - intros x Hx Hz. apply G1; [exact Hx|]. apply Decidable.not_not in Hz; [|unfold Decidable.decidable; destruct (Qeq_dec (pv x) 0); tauto].
    rewrite Hz.
    pose proof (slack_val_nonneg lt (fun j => x (anc_label (S k0 + j))) n (fun j => Hx _) 0) as Hs.
    unfold sign_val. destruct (Hx (anc_label k0)) as [H0|H0]; rewrite H0; intros Hc; lra.
Qed.

Theorem add_ne_spec m Pin lam lt b m' w t :
  add_ne m Pin lam lt b = Ok (m', w, t) -> bkind (kd m) -> ~ lam == 0 ->
  let pv := fun x => eval x Pin in
  int_v pv -> bvalid pv b -> (forall n, indep (fresh_lbl (anc m) (anc m + n)) pv) ->
  call_result RNe (fun v => ~ v == 0) m m' lam Pin w.
Proof.
  intros H Hk Hlam pv Hint Hb Hind. unfold add_ne in H.
  destruct (as_pubo Pin) as [P|] eqn:EP; cbn [bind] in H; [|discriminate].
  destruct (as_pubo_spec _ _ EP) as (KP & WP & VP).
  assert (HkP : bkind (kd P)) by (rewrite KP; apply bkind_pubo).
  destruct (qeq0 lam) eqn:El; [apply qeq0_spec in El; contradiction|].
  set (m1 := append_constraint m RNe (tm P)) in *.
  assert (Hk1 : bkind (kd m1)) by exact Hk.
  set (pvP := fun x => eval x (tm P)).
  assert (Hint' : int_v pvP) by (intros x Hx; eapply is_int_ext; [symmetry; apply VP, Hx| apply Hint, Hx]).
  assert (Hb' : bvalid pvP b).
  { destruct Hb as [Bl Bh]. split; intros v Hv x Hx; unfold pvP; rewrite (VP x Hx); [eapply Bl| eapply Bh]; eassumption. }
  assert (Hind' : forall n, indep (fresh_lbl (anc m1) (anc m1 + n)) pvP) by (intros n; eapply indep_ext; [apply VP| apply Hind]).
  pose proof (get_bounds_valid (tm P) b Hb') as HB. destruct (get_bounds (tm P) b) as [lo hi]. simpl in HB.
  unfold call_result. fold pv.
  assert (Hrel : forall fr G, pen_rel (fun v => ~ v == 0) fr pvP G -> pen_rel (fun v => ~ v == 0) fr pv G).
  { intros fr G. apply pen_rel_ext; [intros x Hx; symmetry; apply VP, Hx|]. intros a b0 Hab Hn Hc. apply Hn. rewrite Hab. exact Hc. }
  destruct (qeq0 lo && qeq0 hi) eqn:E0.
  { destruct (m_iadd m1 (OScalar lam)) as [m2|] eqn:Em; cbn [bind] in H; [|discriminate]. injection H as <- <- <-.
    destruct (m_iadd_frame _ _ _ Em) as (F1 & F2 & F3).
    exists (fun _ => 1), P. split; [exact EP|]. split.
    { intros x Hx. destruct (m_iadd_eval x _ _ _ Em (bkind_env _ _ Hk1 Hx)) as [A _]. rewrite A. simpl. ring. }
    split; [split; [exact F1| exact F3]|]. split; [rewrite F2; simpl; lia|]. split; [intros x Hx; lra| congruence]. }
  pose proof (qgt0_spec lo) as Hlo. destruct (qgt0 lo).
  { injection H as <- <- <-. exists (fun _ => 0), P. split; [exact EP|]. split; [intros x Hx; simpl; ring|].
    split; [split; reflexivity|]. split; [simpl; lia|]. split; [intros x Hx; lra|]. intros _.
    split; [intros x Hx; lra|]. split.
    - intros x Hx _. exists x. split; [exact Hx|]. split; [apply agree_off_refl| reflexivity].
    - intros x Hx Hn. exfalso. apply Hn. intros Hz. unfold pv in Hz. rewrite <- (VP x Hx) in Hz. destruct (HB x Hx). lra. }
  pose proof (qlt0_spec hi) as Hhi. destruct (qlt0 hi).
  { injection H as <- <- <-. exists (fun _ => 0), P. split; [exact EP|]. split; [intros x Hx; simpl; ring|].
    split; [split; reflexivity|]. split; [simpl; lia|]. split; [intros x Hx; lra|]. intros _.
    split; [intros x Hx; lra|]. split.
    - intros x Hx _. exists x. split; [exact Hx|]. split; [apply agree_off_refl| reflexivity].
    - intros x Hx Hn. exfalso. apply Hn. intros Hz. unfold pv in Hz. rewrite <- (VP x Hx) in Hz. destruct (HB x Hx). lra. }
  assert (HintP : int_v (fun x => eval x (tm P))) by exact Hint'.
  assert (HbP : bvalid (fun x => eval x (tm P)) (Some lo, Some hi)).
  { split; intros v [= <-] x Hx; apply (HB x Hx). }
  assert (HindP : forall n, indep (fresh_lbl (anc m1) (anc m1 + n)) (fun x => eval x (tm P))) by exact Hind'.
  destruct (qeq0 lo) eqn:El0.
  { (* min is 0: P != 0 <-> P > 0 *)
    apply qeq0_spec in El0.
    destruct (add_gt m1 (tm P) lam true (Some lo, Some hi)) as [[[m2 w2] t2]|] eqn:Egt; cbn [bind] in H; [|discriminate].
    injection H as <- <- <-.
    destruct (add_gt_spec _ _ _ _ _ _ _ _ Egt Hk1 Hlam HintP HbP HindP) as (G & P3 & _ & S & (F1 & F3) & F2 & NN & PR).
    exists G, P. split; [exact EP|]. split; [exact S|]. split.
    { split; [exact F1|]. simpl. rewrite F3. simpl. rewrite pop_last_app. reflexivity. }
    split; [exact F2|]. split; [exact NN|]. intros Hw. change (anc (pop_constraint m2 RGt)) with (anc m2).
    apply Hrel. apply (pen_rel_map (fun v => 0 < v) (fun v => ~ v == 0) _ pvP pvP G); [|apply PR, Hw].
    intros x Hx. destruct (HB x Hx). unfold pvP. split; intros Hc; [lra|].
    destruct (Qlt_le_dec 0 (eval x (tm P))); [assumption|]. exfalso. apply Hc. lra. }
  destruct (qeq0 hi) eqn:Eh0.
  { apply qeq0_spec in Eh0.
    destruct (add_lt m1 (tm P) lam true (Some lo, Some hi)) as [[[m2 w2] t2]|] eqn:Elt; cbn [bind] in H; [|discriminate].
    injection H as <- <- <-.
    destruct (add_lt_spec _ _ _ _ _ _ _ _ Elt Hk1 Hlam HintP HbP HindP) as (G & P3 & _ & S & (F1 & F3) & F2 & NN & PR).
    exists G, P. split; [exact EP|]. split; [exact S|]. split.
    { split; [exact F1|]. simpl. rewrite F3. simpl. rewrite pop_last_app. reflexivity. }
    split; [exact F2|]. split; [exact NN|]. intros Hw. change (anc (pop_constraint m2 RLt)) with (anc m2).
    apply Hrel. apply (pen_rel_map (fun v => v < 0) (fun v => ~ v == 0) _ pvP pvP G); [|apply PR, Hw].
    intros x Hx. destruct (HB x Hx). unfold pvP. split; intros Hc; [lra|].
    destruct (Qlt_le_dec (eval x (tm P)) 0); [assumption|]. exfalso. apply Hc. lra. }
  (* the sign / slack gadget *)
  assert (Hlo0 : lo < 0).
  { destruct (Qlt_le_dec lo 0); [assumption|]. exfalso. destruct (qeq0 lo) eqn:Eq; [discriminate|].
    assert (lo == 0) by lra. apply qeq0_spec in H0. congruence. }
  assert (Hhi0 : 0 < hi).
  { destruct (Qlt_le_dec 0 hi); [assumption|]. exfalso. assert (hi == 0) by lra. apply qeq0_spec in H0. congruence. }
  destruct (m_copy P) as [Pc|] eqn:Ec; cbn [bind] in H; [|discriminate].
  destruct (m_copy_boolean _ _ Ec HkP) as [KPc VPc].
  assert (HkPc : bkind (kd Pc)) by (rewrite KPc; exact HkP).
  set (a0 := anc m1) in *. fold (sign_expr (anc_label a0)) in H.
  destruct (ev (sign_expr (anc_label a0))) as [S0|] eqn:ES; cbn [bind] in H; [|discriminate].
  destruct (m_iadd Pc (OModel S0)) as [P1|] eqn:E1; cbn [bind] in H; [|discriminate].
  destruct (num_bits (hi + 1 - (lo - 1) - 1) lt) as [n|] eqn:En; cbn [bind] in H; [|discriminate].
  destruct (ne_slack P1 (sign_expr (anc_label a0)) (S a0) n 0 lt (lo - 1) (hi + 1)) as [[[P2 lo2] hi2]|] eqn:Esl; cbn [bind] in H; [|discriminate].
  set (m2 := with_anc m1 (S a0 + n)) in *.
  destruct (add_eq m2 (tm P2) lam (Some lo2, Some hi2)) as [[[m3 w3] t3]|] eqn:Eeq; cbn [bind] in H; [|discriminate].
  injection H as <- <- <-.
  assert (HP1 : forall x, boolean_env x -> eval x (tm P1) == pvP x + sign_val x (anc_label a0) /\ bkind (kd P1)).
  { intros x Hx. destruct (m_iadd_eval x _ _ _ E1 (bkind_env _ _ HkPc Hx)) as [A K]. split; [|rewrite K; exact HkPc].
    rewrite A. simpl. destruct (ev_sound x _ _ ES (sign_leaves x _ Hx)) as [B _]. rewrite B, sign_denote, (VPc x Hx). reflexivity. }
  assert (HkP1 : bkind (kd P1)) by (apply (HP1 (fun _ => 0)); intros i; left; reflexivity).
  set (sl := fun x => slack_val lt (fun j => x (anc_label (S a0 + j))) n 0).
  set (tot := slack_val lt (fun _ => 1) n 0).
  assert (HP2 : forall x, boolean_env x -> eval x (tm P2) == pvP x + sign_val x (anc_label a0) * (1 + sl x)).
  { intros x Hx. destruct (ne_slack_spec x lt _ _ n 0 _ _ _ _ _ _ Esl HkP1 Hx) as (A & _). rewrite A, (proj1 (HP1 x Hx)). unfold sl. ring. }
  assert (Hb2 : lo2 == lo - 1 - tot /\ hi2 == hi + 1 + tot).
  { destruct (ne_slack_spec (fun _ => 0) lt _ _ n 0 _ _ _ _ _ _ Esl HkP1) as (_ & B & C0 & _); [intros i; left; reflexivity|]. split; assumption. }
  assert (Hint3 : int_v (fun x => eval x (tm P2))).
  { intros x Hx. eapply is_int_ext; [symmetry; apply HP2, Hx|]. apply is_int_plus; [apply Hint', Hx|].
    apply is_int_mult.
    - unfold sign_val. apply is_int_plus; [apply is_int_mult; [exists 2%Z; reflexivity| apply is_bool_int, Hx]| exists (-1)%Z; reflexivity].
    - apply is_int_plus; [exists 1%Z; reflexivity| apply slack_val_int; intros j; apply Hx]. }
  assert (Hsl : forall x, boolean_env x -> 0 <= sl x /\ sl x <= tot).
  { intros x Hx. split; [apply slack_val_nonneg; intros j; apply Hx| apply slack_total_ge; intros j; apply Hx]. }
  assert (Hb3 : bvalid (fun x => eval x (tm P2)) (Some lo2, Some hi2)).
  { destruct Hb2 as [B1 B2]. split; intros v [= <-] x Hx; rewrite (HP2 x Hx); destruct (HB x Hx) as [C1 C2]; destruct (Hsl x Hx) as [D1 D2];
      unfold pvP, sign_val; destruct (Hx (anc_label a0)) as [H0|H0]; rewrite H0; first [rewrite B1 | rewrite B2]; nra. }
  destruct (add_eq_spec _ _ _ _ _ _ _ Eeq Hk1 Hlam Hint3 Hb3) as (G & P3 & _ & Sk & (F1 & F3) & F2 & NN & PE & UN & _).
  assert (Htot : 0 <= tot) by (apply slack_val_nonneg; intros j; right; reflexivity).
  assert (Hw3 : w3 <> WUnsat).
  { intros Hw. destruct Hb2 as [B1 B2]. destruct (UN Hw) as [U|U]; rewrite get_bounds_given in U; simpl in U; lra. }
  exists G, P. split; [exact EP|]. split; [exact Sk|]. split.
  { split; [exact F1|]. simpl. rewrite F3. simpl. rewrite pop_last_app. reflexivity. }
  split; [simpl; rewrite F2; simpl; unfold a0; simpl; lia|]. split; [exact NN|]. intros _.
  assert (Ea : anc (pop_constraint m3 REq) = (anc m + S n)%nat) by (simpl; rewrite F2; simpl; unfold a0; simpl; lia).
  rewrite Ea. apply Hrel.
  apply (ne_gadget_pen pvP G lo hi lt n (anc m)); [exact Hint'| intros x Hx; apply (HB x Hx)| exact Hlo0| exact Hhi0| | |].
  - exact (Hind' (S n)).
  - assert (Eq : hi - lo + 1 == hi + 1 - (lo - 1) - 1) by ring.
    unfold num_bits in *. destruct (Qlt_le_dec (hi - lo + 1) 0) as [Hc|Hc]; [lra|].
    destruct (Qlt_le_dec (hi + 1 - (lo - 1) - 1) 0) as [Hc'|Hc']; [lra|].
    injection En as <-. f_equal. unfold qceil. rewrite (Qfloor_comp (- (hi - lo + 1)) (- (hi + 1 - (lo - 1) - 1))) by (rewrite Eq; reflexivity).
    reflexivity.
  - destruct (PE Hw3) as (A & B & C0). split; [exact A|]. split; intros x Hx Hz.
    + apply (B x Hx). rewrite (HP2 x Hx). exact Hz.
    + apply (C0 x Hx). intros Hc. apply Hz. rewrite (HP2 x Hx) in Hc. exact Hc.
Qed.

(* ------------------------------------------------------------------ all six relations ---- *)
Definition rel_prop (r : rel) (v : Q) : Prop :=
  match r with
  | REq => v == 0 | RNe => ~ v == 0 | RLt => v < 0 | RLe => v <= 0 | RGt => 0 < v | RGe => 0 <= v
  end.

Theorem add_constraint_spec r m Pin lam lt b m' w t :
  add_constraint r m Pin lam lt b = Ok (m', w, t) -> bkind (kd m) -> ~ lam == 0 ->
  let pv := fun x => eval x Pin in
  int_v pv -> bvalid pv b -> (forall n, indep (fresh_lbl (anc m) (anc m + n)) pv) ->
  call_result r (rel_prop r) m m' lam Pin w.
Proof.
  intros H Hk Hlam pv Hint Hb Hind. destruct r; simpl in H.
  - destruct (add_eq_spec _ _ _ _ _ _ _ H Hk Hlam Hint Hb) as (G & P & A & S & F & F2 & NN & PE & _).
    exists G, P. split; [exact A|]. split; [exact S|]. split; [exact F|]. split; [rewrite F2; lia|]. split; [exact NN|].
    intros Hw. apply pen_eq_rel, PE, Hw.
  - apply (add_ne_spec _ _ _ _ _ _ _ _ H Hk Hlam Hint Hb Hind).
  - apply (add_lt_spec _ _ _ _ _ _ _ _ H Hk Hlam Hint Hb Hind).
  - apply call_result_weaken, (add_le_spec _ _ _ _ _ _ _ _ H Hk Hlam Hint Hb Hind).
  - apply (add_gt_spec _ _ _ _ _ _ _ _ H Hk Hlam Hint Hb Hind).
  - apply (add_ge_spec _ _ _ _ _ _ _ _ H Hk Hlam Hint Hb Hind).
Qed.

(* ------------------------------------------------------------------ is_solution_valid ---- *)
Lemma rel_holds_prop r v : rel_holds r v = true <-> rel_prop r v.
Proof.
  unfold rel_holds, rel_prop. destruct (v ?= 0) eqn:E;
    [apply Qeq_alt in E | apply Qlt_alt in E | apply Qgt_alt in E]; destruct r; split; intros H;
    try reflexivity; try discriminate; try lra; try (intros Hc; lra); try (exfalso; apply H; exact E).
Qed.

Theorem is_solution_valid_iff m x :
  is_solution_valid m x = true <-> forall r P, In (r, P) (cons m) -> rel_prop r (eval x P).
Proof.
  unfold is_solution_valid. rewrite forallb_forall. split.
  - intros H r P Hin. apply rel_holds_prop. apply (H (r, P) Hin).
  - intros H [r P] Hin. apply rel_holds_prop. apply (H r P Hin).
Qed.

(* ------------------------------------------------------------------ sequences of constraints ---- *)
Record ccall := { cc_rel : rel; cc_P : terms; cc_lam : Q; cc_log : bool; cc_bounds : bounds }.
Fixpoint run_calls (m : model) (cs : list ccall) : result model :=
  match cs with
  | [] => Ok m
  | c :: cs' => bind (add_constraint (cc_rel c) m (cc_P c) (cc_lam c) (cc_log c) (cc_bounds c)) (fun '(m', _, _) => run_calls m' cs')
  end.

(* a call is admissible: positive weight, integer-valued polynomial that mentions no ancilla label, valid bounds *)
Definition no_anc (P : terms) : Prop := forall k v l j, In (k, v) P -> In l k -> l <> anc_label j.
Definition call_ok (c : ccall) : Prop :=
  0 < cc_lam c /\ int_v (fun x => eval x (cc_P c)) /\ bvalid (fun x => eval x (cc_P c)) (cc_bounds c) /\ no_anc (cc_P c).

Lemma no_anc_indep P k0 k1 : no_anc P -> indep (fresh_lbl k0 k1) (fun x => eval x P).
Proof.
  intros Hf x x' _ _ Ha. apply eval_ext_in. intros k v l Hin Hl. apply Ha.
  intros (j & _ & Hj). apply (Hf k v l j Hin Hl Hj).
Qed.

(* every constraint of the sequence gets its own consecutive block of ancillas, is recorded in order, and
   contributes lam_j * G_j with G_j the exact penalty of its relation *)
Inductive seq_result : model -> list ccall -> model -> Prop :=
| seq_nil m : seq_result m [] m
| seq_cons m c cs m1 m' w :
    call_result (cc_rel c) (rel_prop (cc_rel c)) m m1 (cc_lam c) (cc_P c) w ->
    seq_result m1 cs m' -> seq_result m (c :: cs) m'.

Theorem run_calls_spec cs : forall m m', run_calls m cs = Ok m' -> bkind (kd m) -> Forall call_ok cs -> seq_result m cs m'.
Proof.
  induction cs as [|c cs IH]; simpl; intros m m' H Hk Hok.
  - injection H as <-. constructor.
  - destruct (add_constraint (cc_rel c) m (cc_P c) (cc_lam c) (cc_log c) (cc_bounds c)) as [[[m1 w] t]|] eqn:E; cbn [bind] in H; [|discriminate].
    inversion Hok as [|? ? (Hl & Hi & Hb & Hn) Hok']; subst.
    assert (Hlam : ~ cc_lam c == 0) by (intros Hz; rewrite Hz in Hl; apply (Qlt_irrefl 0), Hl).
    pose proof (add_constraint_spec _ _ _ _ _ _ _ _ _ E Hk Hlam Hi Hb (fun n => no_anc_indep _ _ _ Hn)) as CR.
    econstructor; [exact CR|]. apply IH; [exact H| |exact Hok'].
    destruct CR as (G & P & _ & _ & (K & _) & _). rewrite K. exact Hk.
Qed.

(* ancilla counters only grow along a sequence, so the blocks [anc_j, anc_{j+1}) are pairwise disjoint *)
Lemma seq_result_anc m cs m' : seq_result m cs m' -> (anc m <= anc m')%nat.
Proof.
  induction 1 as [|m c cs m1 m' w (G & P & _ & _ & _ & Ha & _) _ IH]; [lia| lia].
Qed.
