(* C04: conversions, relabelling and exports preserve the represented function *)
From QV.Model Require Import Base Matrix Convert Values.
From QV.Proofs Require Import BaseProofs KeyProofs ArithProofs ValuesProofs TempRangeQ InvProofs.
From Coq Require Import Lia Lqa Qfield.
Open Scope Q_scope.

(* ---- the generators ---- *)
Lemma eval_gen_step z x c1 c2 (l : terms) (f : key * Q -> list (key * Q)) :
  (forall key value, exists a b, f (key, value) = [(x :: key, a); (key, b)] /\ a == c1 * value /\ b == c2 * value) ->
  eval z (flat_map f l) == (c1 * z x + c2) * eval z l.
Proof.
  intros Hf. induction l as [|[key value] l IH]; simpl; [ring|].
  destruct (Hf key value) as (a & b & -> & Ha & Hb). simpl. rewrite IH, Ha, Hb. ring.
Qed.

Lemma gen_b2s_eval z k : eval z (gen_b2s k) == mon (s2b z) k.
Proof.
  induction k as [|x k IH]; simpl; [ring|].
  rewrite (eval_gen_step z x (-(1#2)) (1#2)).
  - rewrite IH. unfold s2b. field.
  - intros key value. eexists _, _. split; [reflexivity|]. split; field.
Qed.

Lemma gen_s2b_eval x k : eval x (gen_s2b k) == mon (b2s x) k.
Proof.
  induction k as [|i k IH]; simpl; [ring|].
  rewrite (eval_gen_step x i (-(2)) 1).
  - rewrite IH. unfold b2s. ring.
  - intros key value. eexists _, _. split; [reflexivity|]. split; ring.
Qed.

Lemma eval_map_scale z v (l : terms) : eval z (map (fun '(key, value) => (key, value * v)) l) == v * eval z l.
Proof. induction l as [|[key value] l IH]; simpl; [ring| rewrite IH; ring]. Qed.

Lemma expand_eval z z' gen P : (forall k, eval z (gen k) == mon z' k) -> eval z (expand gen P) == eval z' P.
Proof.
  intros Hg. unfold expand. induction P as [|[k v] P IH]; simpl; [reflexivity|].
  rewrite eval_app, eval_map_scale, Hg, IH. reflexivity.
Qed.

Theorem pubo_to_puso_sound src P H z : pubo_to_puso src P = Ok H -> spin_env z ->
  eval z (tm H) == eval (s2b z) P /\ kd H = (if is_matrix src then KPusoM else KPuso).
Proof.
  unfold pubo_to_puso. intros HH Hz.
  assert (He : good_env (if is_matrix src then KPusoM else KPuso) z) by (destruct (is_matrix src); exact Hz).
  destruct (m_create_eval z _ _ _ HH He) as [A B]. split; [|exact B].
  rewrite A. apply expand_eval. intros k. apply gen_b2s_eval.
Qed.

Theorem puso_to_pubo_sound src H P x : puso_to_pubo src H = Ok P -> boolean_env x ->
  eval x (tm P) == eval (b2s x) H /\ kd P = (if is_matrix src then KPuboM else KPubo).
Proof.
  unfold puso_to_pubo. intros HH Hx.
  assert (He : good_env (if is_matrix src then KPuboM else KPubo) x) by (destruct (is_matrix src); exact Hx).
  destruct (m_create_eval x _ _ _ HH He) as [A B]. split; [|exact B].
  rewrite A. apply expand_eval. intros k. apply gen_s2b_eval.
Qed.

(* ---- closed forms ---- *)
Lemma q2s_term_eval z k v t : q2s_term k v = Ok t -> eval z t == v * mon (s2b z) k.
Proof.
  destruct k as [|i [|j [|l k]]]; simpl; intros [= <-]; simpl; unfold s2b; field.
Qed.
Lemma s2q_term_eval x k v t : s2q_term k v = Ok t -> eval x t == v * mon (b2s x) k.
Proof.
  destruct k as [|i [|j [|l k]]]; simpl; intros [= <-]; simpl; unfold b2s; ring.
Qed.

Lemma expand_quad_eval z z' term sq P t :
  (forall k v t0, term k v = Ok t0 -> eval z t0 == v * mon z' k) ->
  (forall k k', sq k = Ok k' -> mon z' k' == mon z' k) ->
  expand_quad term sq P = Ok t -> eval z t == eval z' P.
Proof.
  intros Ht Hs. revert t. induction P as [|[k v] P IH]; simpl; intros t H.
  - injection H as <-. reflexivity.
  - inv_bind H. inv_bind H. inv_bind H. injection H as <-.
    rewrite eval_app, (Ht _ _ _ E0), (Hs _ _ E), (IH _ eq_refl). reflexivity.
Qed.

Theorem qubo_to_quso_sound src Q L z : qubo_to_quso src Q = Ok L -> spin_env z ->
  eval z (tm L) == eval (s2b z) Q /\ kd L = (match src with Some KQuboM => KQusoM | _ => KQuso end).
Proof.
  unfold qubo_to_quso. intros H Hz. inv_bind H.
  assert (He : good_env (match src with Some KQuboM => KQusoM | _ => KQuso end) z)
    by (destruct src as [[]|]; exact Hz).
  destruct (m_create_eval z _ _ _ H He) as [A B]. split; [|exact B]. rewrite A.
  eapply expand_quad_eval; [intros; eapply q2s_term_eval; eassumption| |exact E].
  intros k k' Hk. pose proof (s2b_bool z Hz) as Hb.
  destruct src as [[]|]; try (injection Hk as <-; reflexivity); eapply (squash_mon KQubo); eassumption.
Qed.

Theorem quso_to_qubo_sound src L Q x : quso_to_qubo src L = Ok Q -> boolean_env x ->
  eval x (tm Q) == eval (b2s x) L /\ kd Q = (match src with Some KQusoM => KQuboM | _ => KQubo end).
Proof.
  unfold quso_to_qubo. intros H Hx. inv_bind H.
  assert (He : good_env (match src with Some KQusoM => KQuboM | _ => KQubo end) x)
    by (destruct src as [[]|]; exact Hx).
  destruct (m_create_eval x _ _ _ H He) as [A B]. split; [|exact B]. rewrite A.
  eapply expand_quad_eval; [intros; eapply s2q_term_eval; eassumption| |exact E].
  intros k k' Hk. pose proof (b2s_spin x Hx) as Hb.
  destruct src as [[]|]; try (injection Hk as <-; reflexivity); eapply (squash_mon KQuso); eassumption.
Qed.

(* the closed form and the recursive generator give the same function *)
Theorem closed_form_agrees src src' Q L H z : qubo_to_quso src Q = Ok L -> pubo_to_puso src' Q = Ok H -> spin_env z ->
  eval z (tm L) == eval z (tm H).
Proof.
  intros HL HH Hz. rewrite (proj1 (qubo_to_quso_sound _ _ _ _ HL Hz)), (proj1 (pubo_to_puso_sound _ _ _ _ HH Hz)).
  reflexivity.
Qed.

(* ---- relabelling ---- *)
Definition pull (mpx : list (label * nat)) (e : env) : env :=
  fun l => match mp_get l mpx with Some n => e n | None => 0 end.

Lemma relabel_key_mon mpx e k k' : relabel_key mpx k = Ok k' -> mon e k' == mon (pull mpx e) k.
Proof.
  revert k'. induction k as [|i k IH]; simpl; intros k' H.
  - injection H as <-. reflexivity.
  - unfold pull at 1. destruct (mp_get i mpx) as [n|]; [|discriminate]. inv_bind H. injection H as <-.
    simpl. rewrite (IH _ eq_refl). reflexivity.
Qed.
Lemma relabel_terms_eval mpx e t t' : relabel_terms mpx t = Ok t' -> eval e t' == eval (pull mpx e) t.
Proof.
  revert t'. induction t as [|[k v] t IH]; simpl; intros t' H.
  - injection H as <-. reflexivity.
  - inv_bind H. inv_bind H. injection H as <-. simpl.
    rewrite (relabel_key_mon _ _ _ _ E), (IH _ eq_refl). reflexivity.
Qed.

Theorem to_matrix_sound out m r e : to_matrix out m = Ok r -> good_env out e ->
  eval e (tm r) == eval (pull (mp m) e) (tm m) /\ kd r = out.
Proof.
  unfold to_matrix. intros H He. inv_bind H. destruct (m_create_eval e _ _ _ H He) as [A B].
  split; [|exact B]. rewrite A. apply relabel_terms_eval, E.
Qed.

(* evaluation only looks at the labels that occur *)
Lemma mon_ext_in e e' k : (forall i, In i k -> e i == e' i) -> mon e k == mon e' k.
Proof.
  induction k as [|x k IH]; simpl; intros H; [reflexivity|].
  rewrite (H x (or_introl eq_refl)), IH; [reflexivity| intros i Hi; apply H; right; exact Hi].
Qed.
Lemma eval_ext_in e e' t : (forall k v i, In (k, v) t -> In i k -> e i == e' i) -> eval e t == eval e' t.
Proof.
  induction t as [|[k v] t IH]; simpl; intros H; [reflexivity|].
  rewrite (mon_ext_in e e' k), IH; [reflexivity| |].
  - intros k' v' i Hin Hi. eapply H; [right; exact Hin| exact Hi].
  - intros i Hi. eapply H; [left; reflexivity| exact Hi].
Qed.

(* under the bookkeeping invariant: an assignment x of the labels and the
   assignment s of the integers with s (mapping l) = x l give the same value *)
Theorem enumerated_value out m r x s : Inv m -> is_labelled (kd m) = true ->
  to_matrix out m = Ok r -> good_env out s ->
  (forall l n, mp_get l (mp m) = Some n -> s n == x l) ->
  eval s (tm r) == eval x (tm m).
Proof.
  intros [B L] Hl H He Hs. destruct (to_matrix_sound _ _ _ _ H He) as [A _]. rewrite A.
  apply eval_ext_in. intros k v i Hin Hi. unfold pull.
  assert (Hk : kd m <> KDict) by (destruct (kd m) eqn:Ek; simpl in Hl; congruence).
  destruct (B Hk) as (_ & LI & _). destruct (L Hl) as (S1 & _).
  assert (Hv : In i (map fst (mp m))) by (apply S1; eapply LI; eassumption).
  destruct (mp_get i (mp m)) as [n|] eqn:Hg; [apply Hs, Hg|].
  apply mp_get_None in Hg. contradiction.
Qed.

(* ---- solutions ---- *)
Lemma map_res_In {A B} (f : A -> result B) l r : map_res f l = Ok r ->
  forall x, In x l -> exists y, f x = Ok y /\ In y r.
Proof.
  revert r. induction l as [|a l IH]; simpl; intros r H x Hin; [destruct Hin|].
  inv_bind H. inv_bind H. injection H as <-. destruct Hin as [->|Hin].
  - exists a0. split; [exact E| left; reflexivity].
  - destruct (IH _ eq_refl x Hin) as (y & Hy & Hiny). exists y. split; [exact Hy| right; exact Hiny].
Qed.

(* a solution given in the target's own form comes back relabelled, entry by entry *)
Theorem convert_solution_same_form to_spin m sol flag out :
  is_solution_spin (map snd sol) flag = to_spin ->
  convert_solution to_spin m sol flag = Ok out ->
  forall i, (i < num_vars m)%nat -> exists l v, rmp_get i (mp m) = Some l /\ sol_get i sol = Some v /\ In (l, v) out.
Proof.
  unfold convert_solution. intros Hf H i Hi. rewrite Hf in H.
  assert (H' : map_res (fun i => match rmp_get i (mp m), sol_get i sol with
                                 | Some l, Some v => Ok (l, v) | _, _ => Err KeyError end) (seq 0 (num_vars m)) = Ok out)
    by (destruct to_spin; exact H).
  destruct (map_res_In _ _ _ H' i) as (y & Hy & Hin); [apply in_seq; lia|].
  destruct (rmp_get i (mp m)) as [l|]; [|discriminate]. destruct (sol_get i sol) as [v|]; [|discriminate].
  injection Hy as <-. exists l, v. auto.
Qed.

(* ---- exports ---- *)
Definition entries_value (x : env) (es : list (nat * nat * Q)) : Q :=
  fold_right (fun '(i, j, v) acc => v * x i * x j + acc) 0 es.

Lemma export_Q_value x t : boolean_env x -> keys_le2 t ->
  eval x (export_Q t) + eval x (const_terms t) == eval x t.
Proof.
  intros Hx. unfold const_terms. induction t as [|[k v] t IH]; simpl; intros Hk; [ring|].
  assert (Hk' : keys_le2 t) by (intros k' v' Hin; apply (Hk k' v'); right; exact Hin).
  specialize (IH Hk'). assert (Hl : (length k <= 2)%nat) by (apply (Hk k v); left; reflexivity).
  destruct k as [|i [|j [|l k]]]; unfold is_const in *; simpl in *; try lia.
  - rewrite <- IH. ring.
  - rewrite <- IH. assert (E : v * (x i * (x i * 1)) == v * (x i * 1)) by (rewrite !Qmult_1_r, (bool_idem x i Hx); reflexivity).
    rewrite E. ring.
  - rewrite <- IH. ring.
Qed.

Lemma export_hJ_value z t : keys_le2 t ->
  fold_right (fun '(i, v) acc => v * z i + acc) 0 (export_h t) + eval z (export_J t)
  + eval z (const_terms t) == eval z t.
Proof.
  unfold const_terms. induction t as [|[k v] t IH]; simpl; intros Hk; [ring|].
  assert (Hk' : keys_le2 t) by (intros k' v' Hin; apply (Hk k' v'); right; exact Hin).
  specialize (IH Hk'). assert (Hl : (length k <= 2)%nat) by (apply (Hk k v); left; reflexivity).
  destruct k as [|i [|j [|l k]]]; unfold is_const in *; simpl in *; try lia; rewrite <- IH; ring.
Qed.

(* version for dictionaries without constant entry (qubo_to_matrix rejects a non-zero offset, and a stored
   model never holds a zero entry) *)
Definition no_const (t : terms) : Prop := forall k v, In (k, v) t -> k <> [].

Lemma matrix_entries_value x t sym : boolean_env x -> keys_le2 t -> no_const t ->
  entries_value x (flat_map (matrix_entry sym) t) == eval x t.
Proof.
  intros Hx. induction t as [|[k v] t IH]; simpl; intros Hk Hn; [reflexivity|].
  assert (Hk' : keys_le2 t) by (intros k' v' Hin; apply (Hk k' v'); right; exact Hin).
  assert (Hn' : no_const t) by (intros k' v' Hin; apply (Hn k' v'); right; exact Hin).
  specialize (IH Hk' Hn'). assert (Hl : (length k <= 2)%nat) by (apply (Hk k v); left; reflexivity).
  assert (Hne : k <> []) by (apply (Hn k v); left; reflexivity).
  destruct k as [|i [|j [|l k]]]; simpl in *; try lia; try congruence.
  - rewrite <- IH. assert (E : v * x i * x i == v * (x i * 1)) by (rewrite Qmult_1_r, <- Qmult_assoc, (bool_idem x i Hx); reflexivity).
    rewrite E. ring.
  - destruct sym; simpl; rewrite <- IH; field.
Qed.

Lemma entries_value_app x a b : entries_value x (a ++ b) == entries_value x a + entries_value x b.
Proof. induction a as [|[[i j] v] a IH]; simpl; [ring| rewrite IH; ring]. Qed.
