(* Function-level laws of the DictArithmetic operators, and preservation of the
   canonical form. *)
From QV.Model Require Import Base Matrix Arith Expr.
From QV.Proofs Require Import BaseProofs KeyProofs.
From Coq Require Import Lia Lqa Qfield.
Open Scope Q_scope.

Ltac inv_bind H :=
  match type of H with
  | bind ?r _ = Ok _ => let E := fresh "E" in destruct r eqn:E; cbn [bind] in H; [|discriminate]
  end.

(* ------------------------------------------------------------ item level -- *)
Lemma m_setitem_spec m k v m' : m_setitem m k v = Ok m' ->
  exists k', squash (kd m) k = Ok k' /\ tm m' = set_sq (tm m) k' v /\ kd m' = kd m
             /\ anc m' = anc m /\ cons m' = cons m /\ nm m' = nm m.
Proof.
  unfold m_setitem. intros H. inv_bind H. exists a. split; [reflexivity|].
  destruct (if is_labelled (kd m) then _ else _) as [mp' nl']. injection H as <-. simpl. tauto.
Qed.

Lemma m_additem_spec m k v m' : m_additem m k v = Ok m' ->
  exists k', squash (kd m) k = Ok k' /\ tm m' = set_sq (tm m) k' (get_sq (tm m) k' + v) /\ kd m' = kd m.
Proof.
  unfold m_additem, m_getitem, getitem. intros H. inv_bind H. inv_bind E. injection E as <-.
  apply m_setitem_spec in H. destruct H as (k' & Hk & Ht & Hkd & _). rewrite Hk in E0. injection E0 as <-.
  exists k'. tauto.
Qed.

Lemma m_additem_eval e m k v m' : m_additem m k v = Ok m' -> good_env (kd m) e ->
  eval e (tm m') == eval e (tm m) + v * mon e k /\ kd m' = kd m.
Proof.
  intros H He. apply m_additem_spec in H. destruct H as (k' & Hk & Ht & Hkd). split; [|exact Hkd].
  rewrite Ht, eval_set_sq, (squash_mon _ _ _ _ Hk He). ring.
Qed.

Lemma m_addall_eval e o : forall m m', m_addall m o = Ok m' -> good_env (kd m) e ->
  eval e (tm m') == eval e (tm m) + eval e o /\ kd m' = kd m.
Proof.
  induction o as [|[k v] o IH]; simpl; intros m m' H He.
  - injection H as <-. split; [ring|reflexivity].
  - inv_bind H. destruct (m_additem_eval e _ _ _ _ E He) as [H1 H2].
    rewrite <- H2 in He. destruct (IH _ _ H He) as [H3 H4]. split; [|congruence].
    rewrite H3, H1. ring.
Qed.

Lemma eval_neg_terms e t : eval e (neg_terms t) == - eval e t.
Proof. induction t as [|[k v] t IH]; simpl; [ring| rewrite IH; ring]. Qed.

Lemma m_create_eval e kd0 o m : m_create kd0 o = Ok m -> good_env kd0 e ->
  eval e (tm m) == eval e o /\ kd m = kd0.
Proof.
  unfold m_create. intros H He. destruct (m_addall_eval e o (empty_model kd0) m H He) as [A B].
  split; [rewrite A; simpl; ring| exact B].
Qed.

Lemma m_copy_eval e m c : m_copy m = Ok c -> good_env (kd m) e ->
  eval e (tm c) == eval e (tm m) /\ kd c = kd m.
Proof.
  unfold m_copy. intros H He. inv_bind H. injection H as <-. simpl.
  apply (m_create_eval e _ _ _ E He).
Qed.

(* ------------------------------------------------------------- + and - -- *)
Definition operand_eval (e : env) (o : operand) : Q :=
  match o with OModel b => eval e (tm b) | ORaw t => eval e t | OScalar c => c end.

Lemma m_iadd_eval e m o m' : m_iadd m o = Ok m' -> good_env (kd m) e ->
  eval e (tm m') == eval e (tm m) + operand_eval e o /\ kd m' = kd m.
Proof.
  destruct o as [b|t|c]; simpl; intros H He.
  - apply (m_addall_eval e _ _ _ H He).
  - apply (m_addall_eval e _ _ _ H He).
  - destruct (m_additem_eval e _ _ _ _ H He) as [A B]. split; [|exact B]. rewrite A. simpl. ring.
Qed.

Lemma m_isub_eval e m o m' : m_isub m o = Ok m' -> good_env (kd m) e ->
  eval e (tm m') == eval e (tm m) - operand_eval e o /\ kd m' = kd m.
Proof.
  destruct o as [b|t|c]; simpl; intros H He.
  - destruct (m_addall_eval e _ _ _ H He) as [A B]. split; [|exact B]. rewrite A, eval_neg_terms. ring.
  - destruct (m_addall_eval e _ _ _ H He) as [A B]. split; [|exact B]. rewrite A, eval_neg_terms. ring.
  - destruct (m_additem_eval e _ _ _ _ H He) as [A B]. split; [|exact B]. rewrite A. simpl. ring.
Qed.

(* --------------------------------------------------------------- * dict -- *)
Lemma m_mul_row_eval e k v o : forall m m', m_mul_row m k v o = Ok m' -> good_env (kd m) e ->
  eval e (tm m') == eval e (tm m) + v * mon e k * eval e o /\ kd m' = kd m.
Proof.
  induction o as [|[ko vo] o IH]; simpl; intros m m' H He.
  - injection H as <-. split; [ring|reflexivity].
  - inv_bind H. destruct (m_additem_eval e _ _ _ _ E He) as [H1 H2].
    rewrite <- H2 in He. destruct (IH _ _ H He) as [H3 H4]. split; [|congruence].
    rewrite H3, H1, mon_app. ring.
Qed.

Lemma m_mul_rows_eval e o items : forall m m', m_mul_rows m items o = Ok m' -> good_env (kd m) e ->
  eval e (tm m') == eval e (tm m) + eval e items * eval e o /\ kd m' = kd m.
Proof.
  induction items as [|[k v] items IH]; simpl; intros m m' H He.
  - injection H as <-. split; [ring|reflexivity].
  - inv_bind H. destruct (m_mul_row_eval e _ _ _ _ _ E He) as [H1 H2].
    rewrite <- H2 in He. destruct (IH _ _ H He) as [H3 H4]. split; [|congruence].
    rewrite H3, H1. ring.
Qed.

Lemma clear_for_imul_spec m : tm (clear_for_imul m) = [] /\ kd (clear_for_imul m) = kd m.
Proof. unfold clear_for_imul. destruct (kd m) eqn:Hk; simpl; auto. Qed.

(* ------------------------------------------------------------- * scalar -- *)
Definition wf (kd0 : kind) (t : terms) : Prop :=
  NoDup (map fst t) /\ forall k v, In (k, v) t -> squash kd0 k = Ok k /\ ~ v == 0.

Fixpoint sumk (g : key -> Q) (ks : list key) : Q :=
  match ks with [] => 0 | k :: ks' => g k + sumk g ks' end.

Lemma sumk_ext g g' ks : (forall k, In k ks -> g k == g' k) -> sumk g ks == sumk g' ks.
Proof.
  induction ks as [|k ks IH]; simpl; intros H; [reflexivity|].
  rewrite (H k (or_introl eq_refl)), IH; [reflexivity| intros k' Hk'; apply H; right; exact Hk'].
Qed.

Lemma key_eqb_neq a b : a <> b -> key_eqb a b = false.
Proof. intros H. destruct (key_eqb a b) eqn:E; [apply key_eqb_eq in E; contradiction| reflexivity]. Qed.

Lemma get_sq_cons_other k k' v t : k <> k' -> get_sq ((k', v) :: t) k = get_sq t k.
Proof. intros H. unfold get_sq. simpl. rewrite (key_eqb_neq _ _ H). reflexivity. Qed.
Lemma get_sq_cons_same k v t : get_sq ((k, v) :: t) k = v.
Proof. unfold get_sq. simpl. rewrite key_eqb_refl. reflexivity. Qed.

Lemma eval_sumk e t : NoDup (map fst t) ->
  eval e t == sumk (fun k => get_sq t k * mon e k) (map fst t).
Proof.
  induction t as [|[k v] t IH]; simpl; intros Hnd; [reflexivity|].
  inversion Hnd as [|? ? Hnotin Hnd']; subst. rewrite get_sq_cons_same, (IH Hnd').
  apply Qplus_comp; [reflexivity|]. apply sumk_ext. intros k' Hk'.
  rewrite get_sq_cons_other; [reflexivity|]. intros ->. contradiction.
Qed.

Lemma lookup_set_other {V} k k' (v : V) d : k <> k' -> lookup k (set_ k' v d) = lookup k d.
Proof.
  intros Hne. induction d as [|[k2 v2] d IH]; simpl.
  - rewrite (key_eqb_neq _ _ Hne). reflexivity.
  - destruct (key_eqb k' k2) eqn:E; simpl.
    + apply key_eqb_eq in E. subst. rewrite (key_eqb_neq _ _ Hne). reflexivity.
    + destruct (key_eqb k k2); [reflexivity| exact IH].
Qed.
Lemma lookup_remove_other {V} k k' (d : list (key * V)) : k <> k' -> lookup k (remove_ k' d) = lookup k d.
Proof.
  intros Hne. induction d as [|[k2 v2] d IH]; simpl; [reflexivity|].
  destruct (key_eqb k' k2) eqn:E; simpl.
  - apply key_eqb_eq in E. subst. rewrite (key_eqb_neq _ _ Hne). reflexivity.
  - destruct (key_eqb k k2); [reflexivity| exact IH].
Qed.
Lemma get_sq_set_sq_other t k k' v : k <> k' -> get_sq (set_sq t k' v) k = get_sq t k.
Proof.
  intros Hne. unfold get_sq, set_sq. destruct (qzero v).
  - rewrite lookup_remove_other by exact Hne. reflexivity.
  - rewrite lookup_set_other by exact Hne. reflexivity.
Qed.

Lemma m_scale_keys_eval e f ks : forall m m',
  (forall k, In k ks -> squash (kd m) k = Ok k) -> NoDup ks ->
  m_scale_keys m ks f = Ok m' ->
  eval e (tm m') == eval e (tm m) + sumk (fun k => (f (get_sq (tm m) k) - get_sq (tm m) k) * mon e k) ks
  /\ kd m' = kd m.
Proof.
  induction ks as [|k ks IH]; simpl; intros m m' Hsq Hnd H.
  - injection H as <-. split; [ring|reflexivity].
  - inversion Hnd as [|? ? Hnotin Hnd']; subst.
    inv_bind H. inv_bind H.
    unfold m_getitem, getitem in E. rewrite (Hsq k (or_introl eq_refl)) in E. simpl in E. injection E as <-.
    apply m_setitem_spec in E0. destruct E0 as (k' & Hk & Ht & Hkd & _).
    rewrite (Hsq k (or_introl eq_refl)) in Hk. injection Hk as <-.
    assert (Hsq' : forall k0, In k0 ks -> squash (kd a0) k0 = Ok k0).
    { intros k0 H0. rewrite Hkd. apply Hsq. right. exact H0. }
    destruct (IH _ _ Hsq' Hnd' H) as [A B]. split; [|congruence].
    rewrite A, Ht, eval_set_sq.
    assert (Hs : sumk (fun k0 => (f (get_sq (set_sq (tm m) k (f (get_sq (tm m) k))) k0)
                                  - get_sq (set_sq (tm m) k (f (get_sq (tm m) k))) k0) * mon e k0) ks
                 == sumk (fun k0 => (f (get_sq (tm m) k0) - get_sq (tm m) k0) * mon e k0) ks).
    { apply sumk_ext. intros k0 H0. rewrite get_sq_set_sq_other; [reflexivity|]. intros ->. contradiction. }
    rewrite Hs. ring.
Qed.

Lemma sumk_scale e c t ks :
  sumk (fun k => (get_sq t k * c - get_sq t k) * mon e k) ks
  == (c - 1) * sumk (fun k => get_sq t k * mon e k) ks.
Proof. induction ks as [|k ks IH]; simpl; [ring| rewrite IH; ring]. Qed.

Lemma wf_keys_canon kd0 t : wf kd0 t -> forall k, In k (map fst t) -> squash kd0 k = Ok k.
Proof.
  intros [_ H] k Hin. apply in_map_iff in Hin. destruct Hin as ([k' v] & <- & Hin). apply (H _ _ Hin).
Qed.

Lemma m_scale_eval e m c m' : wf (kd m) (tm m) -> m_scale m (fun v => v * c) = Ok m' ->
  eval e (tm m') == c * eval e (tm m) /\ kd m' = kd m.
Proof.
  intros Hwf H. unfold m_scale in H.
  destruct (m_scale_keys_eval e _ _ _ _ (wf_keys_canon _ _ Hwf) (proj1 Hwf) H) as [A B].
  split; [|exact B]. rewrite A, sumk_scale, <- (eval_sumk e _ (proj1 Hwf)). ring.
Qed.

Lemma sumk_div e c t ks :
  sumk (fun k => (get_sq t k / c - get_sq t k) * mon e k) ks
  == (/ c - 1) * sumk (fun k => get_sq t k * mon e k) ks.
Proof. induction ks as [|k ks IH]; simpl; [ring| rewrite IH; unfold Qdiv; ring]. Qed.

Lemma m_itruediv_eval e m c m' : wf (kd m) (tm m) -> m_itruediv m c = Ok m' ->
  eval e (tm m') == eval e (tm m) / c /\ kd m' = kd m.
Proof.
  intros Hwf H. unfold m_itruediv, m_scale in H.
  destruct (m_scale_keys_eval e _ _ _ _ (wf_keys_canon _ _ Hwf) (proj1 Hwf) H) as [A B].
  split; [|exact B]. rewrite A, sumk_div, <- (eval_sumk e _ (proj1 Hwf)). unfold Qdiv. ring.
Qed.

(* ------------------------------------------------- canonical form (wf) -- *)
Lemma set_keys {V} k (v : V) d :
  map fst (set_ k v d) = map fst d \/ (~ In k (map fst d) /\ map fst (set_ k v d) = map fst d ++ [k]).
Proof.
  induction d as [|[k2 v2] d IH]; simpl.
  - right. split; [tauto|reflexivity].
  - destruct (key_eqb k k2) eqn:E; simpl.
    + apply key_eqb_eq in E. subst. left. reflexivity.
    + destruct IH as [IH|[Hn IH]]; [left; rewrite IH; reflexivity|].
      right. split; [|rewrite IH; reflexivity].
      intros [<-|Hin]; [rewrite key_eqb_refl in E; discriminate| contradiction].
Qed.
Lemma NoDup_snoc {A} (l : list A) k : NoDup l -> ~ In k l -> NoDup (l ++ [k]).
Proof.
  induction l as [|x l IH]; simpl; intros Hnd Hn; [constructor; [tauto|constructor]|].
  inversion Hnd; subst. constructor.
  - rewrite in_app_iff. simpl. intros [H|[H|[]]]; [contradiction| apply Hn; left; symmetry; exact H].
  - apply IH; tauto.
Qed.
Lemma set_NoDup {V} k (v : V) d : NoDup (map fst d) -> NoDup (map fst (set_ k v d)).
Proof.
  intros H. destruct (set_keys k v d) as [E|[Hn E]]; rewrite E; [exact H| apply NoDup_snoc; assumption].
Qed.
Lemma remove_keys_incl {V} k (d : list (key * V)) x : In x (remove_ k d) -> In x d.
Proof.
  induction d as [|[k2 v2] d IH]; simpl; [tauto|].
  destruct (key_eqb k k2); simpl; [tauto|]. intros [H|H]; [left; exact H| right; apply IH, H].
Qed.
Lemma remove_NoDup {V} k (d : list (key * V)) : NoDup (map fst d) -> NoDup (map fst (remove_ k d)).
Proof.
  induction d as [|[k2 v2] d IH]; simpl; intros H; [constructor|].
  inversion H; subst. destruct (key_eqb k k2); [assumption|]. simpl. constructor; [|apply IH; assumption].
  intros Hin. apply in_map_iff in Hin. destruct Hin as ([k3 v3] & Hk & Hin). simpl in Hk. subst k3.
  apply remove_keys_incl in Hin. apply H2. apply in_map_iff. exists (k2, v3). split; [reflexivity|exact Hin].
Qed.
Lemma set_In {V} k (v : V) d x : In x (set_ k v d) -> (k, v) = x \/ In x d.
Proof.
  induction d as [|[k2 v2] d IH]; simpl; [tauto|].
  destruct (key_eqb k k2); simpl; [tauto|]. intros [H|H]; [tauto|]. destruct (IH H); tauto.
Qed.

Lemma set_sq_wf kd0 t k v : wf kd0 t -> squash kd0 k = Ok k -> wf kd0 (set_sq t k v).
Proof.
  intros [Hnd Hc] Hk. unfold set_sq. destruct (qzero v) eqn:Hz.
  - split; [apply remove_NoDup, Hnd|]. intros k' v' Hin. apply (Hc k' v'). eapply remove_keys_incl, Hin.
  - split; [apply set_NoDup, Hnd|]. intros k' v' Hin. apply set_In in Hin. destruct Hin as [[= <- <-]|Hin].
    + split; [exact Hk|]. rewrite Qred_correct. intros Hv. apply qzero_spec in Hv. congruence.
    + apply (Hc _ _ Hin).
Qed.

Lemma m_setitem_wf m k v m' : wf (kd m) (tm m) -> m_setitem m k v = Ok m' -> wf (kd m') (tm m').
Proof.
  intros Hwf H. apply m_setitem_spec in H. destruct H as (k' & Hk & Ht & Hkd & _).
  rewrite Hkd, Ht. apply set_sq_wf; [exact Hwf| eapply squash_idem, Hk].
Qed.
Lemma m_additem_wf m k v m' : wf (kd m) (tm m) -> m_additem m k v = Ok m' -> wf (kd m') (tm m').
Proof.
  intros Hwf H. apply m_additem_spec in H. destruct H as (k' & Hk & Ht & Hkd).
  rewrite Hkd, Ht. apply set_sq_wf; [exact Hwf| eapply squash_idem, Hk].
Qed.
Lemma m_addall_wf o : forall m m', wf (kd m) (tm m) -> m_addall m o = Ok m' -> wf (kd m') (tm m').
Proof.
  induction o as [|[k v] o IH]; simpl; intros m m' Hwf H; [injection H as <-; exact Hwf|].
  inv_bind H. eapply IH; [|exact H]. eapply m_additem_wf; eassumption.
Qed.
Lemma wf_nil kd0 : wf kd0 [].
Proof. split; [constructor| intros k v []]. Qed.
Lemma m_create_wf kd0 o m : m_create kd0 o = Ok m -> wf (kd m) (tm m).
Proof. unfold m_create. intros H. eapply m_addall_wf; [|exact H]. apply wf_nil. Qed.
Lemma m_copy_wf m c : m_copy m = Ok c -> wf (kd c) (tm c).
Proof. unfold m_copy. intros H. inv_bind H. injection H as <-. simpl. eapply m_create_wf, E. Qed.
Lemma m_update_wf o : forall m m', wf (kd m) (tm m) -> m_update m o = Ok m' -> wf (kd m') (tm m').
Proof.
  induction o as [|[k v] o IH]; simpl; intros m m' Hwf H; [injection H as <-; exact Hwf|].
  inv_bind H. eapply IH; [|exact H]. eapply m_setitem_wf; eassumption.
Qed.
Lemma m_mul_row_wf k v o : forall m m', wf (kd m) (tm m) -> m_mul_row m k v o = Ok m' -> wf (kd m') (tm m').
Proof.
  induction o as [|[ko vo] o IH]; simpl; intros m m' Hwf H; [injection H as <-; exact Hwf|].
  inv_bind H. eapply IH; [|exact H]. eapply m_additem_wf; eassumption.
Qed.
Lemma m_mul_rows_wf o items : forall m m', wf (kd m) (tm m) -> m_mul_rows m items o = Ok m' -> wf (kd m') (tm m').
Proof.
  induction items as [|[k v] items IH]; simpl; intros m m' Hwf H; [injection H as <-; exact Hwf|].
  inv_bind H. eapply IH; [|exact H]. eapply m_mul_row_wf; eassumption.
Qed.
Lemma m_scale_keys_wf f ks : forall m m', wf (kd m) (tm m) -> m_scale_keys m ks f = Ok m' -> wf (kd m') (tm m').
Proof.
  induction ks as [|k ks IH]; simpl; intros m m' Hwf H; [injection H as <-; exact Hwf|].
  inv_bind H. inv_bind H. eapply IH; [|exact H]. eapply m_setitem_wf; eassumption.
Qed.

Lemma m_iadd_wf m o m' : wf (kd m) (tm m) -> m_iadd m o = Ok m' -> wf (kd m') (tm m').
Proof.
  destruct o; simpl; intros Hwf H; first [eapply m_addall_wf; eassumption | eapply m_additem_wf; eassumption].
Qed.
Lemma m_isub_wf m o m' : wf (kd m) (tm m) -> m_isub m o = Ok m' -> wf (kd m') (tm m').
Proof.
  destruct o; simpl; intros Hwf H; first [eapply m_addall_wf; eassumption | eapply m_additem_wf; eassumption].
Qed.
Lemma m_imul_wf m o m' : wf (kd m) (tm m) -> m_imul m o = Ok m' -> wf (kd m') (tm m').
Proof.
  destruct o; simpl; intros Hwf H.
  - eapply m_mul_rows_wf; [|exact H]. destruct (clear_for_imul_spec m) as [-> _]. apply wf_nil.
  - eapply m_mul_rows_wf; [|exact H]. destruct (clear_for_imul_spec m) as [-> _]. apply wf_nil.
  - eapply m_scale_keys_wf; eassumption.
Qed.

(* ------------------------------------------------------------- products -- *)
Lemma m_imul_eval e m o m' : wf (kd m) (tm m) -> m_imul m o = Ok m' -> good_env (kd m) e ->
  eval e (tm m') == eval e (tm m) * operand_eval e o /\ kd m' = kd m.
Proof.
  intros Hwf H He. destruct (clear_for_imul_spec m) as [Ht Hk].
  destruct o as [b|t|c]; simpl in *.
  - rewrite <- Hk in He. destruct (m_mul_rows_eval e _ _ _ _ H He) as [A B].
    split; [|congruence]. rewrite A, Ht. simpl. ring.
  - rewrite <- Hk in He. destruct (m_mul_rows_eval e _ _ _ _ H He) as [A B].
    split; [|congruence]. rewrite A, Ht. simpl. ring.
  - destruct (m_scale_eval e _ _ _ Hwf H) as [A B]. split; [|exact B]. rewrite A. ring.
Qed.


Lemma qpow_ext x y n : x == y -> qpow x n == qpow y n.
Proof. intros H. induction n as [|n IH]; simpl; [reflexivity| rewrite IH, H; reflexivity]. Qed.

Lemma m_pow_loop_eval e old n : forall m m', wf (kd m) (tm m) -> m_pow_loop m old n = Ok m' -> good_env (kd m) e ->
  eval e (tm m') == eval e (tm m) * qpow (eval e (tm old)) n /\ kd m' = kd m /\ wf (kd m') (tm m').
Proof.
  induction n as [|n IH]; cbn [m_pow_loop qpow]; intros m m' Hwf H He.
  - injection H as <-. split; [ring|]. split; [reflexivity| exact Hwf].
  - destruct (m_imul m (OModel old)) as [a|] eqn:E; cbn [bind] in H; [|discriminate].
    destruct (m_imul_eval e _ _ _ Hwf E He) as [A B]. cbn [operand_eval] in A.
    pose proof (m_imul_wf _ _ _ Hwf E) as Hwf'.
    rewrite <- B in He. destruct (IH _ _ Hwf' H He) as (A' & B' & C'). split; [|split; [congruence|exact C']].
    rewrite A', A. ring.
Qed.

Lemma m_ipow_eval e m n m' : wf (kd m) (tm m) -> m_ipow m n = Ok m' -> good_env (kd m) e ->
  (0 < n)%Z /\ eval e (tm m') == qpow (eval e (tm m)) (Z.to_nat n) /\ kd m' = kd m.
Proof.
  unfold m_ipow. intros Hwf H He. destruct (n <=? 0)%Z eqn:Hn; [discriminate|]. apply Z.leb_gt in Hn.
  split; [exact Hn|]. destruct (n =? 1)%Z eqn:H1.
  - apply Z.eqb_eq in H1. subst n. injection H as <-. split; [simpl; ring| reflexivity].
  - inv_bind H. destruct (m_copy_eval e _ _ E He) as [A B].
    destruct (m_pow_loop_eval e _ _ _ _ Hwf H He) as (A' & B' & _). split; [|exact B'].
    rewrite A', (qpow_ext _ _ _ A). apply Z.eqb_neq in H1.
    replace (Z.to_nat n) with (S (Z.to_nat (n - 1))) by lia. simpl. ring.
Qed.

(* --------------------------------------------------------- copying forms -- *)
Lemma m_add_eval e m o m' : m_add m o = Ok m' -> good_env (kd m) e ->
  eval e (tm m') == eval e (tm m) + operand_eval e o /\ kd m' = kd m.
Proof.
  unfold m_add. intros H He. inv_bind H. destruct (m_copy_eval e _ _ E He) as [A B].
  rewrite <- B in He. destruct (m_iadd_eval e _ _ _ H He) as [A' B']. split; [|congruence]. rewrite A', A. reflexivity.
Qed.
Lemma m_sub_eval e m o m' : m_sub m o = Ok m' -> good_env (kd m) e ->
  eval e (tm m') == eval e (tm m) - operand_eval e o /\ kd m' = kd m.
Proof.
  unfold m_sub. intros H He. inv_bind H. destruct (m_copy_eval e _ _ E He) as [A B].
  rewrite <- B in He. destruct (m_isub_eval e _ _ _ H He) as [A' B']. split; [|congruence]. rewrite A', A. reflexivity.
Qed.
Lemma m_mul_eval e m o m' : m_mul m o = Ok m' -> good_env (kd m) e ->
  eval e (tm m') == eval e (tm m) * operand_eval e o /\ kd m' = kd m.
Proof.
  unfold m_mul. intros H He. inv_bind H. destruct (m_copy_eval e _ _ E He) as [A B].
  rewrite <- B in He. destruct (m_imul_eval e _ _ _ (m_copy_wf _ _ E) H He) as [A' B']. split; [|congruence].
  rewrite A', A. reflexivity.
Qed.
Lemma m_pow_eval e m n m' : m_pow m n = Ok m' -> good_env (kd m) e ->
  (0 < n)%Z /\ eval e (tm m') == qpow (eval e (tm m)) (Z.to_nat n) /\ kd m' = kd m.
Proof.
  unfold m_pow. intros H He. inv_bind H. destruct (m_copy_eval e _ _ E He) as [A B].
  rewrite <- B in He. destruct (m_ipow_eval e _ _ _ (m_copy_wf _ _ E) H He) as (A0 & A' & B').
  split; [exact A0|]. split; [|congruence]. rewrite A'. apply qpow_ext, A.
Qed.
Lemma m_truediv_eval e m c m' : m_truediv m c = Ok m' -> good_env (kd m) e ->
  eval e (tm m') == eval e (tm m) / c /\ kd m' = kd m.
Proof.
  unfold m_truediv. intros H He. inv_bind H. destruct (m_copy_eval e _ _ E He) as [A B].
  destruct (m_itruediv_eval e _ _ _ (m_copy_wf _ _ E) H) as [A' B']. split; [|congruence]. rewrite A', A. reflexivity.
Qed.
Lemma m_neg_eval e m m' : m_neg m = Ok m' -> good_env (kd m) e ->
  eval e (tm m') == - eval e (tm m) /\ kd m' = kd m.
Proof.
  unfold m_neg. intros H He. destruct (m_mul_eval e _ _ _ H He) as [A B]. split; [|exact B]. rewrite A. simpl. ring.
Qed.
Lemma m_rsub_eval e m o m' : m_rsub m o = Ok m' -> good_env (kd m) e ->
  eval e (tm m') == operand_eval e o - eval e (tm m) /\ kd m' = kd m.
Proof.
  unfold m_rsub. intros H He. inv_bind H. destruct (m_neg_eval e _ _ E He) as [A B].
  rewrite <- B in He. destruct (m_add_eval e _ _ _ H He) as [A' B']. split; [|congruence]. rewrite A', A. ring.
Qed.
