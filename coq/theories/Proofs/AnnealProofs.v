(* C11 / C12: the annealing kernels.  Shapes and values of the results, exact energy differences,
   zero-temperature descent. *)
From QV.Model Require Import Base Matrix Convert Reduce Anneal.
From QV.Proofs Require Import BaseProofs.
From Coq Require Import NArith Lia Lqa.
Open Scope Q_scope.
Arguments pcg_next : simpl never.
Arguments rand_double : simpl never.
Arguments rand_int : simpl never.
Arguments rand_init : simpl never.

(* ---- lists ---- *)
Lemma upd_length {A} (f : A -> A) : forall n l, length (upd n f l) = length l.
Proof. induction n as [|n IH]; destruct l as [|x l]; simpl; auto. Qed.
Lemma nth_upd_same {A} (f : A -> A) d : forall n l, (n < length l)%nat -> nth n (upd n f l) d = f (nth n l d).
Proof. induction n as [|n IH]; destruct l as [|x l]; simpl; intros H; try lia; auto. apply IH. lia. Qed.
Lemma nth_upd_other {A} (f : A -> A) d : forall n m l, n <> m -> nth m (upd n f l) d = nth m l d.
Proof.
  induction n as [|n IH]; intros m l H; destruct l as [|x l]; simpl; auto.
  - destruct m as [|m]; [congruence| reflexivity].
  - destruct m as [|m]; [reflexivity|]. apply IH. congruence.
Qed.

Definition pm1 (s : list Z) : Prop := Forall (fun v => v = 1%Z \/ v = (-1)%Z) s.
Lemma pm1_upd s : forall i, pm1 s -> pm1 (upd i Z.opp s).
Proof.
  induction s as [|x s IH]; intros i H; destruct i as [|i]; simpl; try exact H.
  - inversion H as [|? ? Hx Hs]; subst. constructor; [|exact Hs]. destruct Hx as [Hx|Hx]; rewrite Hx; simpl; auto.
  - inversion H as [|? ? Hx Hs]; subst. constructor; [exact Hx| apply IH, Hs].
Qed.
Lemma pm1_nth s i : pm1 s -> (i < length s)%nat -> nth i s 0%Z = 1%Z \/ nth i s 0%Z = (-1)%Z.
Proof. intros H Hi. unfold pm1 in H. rewrite Forall_forall in H. apply H, nth_In, Hi. Qed.

Lemma random_state_spec : forall n r r' l, random_state n r = (r', l) -> length l = n /\ pm1 l.
Proof.
  induction n as [|n IH]; cbn [random_state]; intros r r' l H.
  - injection H as <- <-. split; [reflexivity| constructor].
  - destruct (rand_double r) as [r1 u]. destruct (random_state n r1) as [r2 l0] eqn:E. injection H as <- <-.
    destruct (IH _ _ _ E) as [A B]. split; [simpl; congruence|]. constructor; [|exact B].
    destruct (qltq u (1 # 2)); auto.
Qed.

(* ---- folds over option ---- *)
Lemma opt_fold_none {A B} (f : A -> B -> option A) l :
  fold_left (fun acc b => match acc with Some x => f x b | None => None end) l None = None.
Proof. induction l as [|b l IH]; simpl; auto. Qed.
Lemma opt_fold_inv {A B} (P : A -> Prop) (f : A -> B -> option A) :
  (forall a b a', f a b = Some a' -> P a -> P a') ->
  forall l a a', opt_fold f l a = Some a' -> P a -> P a'.
Proof.
  intros Hf. unfold opt_fold. induction l as [|b l IH]; simpl; intros a a' H Ha.
  - injection H as <-. exact Ha.
  - destruct (f a b) as [a1|] eqn:E; [|rewrite opt_fold_none in H; discriminate].
    apply (IH a1 a' H). eapply Hf; eassumption.
Qed.
(* the same with the list element known to come from the list *)
Lemma opt_fold_inv_in {A B} (P : A -> Prop) (f : A -> B -> option A) l :
  (forall a b a', In b l -> f a b = Some a' -> P a -> P a') ->
  forall a a', opt_fold f l a = Some a' -> P a -> P a'.
Proof.
  unfold opt_fold. induction l as [|b l IH]; simpl; intros Hf a a' H Ha.
  - injection H as <-. exact Ha.
  - destruct (f a b) as [a1|] eqn:E; [|rewrite opt_fold_none in H; discriminate].
    apply (IH (fun a0 b0 a0' Hin => Hf a0 b0 a0' (or_intror Hin)) a1 a' H). eapply Hf; [left; reflexivity| eassumption| exact Ha].
Qed.

(* ---- acceptance ---- *)
Lemma qle0_spec v : qle0 v = true <-> v <= 0.
Proof.
  unfold qle0. destruct (v ?= 0) eqn:E; split; intros H; try reflexivity; try discriminate.
  - apply Qeq_alt in E. lra.
  - apply Qlt_alt in E. lra.
  - apply Qgt_alt in E. lra.
Qed.
(* at temperature zero a move is accepted exactly when it does not raise the energy, and no random number is drawn *)
Lemma accept_zero tab r dE T : T == 0 -> accept tab r dE T = Some (r, qle0 dE).
Proof.
  intros HT. unfold accept. destruct (qle0 dE); [reflexivity|].
  assert (E : qpos T = false) by (unfold qpos; rewrite HT; reflexivity). rewrite E. reflexivity.
Qed.
(* at any temperature a move that does not raise the energy is accepted *)
Lemma accept_downhill tab r dE T : dE <= 0 -> accept tab r dE T = Some (r, true).
Proof. intros H. unfold accept. apply qle0_spec in H. rewrite H. reflexivity. Qed.
(* an uphill move at T > 0 is accepted only if the uniform number is below the lower end of the enclosure of exp(-dE/T),
   rejected only if above the upper end *)
Lemma accept_uphill tab r dE T r' b : accept tab r dE T = Some (r', b) -> 0 < dE -> 0 < T ->
  exists lo hi, tab_get (dE / T) tab = Some (lo, hi) /\ r' = fst (rand_double r) /\
                (if b then snd (rand_double r) < lo else hi < snd (rand_double r)).
Proof.
  unfold accept. intros H HdE HT.
  assert (E1 : qle0 dE = false) by (destruct (qle0 dE) eqn:E; [apply qle0_spec in E; lra| reflexivity]).
  assert (E2 : qpos T = true) by (unfold qpos; destruct (T ?= 0) eqn:E; [apply Qeq_alt in E; lra| apply Qlt_alt in E; lra| reflexivity]).
  rewrite E1, E2 in H. destruct (rand_double r) as [r1 u]. destruct (tab_get (dE / T) tab) as [[lo hi]|]; [|discriminate].
  exists lo, hi. split; [reflexivity|]. cbn [fst snd]. unfold qltq in H.
  destruct (u ?= lo) eqn:C1.
  - destruct (hi ?= u) eqn:C2; try discriminate. injection H as <- <-. split; [reflexivity|]. apply Qlt_alt, C2.
  - injection H as <- <-. split; [reflexivity|]. apply Qlt_alt, C1.
  - destruct (hi ?= u) eqn:C2; try discriminate. injection H as <- <-. split; [reflexivity|]. apply Qlt_alt, C2.
Qed.

(* ---- the PUSO kernel ---- *)
Fixpoint tprod (s : list Z) (k : key) : Z := match k with [] => 1%Z | i :: k' => (nth i s 0 * tprod s k')%Z end.
Lemma term_prod_acc s k : forall p, fold_left (fun p i => (p * nth i s 0%Z)%Z) k p = (p * tprod s k)%Z.
Proof. induction k as [|i k IH]; simpl; intros p; [lia|]. rewrite IH. lia. Qed.
Lemma term_prod_tprod s k : term_prod s k = tprod s k.
Proof. unfold term_prod. rewrite term_prod_acc. lia. Qed.

Definition E_puso (a : puso_args) (s : list Z) : Q := puso_kernel_value a s.
Fixpoint sum_terms (a : puso_args) (g : key -> Q -> Q) : Q := match a with [] => 0 | (k, c) :: a' => g k c + sum_terms a' g end.
Lemma kernel_value_sum a s : forall acc,
  fold_left (fun acc '(k, c) => acc + c * zq (term_prod s k)) a acc == acc + sum_terms a (fun k c => c * zq (tprod s k)).
Proof.
  induction a as [|[k c] a IH]; intros acc; simpl; [ring|]. rewrite IH, term_prod_tprod. ring.
Qed.
Fixpoint count (i : nat) (k : key) : nat := match k with [] => O | j :: k' => (if Nat.eqb j i then 1 else 0) + count i k' end.
Lemma inner_sub_sum spin v k : forall acc,
  fold_left (fun acc' i => if Nat.eqb i spin then acc' + v else acc') k acc == acc + inject_Z (Z.of_nat (count spin k)) * v.
Proof.
  induction k as [|j k IH]; intros acc; cbn [fold_left count]; [simpl; ring|].
  rewrite IH. destruct (Nat.eqb j spin); [|simpl; ring].
  rewrite Nat2Z.inj_add, inject_Z_plus. simpl (inject_Z (Z.of_nat 1)). ring.
Qed.
Lemma subgraph_value_sum a s spin : forall acc,
  fold_left (fun acc '(k, c) => fold_left (fun acc' i => if Nat.eqb i spin then acc' + c * zq (term_prod s k) else acc') k acc) a acc
  == acc + sum_terms a (fun k c => inject_Z (Z.of_nat (count spin k)) * (c * zq (tprod s k))).
Proof.
  induction a as [|[k c] a IH]; intros acc; simpl; [ring|]. rewrite IH, inner_sub_sum, term_prod_tprod. ring.
Qed.

Lemma count_notin i k : ~ In i k -> count i k = 0%nat.
Proof. induction k as [|j k IH]; simpl; intros H; [reflexivity|]. destruct (Nat.eqb_spec j i) as [->|Hne]; [exfalso; apply H; left; reflexivity|]. apply IH. tauto. Qed.
Lemma count_nodup i k : NoDup k -> In i k -> count i k = 1%nat.
Proof.
  induction k as [|j k IH]; simpl; intros Hn Hin; [destruct Hin|]. inversion Hn as [|? ? Hj Hk]; subst.
  destruct (Nat.eqb_spec j i) as [->|Hne]; [rewrite count_notin; auto|]. destruct Hin as [->|Hin]; [congruence|]. apply IH; assumption.
Qed.
Lemma tprod_flip_notin s i k : ~ In i k -> tprod (upd i Z.opp s) k = tprod s k.
Proof.
  induction k as [|j k IH]; simpl; intros H; [reflexivity|]. rewrite IH by tauto.
  rewrite nth_upd_other; [reflexivity| intros ->; apply H; left; reflexivity].
Qed.
Lemma tprod_flip_in s i k : NoDup k -> In i k -> (i < length s)%nat -> tprod (upd i Z.opp s) k = (- tprod s k)%Z.
Proof.
  induction k as [|j k IH]; simpl; intros Hn Hin Hi; [destruct Hin|]. inversion Hn as [|? ? Hj Hk]; subst.
  destruct (Nat.eq_dec j i) as [->|Hne].
  - rewrite nth_upd_same by exact Hi. rewrite tprod_flip_notin by exact Hj. lia.
  - destruct Hin as [->|Hin]; [congruence|]. rewrite IH by assumption. rewrite nth_upd_other by congruence. lia.
Qed.

Definition nodup_keys (a : puso_args) : Prop := forall k c, In (k, c) a -> NoDup k.

(* -2 * subgraph_value is the exact energy difference of the flip *)
Theorem puso_flip_energy a s i : nodup_keys a -> (i < length s)%nat ->
  E_puso a (upd i Z.opp s) == E_puso a s + -(2) * puso_subgraph_value a s i.
Proof.
  intros Hn Hi. unfold E_puso, puso_kernel_value, puso_subgraph_value.
  rewrite !kernel_value_sum, subgraph_value_sum.
  induction a as [|[k c] a IH]; simpl; [ring|].
  assert (Hn' : nodup_keys a) by (intros k0 c0 Hin; apply (Hn k0 c0); right; exact Hin).
  specialize (IH Hn').
  match type of IH with 0 + ?A == 0 + ?B + -(2) * (0 + ?C0) => assert (IH' : A == B + -(2) * C0) by lra; clear IH end.
  destruct (in_dec Nat.eq_dec i k) as [Hin|Hnin].
  - rewrite (tprod_flip_in s i k (Hn k c (or_introl eq_refl)) Hin Hi), (count_nodup i k (Hn k c (or_introl eq_refl)) Hin).
    unfold zq in *. rewrite inject_Z_opp, IH'. simpl (inject_Z (Z.of_nat 1)). ring.
  - rewrite (tprod_flip_notin s i k Hnin), (count_notin i k Hnin), IH'. simpl (inject_Z (Z.of_nat 0)). ring.
Qed.

(* ---- random index ---- *)
Lemma bounded_loop_lt : forall fuel r bound thr r' x, bounded_loop fuel r bound thr = Some (r', x) -> (bound <> 0)%N -> (x < bound)%N.
Proof.
  induction fuel as [|f IH]; cbn [bounded_loop]; intros r bound thr r' x H Hb; [discriminate|].
  destruct (pcg_next r) as [r1 y]. destruct (thr <=? y)%N.
  - injection H as <- <-. apply N.mod_lt, Hb.
  - eapply IH; eassumption.
Qed.
Lemma rand_int_lt r stop r' i : rand_int r stop = Some (r', i) -> (i < stop)%nat.
Proof.
  unfold rand_int. destruct (N.of_nat stop =? 0)%N eqn:E0; [discriminate|]. apply N.eqb_neq in E0.
  destruct (bounded_loop 64 r (N.of_nat stop) _) as [[r1 x]|] eqn:EB; [|discriminate]. intros H. injection H as <- <-.
  pose proof (bounded_loop_lt _ _ _ _ _ _ EB E0). lia.
Qed.

(* acceptance only looks at the value of dE *)
Lemma Qeq_bool_ext x x' y : x == x' -> Qeq_bool x y = Qeq_bool x' y.
Proof.
  intros H. destruct (Qeq_bool x y) eqn:E1, (Qeq_bool x' y) eqn:E2; try reflexivity.
  - apply Qeq_bool_iff in E1. rewrite H in E1. apply Qeq_bool_iff in E1. congruence.
  - apply Qeq_bool_iff in E2. rewrite <- H in E2. apply Qeq_bool_iff in E2. congruence.
Qed.
Lemma tab_get_ext x x' tab : x == x' -> tab_get x tab = tab_get x' tab.
Proof. intros H. induction tab as [|[y e] t IH]; simpl; [reflexivity|]. rewrite (Qeq_bool_ext x x' y H), IH. reflexivity. Qed.
Lemma qle0_ext v v' : v == v' -> qle0 v = qle0 v'.
Proof. intros H. unfold qle0. rewrite H. reflexivity. Qed.
Lemma accept_ext tab r dE dE' T : dE == dE' -> accept tab r dE T = accept tab r dE' T.
Proof.
  intros H. unfold accept. rewrite (qle0_ext _ _ H).
  assert (E : dE / T == dE' / T) by (rewrite H; reflexivity). rewrite (tab_get_ext _ _ tab E). reflexivity.
Qed.

(* ---- the chain the kernels are meant to run: single-spin Metropolis with the exact energy difference of E ---- *)
Definition metro_step (E : list Z -> Q) (tab : exptab) (in_order : bool) (T : Q) (rs : rng * list Z) (j : nat)
  : option (rng * list Z) :=
  let (r, s) := rs in
  match (if in_order then Some (r, j) else rand_int r (length s)) with
  | None => None
  | Some (r1, i) =>
      match accept tab r1 (E (upd i Z.opp s) - E s) T with
      | None => None
      | Some (r2, true) => Some (r2, upd i Z.opp s)
      | Some (r2, false) => Some (r2, s)
      end
  end.

Theorem puso_step_refines a tab io T k j : nodup_keys a -> (j < length (ps_state k))%nat ->
  option_map (fun k' => (ps_rng k', ps_state k')) (puso_step a tab io T k j)
  = metro_step (E_puso a) tab io T (ps_rng k, ps_state k) j.
Proof.
  intros Hn Hj. unfold puso_step, metro_step.
  destruct (if io then Some (ps_rng k, j) else rand_int (ps_rng k) (length (ps_state k))) as [[r1 i]|] eqn:Ei; [|reflexivity].
  assert (Hi : (i < length (ps_state k))%nat).
  { destruct io; [injection Ei as <- <-; exact Hj| eapply rand_int_lt, Ei]. }
  assert (EdE : -(2) * puso_subgraph_value a (ps_state k) i == E_puso a (upd i Z.opp (ps_state k)) - E_puso a (ps_state k)).
  { rewrite (puso_flip_energy a _ i Hn Hi). ring. }
  rewrite (accept_ext tab r1 _ _ T EdE).
  destruct (accept tab r1 _ T) as [[r2 [|]]|]; reflexivity.
Qed.

(* shape of the state *)
Lemma puso_step_shape a tab io T k j k' : puso_step a tab io T k j = Some k' ->
  length (ps_state k') = length (ps_state k) /\ (pm1 (ps_state k) -> pm1 (ps_state k')).
Proof.
  unfold puso_step. destruct (if io then _ else _) as [[r1 i]|]; [|discriminate].
  destruct (accept tab r1 _ T) as [[r2 [|]]|]; intros H; try discriminate; injection H as <-; simpl.
  - split; [apply upd_length| apply pm1_upd].
  - auto.
Qed.

(* zero temperature: the energy never goes up *)
Lemma puso_step_zero a tab io T k j k' : nodup_keys a -> T == 0 -> (j < length (ps_state k))%nat ->
  puso_step a tab io T k j = Some k' -> E_puso a (ps_state k') <= E_puso a (ps_state k).
Proof.
  intros Hn HT Hj H. pose proof (puso_step_refines a tab io T k j Hn Hj) as R. rewrite H in R. simpl in R.
  unfold metro_step in R.
  destruct (if io then Some (ps_rng k, j) else rand_int (ps_rng k) (length (ps_state k))) as [[r1 i]|]; [|discriminate].
  rewrite (accept_zero tab r1 _ T HT) in R.
  destruct (qle0 (E_puso a (upd i Z.opp (ps_state k)) - E_puso a (ps_state k))) eqn:Eq; injection R as _ ->.
  - apply qle0_spec in Eq. lra.
  - apply Qle_refl.
Qed.

Definition all_zero (Ts : list Q) : Prop := forall T, In T Ts -> T == 0.

Theorem puso_single_spec a tab io Ts r s r' s' : puso_single a tab io Ts r s = Some (r', s') ->
  length s' = length s /\ (pm1 s -> pm1 s') /\ (nodup_keys a -> all_zero Ts -> E_puso a s' <= E_puso a s).
Proof.
  unfold puso_single. set (L := length s).
  destruct (opt_fold _ Ts _) as [kf|] eqn:EF; [|discriminate]. intros H. injection H as <- <-.
  set (P := fun k : pstate => length (ps_state k) = L /\ (pm1 s -> pm1 (ps_state k))).
  assert (HP : P kf).
  { refine (opt_fold_inv P _ _ Ts _ kf EF _); [|split; [reflexivity| auto]].
    intros k T k' Hs. refine (opt_fold_inv P _ _ _ k k' Hs).
    intros k0 j k1 Hst [A B]. destruct (puso_step_shape _ _ _ _ _ _ _ Hst) as [A1 B1]. split; [congruence| auto]. }
  destruct HP as [A B]. split; [exact A|]. split; [exact B|]. intros Hn Hz.
  set (Q0 := fun k : pstate => length (ps_state k) = L /\ E_puso a (ps_state k) <= E_puso a s).
  assert (HQ : Q0 kf); [|apply HQ].
  refine (opt_fold_inv_in Q0 _ Ts _ _ kf EF _); [|split; [reflexivity| apply Qle_refl]].
  intros k T k' HT Hs. refine (opt_fold_inv_in Q0 _ (seq 0 L) _ k k' Hs).
  intros k0 j k1 Hj Hst [A0 B0]. apply in_seq in Hj.
  destruct (puso_step_shape _ _ _ _ _ _ _ Hst) as [A1 _]. split; [congruence|].
  eapply Qle_trans; [|exact B0]. eapply (puso_step_zero a tab io T); try eassumption; [apply Hz, HT| lia].
Qed.

(* ---- the loop over anneals ---- *)
Lemma anneal_loop_spec single value len init : forall n r res,
  anneal_loop single value n len init r = Some res ->
  length res = n /\
  forall s v, In (s, v) res -> v = value s /\
    exists r1 s0 r2, single r1 s0 = Some (r2, s) /\
      match init with Some si => s0 = si | None => exists r0, random_state len r0 = (r1, s0) end.
Proof.
  induction n as [|n IH]; cbn [anneal_loop]; intros r res H.
  - injection H as <-. split; [reflexivity| intros s v []].
  - destruct (match init with Some s => (r, s) | None => random_state len r end) as [r1 s0] eqn:E0.
    destruct (single r1 s0) as [[r2 s]|] eqn:E1; [|discriminate].
    destruct (anneal_loop single value n len init r2) as [l|] eqn:E2; [|discriminate]. injection H as <-.
    destruct (IH _ _ E2) as [A B]. split; [simpl; congruence|].
    intros s1 v1 [Hin|Hin]; [|apply B, Hin]. injection Hin as <- <-. split; [reflexivity|].
    exists r1, s0, r2. split; [exact E1|]. destruct init as [si|]; [injection E0 as _ <-; reflexivity| exists r; exact E0].
Qed.

Theorem c_anneal_puso_spec len a tab Ts n io init seed res :
  c_anneal_puso len a tab Ts n io init seed = Some res ->
  match init with Some si => length si = len /\ pm1 si | None => True end ->
  length res = n /\
  forall s v, In (s, v) res ->
    length s = len /\ pm1 s /\ v = puso_kernel_value a s /\
    (nodup_keys a -> all_zero Ts -> forall si, init = Some si -> v <= puso_kernel_value a si).
Proof.
  unfold c_anneal_puso. intros H Hinit. destruct (anneal_loop_spec _ _ _ _ _ _ _ H) as [A B]. split; [exact A|].
  intros s v Hin. destruct (B s v Hin) as (Hv & r1 & s0 & r2 & Hs & H0).
  destruct (puso_single_spec _ _ _ _ _ _ _ _ Hs) as (L1 & P1 & Z1).
  assert (Hs0 : length s0 = len /\ pm1 s0).
  { destruct init as [si|]; [subst s0; exact Hinit|]. destruct H0 as [r0 Hr]. apply (random_state_spec _ _ _ _ Hr). }
  destruct Hs0 as [L0 P0]. split; [congruence|]. split; [apply P1, P0|]. split; [exact Hv|].
  intros Hn Hz si Hsi. rewrite Hsi in H0. subst s0 v. apply (Z1 Hn Hz).
Qed.

(* ---- the QUSO kernel: sums over neighbour lists ---- *)
Fixpoint nsum (g : nat -> Q -> Q) (l : list (nat * Q)) : Q := match l with [] => 0 | (n, J) :: l' => g n J + nsum g l' end.
Lemma nsum_app g l l' : nsum g (l ++ l') == nsum g l + nsum g l'.
Proof. induction l as [|[n J] l IH]; simpl; [ring|]. rewrite IH. ring. Qed.
Lemma nsum_ext g g' l : (forall n J, In (n, J) l -> g n J == g' n J) -> nsum g l == nsum g' l.
Proof.
  induction l as [|[n J] l IH]; simpl; intros H; [reflexivity|].
  rewrite (H n J (or_introl eq_refl)), IH; [reflexivity| intros n' J' Hin; apply H; right; exact Hin].
Qed.

Definition sz (s : list Z) (n : nat) : Q := zq (nth n s 0%Z).
Definition ok_ge (only_ge : bool) (i n : nat) : bool := negb (only_ge && (n <? i)%nat).
Lemma sub_energy_sum a s i b :
  sub_energy a s i b == nth i (qh a) 0 + nsum (fun n J => if ok_ge b i n then J * sz s n else 0) (nth i (qnb a) []).
Proof.
  unfold sub_energy. generalize (nth i (qh a) 0) as acc. induction (nth i (qnb a) []) as [|[n J] l IH]; intros acc; simpl; [ring|].
  rewrite IH. unfold ok_ge, sz. destruct (b && (n <? i)%nat); simpl; ring.
Qed.

(* weight between i and m as the kernel sees it from i's side *)
Definition Wt (a : quso_args) (i m : nat) : Q := nsum (fun n J => if Nat.eqb n m then J else 0) (nth i (qnb a) []).
Definition cf (a : quso_args) (s : list Z) (n : nat) : Q := -(2) * sz s n * sub_energy a s n false.

Record args_ok (a : quso_args) (N : nat) : Prop := {
  ok_lenh : length (qh a) = N;
  ok_lennb : length (qnb a) = N;
  ok_bound : forall i n J, In (n, J) (nth i (qnb a) []) -> (n < N)%nat;
  ok_noself : forall i n J, In (n, J) (nth i (qnb a) []) -> n <> i;
  ok_sym : forall i m, Wt a i m == Wt a m i }.

Lemma nth_map_seq {A} (f : nat -> A) d : forall len start n, (n < len)%nat -> nth n (map f (seq start len)) d = f (start + n)%nat.
Proof.
  induction len as [|len IH]; intros start n Hn; [lia|]. simpl. destruct n as [|n]; [f_equal; lia|].
  rewrite IH by lia. f_equal. lia.
Qed.
Lemma compute_flip_nth a s n : (n < length s)%nat -> nth n (compute_flip a s) 0 = cf a s n.
Proof. intros Hn. unfold compute_flip. rewrite nth_map_seq by exact Hn. reflexivity. Qed.
Lemma compute_flip_length a s : length (compute_flip a s) = length s.
Proof. unfold compute_flip. rewrite map_length, seq_length. reflexivity. Qed.

(* the incremental update, entry by entry *)
Lemma recompute_fold c l : forall fl n, (n < length fl)%nat ->
  nth n (fold_left (fun fl '(n', J) => upd n' (fun v => v + c n' * J) fl) l fl) 0
  == nth n fl 0 + nsum (fun n' J => if Nat.eqb n' n then c n' * J else 0) l.
Proof.
  induction l as [|[n' J] l IH]; intros fl n Hn; simpl; [ring|].
  rewrite IH by (rewrite upd_length; exact Hn).
  destruct (Nat.eqb_spec n' n) as [->|Hne].
  - rewrite nth_upd_same by exact Hn. ring.
  - rewrite nth_upd_other by exact Hne. ring.
Qed.
Lemma recompute_flip_length a s fl spin : length (recompute_flip a s fl spin) = length fl.
Proof.
  assert (G : forall l f, length (fold_left (fun fl '(n, J) => upd n (fun v => v + 4 * zq (nth spin s 0%Z) * zq (nth n s 0%Z) * J) fl) l f) = length f).
  { induction l as [|[n J] l IH]; intros f; simpl; [reflexivity|]. rewrite IH, upd_length. reflexivity. }
  unfold recompute_flip. rewrite G, upd_length. reflexivity.
Qed.

Lemma nsum_factor (c : nat -> Q) n l :
  nsum (fun n' J => if Nat.eqb n' n then c n' * J else 0) l == c n * nsum (fun n' J => if Nat.eqb n' n then J else 0) l.
Proof.
  induction l as [|[n' J] l IH]; simpl; [ring|]. rewrite IH. destruct (Nat.eqb_spec n' n) as [->|Hne]; ring.
Qed.
Lemma sz_flip_same s i : (i < length s)%nat -> sz (upd i Z.opp s) i == - sz s i.
Proof. intros Hi. unfold sz, zq. rewrite nth_upd_same by exact Hi. rewrite inject_Z_opp. reflexivity. Qed.
Lemma sz_flip_other s i n : i <> n -> sz (upd i Z.opp s) n = sz s n.
Proof. intros Hne. unfold sz. rewrite nth_upd_other by exact Hne. reflexivity. Qed.
Lemma nsum_flip s spin l : (spin < length s)%nat ->
  nsum (fun m J => J * sz (upd spin Z.opp s) m) l
  == nsum (fun m J => J * sz s m) l - 2 * sz s spin * nsum (fun m J => if Nat.eqb m spin then J else 0) l.
Proof.
  intros Hs. induction l as [|[m J] l IH]; simpl; [ring|]. rewrite IH.
  destruct (Nat.eqb_spec m spin) as [->|Hne].
  - rewrite sz_flip_same by exact Hs. ring.
  - rewrite sz_flip_other by congruence. ring.
Qed.
Lemma nsum_noself_zero (l : list (nat * Q)) i : (forall n J, In (n, J) l -> n <> i) -> nsum (fun n J => if Nat.eqb n i then J else 0) l == 0.
Proof.
  induction l as [|[n J] l IH]; simpl; intros H; [reflexivity|].
  destruct (Nat.eqb_spec n i) as [->|Hne]; [exfalso; apply (H i J); [left; reflexivity| reflexivity]|].
  rewrite IH; [ring| intros n' J' Hin; apply (H n' J'); right; exact Hin].
Qed.
Lemma cf_sum a s n : cf a s n == -(2) * sz s n * (nth n (qh a) 0 + nsum (fun m J => J * sz s m) (nth n (qnb a) [])).
Proof. unfold cf. rewrite sub_energy_sum. unfold ok_ge. simpl. reflexivity. Qed.

(* the cached energy differences stay exact across an accepted flip *)
Theorem recompute_correct a N s fl spin : args_ok a N -> length s = N -> (spin < N)%nat ->
  length fl = N -> (forall n, (n < N)%nat -> nth n fl 0 == cf a s n) ->
  length (recompute_flip a s fl spin) = N /\
  forall n, (n < N)%nat -> nth n (recompute_flip a s fl spin) 0 == cf a (upd spin Z.opp s) n.
Proof.
  intros Ha Ls Hsp Lf Hfl. split; [rewrite recompute_flip_length; exact Lf|]. intros n Hn.
  unfold recompute_flip.
  rewrite (recompute_fold (fun n' => 4 * zq (nth spin s 0%Z) * zq (nth n' s 0%Z)) (nth spin (qnb a) []) _ n)
    by (rewrite upd_length; lia).
  rewrite nsum_factor. fold (Wt a spin n). fold (sz s spin) (sz s n).
  rewrite !cf_sum, nsum_flip by lia. fold (Wt a n spin).
  destruct (Nat.eq_dec n spin) as [->|Hne].
  - rewrite nth_upd_same by lia. rewrite (Hfl spin Hsp), cf_sum, sz_flip_same by lia.
    assert (W0 : Wt a spin spin == 0) by (apply nsum_noself_zero; intros n' J' Hin; apply (ok_noself a N Ha spin n' J' Hin)).
    rewrite W0. ring.
  - rewrite nth_upd_other by congruence. rewrite (Hfl n Hn), cf_sum, sz_flip_other by congruence.
    rewrite (ok_sym a N Ha n spin). ring.
Qed.

(* ---- the arrays _anneal.py builds from the enumerated model ---- *)
Definition fstep (a : quso_args) (kv : key * Q) : quso_args :=
  let '(k, v) := kv in
  match k with
  | [i] => {| qh := upd i (fun _ => v) (qh a); qnb := qnb a |}
  | [i; j] => {| qh := qh a; qnb := upd j (fun l => l ++ [(i, v)]) (upd i (fun l => l ++ [(j, v)]) (qnb a)) |}
  | _ => a
  end.
Lemma quso_flatten_fold N t : quso_flatten N t = fold_left fstep t {| qh := repeat 0 N; qnb := repeat [] N |}.
Proof. reflexivity. Qed.

Definition kvalid (N : nat) (k : key) : Prop :=
  k = [] \/ (exists i, k = [i] /\ (i < N)%nat) \/ (exists i j, k = [i; j] /\ (i < N)%nat /\ (j < N)%nat /\ i <> j).
Definition qvalid (N : nat) (t : terms) : Prop := forall k v, In (k, v) t -> kvalid N k.

Lemma nth_upd_app {A} (x : A) : forall j (L : list (list A)) i,
  nth i (upd j (fun l => l ++ [x]) L) [] = if Nat.eqb i j && (j <? length L)%nat then nth i L [] ++ [x] else nth i L [].
Proof.
  induction j as [|j IH]; intros L i; destruct L as [|l L]; simpl.
  - destruct i; simpl; rewrite ?andb_false_r; reflexivity.
  - destruct i; reflexivity.
  - destruct i; simpl; rewrite ?andb_false_r; reflexivity.
  - destruct i as [|i]; [reflexivity|]. rewrite IH. reflexivity.
Qed.

Lemma nb_step a a' i0 j0 v N i : a' = fstep a ([i0; j0], v) -> length (qnb a) = N -> (i0 < N)%nat -> (j0 < N)%nat -> i0 <> j0 ->
  nth i (qnb a') [] =
  nth i (qnb a) [] ++ (if Nat.eqb i i0 then [(j0, v)] else []) ++ (if Nat.eqb i j0 then [(i0, v)] else []).
Proof.
  intros -> L Hi Hj Hne. cbn [fstep qnb]. rewrite !nth_upd_app, upd_length, L.
  assert (E1 : (i0 <? N)%nat = true) by (apply Nat.ltb_lt; exact Hi).
  assert (E2 : (j0 <? N)%nat = true) by (apply Nat.ltb_lt; exact Hj). rewrite E1, E2, !andb_true_r.
  destruct (Nat.eqb_spec i j0) as [H1|H1]; destruct (Nat.eqb_spec i i0) as [H2|H2]; try congruence; rewrite ?app_nil_r; reflexivity.
Qed.

Lemma Wt_step a a' i0 j0 v N i m : a' = fstep a ([i0; j0], v) -> length (qnb a) = N -> (i0 < N)%nat -> (j0 < N)%nat -> i0 <> j0 ->
  Wt a' i m ==
  Wt a i m + (if Nat.eqb i i0 && Nat.eqb j0 m then v else 0) + (if Nat.eqb i j0 && Nat.eqb i0 m then v else 0).
Proof.
  intros E L Hi Hj Hne. unfold Wt. rewrite (nb_step a a' i0 j0 v N i E L Hi Hj Hne), !nsum_app.
  destruct (Nat.eqb i i0), (Nat.eqb i j0); simpl; destruct (Nat.eqb j0 m), (Nat.eqb i0 m); simpl; ring.
Qed.

Lemma fstep_ok a N k v : args_ok a N -> kvalid N k -> args_ok (fstep a (k, v)) N.
Proof.
  intros Ha [->|[(i & -> & Hi)|(i & j & -> & Hi & Hj & Hne)]]; [exact Ha| |].
  - destruct Ha as [A B C0 D E]. constructor; cbn [fstep qh qnb]; [rewrite upd_length; exact A| exact B| exact C0| exact D| exact E].
  - pose proof (ok_lennb a N Ha) as L.
    cut (forall a', a' = fstep a ([i; j], v) -> args_ok a' N); [intros G; apply G; reflexivity|]. intros a' Ea'.
    constructor.
    + rewrite Ea'. cbn [fstep qh]. apply (ok_lenh a N Ha).
    + rewrite Ea'. cbn [fstep qnb]. rewrite !upd_length. exact L.
    + intros i1 n J Hin. rewrite (nb_step a a' i j v N i1 Ea' L Hi Hj Hne) in Hin.
      apply in_app_or in Hin. destruct Hin as [Hin|Hin]; [apply (ok_bound a N Ha i1 n J Hin)|].
      apply in_app_or in Hin. destruct Hin as [Hin|Hin].
      * destruct (Nat.eqb i1 i); [|destruct Hin]. destruct Hin as [E|[]]. injection E as <- _. exact Hj.
      * destruct (Nat.eqb i1 j); [|destruct Hin]. destruct Hin as [E|[]]. injection E as <- _. exact Hi.
    + intros i1 n J Hin. rewrite (nb_step a a' i j v N i1 Ea' L Hi Hj Hne) in Hin.
      apply in_app_or in Hin. destruct Hin as [Hin|Hin]; [apply (ok_noself a N Ha i1 n J Hin)|].
      apply in_app_or in Hin. destruct Hin as [Hin|Hin].
      * destruct (Nat.eqb_spec i1 i) as [->|]; [|destruct Hin]. destruct Hin as [E|[]]. injection E as <- _. congruence.
      * destruct (Nat.eqb_spec i1 j) as [->|]; [|destruct Hin]. destruct Hin as [E|[]]. injection E as <- _. congruence.
    + intros i1 m. rewrite !(Wt_step a a' i j v N _ _ Ea' L Hi Hj Hne), (ok_sym a N Ha i1 m).
      destruct (Nat.eqb_spec i1 i), (Nat.eqb_spec j m), (Nat.eqb_spec i1 j), (Nat.eqb_spec i m),
               (Nat.eqb_spec m i), (Nat.eqb_spec j i1), (Nat.eqb_spec m j), (Nat.eqb_spec i i1); subst; simpl; try congruence; ring.
Qed.

Lemma init_ok N : args_ok {| qh := repeat 0 N; qnb := repeat [] N |} N.
Proof.
  assert (Hn : forall i, nth i (repeat (@nil (nat * Q)) N) [] = []).
  { intros i. destruct (Nat.lt_ge_cases i N); [apply nth_repeat| apply nth_overflow; rewrite repeat_length; exact H]. }
  constructor; cbn [qh qnb]; try apply repeat_length.
  - intros i n J Hin. rewrite Hn in Hin. destruct Hin.
  - intros i n J Hin. rewrite Hn in Hin. destruct Hin.
  - intros i m. unfold Wt. cbn [qnb]. rewrite !Hn. reflexivity.
Qed.

Theorem flatten_ok N t : qvalid N t -> args_ok (quso_flatten N t) N.
Proof.
  rewrite quso_flatten_fold. generalize (init_ok N). generalize ({| qh := repeat 0 N; qnb := repeat [] N |}).
  induction t as [|[k v] t IH]; intros a Ha Hv; simpl; [exact Ha|].
  apply IH; [apply fstep_ok; [exact Ha| apply (Hv k v); left; reflexivity]|].
  intros k0 v0 Hin. apply (Hv k0 v0). right. exact Hin.
Qed.

(* ---- ... and compute the model's energy ---- *)
Definition contrib (b : bool) (s : list Z) (i : nat) (k : key) (v : Q) : Q :=
  match k with
  | [a0] => if Nat.eqb i a0 then v else 0
  | [a0; b0] => (if Nat.eqb i a0 then (if ok_ge b i b0 then v * sz s b0 else 0) else 0)
              + (if Nat.eqb i b0 then (if ok_ge b i a0 then v * sz s a0 else 0) else 0)
  | _ => 0
  end.

Lemma nth_upd_const {A} (v d : A) : forall i0 l i, (i0 < length l)%nat -> nth i (upd i0 (fun _ => v) l) d = if Nat.eqb i i0 then v else nth i l d.
Proof.
  induction i0 as [|i0 IH]; intros l i Hl; destruct l as [|x l]; simpl in *; try lia.
  - destruct i; reflexivity.
  - destruct i as [|i]; [reflexivity|]. apply IH. lia.
Qed.

Lemma SE_step a a' N s k v i b : a' = fstep a (k, v) -> length (qh a) = N -> length (qnb a) = N -> kvalid N k ->
  (forall i0, k = [i0] -> nth i0 (qh a) 0 == 0) ->
  sub_energy a' s i b == sub_energy a s i b + contrib b s i k v.
Proof.
  intros Ea Lh Ln [->|[(i0 & -> & Hi)|(i0 & j0 & -> & Hi & Hj & Hne)]] H0.
  - subst a'. simpl. ring.
  - rewrite !sub_energy_sum. subst a'. cbn [fstep qh qnb contrib]. rewrite nth_upd_const by lia.
    destruct (Nat.eqb_spec i i0) as [->|Hn]; [rewrite (H0 i0 eq_refl); ring| ring].
  - rewrite !sub_energy_sum. rewrite (nb_step a a' i0 j0 v N i Ea Ln Hi Hj Hne), !nsum_app.
    assert (Eh : qh a' = qh a) by (subst a'; reflexivity). rewrite Eh. cbn [contrib].
    destruct (Nat.eqb i i0), (Nat.eqb i j0); simpl; ring.
Qed.

Lemma fstep_lengths a k v N : length (qh a) = N -> length (qnb a) = N -> length (qh (fstep a (k, v))) = N /\ length (qnb (fstep a (k, v))) = N.
Proof.
  intros Lh Ln. destruct k as [|i [|j [|? ?]]]; cbn [fstep qh qnb]; rewrite ?upd_length; auto.
Qed.

Lemma SE_fold N s i b : forall t a,
  length (qh a) = N -> length (qnb a) = N -> qvalid N t -> NoDup (map fst t) ->
  (forall i0 v, In ([i0], v) t -> nth i0 (qh a) 0 == 0) ->
  sub_energy (fold_left fstep t a) s i b == sub_energy a s i b + sum_terms t (contrib b s i).
Proof.
  induction t as [|[k v] t IH]; intros a Lh Ln Hv Hnd H0; cbn [fold_left sum_terms]; [ring|].
  destruct (fstep_lengths a k v N Lh Ln) as [Lh1 Ln1]. cbn [map fst] in Hnd. apply NoDup_cons_iff in Hnd. destruct Hnd as [Hk Hnd'].
  rewrite IH; try assumption.
  - rewrite (SE_step a _ N s k v i b eq_refl Lh Ln (Hv k v (or_introl eq_refl))); [ring|].
    intros i0 ->. apply (H0 i0 v). left. reflexivity.
  - intros k0 v0 Hin. apply (Hv k0 v0). right. exact Hin.
  - intros i0 v0 Hin. destruct k as [|i1 [|j1 [|? ?]]]; cbn [fstep qh]; try (apply (H0 i0 v0); right; exact Hin).
    destruct (Nat.eq_dec i0 i1) as [->|Hne].
    + exfalso. apply Hk. simpl. apply (in_map fst) in Hin. exact Hin.
    + destruct (Nat.lt_ge_cases i1 (length (qh a))) as [Hl|Hl].
      * rewrite nth_upd_const by exact Hl. destruct (Nat.eqb_spec i0 i1); [congruence|]. apply (H0 i0 v0). right. exact Hin.
      * assert (U : upd i1 (fun _ : Q => v) (qh a) = qh a).
        { clear -Hl. revert i1 Hl. induction (qh a) as [|x l IH]; intros i1 Hl; destruct i1; simpl in *; try reflexivity; try lia. rewrite IH by lia. reflexivity. }
        rewrite U. apply (H0 i0 v0). right. exact Hin.
Qed.

Lemma SE_init N s i b : sub_energy {| qh := repeat 0 N; qnb := repeat [] N |} s i b == 0.
Proof.
  rewrite sub_energy_sum. cbn [qh qnb].
  assert (H1 : nth i (repeat 0 N) 0 = 0) by (destruct (Nat.lt_ge_cases i N); [apply nth_repeat| apply nth_overflow; rewrite repeat_length; assumption]).
  assert (H2 : nth i (repeat (@nil (nat * Q)) N) [] = []) by (destruct (Nat.lt_ge_cases i N); [apply nth_repeat| apply nth_overflow; rewrite repeat_length; assumption]).
  rewrite H1, H2. simpl. ring.
Qed.

Theorem flatten_sub_energy N t s i b : qvalid N t -> NoDup (map fst t) ->
  sub_energy (quso_flatten N t) s i b == sum_terms t (contrib b s i).
Proof.
  intros Hv Hnd. rewrite quso_flatten_fold, (SE_fold N s i b t); try assumption; try apply repeat_length.
  - rewrite SE_init. ring.
  - intros i0 v _. cbn [qh]. destruct (Nat.lt_ge_cases i0 N); [rewrite nth_repeat; reflexivity| rewrite nth_overflow; [reflexivity| rewrite repeat_length; assumption]].
Qed.

Lemma sum_terms_ext a g g' : (forall k c, In (k, c) a -> g k c == g' k c) -> sum_terms a g == sum_terms a g'.
Proof.
  induction a as [|[k c] a IH]; simpl; intros H; [reflexivity|].
  rewrite (H k c (or_introl eq_refl)), IH; [reflexivity| intros k' c' Hin; apply H; right; exact Hin].
Qed.
Lemma sum_terms_scale a g c0 : sum_terms a (fun k c => c0 * g k c) == c0 * sum_terms a g.
Proof. induction a as [|[k c] a IH]; simpl; [ring|]. rewrite IH. ring. Qed.
Lemma sum_terms_flatten t g : (forall c, g [] c == 0) -> sum_terms (puso_flatten t) g == sum_terms t g.
Proof.
  intros H0. unfold puso_flatten. induction t as [|[k c] t IH]; simpl; [reflexivity|].
  destruct k as [|x k]; simpl; rewrite IH; [rewrite H0; ring| reflexivity].
Qed.
Lemma zq_tprod1 s a0 : zq (tprod s [a0]) == sz s a0.
Proof. unfold zq, sz, zq. simpl. rewrite Z.mul_1_r. reflexivity. Qed.
Lemma zq_tprod2 s a0 b0 : zq (tprod s [a0; b0]) == sz s a0 * sz s b0.
Proof. unfold zq, sz, zq. simpl. rewrite Z.mul_1_r, inject_Z_mult. reflexivity. Qed.

Lemma nodup_keys_flatten N t : qvalid N t -> nodup_keys (puso_flatten t).
Proof.
  intros Hv k c Hin. unfold puso_flatten in Hin. apply filter_In in Hin. destruct Hin as [Hin _].
  destruct (Hv k c Hin) as [->|[(i & -> & _)|(i & j & -> & _ & _ & Hne)]]; [constructor| |].
  - constructor; [intros []| constructor].
  - constructor; [intros [E|[]]; congruence|]. constructor; [intros []| constructor].
Qed.

(* the cached entry for spin i is the exact energy difference of flipping i in the model *)
Theorem quso_flip_energy N t s i : qvalid N t -> NoDup (map fst t) -> (i < length s)%nat ->
  cf (quso_flatten N t) s i == E_puso (puso_flatten t) (upd i Z.opp s) - E_puso (puso_flatten t) s.
Proof.
  intros Hv Hnd Hi. rewrite (puso_flip_energy _ s i (nodup_keys_flatten N t Hv) Hi).
  unfold puso_subgraph_value. rewrite subgraph_value_sum, sum_terms_flatten by (intros c; simpl; ring).
  unfold cf. rewrite (flatten_sub_energy N t s i false Hv Hnd).
  assert (E : -(2) * sz s i * sum_terms t (contrib false s i)
            == -(2) * sum_terms t (fun k c => inject_Z (Z.of_nat (count i k)) * (c * zq (tprod s k)))); [|rewrite E; ring].
  rewrite <- Qmult_assoc. apply Qmult_comp; [reflexivity|]. rewrite <- sum_terms_scale. apply sum_terms_ext.
  intros k c Hin. destruct (Hv k c Hin) as [->|[(a0 & -> & _)|(a0 & b0 & -> & _ & _ & Hne)]].
  - simpl. ring.
  - cbn [contrib count]. rewrite zq_tprod1. destruct (Nat.eqb_spec i a0) as [->|Hn].
    + rewrite Nat.eqb_refl. simpl. ring.
    + destruct (Nat.eqb_spec a0 i); [congruence|]. simpl. ring.
  - cbn [contrib count]. rewrite zq_tprod2. unfold ok_ge. cbn [andb negb].
    destruct (Nat.eqb_spec i a0) as [H1|H1]; destruct (Nat.eqb_spec i b0) as [H2|H2]; try congruence.
    + subst i. rewrite Nat.eqb_refl. destruct (Nat.eqb_spec b0 a0); [congruence|]. simpl. ring.
    + subst i. rewrite Nat.eqb_refl. destruct (Nat.eqb_spec a0 b0); [congruence|]. simpl. ring.
    + destruct (Nat.eqb_spec a0 i); [congruence|]. destruct (Nat.eqb_spec b0 i); [congruence|]. simpl. ring.
Qed.

(* ---- the value the kernel reports ---- *)
Fixpoint isum (g : nat -> Q) (l : list nat) : Q := match l with [] => 0 | i :: l' => g i + isum g l' end.
Lemma isum_fold g l : forall acc, fold_left (fun acc i => acc + g i) l acc == acc + isum g l.
Proof. induction l as [|i l IH]; intros acc; simpl; [ring|]. rewrite IH. ring. Qed.
Lemma isum_ext g g' l : (forall i, In i l -> g i == g' i) -> isum g l == isum g' l.
Proof. induction l as [|i l IH]; simpl; intros H; [reflexivity|]. rewrite (H i (or_introl eq_refl)), IH; [reflexivity| intros j Hj; apply H; right; exact Hj]. Qed.
Lemma isum_add g h l : isum (fun i => g i + h i) l == isum g l + isum h l.
Proof. induction l as [|i l IH]; simpl; [ring|]. rewrite IH. ring. Qed.
Lemma isum_zero l : isum (fun _ => 0) l == 0.
Proof. induction l as [|i l IH]; simpl; [reflexivity|]. rewrite IH. ring. Qed.
Lemma isum_delta_notin g a0 l : ~ In a0 l -> isum (fun i => if Nat.eqb i a0 then g i else 0) l == 0.
Proof.
  induction l as [|i l IH]; simpl; intros H; [reflexivity|]. destruct (Nat.eqb_spec i a0) as [->|Hne]; [exfalso; apply H; left; reflexivity|].
  rewrite IH; [ring| tauto].
Qed.
Lemma isum_delta g a0 l : NoDup l -> In a0 l -> isum (fun i => if Nat.eqb i a0 then g i else 0) l == g a0.
Proof.
  induction l as [|i l IH]; simpl; intros Hn Hin; [destruct Hin|]. inversion Hn as [|? ? Hi Hl]; subst.
  destruct (Nat.eqb_spec i a0) as [->|Hne].
  - rewrite isum_delta_notin by exact Hi. ring.
  - destruct Hin as [->|Hin]; [congruence|]. rewrite IH by assumption. ring.
Qed.
Lemma isum_sum_terms (F : nat -> key -> Q -> Q) t l :
  isum (fun i => sum_terms t (F i)) l == sum_terms t (fun k v => isum (fun i => F i k v) l).
Proof.
  induction t as [|[k v] t IH]; simpl; [apply isum_zero|]. rewrite isum_add, IH. reflexivity.
Qed.

Theorem quso_kernel_value_model N t s : qvalid N t -> NoDup (map fst t) -> length s = N ->
  quso_kernel_value (quso_flatten N t) s == E_puso (puso_flatten t) s.
Proof.
  intros Hv Hnd Ls. unfold quso_kernel_value, E_puso, puso_kernel_value.
  rewrite (isum_fold (fun i => zq (nth i s 0%Z) * sub_energy (quso_flatten N t) s i true)), kernel_value_sum. rewrite Ls.
  rewrite (isum_ext _ (fun i => sum_terms t (fun k v => sz s i * contrib true s i k v))).
  2:{ intros i _. rewrite (flatten_sub_energy N t s i true Hv Hnd), <- sum_terms_scale. reflexivity. }
  rewrite (isum_sum_terms (fun i k v => sz s i * contrib true s i k v)).
  pose proof (sum_terms_flatten t (fun (k : key) v => isum (fun i => sz s i * contrib true s i k v) (seq 0 N))) as EF.
  rewrite <- EF by (intros c; cbn [contrib]; rewrite (isum_ext _ (fun _ => 0)) by (intros; ring); apply isum_zero). clear EF.
  assert (E : sum_terms (puso_flatten t) (fun (k : key) v => isum (fun i => sz s i * contrib true s i k v) (seq 0 N))
              == sum_terms (puso_flatten t) (fun (k : key) c => c * zq (tprod s k))); [|rewrite E; ring].
  apply sum_terms_ext. intros k c Hin. unfold puso_flatten in Hin. apply filter_In in Hin. destruct Hin as [Hin Hne0].
  destruct (Hv k c Hin) as [->|[(a0 & -> & Ha)|(a0 & b0 & -> & Ha & Hb & Hne)]]; [discriminate| |].
  - cbn [contrib]. rewrite (isum_ext _ (fun i => if Nat.eqb i a0 then sz s i * c else 0)) by (intros i _; destruct (Nat.eqb i a0); ring).
    rewrite isum_delta; [|apply seq_NoDup| apply in_seq; lia]. rewrite zq_tprod1. ring.
  - cbn [contrib].
    rewrite (isum_ext _ (fun i => (if Nat.eqb i a0 then sz s i * (if ok_ge true i b0 then c * sz s b0 else 0) else 0)
                                + (if Nat.eqb i b0 then sz s i * (if ok_ge true i a0 then c * sz s a0 else 0) else 0)))
      by (intros i _; destruct (Nat.eqb i a0), (Nat.eqb i b0); ring).
    rewrite isum_add, !isum_delta; try apply seq_NoDup; try (apply in_seq; lia).
    rewrite zq_tprod2. unfold ok_ge. cbn [andb].
    destruct (Nat.ltb_spec b0 a0), (Nat.ltb_spec a0 b0); cbn [negb]; try lia; ring.
Qed.

(* ---- simulation of folds ---- *)
Lemma opt_fold_sim {A B C} (P : A -> Prop) (proj : A -> B) (f : A -> C -> option A) (g : B -> C -> option B) l :
  (forall a c, P a -> In c l -> option_map proj (f a c) = g (proj a) c /\ forall a', f a c = Some a' -> P a') ->
  forall a, P a -> option_map proj (opt_fold f l a) = opt_fold g l (proj a) /\ forall a', opt_fold f l a = Some a' -> P a'.
Proof.
  unfold opt_fold. induction l as [|c l IH]; intros Hs a Pa; simpl.
  - split; [reflexivity| intros a' [= <-]; exact Pa].
  - destruct (Hs a c Pa (or_introl eq_refl)) as [E1 E2].
    destruct (f a c) as [a1|] eqn:Ef; simpl in E1; rewrite <- E1.
    + apply IH; [intros a0 c0 P0 Hin; apply Hs; [exact P0| right; exact Hin]| apply E2; reflexivity].
    + rewrite !opt_fold_none. split; [reflexivity| discriminate].
Qed.

Definition metro_single (E : list Z -> Q) (tab : exptab) (io : bool) (Ts : list Q) (r : rng) (s : list Z) : option (rng * list Z) :=
  opt_fold (fun rs T => opt_fold (metro_step E tab io T) (seq 0 (length s)) rs) Ts (r, s).

(* ---- the QUSO kernel runs that chain ---- *)
Definition kinv (a : quso_args) (N : nat) (k : kstate) : Prop :=
  length (ks_state k) = N /\ length (ks_flip k) = N /\ forall n, (n < N)%nat -> nth n (ks_flip k) 0 == cf a (ks_state k) n.
Definition exact_dE (a : quso_args) (N : nat) (E : list Z -> Q) : Prop :=
  forall s i, length s = N -> (i < N)%nat -> cf a s i == E (upd i Z.opp s) - E s.

Theorem quso_step_refines a N E tab io T k j : args_ok a N -> exact_dE a N E -> kinv a N k -> (j < N)%nat ->
  option_map (fun k' => (ks_rng k', ks_state k')) (quso_step a tab io T k j) = metro_step E tab io T (ks_rng k, ks_state k) j
  /\ forall k', quso_step a tab io T k j = Some k' -> kinv a N k'.
Proof.
  intros Ha HE (Ls & Lf & Hf) Hj. unfold quso_step, metro_step. rewrite Ls.
  destruct (if io then Some (ks_rng k, j) else rand_int (ks_rng k) N) as [[r1 i]|] eqn:Ei; [|split; [reflexivity| discriminate]].
  assert (Hi : (i < N)%nat) by (destruct io; [injection Ei as <- <-; exact Hj| eapply rand_int_lt, Ei]).
  assert (EdE : nth i (ks_flip k) 0 == E (upd i Z.opp (ks_state k)) - E (ks_state k)) by (rewrite (Hf i Hi); apply HE; assumption).
  rewrite (accept_ext tab r1 _ _ T EdE).
  destruct (accept tab r1 _ T) as [[r2 [|]]|]; (split; [reflexivity|]); intros k' H; try discriminate; injection H as <-.
  - destruct (recompute_correct a N (ks_state k) (ks_flip k) i Ha Ls Hi Lf Hf) as [A B].
    split; [cbn [ks_state]; rewrite upd_length; exact Ls|]. split; [exact A| exact B].
  - split; [exact Ls|]. split; [exact Lf| exact Hf].
Qed.

Theorem quso_single_refines a N E tab io Ts r s : args_ok a N -> exact_dE a N E -> length s = N ->
  quso_single a tab io Ts r s = metro_single E tab io Ts r s.
Proof.
  intros Ha HE Ls. unfold quso_single, metro_single.
  set (k0 := {| ks_rng := r; ks_state := s; ks_flip := compute_flip a s |}).
  assert (K0 : kinv a N k0).
  { split; [exact Ls|]. split; [cbn [ks_flip k0]; rewrite compute_flip_length; exact Ls|].
    intros n Hn. cbn [ks_flip ks_state k0]. rewrite compute_flip_nth by lia. reflexivity. }
  set (proj := fun k' : kstate => (ks_rng k', ks_state k')).
  destruct (opt_fold_sim (kinv a N) proj
              (fun k T => opt_fold (quso_step a tab io T) (seq 0 (length s)) k)
              (fun rs T => opt_fold (metro_step E tab io T) (seq 0 (length s)) rs) Ts) with (a := k0) as [S1 _].
  - intros k T Pk _.
    apply (opt_fold_sim (kinv a N) proj (quso_step a tab io T) (metro_step E tab io T) (seq 0 (length s))); [|exact Pk].
    intros k1 j P1 Hj. apply in_seq in Hj. rewrite Ls in Hj.
    destruct (quso_step_refines a N E tab io T k1 j Ha HE P1 ltac:(lia)) as [R1 R2]. split; [exact R1| exact R2].
  - exact K0.
  - change (proj k0) with (r, s) in S1. rewrite <- S1. destruct (opt_fold _ Ts k0); reflexivity.
Qed.

Theorem puso_single_refines a tab io Ts r s : nodup_keys a ->
  puso_single a tab io Ts r s = metro_single (E_puso a) tab io Ts r s.
Proof.
  intros Hn. unfold puso_single, metro_single.
  set (k0 := {| ps_rng := r; ps_state := s |}). set (N := length s).
  set (proj := fun k' : pstate => (ps_rng k', ps_state k')).
  set (P := fun k : pstate => length (ps_state k) = N).
  destruct (opt_fold_sim P proj
              (fun k T => opt_fold (puso_step a tab io T) (seq 0 N) k)
              (fun rs T => opt_fold (metro_step (E_puso a) tab io T) (seq 0 N) rs) Ts) with (a := k0) as [S1 _].
  - intros k T Pk _.
    apply (opt_fold_sim P proj (puso_step a tab io T) (metro_step (E_puso a) tab io T) (seq 0 N)); [|exact Pk].
    intros k1 j P1 Hj. apply in_seq in Hj. unfold P in P1. split.
    + apply puso_step_refines; [exact Hn| lia].
    + intros k' Hs. destruct (puso_step_shape _ _ _ _ _ _ _ Hs) as [L _]. unfold P. congruence.
  - reflexivity.
  - change (proj k0) with (r, s) in S1. rewrite <- S1. destruct (opt_fold _ Ts k0); reflexivity.
Qed.

(* ---- properties of the chain, inherited by both kernels ---- *)
Lemma metro_step_shape E tab io T r s j r' s' : metro_step E tab io T (r, s) j = Some (r', s') ->
  length s' = length s /\ (pm1 s -> pm1 s').
Proof.
  unfold metro_step. destruct (if io then _ else _) as [[r1 i]|]; [|discriminate].
  destruct (accept tab r1 _ T) as [[r2 [|]]|]; intros H; try discriminate; injection H as <- <-.
  - split; [apply upd_length| apply pm1_upd].
  - auto.
Qed.
(* zero temperature, visiting in order: spin j is flipped exactly when that does not raise the energy; no random number is used *)
Theorem metro_step_zero_inorder E tab T r s j : T == 0 ->
  metro_step E tab true T (r, s) j = Some (r, if qle0 (E (upd j Z.opp s) - E s) then upd j Z.opp s else s).
Proof. intros HT. unfold metro_step. rewrite (accept_zero tab r _ T HT). destruct (qle0 _); reflexivity. Qed.
Lemma metro_step_zero E tab io T r s j r' s' : T == 0 -> metro_step E tab io T (r, s) j = Some (r', s') -> E s' <= E s.
Proof.
  intros HT. unfold metro_step. destruct (if io then _ else _) as [[r1 i]|]; [|discriminate].
  rewrite (accept_zero tab r1 _ T HT). destruct (qle0 (E (upd i Z.opp s) - E s)) eqn:Eq; intros H; injection H as <- <-.
  - apply qle0_spec in Eq. lra.
  - apply Qle_refl.
Qed.

Theorem metro_single_spec E tab io Ts r s r' s' : metro_single E tab io Ts r s = Some (r', s') ->
  length s' = length s /\ (pm1 s -> pm1 s') /\ (all_zero Ts -> E s' <= E s).
Proof.
  unfold metro_single. intros EF.
  set (P := fun rs : rng * list Z => length (snd rs) = length s /\ (pm1 s -> pm1 (snd rs))).
  assert (HP : P (r', s')).
  { refine (opt_fold_inv P _ _ Ts (r, s) (r', s') EF _); [|split; [reflexivity| auto]].
    intros rs T rs' Hs. refine (opt_fold_inv P _ _ _ rs rs' Hs).
    intros [r0 s0] j [r1 s1] Hst [A B]. destruct (metro_step_shape _ _ _ _ _ _ _ _ _ Hst) as [A1 B1]. split; simpl in *; [congruence| auto]. }
  destruct HP as [A B]. split; [exact A|]. split; [exact B|]. intros Hz.
  set (Q0 := fun rs : rng * list Z => E (snd rs) <= E s).
  assert (HQ : Q0 (r', s')); [|exact HQ].
  refine (opt_fold_inv_in Q0 _ Ts _ (r, s) (r', s') EF _); [|apply Qle_refl].
  intros rs T rs' HT Hs. refine (opt_fold_inv Q0 _ _ _ rs rs' Hs).
  intros [r0 s0] j [r1 s1] Hst B0. unfold Q0 in *. simpl in *. eapply Qle_trans; [|exact B0].
  eapply metro_step_zero; [apply Hz, HT| exact Hst].
Qed.

(* ---- value of a state: kernel value + offset = the model at that state ---- *)
Definition env_of (s : list Z) : env := fun i => zq (nth i s 0%Z).
Lemma mon_tprod s k : mon (env_of s) k == zq (tprod s k).
Proof. induction k as [|i k IH]; simpl; [reflexivity|]. rewrite IH. unfold env_of, zq. rewrite inject_Z_mult. reflexivity. Qed.
Lemma get_sq_notin (t : terms) k : ~ In k (map fst t) -> get_sq t k = 0.
Proof.
  unfold get_sq. induction t as [|[k' v'] t IH]; simpl; intros H; [reflexivity|].
  destruct (key_eqb k k') eqn:E; [apply key_eqb_eq in E; subst; exfalso; apply H; left; reflexivity|]. apply IH. tauto.
Qed.
Theorem value_with_offset t s : NoDup (map fst t) -> E_puso (puso_flatten t) s + get_sq t [] == eval (env_of s) t.
Proof.
  unfold E_puso, puso_kernel_value. rewrite kernel_value_sum.
  induction t as [|[k v] t IH]; intros Hnd; [unfold get_sq, puso_flatten; simpl; ring|].
  cbn [map fst] in Hnd. apply NoDup_cons_iff in Hnd. destruct Hnd as [Hk Hnd]. specialize (IH Hnd).
  destruct k as [|x k].
  - cbn [puso_flatten filter eval mon]. fold (puso_flatten t). unfold get_sq at 1. cbn [lookup key_eqb].
    rewrite (get_sq_notin t [] Hk) in IH. lra.
  - cbn [puso_flatten filter eval sum_terms]. fold (puso_flatten t).
    unfold get_sq in *. cbn [lookup key_eqb]. rewrite mon_tprod. lra.
Qed.

(* ---- a whole call of a kernel ---- *)
Theorem anneal_metro_spec single value E tab io Ts len init n r res :
  anneal_loop single value n len init r = Some res ->
  (forall r0 s0, length s0 = len -> single r0 s0 = metro_single E tab io Ts r0 s0) ->
  match init with Some si => length si = len /\ pm1 si | None => True end ->
  length res = n /\
  forall s v, In (s, v) res ->
    length s = len /\ pm1 s /\ v = value s /\ (all_zero Ts -> forall si, init = Some si -> E s <= E si).
Proof.
  intros H Hsingle Hinit. destruct (anneal_loop_spec _ _ _ _ _ _ _ H) as [A B]. split; [exact A|].
  intros s v Hin. destruct (B s v Hin) as (Hv & r1 & s0 & r2 & Hs & H0).
  assert (Hs0 : length s0 = len /\ pm1 s0).
  { destruct init as [si|]; [subst s0; exact Hinit|]. destruct H0 as [r0 Hr]. apply (random_state_spec _ _ _ _ Hr). }
  destruct Hs0 as [L0 P0]. rewrite (Hsingle r1 s0 L0) in Hs.
  destruct (metro_single_spec _ _ _ _ _ _ _ _ Hs) as (L1 & P1 & Z1).
  split; [congruence|]. split; [apply P1, P0|]. split; [exact Hv|].
  intros Hz si Hsi. rewrite Hsi in H0. subst s0. apply Z1, Hz.
Qed.

Theorem c_anneal_quso_spec N t tab Ts n io init seed res :
  qvalid N t -> NoDup (map fst t) ->
  c_anneal_quso (quso_flatten N t) tab Ts n io init seed = Some res ->
  match init with Some si => length si = N /\ pm1 si | None => True end ->
  let E := E_puso (puso_flatten t) in
  length res = n /\
  forall s v, In (s, v) res ->
    length s = N /\ pm1 s /\ v == E s /\ (all_zero Ts -> forall si, init = Some si -> E s <= E si).
Proof.
  intros Hv Hnd H Hinit E. unfold c_anneal_quso in H.
  pose proof (flatten_ok N t Hv) as Ha. pose proof (ok_lenh _ _ Ha) as Lh. rewrite Lh in H.
  assert (HE : exact_dE (quso_flatten N t) N E).
  { intros s i Ls Hi. apply quso_flip_energy; [exact Hv| exact Hnd| lia]. }
  destruct (anneal_metro_spec _ _ E tab io Ts N init n _ res H) as [A B].
  - intros r0 s0 L0. apply (quso_single_refines _ N E); assumption.
  - exact Hinit.
  - split; [exact A|]. intros s v Hin. destruct (B s v Hin) as (L & P & V & Z).
    split; [exact L|]. split; [exact P|]. split; [rewrite V; apply quso_kernel_value_model; assumption| exact Z].
Qed.

Theorem c_anneal_puso_refined len a tab Ts n io init seed res :
  nodup_keys a ->
  c_anneal_puso len a tab Ts n io init seed = Some res ->
  match init with Some si => length si = len /\ pm1 si | None => True end ->
  length res = n /\
  forall s v, In (s, v) res ->
    length s = len /\ pm1 s /\ v = E_puso a s /\ (all_zero Ts -> forall si, init = Some si -> E_puso a s <= E_puso a si).
Proof.
  intros Hn H Hinit. unfold c_anneal_puso in H.
  apply (anneal_metro_spec _ _ (E_puso a) tab io Ts len init n _ res H); [|exact Hinit].
  intros r0 s0 _. apply puso_single_refines, Hn.
Qed.

(* ---- packaging: labels and offset ---- *)
Lemma package_spec p res : length (package p res) = length res /\
  forall st v, In (st, v) (package p res) -> exists s v0, In (s, v0) res /\ v = v0 + get_sq (p_model p) [] /\
    st = map (fun k => (match assoc_get k (p_rmp p) with Some l => l | None => k end, nth k s 0%Z)) (seq 0 (p_N p)).
Proof.
  unfold package. split; [apply map_length|]. intros st v Hin. apply in_map_iff in Hin.
  destruct Hin as ([s v0] & E & Hin). injection E as <- <-. exists s, v0. auto.
Qed.

(* ---- the prepared model is valid for the kernel ---- *)
From QV.Proofs Require Import KeyProofs ArithProofs InvProofs LabelProofs.
From QV.Proofs Require ReduceProofs ConvertProofs.

(* a canonically stored quadratic spin model whose labels are below N *)
Lemma wf_qvalid N t : wf KQusoM t -> LP (fun i => (i < N)%nat) t -> qvalid N t /\ NoDup (map fst t).
Proof.
  intros [Hnd Hk] Hl. split; [|exact Hnd]. intros k v Hin. destruct (Hk k v Hin) as [Hs _].
  pose proof (squash_kd_ssorted KQusoM k k ltac:(discriminate) Hs) as Hss.
  pose proof (squash_quadratic KQusoM k k eq_refl Hs) as Hlen.
  destruct k as [|i [|j [|? ?]]]; simpl in Hlen; try lia.
  - left. reflexivity.
  - right. left. exists i. split; [reflexivity|]. apply (Hl [i] v i Hin). left. reflexivity.
  - right. right. exists i, j. split; [reflexivity|]. simpl in Hss. destruct Hss as [Hij _].
    split; [apply (Hl [i; j] v i Hin); left; reflexivity|]. split; [apply (Hl [i; j] v j Hin); right; left; reflexivity| lia].
Qed.
Lemma wf_nodup_keys kd0 t : kd0 <> KDict -> wf kd0 t -> nodup_keys (puso_flatten t).
Proof.
  intros Hk [_ Hw] k c Hin. unfold puso_flatten in Hin. apply filter_In in Hin. destruct Hin as [Hin _].
  destruct (Hw k c Hin) as [Hs _]. pose proof (squash_kd_ssorted kd0 k k Hk Hs) as Hss.
  clear -Hss. induction k as [|x k IH]; [constructor|]. destruct Hss as [Hlb Hss]. constructor; [|apply IH, Hss].
  clear IH. revert x Hlb. induction k as [|y k IH]; intros x Hlb; [intros []|]. simpl in Hlb. destruct Hss as [Hlb' Hss'].
  intros [->|Hin]; [lia|]. apply (IH Hss' x); [|exact Hin]. destruct k as [|z k]; simpl in *; [exact I| lia].
Qed.

(* Matrix input: labels are the spin indices themselves, N = max label + 1 *)
Lemma list_max_ge l : forall i, In i l -> (i <= list_max l)%nat.
Proof.
  unfold list_max. assert (G : forall l a i, (In i l \/ (i <= a)%nat) -> (i <= fold_left Nat.max l a)%nat).
  { induction l0 as [|x l0 IH]; simpl; intros a i H; [destruct H as [[]|H]; exact H|].
    apply IH. destruct H as [[<-|H]|H]; [right; lia| left; exact H| right; lia]. }
  intros i Hi. apply G. left. exact Hi.
Qed.
Theorem prep_matrix_valid m : Inv m -> wf (kd m) (tm m) -> kd m = KQusoM ->
  qvalid (matrix_N m) (tm m) /\ NoDup (map fst (tm m)).
Proof.
  intros [B _] Hw Hk. rewrite Hk in Hw. apply wf_qvalid; [exact Hw|].
  destruct (B ltac:(rewrite Hk; discriminate)) as (_ & LI & _).
  intros k v i Hin Hi. specialize (LI k v i Hin Hi). unfold matrix_N.
  destruct (vars_c m) as [|x l] eqn:Ev; [destruct LI|]. pose proof (list_max_ge (x :: l) i LI). lia.
Qed.

(* labelled input: the enumerated form has labels below the number of variables *)
Theorem prep_labelled_valid m e : Inv m -> is_labelled (kd m) = true -> quso_to_quso m = Ok e ->
  qvalid (num_vars m) (tm e) /\ NoDup (map fst (tm e)).
Proof.
  intros HI Hl H. unfold quso_to_quso, to_matrix in H. inv_bind H.
  pose proof (m_create_wf _ _ _ H) as Hw. destruct (m_create_eval (fun _ => 1) _ _ _ H) as [_ K]; [intros i; left; reflexivity|].
  rewrite K in Hw. apply wf_qvalid; [exact Hw|].
  eapply m_create_LP; [|exact H]. intros k v i Hin Hi.
  apply (Inv_range m HI Hl). eapply ReduceProofs.relabel_terms_range; eassumption.
Qed.

Lemma assoc_get_identity l k : In k l -> assoc_get k (map (fun i : nat => (i, i)) l) = Some k.
Proof.
  induction l as [|x l IH]; simpl; intros H; [destruct H|]. destruct (Nat.eqb_spec k x) as [->|Hne]; [reflexivity|].
  destruct H as [->|H]; [congruence| apply IH, H].
Qed.

(* ---- a whole call of anneal_quso on a QUSOMatrix, front end included ---- *)
Theorem run_spin_quso_matrix m tab Ts num io initial seed l :
  kd m = KQusoM -> Inv m -> wf (kd m) (tm m) ->
  run_spin true (SrcModel m) tab Ts num io initial seed = AResults l ->
  (0 < num)%Z -> matrix_N m <> 0%nat ->
  (forall d, initial = Some d -> forall k, (k < matrix_N m)%nat ->
     match assoc_get k d with Some v => v = 1%Z \/ v = (-1)%Z | None => True end) ->
  let N := matrix_N m in
  length l = Z.to_nat num /\
  forall st v, In (st, v) l -> exists s, length s = N /\ pm1 s /\
    st = map (fun k => (match assoc_get k (identity_rmp N) with Some lb => lb | None => k end, nth k s 0%Z)) (seq 0 N) /\
    v == eval (env_of s) (tm m).
Proof.
  intros Hk HI Hw H Hnum HN Hinit N. unfold run_spin in H.
  destruct (num <=? 0)%Z eqn:En; [apply Z.leb_le in En; lia|].
  cbn [prepare_quso] in H. rewrite Hk in H. cbn [prep_matrix] in H.
  set (p := {| p_model := tm m; p_N := matrix_N m; p_rmp := identity_rmp (matrix_N m) |}) in *.
  cbn [p_N p p_model] in H. destruct (Nat.eqb_spec (matrix_N m) 0) as [E0|_]; [contradiction|].
  destruct (c_anneal_quso _ tab Ts (Z.to_nat num) io (init_of p initial) seed) as [res|] eqn:EC; [|discriminate].
  injection H as <-.
  destruct (prep_matrix_valid m HI Hw Hk) as [Hv Hnd].
  destruct (c_anneal_quso_spec (matrix_N m) (tm m) tab Ts (Z.to_nat num) io (init_of p initial) seed res Hv Hnd EC) as [A B].
  { unfold init_of. destruct initial as [d|]; [|exact I]. split; [rewrite map_length, seq_length; reflexivity|].
    unfold pm1. apply Forall_forall. intros z Hz. apply in_map_iff in Hz. destruct Hz as (k & <- & Hks). apply in_seq in Hks.
    cbn [p_rmp p].
    assert (E : assoc_get k (identity_rmp (matrix_N m)) = Some k) by (apply assoc_get_identity; apply in_seq; exact Hks). rewrite E.
    pose proof (Hinit d eq_refl k (proj2 Hks)) as Hd. destruct (assoc_get k d) as [v0|]; [exact Hd| left; reflexivity]. }
  destruct (package_spec p res) as [PL PI]. split; [rewrite PL; exact A|].
  intros st v Hin. destruct (PI st v Hin) as (s & v0 & Hres & Ev & Est). destruct (B s v0 Hres) as (Ls & Ps & Vs & _).
  exists s. split; [exact Ls|]. split; [exact Ps|]. split; [exact Est|].
  rewrite Ev, Vs. cbn [p_model p]. apply value_with_offset, Hnd.
Qed.
