(* C11 / C12: the annealing kernels.  Shapes and values of the results, exact energy differences,
   zero-temperature descent. *)
From QV.Model Require Import Base Matrix Convert Reduce Anneal.
From QV.Proofs Require Import BaseProofs.
From Coq Require Import NArith Lia Lqa.
Open Scope Q_scope.
Arguments pcg_next : simpl never.
Arguments rand_double : simpl never.
Arguments rand_int : simpl never.
Arguments rand_init : simpl never.

(* ---- lists ---- *)
Lemma upd_length {A} (f : A -> A) : forall n l, length (upd n f l) = length l.
Proof. induction n as [|n IH]; destruct l as [|x l]; simpl; auto. Qed.
Lemma nth_upd_same {A} (f : A -> A) d : forall n l, (n < length l)%nat -> nth n (upd n f l) d = f (nth n l d).
Proof. induction n as [|n IH]; destruct l as [|x l]; simpl; intros H; try lia; auto. apply IH. lia. Qed.
Lemma nth_upd_other {A} (f : A -> A) d : forall n m l, n <> m -> nth m (upd n f l) d = nth m l d.
Proof.
  induction n as [|n IH]; intros m l H; destruct l as [|x l]; simpl; auto.
  - destruct m as [|m]; [congruence| reflexivity].
  - destruct m as [|m]; [reflexivity|]. apply IH. congruence.
Qed.

Definition pm1 (s : list Z) : Prop := Forall (fun v => v = 1%Z \/ v = (-1)%Z) s.
Lemma pm1_upd s : forall i, pm1 s -> pm1 (upd i Z.opp s).
Proof.
  induction s as [|x s IH]; intros i H; destruct i as [|i]; simpl; try exact H.
  - inversion H as [|? ? Hx Hs]; subst. constructor; [|exact Hs]. destruct Hx as [Hx|Hx]; rewrite Hx; simpl; auto.
  - inversion H as [|? ? Hx Hs]; subst. constructor; [exact Hx| apply IH, Hs].
Qed.
Lemma pm1_nth s i : pm1 s -> (i < length s)%nat -> nth i s 0%Z = 1%Z \/ nth i s 0%Z = (-1)%Z.
Proof. intros H Hi. unfold pm1 in H. rewrite Forall_forall in H. apply H, nth_In, Hi. Qed.

Lemma random_state_spec : forall n r r' l, random_state n r = (r', l) -> length l = n /\ pm1 l.
Proof.
  induction n as [|n IH]; cbn [random_state]; intros r r' l H.
  - injection H as <- <-. split; [reflexivity| constructor].
  - destruct (rand_double r) as [r1 u]. destruct (random_state n r1) as [r2 l0] eqn:E. injection H as <- <-.
    destruct (IH _ _ _ E) as [A B]. split; [simpl; congruence|]. constructor; [|exact B].
    destruct (qltq u (1 # 2)); auto.
Qed.

(* ---- folds over option ---- *)
Lemma opt_fold_none {A B} (f : A -> B -> option A) l :
  fold_left (fun acc b => match acc with Some x => f x b | None => None end) l None = None.
Proof. induction l as [|b l IH]; simpl; auto. Qed.
Lemma opt_fold_inv {A B} (P : A -> Prop) (f : A -> B -> option A) :
  (forall a b a', f a b = Some a' -> P a -> P a') ->
  forall l a a', opt_fold f l a = Some a' -> P a -> P a'.
Proof.
  intros Hf. unfold opt_fold. induction l as [|b l IH]; simpl; intros a a' H Ha.
  - injection H as <-. exact Ha.
  - destruct (f a b) as [a1|] eqn:E; [|rewrite opt_fold_none in H; discriminate].
    apply (IH a1 a' H). eapply Hf; eassumption.
Qed.
(* the same with the list element known to come from the list *)
Lemma opt_fold_inv_in {A B} (P : A -> Prop) (f : A -> B -> option A) l :
  (forall a b a', In b l -> f a b = Some a' -> P a -> P a') ->
  forall a a', opt_fold f l a = Some a' -> P a -> P a'.
Proof.
  unfold opt_fold. induction l as [|b l IH]; simpl; intros Hf a a' H Ha.
  - injection H as <-. exact Ha.
  - destruct (f a b) as [a1|] eqn:E; [|rewrite opt_fold_none in H; discriminate].
    apply (IH (fun a0 b0 a0' Hin => Hf a0 b0 a0' (or_intror Hin)) a1 a' H). eapply Hf; [left; reflexivity| eassumption| exact Ha].
Qed.

(* ---- acceptance ---- *)
Lemma qle0_spec v : qle0 v = true <-> v <= 0.
Proof.
  unfold qle0. destruct (v ?= 0) eqn:E; split; intros H; try reflexivity; try discriminate.
  - apply Qeq_alt in E. lra.
  - apply Qlt_alt in E. lra.
  - apply Qgt_alt in E. lra.
Qed.
(* at temperature zero a move is accepted exactly when it does not raise the energy, and no random number is drawn *)
Lemma accept_zero tab r dE T : T == 0 -> accept tab r dE T = Some (r, qle0 dE).
Proof.
  intros HT. unfold accept. destruct (qle0 dE); [reflexivity|].
  assert (E : qpos T = false) by (unfold qpos; rewrite HT; reflexivity). rewrite E. reflexivity.
Qed.
(* at any temperature a move that does not raise the energy is accepted *)
Lemma accept_downhill tab r dE T : dE <= 0 -> accept tab r dE T = Some (r, true).
Proof. intros H. unfold accept. apply qle0_spec in H. rewrite H. reflexivity. Qed.
(* an uphill move at T > 0 is accepted only if the uniform number is below the lower end of the enclosure of exp(-dE/T),
   rejected only if above the upper end *)
Lemma accept_uphill tab r dE T r' b : accept tab r dE T = Some (r', b) -> 0 < dE -> 0 < T ->
  exists lo hi, tab_get (dE / T) tab = Some (lo, hi) /\ r' = fst (rand_double r) /\
                (if b then snd (rand_double r) < lo else hi < snd (rand_double r)).
Proof.
  unfold accept. intros H HdE HT.
  assert (E1 : qle0 dE = false) by (destruct (qle0 dE) eqn:E; [apply qle0_spec in E; lra| reflexivity]).
  assert (E2 : qpos T = true) by (unfold qpos; destruct (T ?= 0) eqn:E; [apply Qeq_alt in E; lra| apply Qlt_alt in E; lra| reflexivity]).
  rewrite E1, E2 in H. destruct (rand_double r) as [r1 u]. destruct (tab_get (dE / T) tab) as [[lo hi]|]; [|discriminate].
  exists lo, hi. split; [reflexivity|]. cbn [fst snd]. unfold qltq in H.
  destruct (u ?= lo) eqn:C1.
  - destruct (hi ?= u) eqn:C2; try discriminate. injection H as <- <-. split; [reflexivity|]. apply Qlt_alt, C2.
  - injection H as <- <-. split; [reflexivity|]. apply Qlt_alt, C1.
  - destruct (hi ?= u) eqn:C2; try discriminate. injection H as <- <-. split; [reflexivity|]. apply Qlt_alt, C2.
Qed.

(* ---- the PUSO kernel ---- *)
Fixpoint tprod (s : list Z) (k : key) : Z := match k with [] => 1%Z | i :: k' => (nth i s 0 * tprod s k')%Z end.
Lemma term_prod_acc s k : forall p, fold_left (fun p i => (p * nth i s 0%Z)%Z) k p = (p * tprod s k)%Z.
Proof. induction k as [|i k IH]; simpl; intros p; [lia|]. rewrite IH. lia. Qed.
Lemma term_prod_tprod s k : term_prod s k = tprod s k.
Proof. unfold term_prod. rewrite term_prod_acc. lia. Qed.

Definition E_puso (a : puso_args) (s : list Z) : Q := puso_kernel_value a s.
Fixpoint sum_terms (a : puso_args) (g : key -> Q -> Q) : Q := match a with [] => 0 | (k, c) :: a' => g k c + sum_terms a' g end.
Lemma kernel_value_sum a s : forall acc,
  fold_left (fun acc '(k, c) => acc + c * zq (term_prod s k)) a acc == acc + sum_terms a (fun k c => c * zq (tprod s k)).
Proof.
  induction a as [|[k c] a IH]; intros acc; simpl; [ring|]. rewrite IH, term_prod_tprod. ring.
Qed.
Fixpoint count (i : nat) (k : key) : nat := match k with [] => O | j :: k' => (if Nat.eqb j i then 1 else 0) + count i k' end.
Lemma inner_sub_sum spin v k : forall acc,
  fold_left (fun acc' i => if Nat.eqb i spin then acc' + v else acc') k acc == acc + inject_Z (Z.of_nat (count spin k)) * v.
Proof.
  induction k as [|j k IH]; intros acc; cbn [fold_left count]; [simpl; ring|].
  rewrite IH. destruct (Nat.eqb j spin); [|simpl; ring].
  rewrite Nat2Z.inj_add, inject_Z_plus. simpl (inject_Z (Z.of_nat 1)). ring.
Qed.
Lemma subgraph_value_sum a s spin : forall acc,
  fold_left (fun acc '(k, c) => fold_left (fun acc' i => if Nat.eqb i spin then acc' + c * zq (term_prod s k) else acc') k acc) a acc
  == acc + sum_terms a (fun k c => inject_Z (Z.of_nat (count spin k)) * (c * zq (tprod s k))).
Proof.
  induction a as [|[k c] a IH]; intros acc; simpl; [ring|]. rewrite IH, inner_sub_sum, term_prod_tprod. ring.
Qed.

Lemma count_notin i k : ~ In i k -> count i k = 0%nat.
Proof. induction k as [|j k IH]; simpl; intros H; [reflexivity|]. destruct (Nat.eqb_spec j i) as [->|Hne]; [exfalso; apply H; left; reflexivity|]. apply IH. tauto. Qed.
Lemma count_nodup i k : NoDup k -> In i k -> count i k = 1%nat.
Proof.
  induction k as [|j k IH]; simpl; intros Hn Hin; [destruct Hin|]. inversion Hn as [|? ? Hj Hk]; subst.
  destruct (Nat.eqb_spec j i) as [->|Hne]; [rewrite count_notin; auto|]. destruct Hin as [->|Hin]; [congruence|]. apply IH; assumption.
Qed.
Lemma tprod_flip_notin s i k : ~ In i k -> tprod (upd i Z.opp s) k = tprod s k.
Proof.
  induction k as [|j k IH]; simpl; intros H; [reflexivity|]. rewrite IH by tauto.
  rewrite nth_upd_other; [reflexivity| intros ->; apply H; left; reflexivity].
Qed.
Lemma tprod_flip_in s i k : NoDup k -> In i k -> (i < length s)%nat -> tprod (upd i Z.opp s) k = (- tprod s k)%Z.
Proof.
  induction k as [|j k IH]; simpl; intros Hn Hin Hi; [destruct Hin|]. inversion Hn as [|? ? Hj Hk]; subst.
  destruct (Nat.eq_dec j i) as [->|Hne].
  - rewrite nth_upd_same by exact Hi. rewrite tprod_flip_notin by exact Hj. lia.
  - destruct Hin as [->|Hin]; [congruence|]. rewrite IH by assumption. rewrite nth_upd_other by congruence. lia.
Qed.

Definition nodup_keys (a : puso_args) : Prop := forall k c, In (k, c) a -> NoDup k.

(* -2 * subgraph_value is the exact energy difference of the flip *)
Theorem puso_flip_energy a s i : nodup_keys a -> (i < length s)%nat ->
  E_puso a (upd i Z.opp s) == E_puso a s + -(2) * puso_subgraph_value a s i.
Proof.
  intros Hn Hi. unfold E_puso, puso_kernel_value, puso_subgraph_value.
  rewrite !kernel_value_sum, subgraph_value_sum.
  induction a as [|[k c] a IH]; simpl; [ring|].
  assert (Hn' : nodup_keys a) by (intros k0 c0 Hin; apply (Hn k0 c0); right; exact Hin).
  specialize (IH Hn').
  match type of IH with 0 + ?A == 0 + ?B + -(2) * (0 + ?C0) => assert (IH' : A == B + -(2) * C0) by lra; clear IH end.
  destruct (in_dec Nat.eq_dec i k) as [Hin|Hnin].
  - rewrite (tprod_flip_in s i k (Hn k c (or_introl eq_refl)) Hin Hi), (count_nodup i k (Hn k c (or_introl eq_refl)) Hin).
    unfold zq in *. rewrite inject_Z_opp, IH'. simpl (inject_Z (Z.of_nat 1)). ring.
  - rewrite (tprod_flip_notin s i k Hnin), (count_notin i k Hnin), IH'. simpl (inject_Z (Z.of_nat 0)). ring.
Qed.

(* ---- random index ---- *)
Lemma bounded_loop_lt : forall fuel r bound thr r' x, bounded_loop fuel r bound thr = Some (r', x) -> (bound <> 0)%N -> (x < bound)%N.
Proof.
  induction fuel as [|f IH]; cbn [bounded_loop]; intros r bound thr r' x H Hb; [discriminate|].
  destruct (pcg_next r) as [r1 y]. destruct (thr <=? y)%N.
  - injection H as <- <-. apply N.mod_lt, Hb.
  - eapply IH; eassumption.
Qed.
Lemma rand_int_lt r stop r' i : rand_int r stop = Some (r', i) -> (i < stop)%nat.
Proof.
  unfold rand_int. destruct (N.of_nat stop =? 0)%N eqn:E0; [discriminate|]. apply N.eqb_neq in E0.
  destruct (bounded_loop 64 r (N.of_nat stop) _) as [[r1 x]|] eqn:EB; [|discriminate]. intros H. injection H as <- <-.
  pose proof (bounded_loop_lt _ _ _ _ _ _ EB E0). lia.
Qed.

(* acceptance only looks at the value of dE *)
Lemma Qeq_bool_ext x x' y : x == x' -> Qeq_bool x y = Qeq_bool x' y.
Proof.
  intros H. destruct (Qeq_bool x y) eqn:E1, (Qeq_bool x' y) eqn:E2; try reflexivity.
  - apply Qeq_bool_iff in E1. rewrite H in E1. apply Qeq_bool_iff in E1. congruence.
  - apply Qeq_bool_iff in E2. rewrite <- H in E2. apply Qeq_bool_iff in E2. congruence.
Qed.
Lemma tab_get_ext x x' tab : x == x' -> tab_get x tab = tab_get x' tab.
Proof. intros H. induction tab as [|[y e] t IH]; simpl; [reflexivity|]. rewrite (Qeq_bool_ext x x' y H), IH. reflexivity. Qed.
Lemma qle0_ext v v' : v == v' -> qle0 v = qle0 v'.
Proof. intros H. unfold qle0. rewrite H. reflexivity. Qed.
Lemma accept_ext tab r dE dE' T : dE == dE' -> accept tab r dE T = accept tab r dE' T.
Proof.
  intros H. unfold accept. rewrite (qle0_ext _ _ H).
  assert (E : dE / T == dE' / T) by (rewrite H; reflexivity). rewrite (tab_get_ext _ _ tab E). reflexivity.
Qed.

(* ---- the chain the kernels are meant to run: single-spin Metropolis with the exact energy difference of E ---- *)
Definition metro_step (E : list Z -> Q) (tab : exptab) (in_order : bool) (T : Q) (rs : rng * list Z) (j : nat)
  : option (rng * list Z) :=
  let (r, s) := rs in
  match (if in_order then Some (r, j) else rand_int r (length s)) with
  | None => None
  | Some (r1, i) =>
      match accept tab r1 (E (upd i Z.opp s) - E s) T with
      | None => None
      | Some (r2, true) => Some (r2, upd i Z.opp s)
      | Some (r2, false) => Some (r2, s)
      end
  end.

Theorem puso_step_refines a tab io T k j : nodup_keys a -> (j < length (ps_state k))%nat ->
  option_map (fun k' => (ps_rng k', ps_state k')) (puso_step a tab io T k j)
  = metro_step (E_puso a) tab io T (ps_rng k, ps_state k) j.
Proof.
  intros Hn Hj. unfold puso_step, metro_step.
  destruct (if io then Some (ps_rng k, j) else rand_int (ps_rng k) (length (ps_state k))) as [[r1 i]|] eqn:Ei; [|reflexivity].
  assert (Hi : (i < length (ps_state k))%nat).
  { destruct io; [injection Ei as <- <-; exact Hj| eapply rand_int_lt, Ei]. }
  assert (EdE : -(2) * puso_subgraph_value a (ps_state k) i == E_puso a (upd i Z.opp (ps_state k)) - E_puso a (ps_state k)).
  { rewrite (puso_flip_energy a _ i Hn Hi). ring. }
  rewrite (accept_ext tab r1 _ _ T EdE).
  destruct (accept tab r1 _ T) as [[r2 [|]]|]; reflexivity.
Qed.

(* shape of the state *)
Lemma puso_step_shape a tab io T k j k' : puso_step a tab io T k j = Some k' ->
  length (ps_state k') = length (ps_state k) /\ (pm1 (ps_state k) -> pm1 (ps_state k')).
Proof.
  unfold puso_step. destruct (if io then _ else _) as [[r1 i]|]; [|discriminate].
  destruct (accept tab r1 _ T) as [[r2 [|]]|]; intros H; try discriminate; injection H as <-; simpl.
  - split; [apply upd_length| apply pm1_upd].
  - auto.
Qed.

(* zero temperature: the energy never goes up *)
Lemma puso_step_zero a tab io T k j k' : nodup_keys a -> T == 0 -> (j < length (ps_state k))%nat ->
  puso_step a tab io T k j = Some k' -> E_puso a (ps_state k') <= E_puso a (ps_state k).
Proof.
  intros Hn HT Hj H. pose proof (puso_step_refines a tab io T k j Hn Hj) as R. rewrite H in R. simpl in R.
  unfold metro_step in R.
  destruct (if io then Some (ps_rng k, j) else rand_int (ps_rng k) (length (ps_state k))) as [[r1 i]|]; [|discriminate].
  rewrite (accept_zero tab r1 _ T HT) in R.
  destruct (qle0 (E_puso a (upd i Z.opp (ps_state k)) - E_puso a (ps_state k))) eqn:Eq; injection R as _ ->.
  - apply qle0_spec in Eq. lra.
  - apply Qle_refl.
Qed.

Definition all_zero (Ts : list Q) : Prop := forall T, In T Ts -> T == 0.

Theorem puso_single_spec a tab io Ts r s r' s' : puso_single a tab io Ts r s = Some (r', s') ->
  length s' = length s /\ (pm1 s -> pm1 s') /\ (nodup_keys a -> all_zero Ts -> E_puso a s' <= E_puso a s).
Proof.
  unfold puso_single. set (L := length s).
  destruct (opt_fold _ Ts _) as [kf|] eqn:EF; [|discriminate]. intros H. injection H as <- <-.
  set (P := fun k : pstate => length (ps_state k) = L /\ (pm1 s -> pm1 (ps_state k))).
  assert (HP : P kf).
  { refine (opt_fold_inv P _ _ Ts _ kf EF _); [|split; [reflexivity| auto]].
    intros k T k' Hs. refine (opt_fold_inv P _ _ _ k k' Hs).
    intros k0 j k1 Hst [A B]. destruct (puso_step_shape _ _ _ _ _ _ _ Hst) as [A1 B1]. split; [congruence| auto]. }
  destruct HP as [A B]. split; [exact A|]. split; [exact B|]. intros Hn Hz.
  set (Q0 := fun k : pstate => length (ps_state k) = L /\ E_puso a (ps_state k) <= E_puso a s).
  assert (HQ : Q0 kf); [|apply HQ].
  refine (opt_fold_inv_in Q0 _ Ts _ _ kf EF _); [|split; [reflexivity| apply Qle_refl]].
  intros k T k' HT Hs. refine (opt_fold_inv_in Q0 _ (seq 0 L) _ k k' Hs).
  intros k0 j k1 Hj Hst [A0 B0]. apply in_seq in Hj.
  destruct (puso_step_shape _ _ _ _ _ _ _ Hst) as [A1 _]. split; [congruence|].
  eapply Qle_trans; [|exact B0]. eapply (puso_step_zero a tab io T); try eassumption; [apply Hz, HT| lia].
Qed.

(* ---- the loop over anneals ---- *)
Lemma anneal_loop_spec single value len init : forall n r res,
  anneal_loop single value n len init r = Some res ->
  length res = n /\
  forall s v, In (s, v) res -> v = value s /\
    exists r1 s0 r2, single r1 s0 = Some (r2, s) /\
      match init with Some si => s0 = si | None => exists r0, random_state len r0 = (r1, s0) end.
Proof.
  induction n as [|n IH]; cbn [anneal_loop]; intros r res H.
  - injection H as <-. split; [reflexivity| intros s v []].
  - destruct (match init with Some s => (r, s) | None => random_state len r end) as [r1 s0] eqn:E0.
    destruct (single r1 s0) as [[r2 s]|] eqn:E1; [|discriminate].
    destruct (anneal_loop single value n len init r2) as [l|] eqn:E2; [|discriminate]. injection H as <-.
    destruct (IH _ _ E2) as [A B]. split; [simpl; congruence|].
    intros s1 v1 [Hin|Hin]; [|apply B, Hin]. injection Hin as <- <-. split; [reflexivity|].
    exists r1, s0, r2. split; [exact E1|]. destruct init as [si|]; [injection E0 as _ <-; reflexivity| exists r; exact E0].
Qed.

Theorem c_anneal_puso_spec len a tab Ts n io init seed res :
  c_anneal_puso len a tab Ts n io init seed = Some res ->
  match init with Some si => length si = len /\ pm1 si | None => True end ->
  length res = n /\
  forall s v, In (s, v) res ->
    length s = len /\ pm1 s /\ v = puso_kernel_value a s /\
    (nodup_keys a -> all_zero Ts -> forall si, init = Some si -> v <= puso_kernel_value a si).
Proof.
  unfold c_anneal_puso. intros H Hinit. destruct (anneal_loop_spec _ _ _ _ _ _ _ H) as [A B]. split; [exact A|].
  intros s v Hin. destruct (B s v Hin) as (Hv & r1 & s0 & r2 & Hs & H0).
  destruct (puso_single_spec _ _ _ _ _ _ _ _ Hs) as (L1 & P1 & Z1).
  assert (Hs0 : length s0 = len /\ pm1 s0).
  { destruct init as [si|]; [subst s0; exact Hinit|]. destruct H0 as [r0 Hr]. apply (random_state_spec _ _ _ _ Hr). }
  destruct Hs0 as [L0 P0]. split; [congruence|]. split; [apply P1, P0|]. split; [exact Hv|].
  intros Hn Hz si Hsi. rewrite Hsi in H0. subst s0 v. apply (Z1 Hn Hz).
Qed.
