From QV.Model Require Import Base Values.
From QV.Proofs Require Import BaseProofs.
From Coq Require Import Lia Lqa Qfield.
Open Scope Q_scope.

Lemma truthy_bool e i : boolean_env e -> (truthy (e i) = true /\ e i == 1) \/ (truthy (e i) = false /\ e i == 0).
Proof.
  intros He. unfold truthy. destruct (He i) as [H|H].
  - right. split; [|exact H]. apply negb_false_iff, qzero_spec, H.
  - left. split; [|exact H]. apply negb_true_iff. destruct (qzero (e i)) eqn:E; [|reflexivity].
    apply qzero_spec in E. rewrite H in E. discriminate.
Qed.

Lemma mon_forallb e k : boolean_env e ->
  mon e k == if forallb (fun i => truthy (e i)) k then 1 else 0.
Proof.
  intros He. induction k as [|i k IH]; simpl; [reflexivity|].
  destruct (truthy_bool e i He) as [[-> Hv]|[-> Hv]]; rewrite Hv; simpl.
  - rewrite IH. ring.
  - ring.
Qed.

Lemma pubo_value_eval e P : boolean_env e -> pubo_value e P == eval e P.
Proof.
  intros He. induction P as [|[k v] P IH]; simpl; [reflexivity|].
  rewrite IH, (mon_forallb e k He). destruct (forallb _ k); ring.
Qed.

(* qubo_value is documented for keys of at most two labels *)
Definition keys_le2 (P : terms) : Prop := forall k v, In (k, v) P -> (length k <= 2)%nat.

Lemma qubo_value_eval e P : boolean_env e -> keys_le2 P -> qubo_value e P == eval e P.
Proof.
  intros He. induction P as [|[k v] P IH]; simpl; intros Hk; [reflexivity|].
  rewrite IH by (intros k' v' Hin; apply (Hk k' v'); right; exact Hin).
  assert (Hl : (length k <= 2)%nat) by (apply (Hk k v); left; reflexivity).
  destruct k as [|i [|j [|l k]]]; simpl in *; try lia.
  - ring.
  - destruct (truthy_bool e i He) as [[-> Hv]|[-> Hv]]; rewrite Hv; ring.
  - destruct (truthy_bool e i He) as [[-> Hv]|[-> Hv]], (truthy_bool e j He) as [[-> Hw]|[-> Hw]];
      rewrite Hv, Hw; simpl; ring.
Qed.

Lemma spin_m1 e i : spin_env e ->
  (Qeq_bool (e i) (-(1)) = true /\ e i == -(1)) \/ (Qeq_bool (e i) (-(1)) = false /\ e i == 1).
Proof.
  intros He. destruct (He i) as [H|H].
  - right. split; [|exact H]. destruct (Qeq_bool (e i) (-(1))) eqn:E; [|reflexivity].
    apply Qeq_bool_iff in E. rewrite H in E. discriminate.
  - left. split; [|exact H]. apply Qeq_bool_iff, H.
Qed.

Lemma mon_count e k : spin_env e -> mon e k == if Nat.even (count_m1 e k) then 1 else -(1).
Proof.
  intros He. unfold count_m1. induction k as [|i k IH]; simpl; [reflexivity|].
  destruct (spin_m1 e i He) as [[-> Hv]|[-> Hv]]; rewrite Hv.
  - cbn [length]. rewrite Nat.even_succ, <- Nat.negb_even, IH.
    destruct (Nat.even (length (filter _ k))); simpl; ring.
  - rewrite IH. ring.
Qed.

Lemma puso_value_eval e H : spin_env e -> puso_value e H == eval e H.
Proof.
  intros He. induction H as [|[k v] H IH]; simpl; [reflexivity|].
  rewrite IH, (mon_count e k He). destruct (Nat.even _); ring.
Qed.

Lemma quso_value_eval e L : keys_le2 L -> quso_value e L == eval e L.
Proof.
  induction L as [|[k v] L IH]; simpl; intros Hk; [reflexivity|].
  rewrite IH by (intros k' v' Hin; apply (Hk k' v'); right; exact Hin).
  assert (Hl : (length k <= 2)%nat) by (apply (Hk k v); left; reflexivity).
  destruct k as [|i [|j [|l k]]]; simpl in *; try lia; ring.
Qed.
