From QV.Model Require Import Base Matrix Extrema.
From QV.Proofs Require Import BaseProofs.
From Coq Require Import Lqa Lia.
Open Scope Q_scope.

Lemma mon_bool e k : boolean_env e -> mon e k == 0 \/ mon e k == 1.
Proof.
  intros He. induction k as [|x k IH]; simpl; [right; reflexivity|].
  destruct (He x) as [H|H], IH as [H'|H']; rewrite H, H'; [left|left|left|right]; ring.
Qed.
Lemma mon_spin e k : spin_env e -> mon e k == 1 \/ mon e k == -(1).
Proof.
  intros He. induction k as [|x k IH]; simpl; [left; reflexivity|].
  destruct (He x) as [H|H], IH as [H'|H']; rewrite H, H'; [left|right|right|left]; ring.
Qed.

(* generalised fold invariants *)
Lemma approx_pubo_acc e P : boolean_env e -> forall lo hi,
  let '(lo', hi') := fold_left pubo_step P (lo, hi) in
  lo' - lo <= eval e P /\ eval e P <= hi' - hi.
Proof.
  intros He. induction P as [|[k v] P IH]; intros lo hi; simpl.
  - lra.
  - destruct k as [|x k].
    + specialize (IH (lo + v) (hi + v)). destruct (fold_left _ P _) as [lo' hi']. simpl. lra.
    + destruct (Qlt_le_dec v 0) as [Hv|Hv].
      * specialize (IH (lo + v) hi). destruct (fold_left _ P _) as [lo' hi'].
        destruct (mon_bool e (x :: k) He) as [Hm|Hm]; rewrite Hm; lra.
      * specialize (IH lo (hi + v)). destruct (fold_left _ P _) as [lo' hi'].
        destruct (mon_bool e (x :: k) He) as [Hm|Hm]; rewrite Hm; lra.
Qed.

Lemma approx_pubo_sound e P : boolean_env e ->
  fst (approx_pubo P) <= eval e P /\ eval e P <= snd (approx_pubo P).
Proof.
  intros He. unfold approx_pubo. pose proof (approx_pubo_acc e P He 0 0) as H.
  destruct (fold_left _ P _) as [lo hi]. simpl. lra.
Qed.

Lemma approx_puso_acc e P : spin_env e -> forall lo hi,
  let '(lo', hi') := fold_left puso_step P (lo, hi) in
  lo' - lo <= eval e P /\ eval e P <= hi' - hi.
Proof.
  intros He. induction P as [|[k v] P IH]; intros lo hi; simpl.
  - lra.
  - destruct k as [|x k].
    + specialize (IH (lo + v) (hi + v)). destruct (fold_left _ P _) as [lo' hi']. simpl. lra.
    + specialize (IH (lo - Qabs v) (hi + Qabs v)). destruct (fold_left _ P _) as [lo' hi'].
      pose proof (Qle_Qabs v). pose proof (Qle_Qabs (- v)) as H1. rewrite Qabs_opp in H1.
      destruct (mon_spin e (x :: k) He) as [Hm|Hm]; rewrite Hm; lra.
Qed.

Lemma approx_puso_sound e P : spin_env e ->
  fst (approx_puso P) <= eval e P /\ eval e P <= snd (approx_puso P).
Proof.
  intros He. unfold approx_puso. pose proof (approx_puso_acc e P He 0 0) as H.
  destruct (fold_left _ P _) as [lo hi]. simpl. lra.
Qed.

(* a model with only the () key: both bounds equal the constant *)
Definition only_const (P : terms) : Prop := forall k v, In (k, v) P -> k = [].

Lemma approx_const_acc (f : Q * Q -> key * Q -> Q * Q) P :
  (forall lo hi v, f (lo, hi) ([], v) = (lo + v, hi + v)) ->
  only_const P -> forall e lo hi,
  let '(lo', hi') := fold_left f P (lo, hi) in
  lo' == lo + eval e P /\ hi' == hi + eval e P.
Proof.
  intros Hf. induction P as [|[k v] P IH]; intros Hc e lo hi; simpl.
  - split; ring.
  - assert (k = []) by (apply (Hc k v); left; reflexivity). subst k.
    rewrite Hf. assert (Hc' : only_const P) by (intros k' v' Hin; apply (Hc k' v'); right; exact Hin).
    specialize (IH Hc' e (lo + v) (hi + v)). destruct (fold_left f P _) as [lo' hi'].
    simpl. destruct IH as [A B]. rewrite A, B. split; ring.
Qed.

Lemma approx_pubo_const e P : only_const P ->
  fst (approx_pubo P) == eval e P /\ snd (approx_pubo P) == eval e P.
Proof.
  intros Hc. unfold approx_pubo.
  pose proof (approx_const_acc pubo_step P (fun lo hi v => eq_refl) Hc e 0 0) as H.
  destruct (fold_left _ P _) as [lo hi]. simpl. destruct H as [A B]. rewrite A, B. split; ring.
Qed.
Lemma approx_puso_const e P : only_const P ->
  fst (approx_puso P) == eval e P /\ snd (approx_puso P) == eval e P.
Proof.
  intros Hc. unfold approx_puso.
  pose proof (approx_const_acc puso_step P (fun lo hi v => eq_refl) Hc e 0 0) as H.
  destruct (fold_left _ P _) as [lo hi]. simpl. destruct H as [A B]. rewrite A, B. split; ring.
Qed.
