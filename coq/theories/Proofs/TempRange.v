(* anneal_temperature_range: the logarithm part over R (the rational part is Proofs/TempRangeQ.v; this is the only file of the
   development that loads the real numbers and with them the standard library's classical / real-number axioms) *)
From QV.Model Require Import Base Matrix Extrema.
From QV.Proofs Require Import BaseProofs TempRangeQ.
From Coq Require Import Lqa Lia Qminmax.
Open Scope Q_scope.

(* ---- the logarithm part over R ---- *)
From Coq Require Import Reals Lra.
Open Scope R_scope.

Lemma ln_neg p : 0 < p < 1 -> ln p < 0.
Proof. intros [H0 H1]. rewrite <- ln_1. apply ln_increasing; assumption. Qed.

Definition temp (prob del : R) : R := if Req_EM_T prob 0 then 0 else - del / ln prob.

Lemma temp_nonneg p d : 0 <= p < 1 -> 0 <= d -> 0 <= temp p d.
Proof.
  intros Hp Hd. unfold temp. destruct (Req_EM_T p 0) as [->|Hne]; [lra|].
  assert (Hl : ln p < 0) by (apply ln_neg; lra).
  unfold Rdiv. replace (- d * / ln p) with (d * / (- ln p)) by (field; lra).
  apply Rmult_le_pos; [lra|]. left. apply Rinv_0_lt_compat. lra.
Qed.

(* T0 = temp start max_del, Tf = temp end min_del *)
Theorem temperature_range_ordered (s e m M : R) :
  0 <= e -> e <= s -> s < 1 -> 0 <= m -> m <= M ->
  temp s M >= temp e m /\ temp e m >= 0.
Proof.
  intros He Hes Hs Hm HmM. split; [|apply Rle_ge, temp_nonneg; lra].
  apply Rle_ge. unfold temp at 1. destruct (Req_EM_T e 0) as [->|Hne].
  - apply temp_nonneg; lra.
  - unfold temp. destruct (Req_EM_T s 0) as [->|Hns]; [lra|].
    assert (Hle : ln e <= ln s).
    { destruct Hes as [Hlt|Heq]; [left; apply ln_increasing; lra | subst; lra]. }
    assert (Hs0 : ln s < 0) by (apply ln_neg; lra).
    assert (He0 : ln e < 0) by (apply ln_neg; lra).
    unfold Rdiv.
    replace (- m * / ln e) with (m * / (- ln e)) by (field; lra).
    replace (- M * / ln s) with (M * / (- ln s)) by (field; lra).
    apply Rmult_le_compat; try lra.
    + left. apply Rinv_0_lt_compat. lra.
    + apply Rinv_le_contravar; lra.
Qed.
