(* C19: create_from_info (get_info M) reproduces M's kind, terms, name, mapping, ancilla count and constraints *)
From QV.Model Require Import Base Matrix Arith Expr Extrema Sat PCBO Info.
From QV.Proofs Require Import BaseProofs KeyProofs ArithProofs TempRangeQ InvProofs RefreshProofs.
From Coq Require Import Lia Lqa.
Open Scope Q_scope.

Definition requal (t : terms) : terms := map (fun '(k, v) => (k, Qred (0 + v))) t.

(* constructing a model from canonically stored terms reproduces them entry by entry *)
Lemma m_addall_fresh_tm p : forall m m',
  kd m <> KDict -> fresh_items (kd m) (tm m) p -> m_addall m p = Ok m' -> tm m' = tm m ++ requal p /\ kd m' = kd m.
Proof.
  induction p as [|[k v] p IH]; simpl; intros m m' Hk HF H.
  - injection H as <-. rewrite app_nil_r. auto.
  - inv_bind H. destruct HF as (ND & DJ & CN). inversion ND as [|? ? Hkp ND']; subst.
    destruct (CN k v (or_introl eq_refl)) as [Hsq Hv].
    assert (Hnotin : ~ In k (map fst (tm m))) by (apply DJ; left; reflexivity).
    destruct (m_additem_fresh _ _ _ _ Hk Hsq Hnotin Hv E) as (T & _ & _ & K).
    assert (HF' : fresh_items (kd a) (tm a) p).
    { rewrite K, T. split; [exact ND'|]. split.
      - intros k0 Hk0. rewrite map_app, in_app_iff. simpl. intros [Hx|[Hx|[]]].
        + apply (DJ k0 (or_intror Hk0)), Hx.
        + subst. contradiction.
      - intros k0 v0 Hin. apply CN. right. exact Hin. }
    destruct (IH a m' ltac:(congruence) HF' H) as [A B]. split; [|congruence].
    rewrite A, T, <- app_assoc. reflexivity.
Qed.

Lemma m_create_wf_tm k t m : k <> KDict -> wf k t -> m_create k t = Ok m -> tm m = requal t /\ kd m = k.
Proof.
  intros Hk [ND CN] H. unfold m_create in H.
  destruct (m_addall_fresh_tm t (empty_model k) m Hk) as [A B]; [|exact H| split; [exact A| exact B]].
  simpl. split; [exact ND|]. split; [intros k0 _ []| exact CN].
Qed.

Lemma get_sq_requal t k : get_sq (requal t) k == get_sq t k.
Proof.
  unfold get_sq, requal. induction t as [|[k' v] t IH]; [reflexivity|]. cbn [map lookup].
  destruct (key_eqb k k'); cbv iota beta; [rewrite Qred_correct; ring| exact IH].
Qed.

Lemma replay_cons_spec cs : forall m m', replay_cons m cs = Ok m' ->
  kd m' = kd m /\ tm m' = tm m /\ nm m' = nm m /\ mp m' = mp m /\ anc m' = anc m
  /\ length (cons m') = (length (cons m) + length cs)%nat.
Proof.
  induction cs as [|[r P] cs IH]; simpl; intros m m' H.
  - injection H as <-. repeat split; lia.
  - inv_bind H. destruct (IH _ _ H) as (A & B & Cn & D & E' & F). simpl in *.
    repeat split; try assumption. rewrite F, app_length. simpl. lia.
Qed.

(* every recorded constraint comes back with the same relation and, when it was canonically stored, the same terms *)
Lemma replay_cons_cons cs : forall m m', replay_cons m cs = Ok m' ->
  (forall r P, In (r, P) cs -> wf (if is_spin (kd m) then KPuso else KPubo) P) ->
  cons m' = cons m ++ map (fun '(r, P) => (r, requal P)) cs.
Proof.
  induction cs as [|[r P] cs IH]; simpl; intros m m' H Hwf.
  - injection H as <-. rewrite app_nil_r. reflexivity.
  - inv_bind H. assert (Hk : (if is_spin (kd m) then KPuso else KPubo) <> KDict) by (destruct (is_spin (kd m)); discriminate).
    destruct (m_create_wf_tm _ _ _ Hk (Hwf r P (or_introl (eq_refl (r, P)))) E) as [T _].
    rewrite (IH _ _ H); [simpl; rewrite T, <- app_assoc; reflexivity|].
    intros r0 P0 Hin. simpl. apply (Hwf r0 P0). right. exact Hin.
Qed.

Theorem roundtrip m m' : kd m <> KDict -> wf (kd m) (tm m) ->
  (forall r P, In (r, P) (cons m) -> wf (if is_spin (kd m) then KPuso else KPubo) P) ->
  create_from_info (get_info m) = Ok m' ->
  kd m' = kd m /\ (forall k, get_sq (tm m') k == get_sq (tm m) k) /\ nm m' = nm m
  /\ (is_labelled (kd m) = true -> mp m' = mp m)
  /\ (is_pc (kd m) = true -> anc m' = anc m /\ cons m' = map (fun '(r, P) => (r, requal P)) (cons m)).
Proof.
  intros Hk Hwf Hc H. unfold create_from_info, get_info in H. simpl in H. inv_bind H.
  destruct (m_create_wf_tm _ _ _ Hk Hwf E) as [T K].
  destruct (replay_cons_spec _ _ _ H) as (A & B & Cn & D & E' & _). simpl in *.
  split; [congruence|]. split; [intros k; rewrite B, T; apply get_sq_requal|]. split; [exact Cn|]. split.
  - intros Hl. rewrite D, Hl. reflexivity.
  - intros Hp. rewrite Hp in *. split.
    + rewrite E'. destruct (anc m) eqn:Ea; [|reflexivity].
      unfold m_create in E. clear - E Hp. 
      assert (G : forall o m0 a0, m_addall m0 o = Ok a0 -> anc a0 = anc m0).
      { clear. induction o as [|[k v] o IH]; simpl; intros m0 a0 H; [injection H as <-; reflexivity|].
        inv_bind H. rewrite (IH _ _ H). unfold m_additem in E. inv_bind E. apply m_setitem_spec in E.
        destruct E as (k' & _ & _ & _ & Ha & _). exact Ha. }
      rewrite (G _ _ _ E). reflexivity.
    + assert (Hc0 : cons a = []).
      { unfold m_create in E. clear - E.
        assert (G : forall o m0 a0, m_addall m0 o = Ok a0 -> cons a0 = cons m0).
        { clear. induction o as [|[k v] o IH]; simpl; intros m0 a0 H; [injection H as <-; reflexivity|].
          inv_bind H. rewrite (IH _ _ H). unfold m_additem in E. inv_bind E. apply m_setitem_spec in E.
          destruct E as (k' & _ & _ & _ & _ & Hc & _). exact Hc. }
        rewrite (G _ _ _ E). reflexivity. }
      rewrite (replay_cons_cons _ _ _ H); simpl; [rewrite Hc0; reflexivity|].
      rewrite K. exact Hc.
Qed.
