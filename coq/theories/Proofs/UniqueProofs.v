(* C05: uniqueness of the canonical form for boolean models.  A canonically stored boolean polynomial that vanishes at
   every 0/1 assignment has no terms; hence subtracting two boolean models with equal values leaves the empty model. *)
From QV.Model Require Import Base Matrix Arith Expr.
From QV.Proofs Require Import BaseProofs KeyProofs ArithProofs ExprProofs InvProofs.
From Coq Require Import Lia Lqa.
Open Scope Q_scope.

Definition point (ones : list label) : env := fun l => if mem l ones then 1 else 0.
Lemma point_bool ones : boolean_env (point ones).
Proof. intros l. unfold point. destruct (mem l ones); [right|left]; reflexivity. Qed.
Lemma mem_In x l : mem x l = true <-> In x l.
Proof.
  induction l as [|y l IH]; simpl; [split; [discriminate| tauto]|].
  rewrite orb_true_iff, IH, Nat.eqb_eq. split; intros [H|H]; auto.
Qed.
(* at the indicator assignment of k0, a monomial is 1 if all its labels are in k0 and 0 otherwise *)
Lemma mon_point k0 k : mon (point k0) k == if forallb (fun i => mem i k0) k then 1 else 0.
Proof.
  induction k as [|i k IH]; simpl; [reflexivity|]. rewrite IH. unfold point at 1.
  destruct (mem i k0); simpl; [ring|]. destruct (forallb _ k); ring.
Qed.

(* strictly increasing keys are determined by their sets of labels *)
Lemma ssorted_NoDup k : ssorted k -> NoDup k.
Proof.
  induction k as [|x k IH]; intros H; [constructor|]. destruct H as [Hlb Hs]. constructor; [|apply IH, Hs].
  clear IH. revert x Hlb. induction k as [|y k IH]; intros x Hlb; [intros []|]. simpl in Hlb. destruct Hs as [Hlb' Hs'].
  intros [->|Hin]; [lia|]. apply (IH Hs' x); [|exact Hin]. destruct k as [|z k]; simpl in *; [exact I| lia].
Qed.
Lemma ssorted_lb_all x k : ssorted (x :: k) -> forall y, In y k -> (x < y)%nat.
Proof.
  revert x. induction k as [|z k IH]; intros x [Hlb Hs] y Hy; [destruct Hy|]. simpl in Hlb.
  destruct Hy as [<-|Hy]; [exact Hlb|]. destruct Hs as [Hlb' Hs']. apply (IH x); [|exact Hy].
  split; [|exact Hs']. destruct k as [|w k]; simpl in *; [exact I| lia].
Qed.
Lemma ssorted_tail x k : ssorted (x :: k) -> ssorted k.
Proof. intros [_ H]. exact H. Qed.
Lemma ssorted_same_set : forall a b, ssorted a -> ssorted b -> (forall i, In i a <-> In i b) -> a = b.
Proof.
  induction a as [|x a IH]; intros b Ha Hb Hs.
  - destruct b as [|y b]; [reflexivity|]. exfalso. apply (Hs y). left. reflexivity.
  - destruct b as [|y b]; [exfalso; apply (Hs x); left; reflexivity|].
    pose proof (ssorted_lb_all x a Ha) as La. pose proof (ssorted_lb_all y b Hb) as Lb.
    assert (Hxy : x = y).
    { destruct (proj1 (Hs x) (or_introl eq_refl)) as [E|Hin]; [symmetry; exact E|].
      destruct (proj2 (Hs y) (or_introl eq_refl)) as [E|Hin']; [exact E|].
      specialize (La y Hin'). specialize (Lb x Hin). lia. }
    subst y. f_equal. apply IH; [apply (ssorted_tail x a Ha)| apply (ssorted_tail x b Hb)|].
    intros i. split; intros Hi.
    + destruct (proj1 (Hs i) (or_intror Hi)) as [E|H]; [|exact H]. subst i. specialize (La x Hi). lia.
    + destruct (proj2 (Hs i) (or_intror Hi)) as [E|H]; [|exact H]. subst i. specialize (Lb x Hi). lia.
Qed.

(* a key of least length: the only key of the dictionary inside it is itself *)
Lemma sub_key_eq k k0 : ssorted k -> ssorted k0 -> (forall i, In i k -> In i k0) -> (length k0 <= length k)%nat -> k = k0.
Proof.
  intros Hk Hk0 Hin Hlen. apply ssorted_same_set; try assumption. intros i. split; [apply Hin|].
  apply (NoDup_length_incl (ssorted_NoDup k Hk) Hlen). intros j Hj. apply Hin, Hj.
Qed.

Lemma exists_min_key (t : terms) : t <> [] -> exists k0 v0, In (k0, v0) t /\ forall k v, In (k, v) t -> (length k0 <= length k)%nat.
Proof.
  induction t as [|[k v] t IH]; intros Hne; [congruence|]. destruct t as [|p t'].
  - exists k, v. split; [left; reflexivity|]. intros k1 v1 [E|[]]. injection E as <- <-. lia.
  - destruct (IH ltac:(discriminate)) as (k0 & v0 & Hin & Hmin). destruct (Nat.le_gt_cases (length k) (length k0)).
    + exists k, v. split; [left; reflexivity|]. intros k1 v1 [E|Hi]; [injection E as <- <-; lia| specialize (Hmin k1 v1 Hi); lia].
    + exists k0, v0. split; [right; exact Hin|]. intros k1 v1 [E|Hi]; [injection E as <- <-; lia| apply (Hmin k1 v1 Hi)].
Qed.

(* evaluating at the indicator of k0 when k0 is the only key contained in k0 *)
Lemma eval_point_single (t : terms) k0 v0 : NoDup (map fst t) -> In (k0, v0) t ->
  (forall k v, In (k, v) t -> forallb (fun i => mem i k0) k = true -> k = k0) ->
  forallb (fun i => mem i k0) k0 = true -> eval (point k0) t == v0.
Proof.
  intros Hnd Hin Honly Hself. induction t as [|[k v] t IH]; [destruct Hin|]. cbn [eval]. rewrite mon_point.
  cbn [map fst] in Hnd. apply NoDup_cons_iff in Hnd. destruct Hnd as [Hk Hnd].
  destruct Hin as [E|Hin].
  - injection E as -> ->. rewrite Hself.
    assert (Z0 : eval (point k0) t == 0).
    { clear IH. induction t as [|[k1 v1] t IHt]; [reflexivity|]. cbn [eval]. rewrite mon_point.
      destruct (forallb (fun i => mem i k0) k1) eqn:E1.
      - exfalso. apply Hk. left. simpl. apply (Honly k1 v1); [right; left; reflexivity| exact E1].
      - rewrite IHt; [ring| | | ].
        + intros Hc. apply Hk. right. exact Hc.
        + cbn [map fst] in Hnd. apply NoDup_cons_iff in Hnd. apply Hnd.
        + intros k2 v2 [E|Hi] Hf; [apply (Honly k2 v2); [left; exact E| exact Hf]| apply (Honly k2 v2); [right; right; exact Hi| exact Hf]]. }
    rewrite Z0. ring.
  - destruct (forallb (fun i => mem i k0) k) eqn:E1.
    + exfalso. apply Hk. assert (k = k0) by (apply (Honly k v); [left; reflexivity| exact E1]). subst k.
      apply (in_map fst) in Hin. exact Hin.
    + rewrite IH; [ring| exact Hnd| exact Hin|]. intros k2 v2 Hi Hf. apply (Honly k2 v2); [right; exact Hi| exact Hf].
Qed.

Theorem zero_poly_empty kd0 t : is_spin kd0 = false -> kd0 <> KDict -> wf kd0 t ->
  (forall x, boolean_env x -> eval x t == 0) -> t = [].
Proof.
  intros Hsp Hk [Hnd Hw] Hz. destruct t as [|p t'] eqn:Et; [reflexivity|]. exfalso. rewrite <- Et in *.
  destruct (exists_min_key t ltac:(rewrite Et; discriminate)) as (k0 & v0 & Hin & Hmin).
  assert (Hss : forall k v, In (k, v) t -> ssorted k).
  { intros k v Hi. destruct (Hw k v Hi) as [Hs _]. apply (squash_kd_ssorted kd0 k k Hk Hs). }
  assert (Hself : forallb (fun i => mem i k0) k0 = true) by (apply forallb_forall; intros i Hi; apply mem_In, Hi).
  pose proof (eval_point_single t k0 v0 Hnd Hin) as E.
  rewrite (Hz _ (point_bool k0)) in E.
  destruct (Hw k0 v0 Hin) as [_ Hv]. apply Hv. symmetry. apply E; [|exact Hself].
  intros k v Hi Hf. apply sub_key_eq; [apply (Hss k v Hi)| apply (Hss k0 v0 Hin)| | apply (Hmin k v Hi)].
  intros i Hik. apply mem_In. rewrite forallb_forall in Hf. apply Hf, Hik.
Qed.

(* two boolean models with the same values: their difference, as the library computes it, is the empty model *)
Theorem equal_values_sub_empty a b d : is_spin (kd a) = false -> kd a <> KDict -> wf (kd a) (tm a) ->
  m_sub a (OModel b) = Ok d -> (forall x, boolean_env x -> eval x (tm a) == eval x (tm b)) -> tm d = [].
Proof.
  intros Hsp Hk Hw Hd Heq.
  assert (Hg : forall x, boolean_env x -> good_env (kd a) x) by (intros x Hx; unfold good_env; destruct (kd a); simpl in *; try congruence; exact Hx).
  destruct (apply_bop_eval (fun _ => 0) false OpSub a (OModel b) d Hd (Hg _ ltac:(intros i; left; reflexivity)) Hw) as (_ & K & Wd).
  rewrite K in Wd. apply (zero_poly_empty (kd a) (tm d) Hsp Hk Wd).
  intros x Hx. destruct (apply_bop_eval x false OpSub a (OModel b) d Hd (Hg x Hx) Hw) as (E & _ & _).
  rewrite E. simpl. rewrite (Heq x Hx). ring.
Qed.
