(* C11: whole calls of the four annealers, front ends included -- every accepted source (plain dict, labelled kinds,
   Matrix kinds), both kernels, the boolean wrappers.  The kernels' theorems are in AnnealProofs.v. *)
From QV.Model Require Import Base Matrix Arith Convert Reduce Anneal.
From QV.Proofs Require Import BaseProofs KeyProofs ArithProofs InvProofs LabelProofs ConvertProofs AnnealProofs.
From QV.Proofs Require ReduceProofs.
From Coq Require Import Lia Lqa.
Open Scope Q_scope.

(* the assignment a returned state stands for: the spins it lists, +1 elsewhere (a label outside the state does not occur in
   the canonical model, so its value is immaterial; +1 keeps the assignment a spin assignment) *)
Definition st_env (st : list (label * Z)) : env := fun l => match assoc_get l st with Some z => zq z | None => 1 end.
Definition lab_of (p : prepared) (k : nat) : label := match assoc_get k (p_rmp p) with Some l => l | None => k end.
Definition labs (p : prepared) : list label := map (lab_of p) (seq 0 (p_N p)).
Definition state_of (p : prepared) (s : list Z) : list (label * Z) := map (fun k => (lab_of p k, nth k s 0%Z)) (seq 0 (p_N p)).

(* what C11 promises of a result list: n results; each state assigns +-1 to exactly the variables, once each; the reported
   value is the source model (offset included) at that state *)
Definition result_ok (vars : list label) (t : terms) (n : nat) (l : list (list (label * Z) * Q)) : Prop :=
  length l = n /\ forall st v, In (st, v) l ->
    NoDup (map fst st) /\ (forall x, In x (map fst st) <-> In x vars) /\
    (forall x z, In (x, z) st -> z = 1%Z \/ z = (-1)%Z) /\ v == eval (st_env st) t.

Record prep_ok (p : prepared) (vars : list label) (t : terms) : Prop := {
  po_nodup : NoDup (map fst (p_model p));
  po_keys : nodup_keys (puso_flatten (p_model p));
  po_inj : NoDup (labs p);
  po_vars : forall x, In x vars <-> In x (labs p);
  po_value : forall s, length s = p_N p -> pm1 s -> eval (env_of s) (p_model p) == eval (st_env (state_of p s)) t }.

Definition init_pm1 (initial : option (list (label * Z))) : Prop :=
  forall d, initial = Some d -> forall l v, In (l, v) d -> v = 1%Z \/ v = (-1)%Z.

Lemma assoc_get_In {A} k (d : list (nat * A)) v : assoc_get k d = Some v -> In (k, v) d.
Proof.
  induction d as [|[a b] d IH]; simpl; [discriminate|]. destruct (Nat.eqb_spec k a) as [->|Hne].
  - intros [= ->]. left. reflexivity.
  - intros H. right. apply IH, H.
Qed.

Lemma assoc_get_map {A} (f : nat -> nat) (g : nat -> A) ks : NoDup (map f ks) -> forall k, In k ks ->
  assoc_get (f k) (map (fun k => (f k, g k)) ks) = Some (g k).
Proof.
  induction ks as [|a ks IH]; simpl; intros Hn k Hin; [destruct Hin|]. inversion Hn as [|? ? Hna Hn']; subst.
  destruct Hin as [->|Hin]; [rewrite Nat.eqb_refl; reflexivity|].
  destruct (Nat.eqb_spec (f k) (f a)) as [E|_]; [|apply IH; assumption].
  exfalso. apply Hna. rewrite <- E. apply in_map, Hin.
Qed.
Lemma assoc_get_map_None {A} (f : nat -> nat) (g : nat -> A) ks x : ~ In x (map f ks) ->
  assoc_get x (map (fun k => (f k, g k)) ks) = None.
Proof.
  induction ks as [|a ks IH]; simpl; intros Hn; [reflexivity|]. destruct (Nat.eqb_spec x (f a)) as [->|_]; [exfalso; apply Hn; left; reflexivity|].
  apply IH. intros H. apply Hn. right. exact H.
Qed.

Lemma state_get p s k : NoDup (labs p) -> (k < p_N p)%nat -> assoc_get (lab_of p k) (state_of p s) = Some (nth k s 0%Z).
Proof. intros Hn Hk. unfold state_of. apply (assoc_get_map (lab_of p) (fun k => nth k s 0%Z)); [exact Hn| apply in_seq; lia]. Qed.

Lemma state_fst p s : map fst (state_of p s) = labs p.
Proof. unfold state_of, labs. rewrite map_map. reflexivity. Qed.

Lemma pm1_nth s k : pm1 s -> (k < length s)%nat -> nth k s 0%Z = 1%Z \/ nth k s 0%Z = (-1)%Z.
Proof. intros H Hk. unfold pm1 in H. rewrite Forall_forall in H. apply H, nth_In, Hk. Qed.

Lemma state_spin p s : length s = p_N p -> pm1 s -> spin_env (st_env (state_of p s)).
Proof.
  intros Ls Ps l. unfold st_env. destruct (assoc_get l (state_of p s)) as [z|] eqn:E; [|left; reflexivity].
  apply assoc_get_In in E. unfold state_of in E. apply in_map_iff in E. destruct E as (k & Ek & Hk). injection Ek as _ <-.
  apply in_seq in Hk. destruct (pm1_nth s k Ps ltac:(lia)) as [-> | ->]; [left| right]; reflexivity.
Qed.

Lemma state_pm1 p s : length s = p_N p -> pm1 s -> forall x z, In (x, z) (state_of p s) -> z = 1%Z \/ z = (-1)%Z.
Proof.
  intros Ls Ps x z H. unfold state_of in H. apply in_map_iff in H. destruct H as (k & Ek & Hk). injection Ek as _ <-.
  apply in_seq in Hk. apply pm1_nth; [exact Ps| lia].
Qed.

(* the energy of the empty state: only the constant counts *)
Lemma E_puso_nil a : (forall k c, In (k, c) a -> k <> []) -> E_puso a [] == 0.
Proof.
  intros H. unfold E_puso, puso_kernel_value. rewrite kernel_value_sum.
  assert (G : sum_terms a (fun k c => c * zq (tprod [] k)) == 0).
  { induction a as [|[k c] a IH]; simpl; [reflexivity|]. rewrite IH; [|intros k' c' Hin; apply (H k' c'); right; exact Hin].
    destruct k as [|i k]; [exfalso; apply (H [] c); [left; reflexivity| reflexivity]|]. simpl. destruct i; simpl; unfold zq; simpl; ring. }
  rewrite G. ring.
Qed.

Lemma init_of_ok p initial : init_pm1 initial ->
  match init_of p initial with Some si => length si = p_N p /\ pm1 si | None => True end.
Proof.
  intros Hi. unfold init_of. destruct initial as [d|]; [|exact I]. split; [rewrite map_length, seq_length; reflexivity|].
  unfold pm1. apply Forall_forall. intros z Hz. apply in_map_iff in Hz. destruct Hz as (k & <- & _).
  destruct (assoc_get k (p_rmp p)) as [l|]; [|left; reflexivity].
  destruct (assoc_get l d) as [v|] eqn:E; [|left; reflexivity]. apply assoc_get_In in E. exact (Hi d eq_refl l v E).
Qed.

(* ---- one theorem for both kernels: from a prepared model to the packaged results ---- *)
Theorem run_prepared quso p vars t tab Ts n io initial seed res :
  prep_ok p vars t -> (quso = true -> qvalid (p_N p) (p_model p)) -> init_pm1 initial ->
  (if quso then c_anneal_quso (quso_flatten (p_N p) (p_model p)) tab Ts n io (init_of p initial) seed
   else c_anneal_puso (p_N p) (puso_flatten (p_model p)) tab Ts n io (init_of p initial) seed) = Some res ->
  result_ok vars t n (package p res).
Proof.
  intros [Hnd Hkeys Hinj Hvars Hval] Hq Hi H.
  assert (K : length res = n /\ forall s v, In (s, v) res -> length s = p_N p /\ pm1 s /\ v + get_sq (p_model p) [] == eval (env_of s) (p_model p)).
  { destruct quso.
    - destruct (c_anneal_quso_spec (p_N p) (p_model p) tab Ts n io (init_of p initial) seed res (Hq eq_refl) Hnd H (init_of_ok p initial Hi)) as [A B].
      split; [exact A|]. intros s v Hin. destruct (B s v Hin) as (L & P & V & _). split; [exact L|]. split; [exact P|].
      rewrite V. apply value_with_offset, Hnd.
    - destruct (c_anneal_puso_refined (p_N p) (puso_flatten (p_model p)) tab Ts n io (init_of p initial) seed res Hkeys H (init_of_ok p initial Hi)) as [A B].
      split; [exact A|]. intros s v Hin. destruct (B s v Hin) as (L & P & V & _). split; [exact L|]. split; [exact P|].
      rewrite V. apply value_with_offset, Hnd. }
  destruct K as [A B]. destruct (package_spec p res) as [PL PI]. split; [rewrite PL; exact A|].
  intros st v Hin. destruct (PI st v Hin) as (s & v0 & Hres & Ev & Est). destruct (B s v0 Hres) as (Ls & Ps & Vs).
  assert (Est' : st = state_of p s) by exact Est. clear Est. subst st.
  split; [rewrite state_fst; exact Hinj|]. split; [intros x; rewrite state_fst; symmetry; apply Hvars|].
  split; [apply state_pm1; assumption|]. rewrite Ev, Vs. apply Hval; assumption.
Qed.

(* no variable at all: the kernel is not called *)
Lemma run_prepared_zero p vars t n : prep_ok p vars t -> p_N p = 0%nat ->
  result_ok vars t n (repeat ([], get_sq (p_model p) []) n).
Proof.
  intros [Hnd Hkeys Hinj Hvars Hval] H0. split; [apply repeat_length|]. intros st v Hin. apply repeat_spec in Hin. injection Hin as -> ->.
  assert (L0 : labs p = []) by (unfold labs; rewrite H0; reflexivity).
  split; [constructor|]. split; [intros x; rewrite Hvars, L0; reflexivity|]. split; [intros x z []|].
  specialize (Hval [] ltac:(rewrite H0; reflexivity) ltac:(constructor)).
  assert (S0 : state_of p [] = []) by (unfold state_of; rewrite H0; reflexivity). rewrite S0 in Hval. rewrite <- Hval.
  rewrite <- (value_with_offset (p_model p) [] Hnd). rewrite E_puso_nil; [ring|].
  intros k c Hk. unfold puso_flatten in Hk. apply filter_In in Hk. destruct Hk as [_ Hk]. destruct k; [discriminate| discriminate].
Qed.

Theorem run_spin_prepared (quso : bool) s p vars t tab Ts num io initial seed l :
  (if quso then prepare_quso s else prepare_puso s) = Ok p ->
  prep_ok p vars t -> (quso = true -> qvalid (p_N p) (p_model p)) -> init_pm1 initial -> (0 < num)%Z ->
  run_spin quso s tab Ts num io initial seed = AResults l ->
  result_ok vars t (Z.to_nat num) l.
Proof.
  intros Hp Hok Hq Hi Hnum H. unfold run_spin in H.
  destruct (num <=? 0)%Z eqn:En; [apply Z.leb_le in En; lia|]. rewrite Hp in H.
  destruct (Nat.eqb_spec (p_N p) 0) as [E0|_].
  - injection H as <-. apply run_prepared_zero; assumption.
  - destruct (if quso then c_anneal_quso _ tab Ts (Z.to_nat num) io (init_of p initial) seed
              else c_anneal_puso _ _ tab Ts (Z.to_nat num) io (init_of p initial) seed) as [res|] eqn:EC; [|discriminate].
    injection H as <-. eapply run_prepared; eassumption.
Qed.

(* ---- the prepared models of the front ends ---- *)
Lemma matrix_labels m : Inv m -> kd m <> KDict -> LP (fun i => (i < matrix_N m)%nat) (tm m).
Proof.
  intros [B _] Hk. destruct (B Hk) as (_ & LI & _). intros k v i Hin Hi. specialize (LI k v i Hin Hi). unfold matrix_N.
  destruct (vars_c m) as [|x l] eqn:Ev; [destruct LI|]. pose proof (list_max_ge (x :: l) i LI). lia.
Qed.

Lemma labs_identity N t : labs {| p_model := t; p_N := N; p_rmp := identity_rmp N |} = seq 0 N.
Proof.
  unfold labs. cbn [p_N]. rewrite <- (map_id (seq 0 N)) at 2. apply map_ext_in. intros k Hk.
  unfold lab_of. cbn [p_rmp]. unfold identity_rmp.
  match goal with |- match ?x with _ => _ end = _ => replace x with (Some k) by (symmetry; exact (assoc_get_identity (seq 0 N) k Hk)) end.
  reflexivity.
Qed.

Lemma prep_matrix_ok m : Inv m -> wf (kd m) (tm m) -> kd m <> KDict ->
  prep_ok {| p_model := tm m; p_N := matrix_N m; p_rmp := identity_rmp (matrix_N m) |} (seq 0 (matrix_N m)) (tm m).
Proof.
  intros HI Hw Hk. set (p := {| p_model := tm m; p_N := matrix_N m; p_rmp := identity_rmp (matrix_N m) |}).
  assert (HL : labs p = seq 0 (matrix_N m)) by apply labs_identity.
  assert (Hinj : NoDup (labs p)) by (rewrite HL; apply seq_NoDup).
  constructor.
  - exact (proj1 Hw).
  - apply (wf_nodup_keys (kd m)); assumption.
  - exact Hinj.
  - intros x. rewrite HL. reflexivity.
  - intros s Ls Ps. cbn [p_model p]. apply eval_ext_in. intros k v i Hin Hi.
    pose proof (matrix_labels m HI Hk k v i Hin Hi) as Hlt. cbv beta in Hlt. unfold env_of, st_env.
    assert (El : lab_of p i = i).
    { assert (In i (seq 0 (matrix_N m))) by (apply in_seq; lia).
      pose proof (in_map (lab_of p) _ _ H) as H1. fold (labs p) in H1.
      pose proof (labs_identity (matrix_N m) (tm m)) as HL'. fold p in HL'. unfold labs in HL'. cbn [p_N p] in HL'.
      assert (G0 : nth i (map (lab_of p) (seq 0 (matrix_N m))) 0%nat = nth i (seq 0 (matrix_N m)) 0%nat) by (rewrite HL'; reflexivity).
      rewrite (nth_indep _ 0%nat (lab_of p 0%nat)) in G0 by (rewrite map_length, seq_length; exact Hlt).
      rewrite map_nth, seq_nth in G0 by exact Hlt. exact G0. }
    pose proof (state_get p s i Hinj Hlt) as G. rewrite El in G. rewrite G. reflexivity.
Qed.

Lemma assoc_rmp k mpx : assoc_get k (map (fun '(l, n) => (n, l)) mpx) = rmp_get k mpx.
Proof. induction mpx as [|[a b] mpx IH]; simpl; [reflexivity|]. rewrite IH. reflexivity. Qed.

Lemma rmp_get_some n (mpx : list (label * nat)) : In n (map snd mpx) -> exists l, rmp_get n mpx = Some l.
Proof.
  induction mpx as [|[a b] mpx IH]; simpl; [intros []|]. intros [<-|H]; [rewrite Nat.eqb_refl; eauto|].
  destruct (Nat.eqb_spec n b); [eauto| apply IH, H].
Qed.
Lemma mp_get_some l (mpx : list (label * nat)) : In l (map fst mpx) -> exists n, mp_get l mpx = Some n.
Proof.
  induction mpx as [|[a b] mpx IH]; simpl; [intros []|]. intros [<-|H]; [rewrite Nat.eqb_refl; eauto|].
  destruct (Nat.eqb_spec l a); [eauto| apply IH, H].
Qed.
Lemma NoDup_map_inj_in {A B} (f : A -> B) l : NoDup l -> (forall a b, In a l -> In b l -> f a = f b -> a = b) -> NoDup (map f l).
Proof.
  induction l as [|x l IH]; intros Hn Hf; [constructor|]. inversion Hn as [|? ? Hx Hn']; subst. cbn [map]. constructor.
  - intros Hin. apply in_map_iff in Hin. destruct Hin as (y & Ey & Hy). apply Hx.
    rewrite (Hf x y (or_introl eq_refl) (or_intror Hy) (eq_sym Ey)). exact Hy.
  - apply IH; [exact Hn'|]. intros a b Ha Hb. apply Hf; right; assumption.
Qed.

(* the labels of the positions 0..n-1 through the reverse mapping: each mapped label once (whatever numbering the mapping uses) *)
Lemma labs_labelled m t : Inv m -> is_labelled (kd m) = true ->
  NoDup (labs {| p_model := t; p_N := num_vars m; p_rmp := rmp_of m |})
  /\ forall x, In x (labs {| p_model := t; p_N := num_vars m; p_rmp := rmp_of m |}) <-> In x (map fst (mp m)).
Proof.
  intros HI Hl. set (p := {| p_model := t; p_N := num_vars m; p_rmp := rmp_of m |}).
  assert (Hlab : forall k, (k < num_vars m)%nat -> exists l, rmp_get k (mp m) = Some l /\ lab_of p k = l).
  { intros k Hk. apply (Inv_range m HI Hl) in Hk. destruct (rmp_get_some k (mp m) Hk) as (l & E). exists l. split; [exact E|].
    unfold lab_of. cbn [p_rmp p]. unfold rmp_of. rewrite assoc_rmp, E. reflexivity. }
  split.
  - unfold labs. cbn [p_N p]. apply NoDup_map_inj_in; [apply seq_NoDup|]. intros a b Ha Hb E.
    apply in_seq in Ha. apply in_seq in Hb. destruct (Hlab a ltac:(lia)) as (la & Ea & La). destruct (Hlab b ltac:(lia)) as (lb & Eb & Lb).
    rewrite La, Lb in E. rewrite <- E in Eb. apply (Inv_bijection m HI Hl) in Ea. apply (Inv_bijection m HI Hl) in Eb. congruence.
  - intros x. unfold labs. cbn [p_N p]. rewrite in_map_iff. split.
    + intros (k & Ek & Hk). apply in_seq in Hk. destruct (Hlab k ltac:(lia)) as (l & E & Lk). rewrite Lk in Ek. rewrite Ek in E.
      apply (rmp_get_In _ _ _ E).
    + intros Hx. destruct (mp_get_some x (mp m) Hx) as (n & En). pose proof (proj2 (mp_get_In _ _ _ En)) as Hn.
      apply (Inv_range m HI Hl) in Hn. destruct (Hlab n Hn) as (l & E & Ln). apply (Inv_bijection m HI Hl) in En.
      assert (E2 : l = x) by congruence. rewrite E2 in Ln. exists n. split; [exact Ln| apply in_seq; lia].
Qed.

(* a labelled model enumerated through its mapping into a spin Matrix kind *)
Lemma prep_labelled_ok m e K : Inv m -> is_labelled (kd m) = true -> is_spin K = true -> K <> KDict ->
  to_matrix K m = Ok e ->
  prep_ok {| p_model := tm e; p_N := num_vars m; p_rmp := rmp_of m |} (map fst (mp m)) (tm m)
  /\ LP (fun i => (i < num_vars m)%nat) (tm e) /\ wf K (tm e).
Proof.
  intros HI Hl Hsp HK H. set (p := {| p_model := tm e; p_N := num_vars m; p_rmp := rmp_of m |}).
  destruct (labs_labelled m (tm e) HI Hl) as [Hinj HL]. fold p in Hinj, HL.
  pose proof H as H'. unfold to_matrix in H'. inv_bind H'.
  pose proof (m_create_wf _ _ _ H') as Hw. destruct (m_create_eval (fun _ => 1) _ _ _ H') as [_ Kd].
  { unfold good_env. destruct K; simpl in Hsp; try discriminate; intros i; left; reflexivity. }
  rewrite Kd in Hw.
  assert (HLP : LP (fun i => (i < num_vars m)%nat) (tm e)).
  { eapply m_create_LP; [|exact H']. intros k v i Hin Hi. apply (Inv_range m HI Hl).
    eapply ReduceProofs.relabel_terms_range; eassumption. }
  split; [|split; [exact HLP| exact Hw]]. constructor.
  - exact (proj1 Hw).
  - apply (wf_nodup_keys K); assumption.
  - exact Hinj.
  - intros x. symmetry. apply HL.
  - intros s Ls Ps. cbn [p_model p p_N] in *.
    set (e1 := fun i : nat => if (i <? num_vars m)%nat then zq (nth i s 0%Z) else 1).
    assert (Hs1 : spin_env e1).
    { intros i. unfold e1. destruct (Nat.ltb_spec i (num_vars m)) as [Hi|_]; [|left; reflexivity].
      destruct (pm1_nth s i Ps ltac:(lia)) as [-> | ->]; [left| right]; reflexivity. }
    transitivity (eval e1 (tm e)).
    { apply eval_ext_in. intros k v i Hin Hi. pose proof (HLP k v i Hin Hi) as Hlt. cbv beta in Hlt. unfold env_of, e1.
      destruct (Nat.ltb_spec i (num_vars m)); [reflexivity| lia]. }
    apply (enumerated_value K m e (st_env (state_of p s)) e1 HI Hl H).
    { unfold good_env. destruct K; simpl in Hsp; try discriminate; exact Hs1. }
    intros l n Hg. pose proof (proj1 (mp_get_In _ _ _ Hg)) as _. assert (Hn : (n < num_vars m)%nat).
    { apply (Inv_range m HI Hl). apply (mp_get_In _ _ _ Hg). }
    pose proof (proj1 (Inv_bijection m HI Hl l n) Hg) as Hr.
    assert (El : lab_of p n = l) by (unfold lab_of; cbn [p_rmp p]; unfold rmp_of; rewrite assoc_rmp, Hr; reflexivity).
    pose proof (state_get p s n Hinj Hn) as G. rewrite El in G. unfold st_env. rewrite G. unfold e1.
    destruct (Nat.ltb_spec n (num_vars m)); [reflexivity| lia].
Qed.

(* a +-1 state of length N, extended by +1 beyond N: a spin assignment that agrees with env_of on models over 0..N-1 *)
Lemma spin_ext s N : length s = N -> pm1 s ->
  exists e1, spin_env e1 /\ forall t, LP (fun i => (i < N)%nat) t -> eval (env_of s) t == eval e1 t.
Proof.
  intros Ls Ps. exists (fun i : nat => if (i <? N)%nat then zq (nth i s 0%Z) else 1). split.
  - intros i. destruct (Nat.ltb_spec i N) as [Hi|_]; [|left; reflexivity].
    destruct (pm1_nth s i Ps ltac:(lia)) as [-> | ->]; [left| right]; reflexivity.
  - intros t HLP. apply eval_ext_in. intros k v i Hin Hi. pose proof (HLP k v i Hin Hi) as Hlt. cbv beta in Hlt. unfold env_of.
    destruct (Nat.ltb_spec i N); [reflexivity| lia].
Qed.

(* the same prepared data with the model rebuilt as another spin kind (QUSO.to_puso: QUSOMatrix -> PUSOMatrix) *)
Lemma prep_rebuilt q N rmp vars t K e' : prep_ok {| p_model := q; p_N := N; p_rmp := rmp |} vars t ->
  LP (fun i => (i < N)%nat) q -> is_spin K = true -> K <> KDict -> m_create K q = Ok e' ->
  prep_ok {| p_model := tm e'; p_N := N; p_rmp := rmp |} vars t /\ LP (fun i => (i < N)%nat) (tm e') /\ wf K (tm e').
Proof.
  intros [Hnd Hkeys Hinj Hvars Hval] HLP Hsp HK H.
  pose proof (m_create_wf _ _ _ H) as Hw.
  assert (Hg : forall e, spin_env e -> good_env K e) by (intros e He; unfold good_env; destruct K; simpl in Hsp; try discriminate; exact He).
  destruct (m_create_eval (fun _ => 1) _ _ _ H (Hg _ ltac:(intros i; left; reflexivity))) as [_ Kd]. rewrite Kd in Hw.
  assert (HLP' : LP (fun i => (i < N)%nat) (tm e')) by (eapply m_create_LP; eassumption).
  split; [|split; assumption]. constructor; cbn [p_model p_N p_rmp] in *.
  - exact (proj1 Hw).
  - apply (wf_nodup_keys K); assumption.
  - exact Hinj.
  - exact Hvars.
  - intros s Ls Ps. rewrite <- (Hval s Ls Ps). destruct (spin_ext s N Ls Ps) as (e1 & He1 & Hx).
    rewrite (Hx _ HLP'), (Hx _ HLP). apply (m_create_eval e1 _ _ _ H (Hg e1 He1)).
Qed.

(* the source's terms may be replaced by any terms with the same values on spin assignments *)
Lemma prep_ok_terms p vars t t' : (forall e, spin_env e -> eval e t == eval e t') -> prep_ok p vars t -> prep_ok p vars t'.
Proof.
  intros He [Hnd Hkeys Hinj Hvars Hval]. constructor; try assumption.
  intros s Ls Ps. rewrite (Hval s Ls Ps). apply He, state_spin; assumption.
Qed.

Definition created_vars (K : kind) (t : terms) : list label := match m_create K t with Ok L => map fst (mp L) | Err _ => [] end.

Lemma created_facts K t L : (K = KQuso \/ K = KPuso) -> m_create K t = Ok L ->
  Inv L /\ kd L = K /\ is_labelled (kd L) = true /\ wf K (tm L) /\ (forall e, spin_env e -> eval e (tm L) == eval e t).
Proof.
  intros HK H. pose proof (m_create_Inv _ _ _ H) as HI. pose proof (m_create_wf _ _ _ H) as Hw.
  assert (Hg : forall e, spin_env e -> good_env K e) by (intros e He; unfold good_env; destruct HK as [-> | ->]; exact He).
  destruct (m_create_eval (fun _ => 1) _ _ _ H (Hg _ ltac:(intros i; left; reflexivity))) as [_ Kd]. rewrite Kd in Hw.
  split; [exact HI|]. split; [exact Kd|]. split; [rewrite Kd; destruct HK as [-> | ->]; reflexivity|]. split; [exact Hw|].
  intros e He. apply (m_create_eval e _ _ _ H (Hg e He)).
Qed.

(* ---- anneal_quso's preparation ---- *)
Lemma prepare_quso_labelled L p : Inv L -> kd L = KQuso ->
  bind (quso_to_quso L) (fun e => Ok {| p_model := tm e; p_N := num_vars L; p_rmp := rmp_of L |}) = Ok p ->
  prep_ok p (map fst (mp L)) (tm L) /\ qvalid (p_N p) (p_model p).
Proof.
  intros HI Hk H. inv_bind H. injection H as <-. unfold quso_to_quso in E.
  destruct (prep_labelled_ok L a KQusoM HI ltac:(rewrite Hk; reflexivity) eq_refl ltac:(discriminate) E) as (P & HLP & Hw).
  split; [exact P|]. cbn [p_N p_model]. apply (wf_qvalid _ _ Hw HLP).
Qed.

Lemma prepare_quso_created t p :
  bind (m_create KQuso t) (fun L => bind (quso_to_quso L) (fun e => Ok {| p_model := tm e; p_N := num_vars L; p_rmp := rmp_of L |})) = Ok p ->
  prep_ok p (created_vars KQuso t) t /\ qvalid (p_N p) (p_model p).
Proof.
  intros H. inv_bind H. destruct (created_facts KQuso t a (or_introl eq_refl) E) as (HI & Kd & Hl & Hw & Hev).
  destruct (prepare_quso_labelled a p HI Kd H) as [P V]. split; [|exact V].
  unfold created_vars. rewrite E. apply (prep_ok_terms p _ (tm a) t Hev P).
Qed.

(* ---- anneal_puso's preparation ---- *)
Lemma prepare_puso_labelled H p : Inv H -> is_labelled (kd H) = true ->
  bind (match kd H with KQuso => quso_to_puso H | _ => puso_to_puso_relabel H end)
       (fun e => Ok {| p_model := tm e; p_N := num_vars H; p_rmp := rmp_of H |}) = Ok p ->
  prep_ok p (map fst (mp H)) (tm H).
Proof.
  intros HI Hl E. inv_bind E. injection E as <-. destruct (kd H) eqn:Ek; simpl in Hl; try discriminate.
  - (* QUBO object: relabelled as a PUSOMatrix *)
    unfold puso_to_puso_relabel in E0. apply (prep_labelled_ok H a KPusoM HI ltac:(rewrite Ek; reflexivity) eq_refl ltac:(discriminate) E0).
  - (* QUSO: QUSOMatrix first, then PUSOMatrix *)
    unfold quso_to_puso in E0. inv_bind E0. unfold quso_to_quso in E.
    destruct (prep_labelled_ok H a0 KQusoM HI ltac:(rewrite Ek; reflexivity) eq_refl ltac:(discriminate) E) as (P & HLP & _).
    apply (prep_rebuilt _ _ _ _ _ KPusoM a P HLP eq_refl ltac:(discriminate) E0).
  - unfold puso_to_puso_relabel in E0. apply (prep_labelled_ok H a KPusoM HI ltac:(rewrite Ek; reflexivity) eq_refl ltac:(discriminate) E0).
  - unfold puso_to_puso_relabel in E0. apply (prep_labelled_ok H a KPusoM HI ltac:(rewrite Ek; reflexivity) eq_refl ltac:(discriminate) E0).
  - unfold puso_to_puso_relabel in E0. apply (prep_labelled_ok H a KPusoM HI ltac:(rewrite Ek; reflexivity) eq_refl ltac:(discriminate) E0).
  - unfold puso_to_puso_relabel in E0. apply (prep_labelled_ok H a KPusoM HI ltac:(rewrite Ek; reflexivity) eq_refl ltac:(discriminate) E0).
Qed.

(* ---- the variables a call reports, per accepted source ---- *)
Definition src_ok (s : asrc) : Prop := match s with SrcModel m => Inv m /\ wf (kd m) (tm m) | SrcDict _ => True end.
Definition spin_vars (quso : bool) (s : asrc) : list label :=
  match s with
  | SrcModel m =>
      match kd m, quso with
      | KQusoM, _ | KPusoM, false => seq 0 (matrix_N m)
      | KQuso, _ | KPuso, false | KPcso, false => map fst (mp m)
      | _, _ => created_vars (if quso then KQuso else KPuso) (tm m)
      end
  | SrcDict t => created_vars (if quso then KQuso else KPuso) t
  end.

Lemma prepare_ok (quso : bool) s p : src_ok s -> (if quso then prepare_quso s else prepare_puso s) = Ok p ->
  prep_ok p (spin_vars quso s) (src_items s) /\ (quso = true -> qvalid (p_N p) (p_model p)).
Proof.
  intros Hs H. destruct quso.
  - (* anneal_quso *)
    destruct s as [t|m]; cbn [prepare_quso spin_vars src_items] in *.
    + destruct (prepare_quso_created t p H) as [P V]. split; [exact P| intros _; exact V].
    + destruct Hs as [HI Hw]. destruct (kd m) eqn:Ek;
        try (destruct (prepare_quso_created (tm m) p H) as [P V]; split; [exact P| intros _; exact V]).
      * unfold prep_matrix in H. injection H as <-. split; [apply prep_matrix_ok; [exact HI| rewrite Ek; exact Hw| rewrite Ek; discriminate]|].
        intros _. cbn [p_N p_model]. apply (prep_matrix_valid m HI ltac:(rewrite Ek; exact Hw) Ek).
      * destruct (prepare_quso_labelled m p HI Ek H) as [P V]. split; [exact P| intros _; exact V].
  - (* anneal_puso *)
    split; [|discriminate].
    assert (Hc : forall t, bind (m_create KPuso t) (fun H0 => bind (match kd H0 with KQuso => quso_to_puso H0 | _ => puso_to_puso_relabel H0 end)
                    (fun e => Ok {| p_model := tm e; p_N := num_vars H0; p_rmp := rmp_of H0 |})) = Ok p ->
                prep_ok p (created_vars KPuso t) t).
    { intros t Ht. inv_bind Ht. destruct (created_facts KPuso t a (or_intror eq_refl) E) as (HI & Kd & Hl & Hw & Hev).
      unfold created_vars. rewrite E. apply (prep_ok_terms p _ (tm a) t Hev). apply (prepare_puso_labelled a p HI Hl Ht). }
    destruct s as [t|m]; cbn [prepare_puso spin_vars src_items] in *; [apply Hc, H|].
    destruct Hs as [HI Hw]. destruct (kd m) eqn:Ek; try (apply Hc, H).
    + unfold prep_matrix in H. injection H as <-. apply prep_matrix_ok; [exact HI| rewrite Ek; exact Hw| rewrite Ek; discriminate].
    + unfold prep_matrix in H. injection H as <-. apply prep_matrix_ok; [exact HI| rewrite Ek; exact Hw| rewrite Ek; discriminate].
    + apply (prepare_puso_labelled m p HI ltac:(rewrite Ek; reflexivity)). rewrite Ek. exact H.
    + apply (prepare_puso_labelled m p HI ltac:(rewrite Ek; reflexivity)). rewrite Ek. exact H.
    + apply (prepare_puso_labelled m p HI ltac:(rewrite Ek; reflexivity)). rewrite Ek. exact H.
Qed.

(* ---- anneal_quso / anneal_puso, every accepted source ---- *)
Theorem anneal_spin_spec (quso : bool) s tab Ts num io initial seed l :
  src_ok s -> init_pm1 initial -> (0 < num)%Z ->
  run_spin quso s tab Ts num io initial seed = AResults l ->
  result_ok (spin_vars quso s) (src_items s) (Z.to_nat num) l.
Proof.
  intros Hs Hi Hnum H.
  destruct (if quso then prepare_quso s else prepare_puso s) as [p|e] eqn:Hp.
  - destruct (prepare_ok quso s p Hs Hp) as [P V]. eapply run_spin_prepared; eassumption.
  - unfold run_spin in H. destruct (num <=? 0)%Z eqn:En; [apply Z.leb_le in En; lia|]. rewrite Hp in H. discriminate.
Qed.

Theorem anneal_spin_none (quso : bool) s tab Ts num io initial seed : (num <= 0)%Z ->
  run_spin quso s tab Ts num io initial seed = AResults [].
Proof. intros H. unfold run_spin. apply Z.leb_le in H. rewrite H. reflexivity. Qed.

(* ---- the boolean wrappers anneal_qubo / anneal_pubo ---- *)
Definition stb_env (st : list (label * Z)) : env := fun l => match assoc_get l st with Some z => zq z | None => 0 end.
Definition result_ok_bool (vars : list label) (t : terms) (n : nat) (l : list (list (label * Z) * Q)) : Prop :=
  length l = n /\ forall st v, In (st, v) l ->
    NoDup (map fst st) /\ (forall x, In x (map fst st) <-> In x vars) /\
    (forall x z, In (x, z) st -> z = 0%Z \/ z = 1%Z) /\ v == eval (stb_env st) t.
Definition bool_vars (quso : bool) (s : asrc) : list label :=
  match (if quso then qubo_to_quso (src_kind s) (src_items s) else pubo_to_puso (src_kind s) (src_items s)) with
  | Ok L => spin_vars quso (SrcModel L) | Err _ => []
  end.

Lemma assoc_get_map_snd (f : Z -> Z) i (st : list (label * Z)) :
  assoc_get i (map (fun '(lb, z) => (lb, f z)) st) = option_map f (assoc_get i st).
Proof. induction st as [|[a b] st IH]; simpl; [reflexivity|]. destruct (Nat.eqb i a); [reflexivity| exact IH]. Qed.

Lemma st_env_spin st : (forall x z, In (x, z) st -> z = 1%Z \/ z = (-1)%Z) -> spin_env (st_env st).
Proof.
  intros H l. unfold st_env. destruct (assoc_get l st) as [z|] eqn:E; [|left; reflexivity].
  apply assoc_get_In in E. destruct (H l z E) as [-> | ->]; [left| right]; reflexivity.
Qed.

Theorem anneal_bool_spec (quso : bool) s tab Ts num io initial seed l : (0 < num)%Z ->
  run_bool quso s tab Ts num io initial seed = AResults l ->
  result_ok_bool (bool_vars quso s) (src_items s) (Z.to_nat num) l.
Proof.
  intros Hnum H. unfold run_bool in H. unfold bool_vars.
  destruct (if quso then qubo_to_quso (src_kind s) (src_items s) else pubo_to_puso (src_kind s) (src_items s)) as [L|e] eqn:EL; [|discriminate].
  destruct (run_spin quso (SrcModel L) tab Ts num io (option_map (map (fun '(l0, v) => (l0, b2s_z v))) initial) seed) as [l0| |e] eqn:ER; try discriminate.
  injection H as <-.
  assert (HL : Inv L /\ wf (kd L) (tm L) /\ forall z, spin_env z -> eval z (tm L) == eval (s2b z) (src_items s)).
  { destruct quso.
    - split; [|split].
      + unfold qubo_to_quso in EL. inv_bind EL. eapply m_create_Inv, EL.
      + unfold qubo_to_quso in EL. inv_bind EL. eapply m_create_wf, EL.
      + intros z Hz. apply (qubo_to_quso_sound _ _ _ z EL Hz).
    - split; [|split].
      + unfold pubo_to_puso in EL. eapply m_create_Inv, EL.
      + unfold pubo_to_puso in EL. eapply m_create_wf, EL.
      + intros z Hz. apply (pubo_to_puso_sound _ _ _ z EL Hz). }
  destruct HL as (HI & Hw & Hsound).
  assert (Hi : init_pm1 (option_map (map (fun '(l0, v) => (l0, b2s_z v))) initial)).
  { intros d Hd lb v Hin. destruct initial as [d0|]; [|discriminate]. injection Hd as <-.
    apply in_map_iff in Hin. destruct Hin as ([lb0 v0] & E & _). injection E as _ <-. unfold b2s_z. destruct (v0 =? 0)%Z; [left| right]; reflexivity. }
  destruct (anneal_spin_spec quso (SrcModel L) tab Ts num io _ seed l0 (conj HI Hw) Hi Hnum ER) as [A B].
  split; [rewrite map_length; exact A|]. intros st v Hin. apply in_map_iff in Hin. destruct Hin as ([st0 v0] & E & Hin0). injection E as <- <-.
  destruct (B st0 v0 Hin0) as (Nd & Vs & Pm & Val).
  assert (Ef : map fst (map (fun '(lb, z) => (lb, s2b_z z)) st0) = map fst st0).
  { rewrite map_map. apply map_ext. intros [a b]. reflexivity. }
  split; [rewrite Ef; exact Nd|]. split; [intros x; rewrite Ef; apply Vs|]. split.
  - intros x z Hz. apply in_map_iff in Hz. destruct Hz as ([x0 z0] & E & Hz0). injection E as _ <-. unfold s2b_z. destruct (z0 =? 1)%Z; [left| right]; reflexivity.
  - rewrite Val. cbn [src_items]. rewrite (Hsound _ (st_env_spin st0 Pm)). apply eval_ext_in. intros k c i _ _.
    unfold s2b, st_env, stb_env. rewrite (assoc_get_map_snd s2b_z i st0).
    destruct (assoc_get i st0) as [z|] eqn:Ez; simpl; [|reflexivity].
    apply assoc_get_In in Ez. destruct (Pm i z Ez) as [-> | ->]; reflexivity.
Qed.

Theorem anneal_bool_none (quso : bool) s tab Ts num io initial seed L : (num <= 0)%Z ->
  (if quso then qubo_to_quso (src_kind s) (src_items s) else pubo_to_puso (src_kind s) (src_items s)) = Ok L ->
  run_bool quso s tab Ts num io initial seed = AResults [].
Proof. intros H EL. unfold run_bool. rewrite EL, anneal_spin_none; [reflexivity| exact H]. Qed.

(* the annealers on a labelled model whose variables were renumbered by the user *)
Theorem anneal_spin_renumbered (quso : bool) m mpx tab Ts num io initial seed l :
  Inv m -> wf (kd m) (tm m) -> is_labelled (kd m) = true ->
  (forall i, In i (map fst mpx) <-> In i (map fst (mp m))) -> NoDup (map fst mpx) -> snd_ok mpx ->
  init_pm1 initial -> (0 < num)%Z ->
  run_spin quso (SrcModel (set_mapping m mpx)) tab Ts num io initial seed = AResults l ->
  result_ok (spin_vars quso (SrcModel (set_mapping m mpx))) (tm m) (Z.to_nat num) l.
Proof.
  intros HI Hw Hl Hs Hn Hok Hi Hnum H.
  apply (anneal_spin_spec quso (SrcModel (set_mapping m mpx)) tab Ts num io initial seed l); try assumption.
  split; [apply set_mapping_Inv; assumption| exact Hw].
Qed.
