From QV.Model Require Import Base.
From Coq Require Import Lqa Lia Qfield.
Open Scope Q_scope.

Lemma key_eqb_refl k : key_eqb k k = true.
Proof. induction k as [|x k IH]; simpl; [reflexivity|]. rewrite Nat.eqb_refl, IH. reflexivity. Qed.

Lemma key_eqb_eq a b : key_eqb a b = true <-> a = b.
Proof.
  split.
  - revert b; induction a as [|x a IH]; intros [|y b] H; simpl in H; try discriminate; [reflexivity|].
    apply andb_true_iff in H. destruct H as [H1 H2]. apply Nat.eqb_eq in H1. subst. f_equal. apply IH, H2.
  - intros ->. apply key_eqb_refl.
Qed.

(* ---- monomials ---- *)
Lemma mon_app e a b : mon e (a ++ b) == mon e a * mon e b.
Proof. induction a as [|x a IH]; simpl; [ring| rewrite IH; ring]. Qed.

Lemma bool_idem e i : boolean_env e -> e i * e i == e i.
Proof. intros He. destruct (He i) as [H|H]; rewrite H; ring. Qed.
Lemma spin_invol e i : spin_env e -> e i * e i == 1.
Proof. intros He. destruct (He i) as [H|H]; rewrite H; ring. Qed.

Lemma mon_ins e x k : boolean_env e -> mon e (ins x k) == e x * mon e k.
Proof.
  intros He. induction k as [|y k IH]; simpl; [reflexivity|].
  destruct (x <? y)%nat; simpl; [reflexivity|].
  destruct (x =? y)%nat eqn:Heq; simpl.
  - apply Nat.eqb_eq in Heq. subst y. rewrite Qmult_assoc, (bool_idem e x He). reflexivity.
  - rewrite IH. ring.
Qed.

Lemma mon_squashB e k : boolean_env e -> mon e (squashB k) == mon e k.
Proof.
  intros He. induction k as [|x k IH]; simpl; [reflexivity|].
  unfold squashB in *. simpl. rewrite mon_ins by assumption. rewrite IH. reflexivity.
Qed.

Lemma mon_tog e x k : spin_env e -> mon e (tog x k) == e x * mon e k.
Proof.
  intros He. induction k as [|y k IH]; simpl; [reflexivity|].
  destruct (x <? y)%nat; simpl; [reflexivity|].
  destruct (x =? y)%nat eqn:Heq; simpl.
  - apply Nat.eqb_eq in Heq. subst y. rewrite Qmult_assoc, (spin_invol e x He). ring.
  - rewrite IH. ring.
Qed.

Lemma mon_squashS e k : spin_env e -> mon e (squashS k) == mon e k.
Proof.
  intros He. induction k as [|x k IH]; simpl; [reflexivity|].
  unfold squashS in *. simpl. rewrite mon_tog by assumption. rewrite IH. reflexivity.
Qed.

(* ---- evaluation of dictionary updates: no invariant on the dictionary needed ---- *)
Lemma eval_app e a b : eval e (a ++ b) == eval e a + eval e b.
Proof. induction a as [|[k v] a IH]; simpl; [ring| rewrite IH; ring]. Qed.

Lemma eval_set e k v d : eval e (set_ k v d) == eval e d + (v - get_sq d k) * mon e k.
Proof.
  unfold get_sq. induction d as [|[k' v'] d IH]; simpl.
  - ring.
  - destruct (key_eqb k k') eqn:Hk; simpl.
    + apply key_eqb_eq in Hk. subst. ring.
    + rewrite IH. ring.
Qed.

Lemma eval_remove e k d : eval e (remove_ k d) == eval e d - get_sq d k * mon e k.
Proof.
  unfold get_sq. induction d as [|[k' v'] d IH]; simpl.
  - ring.
  - destruct (key_eqb k k') eqn:Hk; simpl.
    + apply key_eqb_eq in Hk. subst. ring.
    + rewrite IH. ring.
Qed.

Lemma qzero_spec v : qzero v = true <-> v == 0.
Proof. unfold qzero. apply Qeq_bool_iff. Qed.

Lemma eval_set_sq e d k v : eval e (set_sq d k v) == eval e d + (v - get_sq d k) * mon e k.
Proof.
  unfold set_sq. destruct (qzero v) eqn:Hz.
  - apply qzero_spec in Hz. rewrite eval_remove, Hz. ring.
  - rewrite eval_set, Qred_correct. reflexivity.
Qed.

Lemma eval_addB e d k v : boolean_env e -> eval e (addB d k v) == eval e d + v * mon e k.
Proof.
  intros He. unfold addB. rewrite eval_set_sq, mon_squashB by assumption. ring.
Qed.

Lemma eval_addS e d k v : spin_env e -> eval e (addS d k v) == eval e d + v * mon e k.
Proof.
  intros He. unfold addS. rewrite eval_set_sq, mon_squashS by assumption. ring.
Qed.

Lemma eval_iaddB e o : boolean_env e -> forall d, eval e (iaddB d o) == eval e d + eval e o.
Proof.
  intros He. unfold iaddB. induction o as [|[k v] o IH]; intros d; simpl; [ring|].
  rewrite IH, eval_addB by assumption. ring.
Qed.

Lemma eval_iaddS e o : spin_env e -> forall d, eval e (iaddS d o) == eval e d + eval e o.
Proof.
  intros He. unfold iaddS. induction o as [|[k v] o IH]; intros d; simpl; [ring|].
  rewrite IH, eval_addS by assumption. ring.
Qed.

(* the boolean/spin correspondence *)
Lemma b2s_spin e : boolean_env e -> spin_env (b2s e).
Proof. intros He i. unfold b2s. destruct (He i) as [H|H]; rewrite H; [left|right]; ring. Qed.
Lemma s2b_bool e : spin_env e -> boolean_env (s2b e).
Proof. intros He i. unfold s2b. destruct (He i) as [H|H]; rewrite H; [left|right]; field. Qed.
Lemma s2b_b2s e i : s2b (b2s e) i == e i.
Proof. unfold s2b, b2s. field. Qed.
Lemma b2s_s2b e i : b2s (s2b e) i == e i.
Proof. unfold s2b, b2s. field. Qed.

(* mon / eval respect pointwise equality of environments *)
Lemma mon_ext e e' k : (forall i, e i == e' i) -> mon e k == mon e' k.
Proof. intros H. induction k as [|x k IH]; simpl; [reflexivity| rewrite H, IH; reflexivity]. Qed.
Lemma eval_ext e e' t : (forall i, e i == e' i) -> eval e t == eval e' t.
Proof.
  intros H. induction t as [|[k v] t IH]; simpl; [reflexivity|].
  rewrite (mon_ext e e' k H), IH. reflexivity.
Qed.
