(* anneal_temperature_range, the rational part: 0 <= min_del <= max_del, no error on models with variables (the real part,
   T0 >= Tf >= 0 through the logarithm, is Proofs/TempRange.v). *)
From QV.Model Require Import Base Matrix Extrema.
From QV.Proofs Require Import BaseProofs.
From Coq Require Import Lqa Lia Qminmax.
Open Scope Q_scope.

Lemma fold_Qmin_le_init l : forall x, fold_left Qmin l x <= x.
Proof.
  induction l as [|y l IH]; intros x; simpl; [lra|].
  eapply Qle_trans; [apply IH|]. apply Q.le_min_l.
Qed.
Lemma fold_Qmin_le_in l : forall x y, In y l -> fold_left Qmin l x <= y.
Proof.
  induction l as [|z l IH]; intros x y Hin; simpl; [destruct Hin|].
  destruct Hin as [->|Hin].
  - eapply Qle_trans; [apply fold_Qmin_le_init|]. apply Q.le_min_r.
  - apply IH, Hin.
Qed.
Lemma fold_Qmin_ge l b : forall x, b <= x -> (forall y, In y l -> b <= y) -> b <= fold_left Qmin l x.
Proof.
  induction l as [|z l IH]; intros x Hx Hl; simpl; [exact Hx|].
  apply IH.
  - apply Q.min_glb; [exact Hx| apply Hl; left; reflexivity].
  - intros y Hy. apply Hl. right. exact Hy.
Qed.
Lemma fold_Qmax_ge_init l : forall x, x <= fold_left Qmax l x.
Proof.
  induction l as [|y l IH]; intros x; simpl; [lra|].
  eapply Qle_trans; [|apply IH]. apply Q.le_max_l.
Qed.
Lemma fold_Qmax_ge_in l : forall x y, In y l -> y <= fold_left Qmax l x.
Proof.
  induction l as [|z l IH]; intros x y Hin; simpl; [destruct Hin|].
  destruct Hin as [->|Hin].
  - eapply Qle_trans; [|apply fold_Qmax_ge_init]. apply Q.le_max_r.
  - apply IH, Hin.
Qed.

Lemma qmin_list_le l m y : qmin_list l = Some m -> In y l -> m <= y.
Proof.
  destruct l as [|x l]; simpl; [discriminate|]. intros [= <-] [->|Hin].
  - apply fold_Qmin_le_init.
  - apply fold_Qmin_le_in, Hin.
Qed.
Lemma qmin_list_ge l m b : qmin_list l = Some m -> (forall y, In y l -> b <= y) -> b <= m.
Proof.
  destruct l as [|x l]; simpl; [discriminate|]. intros [= <-] H.
  apply fold_Qmin_ge; [apply H; left; reflexivity| intros y Hy; apply H; right; exact Hy].
Qed.
Lemma qmax_list_ge l m y : qmax_list l = Some m -> In y l -> y <= m.
Proof.
  destruct l as [|x l]; simpl; [discriminate|]. intros [= <-] [->|Hin].
  - apply fold_Qmax_ge_init.
  - apply fold_Qmax_ge_in, Hin.
Qed.

Lemma qsum_acc l : forall a, fold_left Qplus l a == a + fold_left Qplus l 0.
Proof.
  induction l as [|x l IH]; intros a; simpl; [ring|].
  rewrite IH, (IH (0 + x)). ring.
Qed.
Lemma qsum_cons x l : qsum (x :: l) == x + qsum l.
Proof. unfold qsum. simpl. rewrite qsum_acc. ring. Qed.
Lemma qsum_nonneg l : (forall y, In y l -> 0 <= y) -> 0 <= qsum l.
Proof.
  induction l as [|x l IH]; intros H; [unfold qsum; simpl; lra|].
  rewrite qsum_cons. assert (0 <= x) by (apply H; left; reflexivity).
  assert (0 <= qsum l) by (apply IH; intros y Hy; apply H; right; exact Hy). lra.
Qed.
Lemma qsum_ge_in l y : (forall z, In z l -> 0 <= z) -> In y l -> y <= qsum l.
Proof.
  induction l as [|x l IH]; intros Hnn Hin; [destruct Hin|].
  rewrite qsum_cons.
  assert (Hx : 0 <= x) by (apply Hnn; left; reflexivity).
  assert (Hl : forall z, In z l -> 0 <= z) by (intros z Hz; apply Hnn; right; exact Hz).
  destruct Hin as [->|Hin].
  - pose proof (qsum_nonneg l Hl). lra.
  - pose proof (IH Hl Hin). lra.
Qed.

Lemma mem_In x l : mem x l = true <-> In x l.
Proof.
  induction l as [|y l IH]; simpl; [split; [discriminate|tauto]|].
  rewrite orb_true_iff, Nat.eqb_eq, IH. split; intros [H|H]; auto.
Qed.

(* if some non-constant term has a label among the variables the code uses,
   then 0 <= min_del_energy <= max_del_energy *)
Lemma del_energies_ordered t vars m M :
  del_energies t vars = Some (m, M) ->
  (exists k c v, In (k, c) t /\ In v k /\ In v vars) ->
  0 <= m /\ m <= M.
Proof.
  unfold del_energies. intros H (k & c & v & Hin & Hvk & Hvv).
  destruct (qmin_list _) as [m0|] eqn:Hmin; [|discriminate].
  destruct (qmax_list _) as [M0|] eqn:Hmax; [|discriminate].
  injection H as <- <-.
  assert (Hnc : In (k, c) (nonconst t)).
  { unfold nonconst. apply filter_In. split; [exact Hin|]. destruct k; [destruct Hvk| reflexivity]. }
  assert (H0 : 0 <= m0).
  { eapply qmin_list_ge; [exact Hmin|]. intros y Hy. apply in_map_iff in Hy.
    destruct Hy as ([k' c'] & <- & _). apply Qabs_nonneg. }
  assert (H1 : m0 <= Qabs c).
  { eapply qmin_list_le; [exact Hmin|]. apply in_map_iff. exists (k, c). split; [reflexivity| exact Hnc]. }
  set (s := fun v => qsum (map (fun '(k, c) => if mem v k then Qabs c else 0) t)) in *.
  assert (H2 : s v <= M0).
  { eapply qmax_list_ge; [exact Hmax|]. apply in_map_iff. exists v. split; [reflexivity| exact Hvv]. }
  assert (H3 : Qabs c <= s v).
  { unfold s. apply qsum_ge_in.
    - intros z Hz. apply in_map_iff in Hz. destruct Hz as ([k' c'] & <- & _).
      destruct (mem v k'); [apply Qabs_nonneg| lra].
    - apply in_map_iff. exists (k, c). split; [|exact Hin].
      assert (mem v k = true) as -> by (apply mem_In; exact Hvk). reflexivity. }
  split; lra.
Qed.

Lemma temp_range_no_variables t vars :
  vars = [] \/ nonconst t = [] -> temp_range_spin t vars = TZero.
Proof.
  unfold temp_range_spin. intros [H|H]; rewrite H; [reflexivity|]. destruct vars; reflexivity.
Qed.

(* the error branch of the model is unreachable: whenever the code gets past the
   (0, 0) test both min() and max() have a non-empty argument *)
Lemma temp_range_no_error t vars : temp_range_spin t vars <> TError.
Proof.
  unfold temp_range_spin, del_energies.
  destruct vars as [|v vars]; [discriminate|].
  destruct (nonconst t) as [|[k c] nc] eqn:Hnc; [discriminate|].
  simpl. discriminate.
Qed.
