(* C10: GraphPartitioning (Lucas 2.2): the QUSO is A (sum z)^2 + B * cut, and with A > B min(2 maxdegree, N) / 8 on an even
   number of vertices every ground state is a balanced partition of least cut, with energy B * cut. *)
From QV.Model Require Import Base Matrix Arith Expr Extrema Sat PCBO Convert PCSO Problems.
From QV.Proofs Require Import BaseProofs KeyProofs ArithProofs ExprProofs ExtremaProofs ConvertProofs InvProofs PenaltyArith PCBOProofs PCSOProofs.
From Coq Require Import Lia Lqa.
Open Scope Q_scope.

(* ---- the equality penalty is exactly lam * P^2 when P takes both signs ---- *)
Lemma eq_zero_core_square m P lam m' w t :
  eq_zero_core m P lam (None, None) = Ok (m', w, t) -> bkind (kd m) -> bkind (kd P) ->
  (exists x, boolean_env x /\ eval x (tm P) < 0) -> (exists x, boolean_env x /\ 0 < eval x (tm P)) ->
  step_ok m m' lam (fun x => eval x (tm P) * eval x (tm P)) /\ w = WNone.
Proof.
  intros H Hk HP (x1 & Hx1 & N1) (x2 & Hx2 & P2). unfold eq_zero_core in H.
  unfold get_bounds in H. destruct (approx_pubo_sound x1 (tm P) Hx1) as [A1 _]. destruct (approx_pubo_sound x2 (tm P) Hx2) as [_ B2].
  destruct (approx_pubo (tm P)) as [lo hi]. simpl in A1, B2.
  assert (Hlo : lo < 0) by lra. assert (Hhi : 0 < hi) by lra.
  assert (E1 : qeq0 lo = false). { destruct (qeq0 lo) eqn:E; [apply qeq0_spec in E; lra| reflexivity]. }
  assert (E2 : qeq0 hi = false). { destruct (qeq0 hi) eqn:E; [apply qeq0_spec in E; lra| reflexivity]. }
  rewrite E1 in H. cbn [andb] in H.
  pose proof (qgt0_spec lo) as G1. destruct (qgt0 lo); [lra|].
  pose proof (qlt0_spec hi) as G2. destruct (qlt0 hi); [lra|].
  rewrite E2 in H. inv_bind H. inv_bind H. injection H as <- <- _.
  destruct (lamPP_step _ _ _ _ _ E E0 Hk HP) as [S _]. split; [exact S| reflexivity].
Qed.

Lemma eval_zero_nonempty (t : terms) : (forall k, In k (map fst t) -> k <> []) -> eval (fun _ => 0) t == 0.
Proof.
  induction t as [|[k v] t IH]; simpl; intros H; [reflexivity|].
  rewrite IH by (intros k' Hk'; apply H; right; exact Hk').
  destruct k as [|i k]; [exfalso; apply (H []); [left; reflexivity| reflexivity]|]. simpl. ring.
Qed.
Lemma eval_zero_env (t : terms) : NoDup (map fst t) -> eval (fun _ => 0) t == get_sq t [].
Proof.
  unfold get_sq. induction t as [|[k v] t IH]; simpl; intros Hn; [reflexivity|]. inversion Hn as [|? ? Hk Hn']; subst.
  destruct k as [|i k].
  - simpl. rewrite eval_zero_nonempty; [ring|]. intros k' Hk' ->. apply Hk, Hk'.
  - cbn [key_eqb]. rewrite IH by exact Hn'. simpl. ring.
Qed.

Lemma special_eq_offset m P lam : ~ get_sq (tm P) [] == 0 -> special_eq m P lam = Ok None.
Proof.
  intros H. unfold special_eq.
  assert (E : qeq0 (get_sq (tm P) []) = false) by (destruct (qeq0 _) eqn:E; [apply qeq0_spec in E; contradiction| reflexivity]).
  rewrite E. destruct (tm P) as [|[k0 v0] [|[k1 v1] [|? ?]]]; reflexivity.
Qed.

Lemma add_eq_square m Pin lam m' w t : add_eq m Pin lam (None, None) = Ok (m', w, t) -> bkind (kd m) -> ~ lam == 0 ->
  (exists x, boolean_env x /\ eval x Pin < 0) -> (exists x, boolean_env x /\ 0 < eval x Pin) -> ~ eval (fun _ => 0) Pin == 0 ->
  step_ok m m' lam (fun x => eval x Pin * eval x Pin) /\ w = WNone.
Proof.
  intros H Hk Hlam (x1 & Hx1 & N1) (x2 & Hx2 & P2) Hoff. unfold add_eq in H.
  destruct (as_pubo Pin) as [P|] eqn:EP; cbn [bind] in H; [|discriminate].
  destruct (as_pubo_spec _ _ EP) as (KP & WP & VP).
  destruct (qeq0 lam) eqn:El; [apply qeq0_spec in El; contradiction|].
  assert (B0 : boolean_env (fun _ => 0)) by (intros i; left; reflexivity).
  assert (Hoff' : ~ get_sq (tm P) [] == 0).
  { rewrite <- (eval_zero_env (tm P)); [rewrite (VP _ B0); exact Hoff|]. exact (proj1 WP). }
  rewrite (special_eq_offset _ P lam Hoff') in H. cbn [bind] in H.
  destruct (eq_zero_core_square _ P lam m' w t H) as [S Hw].
  - exact Hk.
  - rewrite KP. apply bkind_pubo.
  - exists x1. split; [exact Hx1|]. rewrite (VP x1 Hx1). exact N1.
  - exists x2. split; [exact Hx2|]. rewrite (VP x2 Hx2). exact P2.
  - split; [|exact Hw]. intros x Hx. rewrite (S x Hx). cbv beta. rewrite (VP x Hx). reflexivity.
Qed.

(* the same on spins: PCSO.add_constraint_eq_zero(H, lam) adds exactly lam * H^2 when H takes both signs and H(+1,...,+1) <> 0 *)
Lemma pcso_eq_square m Hin lam lt m' w t : pcso_add REq m Hin lam lt (None, None) = Ok (m', w, t) -> is_spin (kd m) = true -> ~ lam == 0 ->
  (exists z, spin_env z /\ eval z Hin < 0) -> (exists z, spin_env z /\ 0 < eval z Hin) -> ~ eval (fun _ => 1) Hin == 0 ->
  forall z, spin_env z -> eval z (tm m') == eval z (tm m) + lam * (eval z Hin * eval z Hin).
Proof.
  intros Hc Hk Hlam (z1 & Hz1 & N1) (z2 & Hz2 & P2) Hoff z Hz. unfold pcso_add in Hc.
  destruct (m_create KPuso Hin) as [H|] eqn:EH; cbn [bind] in Hc; [|discriminate].
  set (m1 := append_constraint m REq (tm H)) in *.
  destruct (qeq0 lam) eqn:El; [apply qeq0_spec in El; contradiction|].
  destruct (puso_to_pubo (Some KPuso) (tm H)) as [Pb|] eqn:EPb; cbn [bind] in Hc; [|discriminate].
  destruct (add_constraint REq (with_anc empty_pcbo (anc m1)) (tm Pb) lam lt (None, None)) as [[[h w'] t']|] eqn:Eadd; cbn [bind] in Hc; [|discriminate].
  destruct (pubo_to_puso (Some KPcbo) (tm h)) as [S|] eqn:ES; cbn [bind] in Hc; [|discriminate].
  destruct (m_iadd (with_anc m1 (anc h)) (OModel S)) as [m2|] eqn:Em; cbn [bind] in Hc; [|discriminate].
  injection Hc as <- _ _.
  assert (VH : forall z0, spin_env z0 -> eval z0 (tm H) == eval z0 Hin).
  { intros z0 Hz0. destruct (m_create_eval z0 _ _ _ EH Hz0) as [A _]. exact A. }
  assert (VPb : forall x, boolean_env x -> eval x (tm Pb) == eval (b2s x) Hin).
  { intros x Hx. destruct (puso_to_pubo_sound _ _ _ x EPb Hx) as [A _]. rewrite A. apply VH, b2s_spin, Hx. }
  assert (Hback : forall z0, spin_env z0 -> eval (s2b z0) (tm Pb) == eval z0 Hin).
  { intros z0 Hz0. rewrite (VPb _ (s2b_bool z0 Hz0)). apply eval_b2s_s2b. }
  cbn [add_constraint] in Eadd.
  destruct (add_eq_square _ _ _ _ _ _ Eadd bkind_pcbo Hlam) as [Sb _].
  - exists (s2b z1). split; [apply s2b_bool, Hz1|]. rewrite (Hback z1 Hz1). exact N1.
  - exists (s2b z2). split; [apply s2b_bool, Hz2|]. rewrite (Hback z2 Hz2). exact P2.
  - assert (B0 : boolean_env (fun _ => 0)) by (intros i; left; reflexivity). rewrite (VPb _ B0).
    assert (E : eval (b2s (fun _ => 0)) Hin == eval (fun _ => 1) Hin).
    { apply eval_ext_in. intros k v i _ _. unfold b2s. ring. }
    rewrite E. exact Hoff.
  - destruct (m_iadd_eval z _ _ _ Em) as [A _].
    { unfold good_env. simpl. destruct (kd m); simpl in Hk; try discriminate; exact Hz. }
    rewrite A. cbn [operand_eval tm with_anc m1 append_constraint with_cons].
    destruct (pubo_to_puso_sound _ _ _ z ES Hz) as [A2 _]. rewrite A2.
    rewrite (Sb (s2b z) (s2b_bool z Hz)). cbv beta. rewrite (Hback z Hz). cbn [tm with_anc empty_pcbo empty_model eval]. ring.
Qed.

(* ---- GraphPartitioning.to_quso ---- *)
From QV.Proofs Require Import SetCoverProofs.

Definition gp_S (N : nat) (z : env) : Q := lsum (fun i => z i) (seq 0 N).
Fixpoint esum (g : nat * nat * Q -> Q) (edges : list (nat * nat * Q)) : Q :=
  match edges with [] => 0 | e :: r => g e + esum g r end.
Definition gp_cut (z : env) (edges : list (nat * nat * Q)) : Q := esum (fun '(u, v, w) => w * (1 - z u * z v) / 2) edges.

Lemma eval_singletons z l : eval z (map (fun i : nat => ([i], 1)) l) == lsum (fun i => z i) l.
Proof. induction l as [|i l IH]; simpl; [reflexivity|]. rewrite IH. ring. Qed.
Lemma lsum_constQ (c : Q) l : lsum (fun _ => c) l == nQ (length l) * c.
Proof. apply lsum_const. Qed.
Lemma fold_qplus' l : forall a, fold_left Qplus l a == a + fold_right Qplus 0 l.
Proof. induction l as [|x l IH]; simpl; intros a; [ring|]. rewrite IH. ring. Qed.
Lemma nQ_pos n : (1 <= n)%nat -> 0 < nQ n.
Proof. intros H. pose proof (nQ_ge1 n H). lra. Qed.

Lemma gp_cut_terms z (B : Q) (edges : list (nat * nat * Q)) :
  B * (0 + fold_right Qplus 0 (map snd edges)) / 2
  + eval z (map (fun '(u, v, w0) => ([u; v], - (w0 * B / 2))) edges) == B * gp_cut z edges.
Proof.
  unfold gp_cut. induction edges as [|[[u v] w0] edges IH]; [simpl; field|]. cbn [map fold_right snd eval mon esum].
  transitivity (B * (w0 * (1 - z u * z v) / 2) + B * esum (fun '(u0, v0, w1) => w1 * (1 - z u0 * z v0) / 2) edges); [|ring].
  rewrite <- IH. field.
Qed.

Theorem gp_value N edges A B Hf : gp_to_quso N edges A B = Ok Hf -> (1 <= N)%nat -> ~ A == 0 ->
  forall z, spin_env z -> eval z (tm Hf) == A * (gp_S N z * gp_S N z) + B * gp_cut z edges.
Proof.
  unfold gp_to_quso, add_items. intros H HN HA z Hz.
  destruct (pcso_add REq (empty_model KPcso) _ A true (None, None)) as [[[C w] t]|] eqn:EC; cbn [bind] in H; [|discriminate].
  destruct (m_iadd (empty_model KQusoM) (OModel C)) as [L1|] eqn:E1; cbn [bind] in H; [|discriminate].
  destruct (m_iadd L1 (OScalar _)) as [L2|] eqn:E2; cbn [bind] in H; [|discriminate].
  assert (S1 : spin_env (fun _ => 1)) by (intros i; left; reflexivity).
  assert (Sm : spin_env (fun _ => -(1))) by (intros i; right; reflexivity).
  assert (Hc : forall c : Q, eval (fun _ => c) (map (fun i : nat => ([i], 1)) (seq 0 N)) == nQ N * c).
  { intros c. rewrite eval_singletons, lsum_constQ, seq_length. reflexivity. }
  pose proof (nQ_pos N HN) as HNp.
  pose proof (pcso_eq_square _ _ _ _ _ _ _ EC eq_refl HA) as VC.
  specialize (VC ltac:(exists (fun _ => -(1)); split; [exact Sm| rewrite Hc; lra])
                 ltac:(exists (fun _ => 1); split; [exact S1| rewrite Hc; lra])
                 ltac:(rewrite Hc; lra) z Hz).
  assert (K1 : kd L1 = KQusoM) by (destruct (m_iadd_eval _ _ _ _ E1 S1) as [_ K]; exact K).
  assert (K2 : kd L2 = KQusoM) by (destruct (m_iadd_eval (fun _ => 1) _ _ _ E2) as [_ K]; [rewrite K1; exact S1| congruence]).
  destruct (m_addall_eval z _ _ _ H) as [A3 _]; [rewrite K2; exact Hz|].
  destruct (m_iadd_eval z _ _ _ E2) as [A2 _]; [rewrite K1; exact Hz|].
  destruct (m_iadd_eval z _ _ _ E1) as [A1 _]; [exact Hz|].
  rewrite A3, A2, A1. cbn [operand_eval tm empty_model eval]. rewrite VC. cbn [tm empty_model eval].
  rewrite eval_singletons. fold (gp_S N z). rewrite fold_qplus'.
  pose proof (gp_cut_terms z B edges) as G.
  rewrite <- G. ring.
Qed.

(* ================= ground states ================= *)
Definition flipv (z : env) (v : nat) : env := fun i => if (i =? v)%nat then - z i else z i.
Lemma flipv_spin z v : spin_env z -> spin_env (flipv z v).
Proof. intros Hz i. unfold flipv. destruct (i =? v)%nat; [|apply Hz]. destruct (Hz i) as [E|E]; rewrite E; [right| left]; ring. Qed.

Lemma lsum_flip z v l : NoDup l -> In v l -> lsum (fun i => flipv z v i) l == lsum (fun i => z i) l - 2 * z v.
Proof.
  induction l as [|a l IH]; intros Hn Hin; [destruct Hin|]. inversion Hn as [|? ? Hna Hn']; subst. cbn [lsum]. unfold flipv at 1.
  destruct (Nat.eqb_spec a v) as [->|Hne].
  - rewrite (lsum_ext (fun i => flipv z v i) (fun i => z i) l); [ring|].
    intros b Hb. unfold flipv. destruct (Nat.eqb_spec b v) as [->|_]; [contradiction| reflexivity].
  - destruct Hin as [->|Hin]; [congruence|]. rewrite (IH Hn' Hin). ring.
Qed.
Lemma gp_S_flip N z v : (v < N)%nat -> gp_S N (flipv z v) == gp_S N z - 2 * z v.
Proof. intros H. unfold gp_S. apply lsum_flip; [apply seq_NoDup| apply in_seq; lia]. Qed.

(* change of the cut when v changes side: the edges at v, counted + when the other end was on v's side *)
Definition dcut (z : env) (v : nat) (edges : list (nat * nat * Q)) : Q :=
  esum (fun '(u, v0, w) => if (u =? v)%nat then w * (z u * z v0) else if (v0 =? v)%nat then w * (z u * z v0) else 0) edges.
Definition no_loops (edges : list (nat * nat * Q)) : Prop := forall u v w, In (u, v, w) edges -> u <> v.

Lemma cut_flip z v edges : no_loops edges -> gp_cut (flipv z v) edges == gp_cut z edges + dcut z v edges.
Proof.
  unfold gp_cut, dcut. induction edges as [|[[u v0] w] edges IH]; intros Hl; [simpl; ring|]. cbn [esum].
  rewrite IH by (intros a b c Hin; apply (Hl a b c); right; exact Hin).
  pose proof (Hl u v0 w (or_introl eq_refl)) as Hne. unfold flipv.
  destruct (Nat.eqb_spec u v) as [->|H1]; destruct (Nat.eqb_spec v0 v) as [->|H2]; try congruence; field.
Qed.

Definition same_side (z : env) (a b : nat) : bool := Qeq_bool (z a * z b) 1.
Definition others (z : env) (v : nat) (edges : list (nat * nat * Q)) : list nat :=
  flat_map (fun '(u, v0, w) => if (u =? v)%nat then (if same_side z u v0 then [v0] else [])
                               else if (v0 =? v)%nat then (if same_side z u v0 then [u] else []) else []) edges.
Definition weights01 (edges : list (nat * nat * Q)) : Prop := forall u v w, In (u, v, w) edges -> 0 <= w /\ w <= 1.

Lemma spin_prod z a b : spin_env z -> z a * z b == 1 \/ z a * z b == -(1).
Proof. intros Hz. destruct (Hz a) as [E1|E1], (Hz b) as [E2|E2]; rewrite E1, E2; [left|right|right|left]; ring. Qed.

Lemma nQ0 : nQ 0 == 0. Proof. reflexivity. Qed.
Lemma nQ1 : nQ 1 == 1. Proof. reflexivity. Qed.

Lemma dcut_le z v edges : spin_env z -> weights01 edges -> dcut z v edges <= nQ (length (others z v edges)).
Proof.
  intros Hz. unfold dcut, others. induction edges as [|[[u v0] w] edges IH]; intros Hw; [cbn [esum flat_map length]; rewrite nQ0; lra|].
  cbn [esum flat_map]. rewrite app_length, nQ_add.
  assert (IH' := IH (fun a b c Hin => Hw a b c (or_intror Hin))). destruct (Hw u v0 w (or_introl eq_refl)) as [W0 W1].
  assert (T : forall b : bool, (if b then w * (z u * z v0) else 0) <= nQ (length (if b then (if same_side z u v0 then [v0] else []) else (@nil nat)))
              /\ (if b then w * (z u * z v0) else 0) <= nQ (length (if b then (if same_side z u v0 then [u] else []) else (@nil nat)))).
  { intros b. destruct b; [|split; cbn [length]; rewrite nQ0; lra]. unfold same_side.
    destruct (spin_prod z u v0 Hz) as [E|E].
    - assert (Q1 : Qeq_bool (z u * z v0) 1 = true) by (apply Qeq_bool_iff; exact E). rewrite Q1, E. split; cbn [length]; rewrite nQ1; lra.
    - assert (Q1 : Qeq_bool (z u * z v0) 1 = false).
      { destruct (Qeq_bool (z u * z v0) 1) eqn:Eq; [apply Qeq_bool_iff in Eq; rewrite E in Eq; discriminate| reflexivity]. }
      rewrite Q1, E. split; cbn [length]; rewrite nQ0; lra. }
  destruct (u =? v)%nat.
  - destruct (T true) as [T1 _]. cbn [length] in *. lra.
  - destruct (v0 =? v)%nat.
    + destruct (T true) as [_ T2]. lra.
    + cbn [length]. rewrite nQ0. lra.
Qed.

(* the other ends listed are ends of edges at v on v's side *)
Lemma others_In z v edges o : In o (others z v edges) ->
  exists u v0 w, In (u, v0, w) edges /\ same_side z u v0 = true /\ ((u = v /\ v0 = o) \/ (v0 = v /\ u = o /\ u <> v)).
Proof.
  unfold others. induction edges as [|[[u v0] w] edges IH]; [intros []|]. cbn [flat_map]. intros H. apply in_app_or in H.
  destruct H as [H|H].
  - destruct (Nat.eqb_spec u v) as [->|Hne].
    + destruct (same_side z v v0) eqn:Es; [|destruct H]. destruct H as [<-|[]]. exists v, v0, w. split; [left; reflexivity|]. split; [exact Es| left; auto].
    + destruct (Nat.eqb_spec v0 v) as [->|_]; [|destruct H].
      destruct (same_side z u v) eqn:Es; [|destruct H]. destruct H as [<-|[]]. exists u, v, w. split; [left; reflexivity|]. split; [exact Es| right; auto].
  - destruct (IH H) as (a & b & c & Hin & Hs & Hc). exists a, b, c. split; [right; exact Hin| auto].
Qed.

(* degree *)
Definition strip (edges : list (nat * nat * Q)) : list (nat * nat) := map (fun '(u, v, _) => (u, v)) edges.
Definition labs_of (es : list (nat * nat)) : list nat := flat_map (fun '(u, v) => [u; v]) es.
Lemma fold_max_ge l : forall a x, (In x l \/ x <= a)%nat -> (x <= fold_left Nat.max l a)%nat.
Proof.
  induction l as [|y l IH]; simpl; intros a x H; [destruct H as [[]|H]; exact H|].
  apply IH. destruct H as [[<-|H]|H]; [right; lia| left; exact H| right; lia].
Qed.
Lemma count_le_degree es v : (length (filter (Nat.eqb v) (labs_of es)) <= gp_degree es)%nat.
Proof.
  unfold gp_degree. fold (labs_of es). set (L := labs_of es).
  destruct (filter (Nat.eqb v) L) as [|x r] eqn:E; [simpl; lia|].
  assert (Hin : In v L).
  { assert (Hx : In x (filter (Nat.eqb v) L)) by (rewrite E; left; reflexivity). apply filter_In in Hx.
    destruct Hx as [Hx Hv]. apply Nat.eqb_eq in Hv. subst x. exact Hx. }
  rewrite <- E. apply fold_max_ge. left. apply in_map_iff. exists v. split; [reflexivity| exact Hin].
Qed.
Lemma others_le_count z v edges : no_loops edges -> (length (others z v edges) <= length (filter (Nat.eqb v) (labs_of (strip edges))))%nat.
Proof.
  unfold others, labs_of, strip. induction edges as [|[[u v0] w] edges IH]; intros Hl; [simpl; lia|].
  cbn [flat_map map]. rewrite app_length. cbn [app filter]. specialize (IH (fun a b c Hin => Hl a b c (or_intror Hin))).
  pose proof (Hl u v0 w (or_introl eq_refl)) as Hne.
  destruct (Nat.eqb_spec u v) as [->|H1].
  - rewrite Nat.eqb_refl. destruct (Nat.eqb_spec v v0); [congruence|]. destruct (same_side z v v0); simpl; lia.
  - destruct (Nat.eqb_spec v u); [congruence|]. destruct (Nat.eqb_spec v0 v) as [->|H2].
    + rewrite Nat.eqb_refl. destruct (same_side z u v); simpl; lia.
    + destruct (Nat.eqb_spec v v0); [congruence|]. simpl. lia.
Qed.

(* simple graph: no loops, no two edges between the same pair of vertices, ends below N *)
Definition norm_pair (e : nat * nat * Q) : nat * nat := let '(u, v, _) := e in (Nat.min u v, Nat.max u v).
Definition simple (N : nat) (edges : list (nat * nat * Q)) : Prop :=
  no_loops edges /\ NoDup (map norm_pair edges) /\ forall u v w, In (u, v, w) edges -> (u < N /\ v < N)%nat.

Lemma others_NoDup z v edges : no_loops edges -> NoDup (map norm_pair edges) -> NoDup (others z v edges).
Proof.
  induction edges as [|[[u v0] w] edges IH]; intros Hl Hn; [constructor|]. cbn [map] in Hn. inversion Hn as [|? ? Hnotin Hn']; subst.
  assert (IH' := IH (fun a b c Hin => Hl a b c (or_intror Hin)) Hn').
  assert (Hfresh : forall o, ((u = v /\ v0 = o) \/ (v0 = v /\ u = o)) -> ~ In o (others z v edges)).
  { intros o Ho Hin. destruct (others_In z v edges o Hin) as (a & b & c & Hin' & _ & Hc). apply Hnotin.
    apply in_map_iff. exists (a, b, c). split; [|exact Hin']. unfold norm_pair.
    destruct Ho as [[-> <-]|[-> <-]]; destruct Hc as [[-> ->]|(-> & -> & _)]; f_equal; lia. }
  unfold others. cbn [flat_map]. fold (others z v edges).
  destruct (Nat.eqb_spec u v) as [->|H1].
  - destruct (same_side z v v0); [|exact IH']. cbn [app]. constructor; [apply Hfresh; left; auto| exact IH'].
  - destruct (Nat.eqb_spec v0 v) as [->|H2]; [|exact IH'].
    destruct (same_side z u v); [|exact IH']. cbn [app]. constructor; [apply Hfresh; right; auto| exact IH'].
Qed.

Definition plusb (z : env) (i : nat) : bool := Qeq_bool (z i) 1.
Definition nplus (N : nat) (z : env) : nat := length (filter (plusb z) (seq 0 N)).

Lemma lsum_spin z l : spin_env z -> lsum (fun i => z i) l == 2 * nQ (length (filter (plusb z) l)) - nQ (length l).
Proof.
  intros Hz. induction l as [|a l IH]; [cbn [lsum filter length]; rewrite nQ0; ring|]. cbn [lsum filter length]. unfold plusb at 1.
  destruct (Hz a) as [E|E].
  - assert (Q1 : Qeq_bool (z a) 1 = true) by (apply Qeq_bool_iff; exact E). rewrite Q1. cbn [length]. rewrite !nQ_S, IH, E. ring.
  - assert (Q1 : Qeq_bool (z a) 1 = false) by (destruct (Qeq_bool (z a) 1) eqn:Eq; [apply Qeq_bool_iff in Eq; rewrite E in Eq; discriminate| reflexivity]).
    rewrite Q1. rewrite nQ_S, IH, E. ring.
Qed.
Lemma gp_S_nplus N z : spin_env z -> gp_S N z == 2 * nQ (nplus N z) - nQ N.
Proof. intros Hz. unfold gp_S, nplus. rewrite (lsum_spin z _ Hz), seq_length. reflexivity. Qed.

Lemma filter_remove_one (f : nat -> bool) v l : NoDup l -> In v l -> f v = true ->
  length (filter (fun i => f i && negb (i =? v)%nat) l) = (length (filter f l) - 1)%nat.
Proof.
  induction l as [|a l IH]; intros Hn Hin Hf; [destruct Hin|]. inversion Hn as [|? ? Hna Hn']; subst. cbn [filter].
  destruct (Nat.eqb_spec a v) as [->|Hne].
  - rewrite Hf. cbn [andb negb length].
    assert (E : filter (fun i => f i && negb (i =? v)%nat) l = filter f l).
    { apply filter_ext_in. intros b Hb. destruct (Nat.eqb_spec b v) as [->|_]; [contradiction|]. rewrite andb_true_r. reflexivity. }
    rewrite E. lia.
  - destruct Hin as [->|Hin]; [congruence|]. rewrite andb_true_r. destruct (f a); cbn [length]; rewrite (IH Hn' Hin Hf); [|reflexivity].
    assert (In v (filter f l)) by (apply filter_In; auto). destruct (filter f l); [destruct H| simpl; lia].
Qed.

(* on a simple graph the edges at a + vertex v whose other end is + as well are fewer than the + vertices *)
Lemma others_le_plus N z v edges : spin_env z -> simple N edges -> (v < N)%nat -> z v == 1 ->
  (length (others z v edges) <= nplus N z - 1)%nat.
Proof.
  intros Hz (Hl & Hn & Hr) Hv Ev.
  assert (Pv : plusb z v = true) by (apply Qeq_bool_iff; exact Ev). unfold nplus.
  rewrite <- (filter_remove_one (plusb z) v (seq 0 N) (seq_NoDup N 0) ltac:(apply in_seq; lia) Pv).
  apply NoDup_incl_length; [apply others_NoDup; assumption|].
  intros o Ho. destruct (others_In z v edges o Ho) as (a & b & c & Hin & Hs & Hc). destruct (Hr a b c Hin) as [Ra Rb].
  pose proof (Hl a b c Hin) as Hab. unfold same_side in Hs. apply Qeq_bool_iff in Hs.
  apply filter_In. split.
  - apply in_seq. destruct Hc as [[-> <-]|(-> & <- & _)]; lia.
  - assert (Eo : z o == 1).
    { destruct Hc as [[-> <-]|(-> & <- & _)]; rewrite Ev in Hs; lra. }
    assert (Po : plusb z o = true) by (apply Qeq_bool_iff; exact Eo). rewrite Po. cbn [andb].
    destruct (Nat.eqb_spec o v) as [->|_]; [|reflexivity]. exfalso. destruct Hc as [[-> <-]|(-> & <- & Hne)]; congruence.
Qed.

Lemma nQ_le a b : (a <= b)%nat -> nQ a <= nQ b.
Proof. intros H. unfold nQ. rewrite <- Zle_Qle. lia. Qed.

(* with more + than - vertices, moving one + vertex to the other side lowers the energy *)
Lemma excess_flip N h edges A B Hf z : gp_to_quso N edges A B = Ok Hf -> N = (2 * h)%nat -> (1 <= h)%nat ->
  simple N edges -> weights01 edges -> 0 < B -> B * nQ (Nat.min (2 * gp_degree (strip edges)) N) / 8 < A ->
  spin_env z -> (h < nplus N z)%nat -> exists z', spin_env z' /\ eval z' (tm Hf) < eval z (tm Hf).
Proof.
  intros H HN Hh Hs Hw HB HA Hz Hex.
  set (D := gp_degree (strip edges)) in *. set (M := Nat.min (2 * D) N) in *.
  assert (HBM : 0 <= B * nQ M) by (pose proof (nQ_nonneg M); nra).
  assert (HA8 : B * nQ M < 8 * A).
  { assert (E8 : B * nQ M == 8 * (B * nQ M / 8)) by field. rewrite E8. lra. }
  assert (HA0 : 0 < A) by lra.
  assert (HAne : ~ A == 0) by lra.
  (* a + vertex *)
  unfold nplus in Hex. destruct (filter (plusb z) (seq 0 N)) as [|v r] eqn:EF; [simpl in Hex; lia|].
  assert (Hv : In v (filter (plusb z) (seq 0 N))) by (rewrite EF; left; reflexivity).
  apply filter_In in Hv. destruct Hv as [Hv Pv]. apply in_seq in Hv. apply Qeq_bool_iff in Pv.
  assert (EN : nplus N z = length (v :: r)) by (unfold nplus; rewrite EF; reflexivity). rewrite <- EN in Hex.
  exists (flipv z v). split; [apply flipv_spin, Hz|].
  rewrite (gp_value _ _ _ _ _ H ltac:(lia) HAne _ (flipv_spin z v Hz)), (gp_value _ _ _ _ _ H ltac:(lia) HAne z Hz).
  rewrite (gp_S_flip N z v ltac:(lia)), (cut_flip z v edges (proj1 Hs)), Pv, (gp_S_nplus N z Hz).
  pose proof (dcut_le z v edges Hz Hw) as D1.
  set (L := length (others z v edges)) in *.
  assert (L1 : (L <= D)%nat).
  { unfold L, D. eapply Nat.le_trans; [apply others_le_count, (proj1 Hs)| apply count_le_degree]. }
  assert (L2 : (L <= nplus N z - 1)%nat) by (apply (others_le_plus N z v edges Hz Hs ltac:(lia) Pv)).
  set (n := nplus N z) in *.
  assert (Hk : exists k, (1 <= k)%nat /\ n = (h + k)%nat) by (exists (n - h)%nat; lia). destruct Hk as (k & Hk1 & Hnk).
  assert (Fnat : (2 * L + M <= 2 * M * k)%nat) by (unfold M; rewrite HN in *; nia).
  pose proof (nQ_le _ _ Fnat) as FQ. rewrite !nQ_add, !nQ_mul in FQ. change (nQ 2) with 2 in FQ.
  assert (EQn : nQ n == nQ h + nQ k) by (rewrite Hnk, nQ_add; reflexivity).
  assert (EQN : nQ N == 2 * nQ h) by (rewrite HN, nQ_mul; reflexivity).
  pose proof (nQ_ge1 k Hk1) as K1. pose proof (nQ_nonneg M) as M0. pose proof (nQ_nonneg L) as L0.
  rewrite EQn, EQN.
  assert (Key : B * nQ L < 4 * A * (2 * nQ k - 1)).
  { assert (T1 : B * nQ M * (2 * nQ k - 1) <= 8 * A * (2 * nQ k - 1)) by nra.
    assert (T2 : 2 * (B * nQ L) <= B * nQ M * (2 * nQ k - 1)) by nra.
    assert (T3 : B * nQ M * (2 * nQ k - 1) < 8 * A * (2 * nQ k - 1) \/ nQ M == 0).
    { destruct (Qlt_le_dec 0 (nQ M)) as [Mp|Mz]; [left; nra| right; lra]. }
    destruct T3 as [T3|T3]; [lra|]. rewrite T3 in T2. nra. }
  nra.
Qed.

Definition negz (z : env) : env := fun i => - z i.
Lemma negz_spin z : spin_env z -> spin_env (negz z).
Proof. intros Hz i. unfold negz. destruct (Hz i) as [E|E]; rewrite E; [right| left]; ring. Qed.
Lemma gp_S_neg N z : gp_S N (negz z) == - gp_S N z.
Proof. unfold gp_S, negz. induction (seq 0 N) as [|a l IH]; simpl; [ring|]. rewrite IH. ring. Qed.
Lemma gp_cut_neg z edges : gp_cut (negz z) edges == gp_cut z edges.
Proof. unfold gp_cut, negz. induction edges as [|[[u v] w] edges IH]; simpl; [reflexivity|]. rewrite IH. field. Qed.
Lemma nQ_inj a b : nQ a == nQ b -> a = b.
Proof. unfold nQ. intros H. unfold Qeq in H. simpl in H. lia. Qed.
Lemma nplus_neg N z : spin_env z -> (nplus N (negz z) + nplus N z = N)%nat.
Proof.
  intros Hz. apply nQ_inj. rewrite nQ_add.
  pose proof (gp_S_nplus N z Hz) as E1. pose proof (gp_S_nplus N (negz z) (negz_spin z Hz)) as E2. rewrite gp_S_neg in E2. lra.
Qed.

Theorem gp_ground N h edges A B Hf z : gp_to_quso N edges A B = Ok Hf -> N = (2 * h)%nat -> (1 <= h)%nat ->
  simple N edges -> weights01 edges -> 0 < B -> B * nQ (Nat.min (2 * gp_degree (strip edges)) N) / 8 < A ->
  spin_env z -> (forall z', spin_env z' -> eval z (tm Hf) <= eval z' (tm Hf)) ->
  gp_S N z == 0 /\ eval z (tm Hf) == B * gp_cut z edges
  /\ forall z', spin_env z' -> gp_S N z' == 0 -> gp_cut z edges <= gp_cut z' edges.
Proof.
  intros H HN Hh Hs Hw HB HA Hz Hmin.
  assert (HAne : ~ A == 0).
  { pose proof (nQ_nonneg (Nat.min (2 * gp_degree (strip edges)) N)) as M0.
    assert (E8 : B * nQ (Nat.min (2 * gp_degree (strip edges)) N) == 8 * (B * nQ (Nat.min (2 * gp_degree (strip edges)) N) / 8)) by field. nra. }
  assert (V : forall z0, spin_env z0 -> eval z0 (tm Hf) == A * (gp_S N z0 * gp_S N z0) + B * gp_cut z0 edges)
    by (intros z0 Hz0; apply (gp_value _ _ _ _ _ H ltac:(lia) HAne z0 Hz0)).
  assert (U1 : (nplus N z <= h)%nat).
  { destruct (le_lt_dec (nplus N z) h) as [Hle|Hgt]; [exact Hle|]. exfalso.
    destruct (excess_flip N h edges A B Hf z H HN Hh Hs Hw HB HA Hz Hgt) as (z' & Hz' & Hlt). specialize (Hmin z' Hz'). lra. }
  assert (Eneg : eval (negz z) (tm Hf) == eval z (tm Hf)).
  { rewrite (V _ (negz_spin z Hz)), (V z Hz), gp_S_neg, gp_cut_neg. ring. }
  assert (U2 : (nplus N (negz z) <= h)%nat).
  { destruct (le_lt_dec (nplus N (negz z)) h) as [Hle|Hgt]; [exact Hle|]. exfalso.
    destruct (excess_flip N h edges A B Hf (negz z) H HN Hh Hs Hw HB HA (negz_spin z Hz) Hgt) as (z' & Hz' & Hlt).
    specialize (Hmin z' Hz'). lra. }
  pose proof (nplus_neg N z Hz) as U3.
  assert (En : nplus N z = h) by lia.
  assert (S0 : gp_S N z == 0).
  { rewrite (gp_S_nplus N z Hz), En, HN, nQ_mul. change (nQ 2) with 2. ring. }
  split; [exact S0|]. split; [rewrite (V z Hz), S0; ring|].
  intros z' Hz' S0'. specialize (Hmin z' Hz'). rewrite (V z Hz), (V z' Hz'), S0, S0' in Hmin. nra.
Qed.

(* a balanced assignment exists (so the statement is not empty): the first h vertices on one side *)
Example gp_balanced_exists h : exists z, spin_env z /\ gp_S (2 * h) z == 0.
Proof.
  exists (fun i => if (i <? h)%nat then 1 else -(1)). split; [intros i; destruct (i <? h)%nat; [left| right]; reflexivity|].
  unfold gp_S. replace (2 * h)%nat with (h + h)%nat by lia. rewrite seq_app, lsum_app.
  rewrite (lsum_ext _ (fun _ => 1) (seq 0 h)) by (intros a Ha; apply in_seq in Ha; destruct (Nat.ltb_spec a h); [reflexivity| lia]).
  rewrite (lsum_ext _ (fun _ => -(1)) (seq (0 + h) h)) by (intros a Ha; apply in_seq in Ha; destruct (Nat.ltb_spec a h); [lia| reflexivity]).
  rewrite !lsum_const, !seq_length. ring.
Qed.
