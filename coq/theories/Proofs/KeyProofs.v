(* squashed keys are strictly sorted; squashing is idempotent; the squash of
   each kind preserves the monomial under the kind's environment *)
From QV.Model Require Import Base.
From QV.Proofs Require Import BaseProofs.
From Coq Require Import Lia Lqa.
Open Scope Q_scope.

Definition lb (x : label) (k : key) : Prop := match k with [] => True | y :: _ => (x < y)%nat end.
Fixpoint ssorted (k : key) : Prop := match k with [] => True | x :: k' => lb x k' /\ ssorted k' end.

Lemma ins_lb z x k : (z < x)%nat -> lb z k -> lb z (ins x k).
Proof.
  destruct k as [|y k]; simpl; [lia|]. intros Hz Hl.
  destruct (x <? y)%nat; [simpl; lia|]. destruct (x =? y)%nat; simpl; lia.
Qed.
Lemma ins_ssorted x k : ssorted k -> ssorted (ins x k).
Proof.
  induction k as [|y k IH]; simpl; [tauto|]. intros [Hl Hs].
  destruct (x <? y)%nat eqn:Hlt.
  - apply Nat.ltb_lt in Hlt. simpl. tauto.
  - destruct (x =? y)%nat eqn:Heq; [simpl; tauto|].
    apply Nat.ltb_ge in Hlt. apply Nat.eqb_neq in Heq. simpl. split; [|apply IH, Hs].
    apply ins_lb; [lia| exact Hl].
Qed.
Lemma squashB_ssorted k : ssorted (squashB k).
Proof. induction k as [|x k IH]; simpl; [exact I|]. apply ins_ssorted, IH. Qed.

Lemma ins_head x k : lb x k -> ins x k = x :: k.
Proof.
  destruct k as [|y k]; simpl; [reflexivity|]. intros H.
  assert ((x <? y)%nat = true) as -> by (apply Nat.ltb_lt; exact H). reflexivity.
Qed.
Lemma squashB_fix k : ssorted k -> squashB k = k.
Proof.
  induction k as [|x k IH]; simpl; [reflexivity|]. intros [Hl Hs].
  unfold squashB in *. simpl. rewrite (IH Hs). apply ins_head, Hl.
Qed.
Lemma squashB_idem k : squashB (squashB k) = squashB k.
Proof. apply squashB_fix, squashB_ssorted. Qed.

Lemma tog_lb z x k : (z < x)%nat -> ssorted k -> lb z k -> lb z (tog x k).
Proof.
  destruct k as [|y k]; simpl; [lia|]. intros Hz [Hl Hs] Hzy.
  destruct (x <? y)%nat; [simpl; lia|]. destruct (x =? y)%nat; [|simpl; lia].
  destruct k as [|w k]; simpl in *; lia.
Qed.
Lemma tog_ssorted x k : ssorted k -> ssorted (tog x k).
Proof.
  induction k as [|y k IH]; simpl; [tauto|]. intros [Hl Hs].
  destruct (x <? y)%nat eqn:Hlt.
  - apply Nat.ltb_lt in Hlt. simpl. tauto.
  - destruct (x =? y)%nat eqn:Heq; [exact Hs|].
    apply Nat.ltb_ge in Hlt. apply Nat.eqb_neq in Heq. simpl. split; [|apply IH, Hs].
    apply tog_lb; [lia| exact Hs| exact Hl].
Qed.
Lemma squashS_ssorted k : ssorted (squashS k).
Proof. induction k as [|x k IH]; simpl; [exact I|]. apply tog_ssorted, IH. Qed.
Lemma tog_head x k : lb x k -> tog x k = x :: k.
Proof.
  destruct k as [|y k]; simpl; [reflexivity|]. intros H.
  assert ((x <? y)%nat = true) as -> by (apply Nat.ltb_lt; exact H). reflexivity.
Qed.
Lemma squashS_fix k : ssorted k -> squashS k = k.
Proof.
  induction k as [|x k IH]; simpl; [reflexivity|]. intros [Hl Hs].
  unfold squashS in *. simpl. rewrite (IH Hs). apply tog_head, Hl.
Qed.
Lemma squashS_idem k : squashS (squashS k) = squashS k.
Proof. apply squashS_fix, squashS_ssorted. Qed.

(* the environment each kind is evaluated under *)
Definition good_env (kd : kind) (e : env) : Prop :=
  match kd with
  | KDict => True
  | _ => if is_spin kd then spin_env e else boolean_env e
  end.

Lemma squash_mon kd k k' e : squash kd k = Ok k' -> good_env kd e -> mon e k' == mon e k.
Proof.
  unfold squash, good_env. destruct kd; simpl;
    try (intros [= <-] _; reflexivity);
    try (destruct (2 <? _)%nat; [discriminate|]);
    intros [= <-] He; first [apply mon_squashB, He | apply mon_squashS, He].
Qed.

Lemma squash_idem kd k k' : squash kd k = Ok k' -> squash kd k' = Ok k'.
Proof.
  unfold squash. destruct kd; simpl;
    try (intros [= <-]; reflexivity);
    try (destruct (2 <? _)%nat eqn:Hl; [discriminate|]);
    intros [= <-]; rewrite ?squashB_idem, ?squashS_idem, ?Hl; reflexivity.
Qed.

Lemma squash_kd_ssorted kd k k' : kd <> KDict -> squash kd k = Ok k' -> ssorted k'.
Proof.
  unfold squash. destruct kd; simpl; try congruence; intros _;
    try (destruct (2 <? _)%nat; [discriminate|]);
    intros [= <-]; first [apply squashB_ssorted | apply squashS_ssorted].
Qed.

Lemma squash_quadratic kd k k' : is_quadratic kd = true -> squash kd k = Ok k' -> (length k' <= 2)%nat.
Proof.
  unfold squash. destruct kd; simpl; try discriminate; intros _;
    destruct (2 <? _)%nat eqn:Hl; try discriminate; intros [= <-]; apply Nat.ltb_ge in Hl; exact Hl.
Qed.
