(* C01: degree reduction (PUBO._reduce_degree and the to_* methods built on it) *)
From QV.Model Require Import Base Matrix Arith Convert Reduce.
From QV.Proofs Require Import BaseProofs KeyProofs ArithProofs InvProofs RefreshProofs ConvertProofs PenaltyArith.
From Coq Require Import Lia Lqa.
Open Scope Q_scope.

(* the AND gadget 3z + xy - 2xz - 2yz *)
Definition gad (s : env) (z x y : nat) : Q := 3 * s z + s x * s y - 2 * s x * s z - 2 * s y * s z.

Lemma gadget_eval s z x y l : eval s (gadget z x y l) == l * gad s z x y.
Proof.
  unfold gadget, gad. destruct (qzero l) eqn:E.
  - apply qzero_spec in E. simpl. rewrite E. ring.
  - simpl. ring.
Qed.

Lemma gad_facts s z x y : boolean_env s ->
  0 <= gad s z x y /\ (s z == s x * s y -> gad s z x y == 0) /\ (~ s z == s x * s y -> 1 <= gad s z x y).
Proof.
  intros Hs. destruct (and_gadget_facts (s z) (s x) (s y) (Hs z) (Hs x) (Hs y)) as (A & B & C0).
  assert (E : gad s z x y == 3 * s z + s x * s y - 2 * s z * (s x + s y)) by (unfold gad; ring).
  rewrite E. auto.
Qed.

(* ---- keys ---- *)
Lemma mon_ins_sorted s z k : mon s (ins_sorted z k) == s z * mon s k.
Proof.
  induction k as [|i k IH]; simpl; [reflexivity|].
  destruct (z <? i)%nat; simpl; [reflexivity|]. rewrite IH. ring.
Qed.
Lemma mon_filter_in s x k : boolean_env s -> In x k ->
  mon s k == s x * mon s (filter (fun i => negb (Nat.eqb i x)) k).
Proof.
  intros Hs. induction k as [|i k IH]; simpl; intros Hin; [destruct Hin|].
  destruct (Nat.eqb_spec i x) as [->|Hne]; simpl.
  - destruct (in_dec Nat.eq_dec x k) as [Hi|Hn].
    + rewrite (IH Hi). rewrite Qmult_assoc, (bool_idem s x Hs). reflexivity.
    + assert (F : filter (fun i => negb (Nat.eqb i x)) k = k).
      { clear IH Hin. induction k as [|j k IH]; simpl; [reflexivity|].
        destruct (Nat.eqb_spec j x) as [->|Hj]; simpl; [exfalso; apply Hn; left; reflexivity|].
        rewrite IH; [reflexivity| intros H; apply Hn; right; exact H]. }
      rewrite F. reflexivity.
  - destruct Hin as [->|Hin]; [contradiction|]. rewrite (IH Hin). ring.
Qed.
Lemma filter_pair_split (k : key) x y :
  filter (fun i => negb (Nat.eqb i x || Nat.eqb i y)) k
  = filter (fun i => negb (Nat.eqb i y)) (filter (fun i => negb (Nat.eqb i x)) k).
Proof.
  induction k as [|i k IH]; simpl; [reflexivity|].
  destruct (Nat.eqb i x); simpl; [exact IH|]. destruct (Nat.eqb i y); simpl; [exact IH| rewrite IH; reflexivity].
Qed.

(* removing x and y from a key that contains both *)
Lemma mon_remove_pair s x y k : boolean_env s -> In x k -> In y k ->
  mon s k == s x * s y * mon s (filter (fun i => negb (Nat.eqb i x || Nat.eqb i y)) k).
Proof.
  intros Hs Hx Hy. rewrite filter_pair_split. rewrite (mon_filter_in s x k Hs Hx).
  destruct (Nat.eq_dec x y) as [->|Hne].
  - (* the same label twice: x*x = x *)
    assert (F : forall l, filter (fun i => negb (Nat.eqb i y)) (filter (fun i => negb (Nat.eqb i y)) l) = filter (fun i => negb (Nat.eqb i y)) l).
    { induction l as [|j l IH]; simpl; [reflexivity|]. destruct (Nat.eqb j y) eqn:E; simpl; [exact IH|]. rewrite E. simpl. rewrite IH. reflexivity. }
    rewrite F, (bool_idem s y Hs). reflexivity.
  - assert (Hy' : In y (filter (fun i => negb (Nat.eqb i x)) k)).
    { apply filter_In. split; [exact Hy|]. destruct (Nat.eqb_spec y x); [congruence| reflexivity]. }
    rewrite (mon_filter_in s y _ Hs Hy'). ring.
Qed.

Lemma replace_pair_mon s k x y z : boolean_env s -> In x k -> In y k ->
  exists R, is_bool R /\ mon s k == s x * s y * R /\ mon s (replace_pair k x y z) == s z * R.
Proof.
  intros Hs Hx Hy. exists (mon s (filter (fun i => negb (Nat.eqb i x || Nat.eqb i y)) k)).
  split; [apply mon_is_bool, Hs|]. split; [apply mon_remove_pair; assumption|].
  unfold replace_pair. apply mon_ins_sorted.
Qed.

(* one substitution step, whatever the ancilla holds *)
Lemma step_ineq a b c R v lam : is_bool a -> is_bool b -> is_bool c -> is_bool R -> Qabs v <= lam ->
  v * (b * c * R) <= v * (a * R) + lam * (3 * a + b * c - 2 * b * a - 2 * c * a).
Proof.
  intros Ha Hb Hc HR Hv.
  assert (H1 : v <= lam) by (eapply Qle_trans; [apply Qle_Qabs| exact Hv]).
  assert (H2 : - v <= lam) by (eapply Qle_trans; [|exact Hv]; rewrite <- Qabs_opp; apply Qle_Qabs).
  destruct Ha as [Ea|Ea], Hb as [Eb|Eb], Hc as [Ec|Ec], HR as [ER|ER]; rewrite Ea, Eb, Ec, ER; lra.
Qed.

(* ---- the pair choice ---- *)
Lemma all_pairs_In k : forall x y, In (x, y) (all_pairs k) -> In x k /\ In y k.
Proof.
  induction k as [|a k IH]; simpl; intros x y H; [destruct H|].
  apply in_app_or in H. destruct H as [H|H].
  - apply in_map_iff in H. destruct H as (b & E & Hb). injection E as <- <-. auto.
  - destruct (IH _ _ H). auto.
Qed.

Lemma scan_spec (Qp : nat -> nat -> Prop) red hint f : forall ps best,
  (forall x y, In (x, y) ps -> Qp x y) ->
  (forall b x y, best = Some (b, (x, y)) -> Qp x y /\ lookup [x; y] red = None) ->
  match scan ps red hint f best with
  | PrevUsed x y z => Qp x y /\ lookup [x; y] red = Some z
  | Fresh x y => Qp x y /\ lookup [x; y] red = None
  | NoPair => True
  end.
Proof.
  induction ps as [|[x y] ps IH]; cbn [scan]; intros best Hps Hb.
  - destruct best as [[b [x y]]|]; [apply (Hb b x y eq_refl)| exact I].
  - destruct (lookup [x; y] red) as [z|] eqn:El.
    + cbv iota beta. split; [apply Hps; left; reflexivity| exact El].
    + destruct (existsb (key_eqb [x; y]) hint).
      * cbv iota beta. split; [apply Hps; left; reflexivity| exact El].
      * apply IH; [intros a b Hin; apply Hps; right; exact Hin|].
        intros b x' y' Hbest. destruct best as [[b0 [x0 y0]]|].
        -- destruct (b0 <? pf_get f x y)%nat.
           ++ injection Hbest as <- <- <-. split; [apply Hps; left; reflexivity| exact El].
           ++ apply (Hb b x' y'). exact Hbest.
        -- injection Hbest as <- <- <-. split; [apply Hps; left; reflexivity| exact El].
Qed.

(* ---- assignments consistent with the substitutions made so far ---- *)
Definition cons_red (s : env) (red : reductions) : Prop :=
  forall x y z, lookup [x; y] red = Some z -> s z == s x * s y.
Definition red_le (r r' : reductions) : Prop := forall k z, lookup k r = Some z -> lookup k r' = Some z.
Lemma red_le_refl r : red_le r r. Proof. intros k z H; exact H. Qed.
Lemma red_le_trans a b c : red_le a b -> red_le b c -> red_le a c.
Proof. intros H1 H2 k z H. apply H2, H1, H. Qed.
Lemma cons_red_le s r r' : red_le r r' -> cons_red s r' -> cons_red s r.
Proof. intros H C0 x y z Hl. apply C0, H, Hl. Qed.

Lemma lookup_set_same {V} k (v : V) d : lookup k (set_ k v d) = Some v.
Proof.
  induction d as [|[k' v'] d IH]; cbn [set_ lookup].
  - rewrite key_eqb_refl. reflexivity.
  - destruct (key_eqb k k') eqn:E; cbn [lookup]; [rewrite key_eqb_refl; reflexivity|]. rewrite E. exact IH.
Qed.
Lemma red_le_set r k z : lookup k r = None -> red_le r (set_ k z r).
Proof.
  intros Hn k' z' H. destruct (list_eq_dec Nat.eq_dec k' k) as [->|Hne]; [congruence|].
  rewrite lookup_set_other; assumption.
Qed.

(* ---- reducing one term ---- *)
Definition bmat (k : kind) : Prop := forall s, boolean_env s -> good_env k s.

Lemma add_gadget_eval s D z x y l D' : m_addall D (gadget z x y l) = Ok D' -> bmat (kd D) -> boolean_env s ->
  eval s (tm D') == eval s (tm D) + l * gad s z x y /\ kd D' = kd D.
Proof.
  intros H Hb Hs. destruct (m_addall_eval s _ _ _ H (Hb s Hs)) as [A B]. split; [|exact B].
  rewrite A, gadget_eval. reflexivity.
Qed.

Lemma reduce_term_spec : forall fuel d lam hint k st k' st',
  reduce_term fuel d lam hint k st = Ok (k', st') -> bmat (kd (rD st)) ->
  kd (rD st') = kd (rD st) /\ red_le (rRed st) (rRed st') /\ (length k' <= d)%nat /\
  (forall s, boolean_env s -> cons_red s (rRed st') ->
     eval s (tm (rD st')) == eval s (tm (rD st)) /\ mon s k' == mon s k) /\
  (forall s v, boolean_env s -> Qabs v <= lam ->
     v * mon s k + eval s (tm (rD st)) <= v * mon s k' + eval s (tm (rD st'))).
Proof.
  induction fuel as [|fuel IH]; intros d lam hint k st k' st' H Hb.
  - cbn [reduce_term] in H. destruct (length k <=? d)%nat eqn:El; [|discriminate].
    injection H as <- <-. apply Nat.leb_le in El. split; [reflexivity|]. split; [apply red_le_refl|]. split; [exact El|].
    split; [intros; split; reflexivity| intros; apply Qle_refl].
  - cbn [reduce_term] in H. destruct (length k <=? d)%nat eqn:El.
    { injection H as <- <-. apply Nat.leb_le in El. split; [reflexivity|]. split; [apply red_le_refl|]. split; [exact El|].
      split; [intros; split; reflexivity| intros; apply Qle_refl]. }
    pose proof (scan_spec (fun x y => In x k /\ In y k) (rRed st) hint (rF st) (all_pairs k) None
                 (all_pairs_In k) ltac:(intros; discriminate)) as Hsc.
    destruct (scan (all_pairs k) (rRed st) hint (rF st) None) as [x y z|x y|]; [| |discriminate].
    + (* the pair was reduced before: same ancilla, the gadget is added again *)
      destruct Hsc as [[Hx Hy] Hl].
      destruct (m_addall (rD st) (gadget z x y lam)) as [D1|] eqn:ED; cbn [bind] in H; [|discriminate].
      assert (Hb1 : bmat (kd (rD (with_rD st D1)))).
      { simpl. intros s Hs. destruct (add_gadget_eval s _ _ _ _ _ _ ED Hb Hs) as [_ K]. rewrite K. apply Hb, Hs. }
      destruct (IH _ _ _ _ _ _ _ H Hb1) as (K & RL & Len & A & B). simpl in K, RL, A, B.
      assert (K1 : kd D1 = kd (rD st)).
      { destruct (add_gadget_eval (fun _ => 0) _ _ _ _ _ _ ED Hb) as [_ K1]; [intros i; left; reflexivity| exact K1]. }
      split; [congruence|]. split; [exact RL|]. split; [exact Len|]. split.
      * intros s Hs Hc. destruct (A s Hs Hc) as [A1 A2].
        destruct (add_gadget_eval s _ _ _ _ _ _ ED Hb Hs) as [E1 _].
        assert (Hz : s z == s x * s y) by (apply Hc, RL, Hl).
        destruct (gad_facts s z x y Hs) as (_ & G0 & _). rewrite (G0 Hz) in E1.
        destruct (replace_pair_mon s k x y z Hs Hx Hy) as (R & _ & M1 & M2).
        split; [rewrite A1, E1; ring|]. rewrite A2, M2, M1, Hz. reflexivity.
      * intros s v Hs Hv. specialize (B s v Hs Hv).
        destruct (add_gadget_eval s _ _ _ _ _ _ ED Hb Hs) as [E1 _].
        destruct (replace_pair_mon s k x y z Hs Hx Hy) as (R & HR & M1 & M2).
        pose proof (step_ineq (s z) (s x) (s y) R v lam (Hs z) (Hs x) (Hs y) HR Hv) as SI.
        rewrite M2, E1 in B. rewrite M1. unfold gad in B. lra.
    + (* a new pair: fresh ancilla z = rAnc st *)
      destruct Hsc as [[Hx Hy] Hl]. set (z := rAnc st) in *.
      destruct (m_addall (rD st) (gadget z x y lam)) as [D1|] eqn:ED; cbn [bind] in H; [|discriminate].
      match type of H with reduce_term _ _ _ _ _ ?s1 = _ => set (st1 := s1) in * end.
      assert (Hb1 : bmat (kd (rD st1))).
      { simpl. intros s Hs. destruct (add_gadget_eval s _ _ _ _ _ _ ED Hb Hs) as [_ K]. rewrite K. apply Hb, Hs. }
      destruct (IH _ _ _ _ _ _ _ H Hb1) as (K & RL & Len & A & B). simpl in K, RL, A, B.
      assert (K1 : kd D1 = kd (rD st)).
      { destruct (add_gadget_eval (fun _ => 0) _ _ _ _ _ _ ED Hb) as [_ K1]; [intros i; left; reflexivity| exact K1]. }
      assert (RL0 : red_le (rRed st) (rRed st')) by (eapply red_le_trans; [apply red_le_set, Hl| exact RL]).
      split; [congruence|]. split; [exact RL0|]. split; [exact Len|]. split.
      * intros s Hs Hc. destruct (A s Hs Hc) as [A1 A2].
        destruct (add_gadget_eval s _ _ _ _ _ _ ED Hb Hs) as [E1 _].
        assert (Hz : s z == s x * s y) by (apply Hc, RL, lookup_set_same).
        destruct (gad_facts s z x y Hs) as (_ & G0 & _). rewrite (G0 Hz) in E1.
        destruct (replace_pair_mon s k x y z Hs Hx Hy) as (R & _ & M1 & M2).
        split; [rewrite A1, E1; ring|]. rewrite A2, M2, M1, Hz. reflexivity.
      * intros s v Hs Hv. specialize (B s v Hs Hv).
        destruct (add_gadget_eval s _ _ _ _ _ _ ED Hb Hs) as [E1 _].
        destruct (replace_pair_mon s k x y z Hs Hx Hy) as (R & HR & M1 & M2).
        pose proof (step_ineq (s z) (s x) (s y) R v lam (Hs z) (Hs x) (Hs y) HR Hv) as SI.
        rewrite M2, E1 in B. rewrite M1. unfold gad in B. lra.
Qed.

(* ---- key lengths (the degree of the produced form) ---- *)
Definition keys_le (d : nat) (t : terms) : Prop := forall k v, In (k, v) t -> (length k <= d)%nat.
Lemma ins_length x k : (length (ins x k) <= S (length k))%nat.
Proof. induction k as [|y k IH]; simpl; [lia|]. destruct (x <? y)%nat; simpl; [lia|]. destruct (x =? y)%nat; simpl; lia. Qed.
Lemma squashB_length k : (length (squashB k) <= length k)%nat.
Proof. induction k as [|x k IH]; simpl; [lia|]. pose proof (ins_length x (squashB k)). unfold squashB in *. lia. Qed.
Lemma tog_length x k : (length (tog x k) <= S (length k))%nat.
Proof. induction k as [|y k IH]; simpl; [lia|]. destruct (x <? y)%nat; simpl; [lia|]. destruct (x =? y)%nat; simpl; lia. Qed.
Lemma squashS_length k : (length (squashS k) <= length k)%nat.
Proof. induction k as [|x k IH]; simpl; [lia|]. pose proof (tog_length x (squashS k)). unfold squashS in *. lia. Qed.
Lemma squash_length kd0 k k' : squash kd0 k = Ok k' -> (length k' <= length k)%nat.
Proof.
  unfold squash. destruct kd0; try (intros [= <-]; lia);
    cbn [is_spin is_quadratic andb]; try (intros [= <-]; first [apply squashB_length| apply squashS_length]);
    match goal with |- context [if ?c then _ else _] => destruct c end; intros H; try discriminate; injection H as <-;
    first [apply squashB_length| apply squashS_length].
Qed.
Lemma m_additem_keys d m k v m' : m_additem m k v = Ok m' -> keys_le d (tm m) -> (length k <= d)%nat -> keys_le d (tm m').
Proof.
  intros H Hk Hl. apply m_additem_spec in H. destruct H as (k' & Hs & Ht & _). rewrite Ht.
  intros k0 v0 Hin. apply set_sq_In in Hin. destruct Hin as [[-> _]|Hin]; [|eapply Hk, Hin].
  pose proof (squash_length _ _ _ Hs). lia.
Qed.
Lemma m_addall_keys d o : forall m m', m_addall m o = Ok m' -> keys_le d (tm m) -> keys_le d o -> keys_le d (tm m').
Proof.
  induction o as [|[k v] o IH]; simpl; intros m m' H Hk Ho; [injection H as <-; exact Hk|].
  inv_bind H. eapply IH; [exact H| |intros k0 v0 Hin; eapply Ho; right; exact Hin].
  eapply m_additem_keys; [exact E| exact Hk| eapply Ho; left; reflexivity].
Qed.
Lemma gadget_keys d z x y l : (2 <= d)%nat -> keys_le d (gadget z x y l).
Proof.
  intros Hd k v. unfold gadget. destruct (qzero l); simpl; [tauto|].
  intros [E|[E|[E|[E|[]]]]]; injection E as <- _; simpl; lia.
Qed.

Lemma reduce_term_keys : forall fuel d lam hint k st k' st',
  reduce_term fuel d lam hint k st = Ok (k', st') -> (2 <= d)%nat -> keys_le d (tm (rD st)) -> keys_le d (tm (rD st')).
Proof.
  induction fuel as [|fuel IH]; intros d lam hint k st k' st' H Hd Hk; cbn [reduce_term] in H.
  - destruct (length k <=? d)%nat; [|discriminate]. injection H as <- <-. exact Hk.
  - destruct (length k <=? d)%nat; [injection H as <- <-; exact Hk|].
    destruct (scan (all_pairs k) (rRed st) hint (rF st) None) as [x y z|x y|]; [| |discriminate].
    + destruct (m_addall (rD st) (gadget z x y lam)) as [D1|] eqn:ED; cbn [bind] in H; [|discriminate].
      eapply IH; [exact H| exact Hd|]. simpl. eapply m_addall_keys; [exact ED| exact Hk| apply gadget_keys, Hd].
    + destruct (m_addall (rD st) (gadget (rAnc st) x y lam)) as [D1|] eqn:ED; cbn [bind] in H; [|discriminate].
      eapply IH; [exact H| exact Hd|]. simpl. eapply m_addall_keys; [exact ED| exact Hk| apply gadget_keys, Hd].
Qed.

(* ---- all terms ---- *)
Definition red_step (d : nat) (lamf : Q -> Q) (hint : list key) (acc : result rstate) (kv : key * Q) : result rstate :=
  let '(k, v) := kv in
  bind acc (fun st =>
  bind (reduce_term (length k) d (lamf v) hint k st) (fun '(k', st') =>
  bind (m_additem (rD st') k' v) (fun D' => Ok (with_rD st' D')))).

Lemma fold_err {A B} (F : result A -> B -> result A) (HF : forall e b, F (Err e) b = Err e) l e : fold_left F l (Err e) = Err e.
Proof. induction l as [|b l IH]; simpl; [reflexivity|]. rewrite HF. exact IH. Qed.

Lemma fold_spec d lamf hint : forall ms st0 stf,
  fold_left (red_step d lamf hint) ms (Ok st0) = Ok stf -> bmat (kd (rD st0)) ->
  kd (rD stf) = kd (rD st0) /\ red_le (rRed st0) (rRed stf) /\
  (forall s, boolean_env s -> cons_red s (rRed stf) -> eval s (tm (rD stf)) == eval s (tm (rD st0)) + eval s ms) /\
  (forall s, boolean_env s -> (forall k v, In (k, v) ms -> Qabs v <= lamf v) ->
     eval s (tm (rD st0)) + eval s ms <= eval s (tm (rD stf))) /\
  ((2 <= d)%nat -> keys_le d (tm (rD st0)) -> keys_le d (tm (rD stf))).
Proof.
  induction ms as [|[k v] ms IH]; intros st0 stf H Hb.
  - simpl in H. injection H as <-. split; [reflexivity|]. split; [apply red_le_refl|].
    split; [intros; simpl; ring|]. split; [intros; simpl; lra| auto].
  - cbn [fold_left] in H. unfold red_step at 2 in H. cbn [bind] in H.
    destruct (reduce_term (length k) d (lamf v) hint k st0) as [[k' st1]|e] eqn:ER; cbn [bind] in H;
      [|rewrite fold_err in H; [discriminate| intros e0 [? ?]; reflexivity]].
    destruct (m_additem (rD st1) k' v) as [D2|e] eqn:EA; cbn [bind] in H;
      [|rewrite fold_err in H; [discriminate| intros e0 [? ?]; reflexivity]].
    destruct (reduce_term_spec _ _ _ _ _ _ _ _ ER Hb) as (K1 & RL1 & Len & A1 & B1).
    assert (Hb1 : bmat (kd (rD st1))) by (rewrite K1; exact Hb).
    assert (K2 : kd D2 = kd (rD st1)).
    { destruct (m_additem_eval (fun _ => 0) _ _ _ _ EA) as [_ K2]; [apply Hb1; intros i; left; reflexivity| exact K2]. }
    assert (Hb2 : bmat (kd (rD (with_rD st1 D2)))) by (simpl; rewrite K2; exact Hb1).
    destruct (IH _ _ H Hb2) as (K3 & RL3 & A3 & B3 & L3). simpl in K3, RL3, A3, B3, L3.
    split; [congruence|]. split; [eapply red_le_trans; eassumption|]. split; [|split].
    + intros s Hs Hc. rewrite (A3 s Hs Hc).
      destruct (m_additem_eval s _ _ _ _ EA (Hb1 s Hs)) as [E2 _]. rewrite E2.
      destruct (A1 s Hs (cons_red_le _ _ _ RL3 Hc)) as [E1 M1]. rewrite E1, M1. simpl. ring.
    + intros s Hs Hl. assert (Hl' : forall k0 v0, In (k0, v0) ms -> Qabs v0 <= lamf v0) by (intros k0 v0 Hin0; apply (Hl k0 v0); right; exact Hin0).
      specialize (B3 s Hs Hl'). destruct (m_additem_eval s _ _ _ _ EA (Hb1 s Hs)) as [E2 _]. rewrite E2 in B3.
      specialize (B1 s v Hs (Hl k v (or_introl eq_refl))). simpl. lra.
    + intros Hd Hk. apply L3; [exact Hd|]. eapply m_additem_keys; [exact EA| | exact Len].
      eapply reduce_term_keys; eassumption.
Qed.

(* ---- mapped_self: relabel, sort the keys, accumulate ---- *)
Lemma mon_sort_key s k : mon s (sort_key k) == mon s k.
Proof. induction k as [|x k IH]; simpl; [reflexivity|]. rewrite mon_ins_sorted, IH. reflexivity. Qed.
Definition acc_step (acc : terms) (kv : key * Q) : terms :=
  let '(k, v) := kv in let k' := sort_key k in set_ k' (get_sq acc k' + v) acc.
Lemma acc_eval s t : forall acc, eval s (fold_left acc_step t acc) == eval s acc + eval s t.
Proof.
  induction t as [|[k v] t IH]; intros acc; cbn [fold_left]; [simpl; ring|].
  rewrite IH. unfold acc_step. rewrite eval_set, mon_sort_key. simpl. ring.
Qed.
Lemma mapped_self_eval mpx t ms s : mapped_self mpx t = Ok ms -> eval s ms == eval (pull mpx s) t.
Proof.
  unfold mapped_self. intros H. inv_bind H. injection H as <-.
  change (eval s (fold_left acc_step a []) == eval (pull mpx s) t).
  rewrite acc_eval. simpl. rewrite (relabel_terms_eval _ _ _ _ E). ring.
Qed.

(* ---- the ancillas: numbered from n upwards, each defined from smaller labels ---- *)
Fixpoint wfl (lo : nat) (red : reductions) : Prop :=
  match red with
  | [] => True
  | (k, z) :: r => (exists x y, k = [x; y] /\ (x < z)%nat /\ (y < z)%nat) /\ (lo <= z)%nat /\ wfl (S z) r
  end.
Definition rbound (red : reductions) (a : nat) : Prop := forall k z, In (k, z) red -> (z < a)%nat.
Lemma wfl_snoc x y z : forall red lo, wfl lo red -> rbound red z -> (lo <= z)%nat -> (x < z)%nat -> (y < z)%nat ->
  wfl lo (red ++ [([x; y], z)]).
Proof.
  induction red as [|[k z0] r IH]; simpl; intros lo Hw Hb Hlo Hx Hy.
  - split; [exists x, y; auto|]. split; [exact Hlo| exact I].
  - destruct Hw as (P & L & W). split; [exact P|]. split; [exact L|].
    apply IH; [exact W| intros k' z' Hin; apply (Hb k' z'); right; exact Hin| | exact Hx| exact Hy].
    specialize (Hb k z0 (or_introl eq_refl)). lia.
Qed.
Lemma lookup_In {V} k (v : V) d : lookup k d = Some v -> In (k, v) d.
Proof.
  induction d as [|[k' v'] d IH]; simpl; [discriminate|].
  destruct (key_eqb k k') eqn:E; [intros [= <-]; apply key_eqb_eq in E; subst; left; reflexivity| intros H; right; apply IH, H].
Qed.
Lemma lookup_None_not_in {V} k (d : list (key * V)) : lookup k d = None -> ~ In k (map fst d).
Proof.
  induction d as [|[k' v'] d IH]; simpl; [tauto|].
  destruct (key_eqb k k') eqn:E; [discriminate|]. intros H [Heq|Hin]; [|apply (IH H Hin)].
  subst. rewrite key_eqb_refl in E. discriminate.
Qed.

Definition RW (n : nat) (st : rstate) : Prop :=
  wfl n (rRed st) /\ rbound (rRed st) (rAnc st) /\ (n <= rAnc st)%nat.
Definition key_lt (k : key) (a : nat) : Prop := forall i, In i k -> (i < a)%nat.

Lemma ins_sorted_In z k i : In i (ins_sorted z k) -> i = z \/ In i k.
Proof.
  induction k as [|j k IH]; simpl; [intros [->|[]]; auto|].
  destruct (z <? j)%nat; simpl; intros H.
  - destruct H as [->|[->|H]]; auto.
  - destruct H as [->|H]; [auto|]. destruct (IH H); auto.
Qed.
Lemma replace_pair_lt k x y z a : key_lt k a -> (z < a)%nat -> key_lt (replace_pair k x y z) a.
Proof.
  intros Hk Hz i Hi. unfold replace_pair in Hi. apply ins_sorted_In in Hi. destruct Hi as [->|Hi]; [exact Hz|].
  apply filter_In in Hi. apply Hk, Hi.
Qed.

Lemma reduce_term_anc n : forall fuel d lam hint k st k' st',
  reduce_term fuel d lam hint k st = Ok (k', st') -> RW n st -> key_lt k (rAnc st) ->
  RW n st' /\ (rAnc st <= rAnc st')%nat.
Proof.
  induction fuel as [|fuel IH]; intros d lam hint k st k' st' H HW Hk; cbn [reduce_term] in H.
  - destruct (length k <=? d)%nat; [|discriminate]. injection H as <- <-. auto.
  - destruct (length k <=? d)%nat; [injection H as <- <-; auto|].
    pose proof (scan_spec (fun x y => In x k /\ In y k) (rRed st) hint (rF st) (all_pairs k) None
                 (all_pairs_In k) ltac:(intros; discriminate)) as Hsc.
    destruct (scan (all_pairs k) (rRed st) hint (rF st) None) as [x y z|x y|]; [| |discriminate].
    + destruct Hsc as [[Hx Hy] Hl].
      destruct (m_addall (rD st) (gadget z x y lam)) as [D1|] eqn:ED; cbn [bind] in H; [|discriminate].
      destruct HW as (W & B & N).
      apply (IH _ _ _ _ _ _ _ H); [exact (conj W (conj B N))|]. simpl.
      apply replace_pair_lt; [exact Hk| apply (B [x; y] z), lookup_In, Hl].
    + destruct Hsc as [[Hx Hy] Hl]. set (z := rAnc st) in *.
      destruct (m_addall (rD st) (gadget z x y lam)) as [D1|] eqn:ED; cbn [bind] in H; [|discriminate].
      destruct HW as (W & B & N).
      match type of H with reduce_term _ _ _ _ _ ?s1 = _ => set (st1 := s1) in * end.
      assert (HW1 : RW n st1).
      { unfold RW, st1. simpl. rewrite (set_append _ _ _ (lookup_None_not_in _ _ Hl)). split; [|split].
        - apply wfl_snoc; [exact W| exact B| exact N| apply Hk, Hx| apply Hk, Hy].
        - intros k0 z0 Hin. apply in_app_or in Hin. destruct Hin as [Hin|[E|[]]]; [specialize (B _ _ Hin); lia|].
          injection E as _ <-. lia.
        - lia. }
      destruct (IH _ _ _ _ _ _ _ H HW1) as [R1 R2].
      { simpl. apply replace_pair_lt; [intros i Hi; specialize (Hk i Hi); lia| lia]. }
      split; [exact R1|]. simpl in R2. lia.
Qed.

Lemma fold_anc n d lamf hint : forall ms st0 stf,
  fold_left (red_step d lamf hint) ms (Ok st0) = Ok stf -> RW n st0 ->
  (forall k v, In (k, v) ms -> key_lt k n) -> RW n stf.
Proof.
  induction ms as [|[k v] ms IH]; intros st0 stf H HW Hk.
  - simpl in H. injection H as <-. exact HW.
  - cbn [fold_left] in H. unfold red_step at 2 in H. cbn [bind] in H.
    destruct (reduce_term (length k) d (lamf v) hint k st0) as [[k' st1]|e] eqn:ER; cbn [bind] in H;
      [|rewrite fold_err in H; [discriminate| intros e0 [? ?]; reflexivity]].
    destruct (m_additem (rD st1) k' v) as [D2|e] eqn:EA; cbn [bind] in H;
      [|rewrite fold_err in H; [discriminate| intros e0 [? ?]; reflexivity]].
    destruct (reduce_term_anc n _ _ _ _ _ _ _ _ ER HW) as [HW1 _].
    { intros i Hi. specialize (Hk k v (or_introl eq_refl) i Hi). destruct HW as (_ & _ & N). lia. }
    apply (IH _ _ H); [exact HW1|]. intros k0 v0 Hin. apply (Hk k0 v0). right. exact Hin.
Qed.

(* ---- the consistent extension of an assignment ---- *)
Definition upd (s : env) (z : nat) (v : Q) : env := fun i => if Nat.eqb i z then v else s i.
Fixpoint ext (s : env) (red : reductions) : env :=
  match red with
  | [] => s
  | (k, z) :: r => ext (match k with [x; y] => upd s z (s x * s y) | _ => s end) r
  end.
Lemma ext_below : forall red lo s i, wfl lo red -> (i < lo)%nat -> ext s red i = s i.
Proof.
  induction red as [|[k z] r IH]; simpl; intros lo s i Hw Hi; [reflexivity|].
  destruct Hw as ((x & y & -> & Hx & Hy) & L & W). rewrite (IH (S z)); [|exact W| lia].
  unfold upd. destruct (Nat.eqb_spec i z); [lia| reflexivity].
Qed.
Lemma is_bool_mult a b : is_bool a -> is_bool b -> is_bool (a * b).
Proof. unfold is_bool. intros [Ha|Ha] [Hb|Hb]; rewrite Ha, Hb; [left|left|left|right]; ring. Qed.
Lemma ext_bool : forall red s, boolean_env s -> boolean_env (ext s red).
Proof.
  induction red as [|[k z] r IH]; simpl; intros s Hs; [exact Hs|]. apply IH.
  destruct k as [|x [|y [|? ?]]]; try exact Hs. intros i. unfold upd. destruct (Nat.eqb i z); [|apply Hs].
  apply (is_bool_mult (s x) (s y)); apply Hs.
Qed.
Lemma ext_cons : forall red lo s, wfl lo red -> cons_red (ext s red) red.
Proof.
  induction red as [|[k z] r IH]; intros lo s Hw x' y' z' Hl; [discriminate|].
  simpl in Hw. destruct Hw as ((x & y & -> & Hx & Hy) & L & W). cbn [lookup] in Hl. cbn [ext].
  destruct (key_eqb [x'; y'] [x; y]) eqn:E.
  - injection Hl as <-. apply key_eqb_eq in E. injection E as -> ->.
    rewrite !(ext_below r (S z)); try assumption; try lia.
    unfold upd. rewrite Nat.eqb_refl. destruct (Nat.eqb_spec x z); [lia|]. destruct (Nat.eqb_spec y z); [lia|]. reflexivity.
  - apply (IH (S z) _ W). exact Hl.
Qed.

(* labels of the mapped form *)
Lemma relabel_key_range mpx k k' : relabel_key mpx k = Ok k' -> forall n, In n k' -> In n (map snd mpx).
Proof.
  revert k'. induction k as [|i k IH]; simpl; intros k' H n Hn.
  - injection H as <-. destruct Hn.
  - destruct (mp_get i mpx) as [j|] eqn:Eg; [|discriminate]. inv_bind H. injection H as <-.
    destruct Hn as [<-|Hn]; [apply (mp_get_In _ _ _ Eg)| apply (IH _ eq_refl _ Hn)].
Qed.
Lemma relabel_terms_range mpx t t' : relabel_terms mpx t = Ok t' ->
  forall k v n, In (k, v) t' -> In n k -> In n (map snd mpx).
Proof.
  revert t'. induction t as [|[k0 v0] t IH]; simpl; intros t' H k v n Hin Hn.
  - injection H as <-. destruct Hin.
  - inv_bind H. inv_bind H. injection H as <-. destruct Hin as [E1|Hin].
    + injection E1 as <- <-. eapply relabel_key_range; eassumption.
    + eapply IH; [reflexivity| exact Hin| exact Hn].
Qed.
Lemma sort_key_In k i : In i (sort_key k) -> In i k.
Proof.
  induction k as [|x k IH]; simpl; [tauto|]. intros H. apply ins_sorted_In in H. destruct H as [->|H]; [left; reflexivity| right; apply IH, H].
Qed.
Lemma acc_keys (P : key -> Prop) t : forall acc, (forall k v, In (k, v) acc -> P k) ->
  (forall k v, In (k, v) t -> P (sort_key k)) -> forall k v, In (k, v) (fold_left acc_step t acc) -> P k.
Proof.
  induction t as [|[k0 v0] t IH]; intros acc Ha Ht k v Hin; cbn [fold_left] in Hin; [eapply Ha, Hin|].
  eapply IH; [| |exact Hin].
  - intros k1 v1 H1. unfold acc_step in H1. apply set_In in H1. destruct H1 as [E|H1]; [|eapply Ha, H1].
    injection E as <- _. apply (Ht k0 v0). left. reflexivity.
  - intros k1 v1 H1. apply (Ht k1 v1). right. exact H1.
Qed.
Lemma mapped_self_range mpx t ms : mapped_self mpx t = Ok ms ->
  forall k v n, In (k, v) ms -> In n k -> In n (map snd mpx).
Proof.
  unfold mapped_self. intros H. inv_bind H. injection H as <-. intros k v n Hin Hn.
  revert n Hn. change ((fun k => forall n, In n k -> In n (map snd mpx)) k).
  eapply (acc_keys _ a []); [intros ? ? []| |exact Hin].
  intros k0 v0 Hin0 n Hn. apply sort_key_In in Hn. eapply relabel_terms_range; eassumption.
Qed.

(* ---- PUBO._reduce_degree ---- *)
Definition req_deg (m : model) (deg : option nat) : nat :=
  match deg with Some d => d | None => match deg_c m with Some d => d | None => 0%nat end end.

(* the integers the mapping hands out are below the number of variables (part of the C14 invariant) *)
Definition mp_range (m : model) : Prop := forall n, In n (map snd (mp m)) -> (n < num_vars m)%nat.
Lemma Inv_mp_range m : Inv m -> is_labelled (kd m) = true -> mp_range m.
Proof. intros HI Hl n Hn. apply (Inv_range m HI Hl), Hn. Qed.

Theorem reduce_degree_spec m out deg l pairs D :
  reduce_degree m out deg l pairs = Ok D -> bmat out -> mp_range m ->
  exists ms red,
    mapped_self (mp m) (tm m) = Ok ms /\ kd D = out /\ wfl (num_vars m) red /\
    (forall s, boolean_env s -> cons_red s red -> eval s (tm D) == eval (pull (mp m) s) (tm m)) /\
    (forall s, boolean_env s -> (forall k v, In (k, v) ms -> Qabs v <= lam_fun l v) ->
       eval (pull (mp m) s) (tm m) <= eval s (tm D)) /\
    ((2 <= req_deg m deg)%nat -> keys_le (req_deg m deg) (tm D)).
Proof.
  unfold reduce_degree. intros H Hb Hr.
  destruct (match deg with Some d => (d <? 2)%nat | None => false end); [discriminate|].
  fold (req_deg m deg) in H. set (d := req_deg m deg) in *.
  destruct (mapped_self (mp m) (tm m)) as [ms|] eqn:Ems; cbn [bind] in H; [|discriminate].
  destruct (init_freq (mp m) (tm m)) as [f0|] eqn:Ef; cbn [bind] in H; [|discriminate].
  set (hint := map_hint (mp m) pairs) in *.
  set (st0 := {| rD := empty_model out; rRed := []; rF := f0; rAnc := num_vars m |}) in *.
  match type of H with bind ?F _ = _ => change F with (fold_left (red_step d (lam_fun l) hint) ms (Ok st0)) in H end.
  destruct (fold_left (red_step d (lam_fun l) hint) ms (Ok st0)) as [stf|] eqn:EF; cbn [bind] in H; [|discriminate].
  injection H as <-.
  assert (Hb0 : bmat (kd (rD st0))) by exact Hb.
  destruct (fold_spec _ _ _ _ _ _ EF Hb0) as (K & RL & A & B & L).
  assert (HW0 : RW (num_vars m) st0) by (unfold RW, st0; simpl; split; [exact I| split; [intros ? ? []| lia]]).
  assert (Hrange : forall k v, In (k, v) ms -> key_lt k (num_vars m)).
  { intros k v Hin i Hi. apply Hr. eapply mapped_self_range; eassumption. }
  destruct (fold_anc _ _ _ _ _ _ _ EF HW0 Hrange) as (W & _ & _).
  exists ms, (rRed stf). split; [reflexivity|]. split; [exact K|]. split; [exact W|].
  assert (E0 : forall s, eval s (tm (rD st0)) == 0) by (intros s; reflexivity).
  split; [|split].
  - intros s Hs Hc. rewrite (A s Hs Hc), E0, (mapped_self_eval _ _ _ s Ems). ring.
  - intros s Hs Hlam. specialize (B s Hs Hlam). rewrite E0, (mapped_self_eval _ _ _ s Ems) in B. lra.
  - intros Hd. apply L; [exact Hd| intros ? ? []].
Qed.

(* an assignment of the labels and an assignment of the integers that agree through the mapping *)
Lemma pull_agree m s x : Inv m -> is_labelled (kd m) = true ->
  (forall l n, mp_get l (mp m) = Some n -> s n == x l) -> eval (pull (mp m) s) (tm m) == eval x (tm m).
Proof.
  intros [B L] Hl Hs. apply eval_ext_in. intros k v i Hin Hi. unfold pull.
  assert (Hk : kd m <> KDict) by (destruct (kd m) eqn:Ek; simpl in Hl; congruence).
  destruct (B Hk) as (_ & LI & _). destruct (L Hl) as (S1 & _).
  assert (Hv : In i (map fst (mp m))) by (apply S1; eapply LI; eassumption).
  destruct (mp_get i (mp m)) as [n|] eqn:Hg; [apply Hs, Hg|].
  apply mp_get_None in Hg. contradiction.
Qed.

(* the integer assignment that carries x, extended consistently over the ancillas *)
Definition push (mpx : list (label * nat)) (x : env) : env :=
  fun n => match rmp_get n mpx with Some l => x l | None => 0 end.
Lemma push_bool mpx x : boolean_env x -> boolean_env (push mpx x).
Proof. intros Hx n. unfold push. destruct (rmp_get n mpx); [apply Hx| left; reflexivity]. Qed.
Lemma pull_bool mpx s : boolean_env s -> boolean_env (pull mpx s).
Proof. intros Hs l. unfold pull. destruct (mp_get l mpx); [apply Hs| left; reflexivity]. Qed.

Definition MPok (m : model) : Prop :=
  mp_range m /\ (forall i n, mp_get i (mp m) = Some n <-> rmp_get n (mp m) = Some i).
Lemma Inv_MPok m : Inv m -> is_labelled (kd m) = true -> MPok m.
Proof. intros HI Hl. split; [apply Inv_mp_range; assumption| apply Inv_bijection; assumption]. Qed.

Theorem reduce_extension_pull m out deg l pairs D :
  reduce_degree m out deg l pairs = Ok D -> bmat out -> MPok m ->
  forall x, boolean_env x ->
  exists s, boolean_env s /\ (forall l0 n, mp_get l0 (mp m) = Some n -> s n == x l0)
            /\ eval s (tm D) == eval (pull (mp m) s) (tm m).
Proof.
  intros H Hb [Hr Hbij] x Hx.
  destruct (reduce_degree_spec _ _ _ _ _ _ H Hb Hr) as (ms & red & _ & _ & W & A & _).
  set (s := ext (push (mp m) x) red). exists s.
  assert (Hs : boolean_env s) by (apply ext_bool, push_bool, Hx).
  split; [exact Hs|]. split; [|apply (A s Hs (ext_cons red _ _ W))].
  intros l0 n Hg. unfold s. rewrite (ext_below red (num_vars m)); [|exact W|].
  - unfold push. apply Hbij in Hg. rewrite Hg. reflexivity.
  - apply Hr. apply (mp_get_In _ _ _ Hg).
Qed.

Theorem reduce_extension m out deg l pairs D :
  reduce_degree m out deg l pairs = Ok D -> bmat out -> Inv m -> is_labelled (kd m) = true ->
  forall x, boolean_env x ->
  exists s, boolean_env s /\ (forall l0 n, mp_get l0 (mp m) = Some n -> s n == x l0) /\ eval s (tm D) == eval x (tm m).
Proof.
  intros H Hb HI Hl x Hx.
  destruct (reduce_extension_pull _ _ _ _ _ _ H Hb (Inv_MPok m HI Hl) x Hx) as (s & Hs & Hag & E).
  exists s. split; [exact Hs|]. split; [exact Hag|]. rewrite E. apply pull_agree; assumption.
Qed.

Theorem reduce_lower m out deg l pairs D :
  reduce_degree m out deg l pairs = Ok D -> bmat out -> mp_range m ->
  (forall ms, mapped_self (mp m) (tm m) = Ok ms -> forall k v, In (k, v) ms -> Qabs v <= lam_fun l v) ->
  forall s, boolean_env s -> eval (pull (mp m) s) (tm m) <= eval s (tm D).
Proof.
  intros H Hb Hr Hlam s Hs.
  destruct (reduce_degree_spec _ _ _ _ _ _ H Hb Hr) as (ms & red & Ems & _ & _ & _ & B & _).
  apply (B s Hs). apply Hlam, Ems.
Qed.
Lemma default_lam_ok v : Qabs v <= lam_fun LDefault v.
Proof. simpl. unfold default_lam. lra. Qed.

(* same minimum; every minimiser of D converts to a minimiser of M *)
Theorem reduce_minimiser m out deg l pairs D :
  reduce_degree m out deg l pairs = Ok D -> bmat out -> Inv m -> is_labelled (kd m) = true ->
  (forall ms, mapped_self (mp m) (tm m) = Ok ms -> forall k v, In (k, v) ms -> Qabs v <= lam_fun l v) ->
  forall s, boolean_env s -> (forall s', boolean_env s' -> eval s (tm D) <= eval s' (tm D)) ->
  let x := pull (mp m) s in
  eval x (tm m) == eval s (tm D) /\ forall x', boolean_env x' -> eval x (tm m) <= eval x' (tm m).
Proof.
  intros H Hb HI Hl Hlam s Hs Hmin x.
  pose proof (reduce_lower _ _ _ _ _ _ H Hb (Inv_mp_range m HI Hl) Hlam s Hs) as Lo. fold x in Lo.
  assert (Hx : boolean_env x) by apply pull_bool, Hs.
  assert (Up : forall x', boolean_env x' -> eval s (tm D) <= eval x' (tm m)).
  { intros x' Hx'. destruct (reduce_extension _ _ _ _ _ _ H Hb HI Hl x' Hx') as (s' & Hs' & _ & E). rewrite <- E. apply Hmin, Hs'. }
  split; [apply Qle_antisym; [exact Lo| apply Up, Hx]|].
  intros x' Hx'. eapply Qle_trans; [exact Lo| apply Up, Hx'].
Qed.

(* ---- the to_* methods of PUBO / PCBO ---- *)
Lemma bmat_qubom : bmat KQuboM. Proof. intros s Hs. exact Hs. Qed.
Lemma bmat_pubom : bmat KPuboM. Proof. intros s Hs. exact Hs. Qed.

(* to_quso / to_puso: the boolean reduced form seen through 0 <-> +1, 1 <-> -1 *)
Theorem pubo_to_quso_value m l pairs L : pubo_to_quso m l pairs = Ok L ->
  exists Q, pubo_to_qubo m l pairs = Ok Q /\ forall z, spin_env z -> eval z (tm L) == eval (s2b z) (tm Q).
Proof.
  unfold pubo_to_quso. intros H. inv_bind H. exists a. split; [reflexivity|].
  intros z Hz. apply (qubo_to_quso_sound _ _ _ _ H Hz).
Qed.
Theorem pubo_to_puso_value m deg l pairs S : pubo_to_puso_m m deg l pairs = Ok S ->
  exists P, pubo_to_pubo m deg l pairs = Ok P /\ forall z, spin_env z -> eval z (tm S) == eval (s2b z) (tm P).
Proof.
  unfold pubo_to_puso_m. intros H. inv_bind H. exists a. split; [reflexivity|].
  intros z Hz. apply (pubo_to_puso_sound _ _ _ _ H Hz).
Qed.

(* ---- PUSO / PCSO: through _create_pubo ---- *)
Lemma create_pubo_spec m P : create_pubo m = Ok P -> Inv m -> is_labelled (kd m) = true ->
  MPok P /\ mp P = mp m /\ (forall x, boolean_env x -> eval x (tm P) == eval (b2s x) (tm m)).
Proof.
  unfold create_pubo. intros H HI Hl. inv_bind H. injection H as <-. simpl.
  destruct (Inv_MPok m HI Hl) as [Hr Hb]. split; [split; [exact Hr| exact Hb]|]. split; [reflexivity|].
  intros x Hx. apply (puso_to_pubo_sound _ _ _ _ E Hx).
Qed.

(* a spin assignment z of the labels and a boolean assignment s of the integers that agree through the mapping *)
Lemma pull_agree_spin m s z : Inv m -> is_labelled (kd m) = true ->
  (forall l n, mp_get l (mp m) = Some n -> s n == s2b z l) ->
  eval (b2s (pull (mp m) s)) (tm m) == eval z (tm m).
Proof.
  intros [B L] Hl Hs. apply eval_ext_in. intros k v i Hin Hi. unfold b2s, pull.
  assert (Hk : kd m <> KDict) by (destruct (kd m) eqn:Ek; simpl in Hl; congruence).
  destruct (B Hk) as (_ & LI & _). destruct (L Hl) as (S1 & _).
  assert (Hv : In i (map fst (mp m))) by (apply S1; eapply LI; eassumption).
  destruct (mp_get i (mp m)) as [n|] eqn:Hg; [|apply mp_get_None in Hg; contradiction].
  rewrite (Hs i n Hg). unfold s2b. field.
Qed.

Theorem spin_reduce_extension m out deg l pairs P D :
  create_pubo m = Ok P -> reduce_degree P out deg l pairs = Ok D -> bmat out -> Inv m -> is_labelled (kd m) = true ->
  forall z, spin_env z ->
  exists s, boolean_env s /\ (forall l0 n, mp_get l0 (mp m) = Some n -> s n == s2b z l0) /\ eval s (tm D) == eval z (tm m).
Proof.
  intros HP H Hb HI Hl z Hz. destruct (create_pubo_spec _ _ HP HI Hl) as (HM & Emp & V).
  destruct (reduce_extension_pull _ _ _ _ _ _ H Hb HM (s2b z) (s2b_bool z Hz)) as (s & Hs & Hag & E).
  rewrite Emp in Hag, E. exists s. split; [exact Hs|]. split; [exact Hag|].
  rewrite E, (V _ (pull_bool _ _ Hs)). apply pull_agree_spin; assumption.
Qed.
Theorem spin_reduce_lower m out deg l pairs P D :
  create_pubo m = Ok P -> reduce_degree P out deg l pairs = Ok D -> bmat out -> Inv m -> is_labelled (kd m) = true ->
  (forall ms, mapped_self (mp P) (tm P) = Ok ms -> forall k v, In (k, v) ms -> Qabs v <= lam_fun l v) ->
  forall s, boolean_env s -> eval (b2s (pull (mp m) s)) (tm m) <= eval s (tm D).
Proof.
  intros HP H Hb HI Hl Hlam s Hs. destruct (create_pubo_spec _ _ HP HI Hl) as ((Hr & _) & Emp & V).
  pose proof (reduce_lower _ _ _ _ _ _ H Hb Hr Hlam s Hs) as Lo. rewrite Emp in Lo.
  rewrite <- (V _ (pull_bool _ _ Hs)). exact Lo.
Qed.

Theorem reduce_lower_default m out deg pairs D :
  reduce_degree m out deg LDefault pairs = Ok D -> bmat out -> mp_range m ->
  forall s, boolean_env s -> eval (pull (mp m) s) (tm m) <= eval s (tm D).
Proof. intros H Hb Hr. apply (reduce_lower _ _ _ _ _ _ H Hb Hr). intros ms _ k v _. apply default_lam_ok. Qed.
Theorem reduce_degree_bound m out deg l pairs D :
  reduce_degree m out deg l pairs = Ok D -> bmat out -> mp_range m -> (2 <= req_deg m deg)%nat -> keys_le (req_deg m deg) (tm D).
Proof. intros H Hb Hr. destruct (reduce_degree_spec _ _ _ _ _ _ H Hb Hr) as (ms & red & _ & _ & _ & _ & _ & L). exact L. Qed.
