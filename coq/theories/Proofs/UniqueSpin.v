(* C05: uniqueness of the canonical form for spin models, by splitting on one label at a time *)
From QV.Model Require Import Base Matrix Arith Expr.
From QV.Proofs Require Import BaseProofs KeyProofs ArithProofs ExprProofs InvProofs UniqueProofs.
From Coq Require Import Lia Lqa.
Open Scope Q_scope.

Definition rem (a : label) (k : key) : key := filter (fun i => negb (Nat.eqb i a)) k.
Definition part1 (a : label) (t : terms) : terms :=
  map (fun '(k, v) => (rem a k, v)) (filter (fun '(k, _) => mem a k) t).
Definition part0 (a : label) (t : terms) : terms := filter (fun '(k, _) => negb (mem a k)) t.
Definition swf (t : terms) : Prop := NoDup (map fst t) /\ forall k v, In (k, v) t -> ssorted k /\ ~ v == 0.
Definition setv (z : env) (a : label) (v : Q) : env := fun i => if Nat.eqb i a then v else z i.

Lemma rem_notin a k : ~ In a (rem a k).
Proof. unfold rem. intros H. apply filter_In in H. destruct H as [_ H]. rewrite Nat.eqb_refl in H. discriminate. Qed.
Lemma rem_In a k i : In i (rem a k) <-> In i k /\ i <> a.
Proof.
  unfold rem. rewrite filter_In. split; intros [H1 H2]; split; try exact H1.
  - intros ->. rewrite Nat.eqb_refl in H2. discriminate.
  - destruct (Nat.eqb_spec i a); [contradiction| reflexivity].
Qed.
Lemma mon_rem z a k : NoDup k -> In a k -> mon z k == z a * mon z (rem a k).
Proof.
  induction k as [|i k IH]; simpl; intros Hn Hin; [destruct Hin|]. inversion Hn as [|? ? Hi Hk]; subst.
  destruct (Nat.eqb_spec i a) as [->|Hne]; simpl.
  - assert (F : rem a k = k).
    { unfold rem. clear -Hi. induction k as [|j k IH]; simpl; [reflexivity|].
      destruct (Nat.eqb_spec j a) as [->|Hj]; simpl; [exfalso; apply Hi; left; reflexivity|].
      rewrite IH; [reflexivity| intros H; apply Hi; right; exact H]. }
    fold (rem a k). rewrite F. reflexivity.
  - destruct Hin as [->|Hin]; [contradiction|]. fold (rem a k). rewrite (IH Hk Hin). ring.
Qed.
Lemma mon_setv_notin z a v k : ~ In a k -> mon (setv z a v) k == mon z k.
Proof.
  induction k as [|i k IH]; simpl; intros H; [reflexivity|]. rewrite IH by tauto. unfold setv.
  destruct (Nat.eqb_spec i a) as [->|Hne]; [exfalso; apply H; left; reflexivity| reflexivity].
Qed.

Lemma split_eval z a t : (forall k v, In (k, v) t -> NoDup k) ->
  eval z t == z a * eval z (part1 a t) + eval z (part0 a t).
Proof.
  intros Hn. induction t as [|[k v] t IH]; [simpl; ring|].
  assert (Hn' : forall k0 v0, In (k0, v0) t -> NoDup k0) by (intros k0 v0 H; apply (Hn k0 v0); right; exact H).
  specialize (IH Hn'). unfold part1, part0 in *. cbn [filter eval map]. destruct (mem a k) eqn:Em; cbn [negb map eval].
  - apply UniqueProofs.mem_In in Em. rewrite (mon_rem z a k (Hn k v (or_introl eq_refl)) Em), IH. ring.
  - rewrite IH. ring.
Qed.
Lemma part1_indep z a v t : eval (setv z a v) (part1 a t) == eval z (part1 a t).
Proof.
  unfold part1. induction t as [|[k c] t IH]; [reflexivity|]. cbn [filter]. destruct (mem a k); [|exact IH].
  cbn [map eval]. rewrite IH, (mon_setv_notin z a v _ (rem_notin a k)). reflexivity.
Qed.
Lemma part0_indep z a v t : eval (setv z a v) (part0 a t) == eval z (part0 a t).
Proof.
  unfold part0. induction t as [|[k c] t IH]; [reflexivity|]. cbn [filter]. destruct (mem a k) eqn:Em; cbn [negb]; [exact IH|].
  cbn [eval]. rewrite IH, (mon_setv_notin z a v k); [reflexivity|]. intros H. apply UniqueProofs.mem_In in H. congruence.
Qed.
Lemma setv_spin z a v : spin_env z -> (v == 1 \/ v == -(1)) -> spin_env (setv z a v).
Proof. intros Hz Hv i. unfold setv. destruct (Nat.eqb i a); [exact Hv| apply Hz]. Qed.

(* both halves vanish when the whole does *)
Lemma halves_zero a t : (forall k v, In (k, v) t -> NoDup k) -> (forall z, spin_env z -> eval z t == 0) ->
  (forall z, spin_env z -> eval z (part1 a t) == 0) /\ (forall z, spin_env z -> eval z (part0 a t) == 0).
Proof.
  intros Hn Hz.
  assert (E : forall z, spin_env z -> eval z (part1 a t) + eval z (part0 a t) == 0 /\ - eval z (part1 a t) + eval z (part0 a t) == 0).
  { intros z Hs. pose proof (Hz _ (setv_spin z a 1 Hs (or_introl (Qeq_refl 1)))) as E1.
    pose proof (Hz _ (setv_spin z a (-(1)) Hs (or_intror (Qeq_refl _)))) as E2.
    rewrite (split_eval _ a t Hn), part1_indep, part0_indep in E1. rewrite (split_eval _ a t Hn), part1_indep, part0_indep in E2.
    unfold setv in E1, E2. rewrite Nat.eqb_refl in E1, E2. split; lra. }
  split; intros z Hs; destruct (E z Hs); lra.
Qed.

Lemma filter_ssorted (f : label -> bool) k : ssorted k -> ssorted (filter f k).
Proof.
  induction k as [|x k IH]; intros H; [exact I|]. pose proof (ssorted_lb_all x k H) as Hlb. destruct H as [_ Hs]. specialize (IH Hs).
  simpl. destruct (f x); [|exact IH]. split; [|exact IH].
  destruct (filter f k) as [|y r] eqn:Ef; [exact I|]. simpl. apply Hlb.
  assert (In y (filter f k)) by (rewrite Ef; left; reflexivity). apply filter_In in H. apply H.
Qed.

Lemma swf_part0 a t : swf t -> swf (part0 a t).
Proof.
  intros [Hnd Hw]. unfold part0. split.
  - clear Hw. induction t as [|[k v] t IH]; [constructor|]. cbn [map fst] in Hnd. apply NoDup_cons_iff in Hnd. destruct Hnd as [Hk Hnd].
    cbn [filter]. destruct (negb (mem a k)); [|apply IH, Hnd]. cbn [map fst]. constructor; [|apply IH, Hnd].
    intros Hin. apply Hk. apply in_map_iff in Hin. destruct Hin as ([k0 v0] & E & Hf). apply filter_In in Hf. simpl in E. subst k0.
    destruct Hf as [Hf _]. apply (in_map fst) in Hf. exact Hf.
  - intros k v Hin. apply filter_In in Hin. apply Hw, Hin.
Qed.
Lemma swf_part1 a t : swf t -> swf (part1 a t).
Proof.
  intros [Hnd Hw]. unfold part1. split.
  - induction t as [|[k v] t IH]; [constructor|]. cbn [map fst] in Hnd. apply NoDup_cons_iff in Hnd. destruct Hnd as [Hk Hnd].
    assert (Hw' : forall k0 v0, In (k0, v0) t -> ssorted k0 /\ ~ v0 == 0) by (intros k0 v0 H; apply (Hw k0 v0); right; exact H).
    specialize (IH Hnd Hw'). cbn [filter]. destruct (mem a k) eqn:Em; [|exact IH]. cbn [map fst]. constructor; [|exact IH].
    intros Hin. apply Hk. apply in_map_iff in Hin. destruct Hin as ([k1 v1] & E1 & Hin1). simpl in E1.
    apply in_map_iff in Hin1. destruct Hin1 as ([k2 v2] & E2 & Hf). injection E2 as <- <-. apply filter_In in Hf. destruct Hf as [Hin2 Em2].
    (* rem a k2 = rem a k with a in both and both strictly sorted: k2 = k *)
    assert (k2 = k).
    { apply ssorted_same_set; [apply (Hw' k2 v2 Hin2)| apply (Hw k v (or_introl eq_refl))|].
      apply UniqueProofs.mem_In in Em. apply UniqueProofs.mem_In in Em2. intros i. destruct (Nat.eq_dec i a) as [->|Hne]; [tauto|].
      pose proof (rem_In a k2 i) as R2. pose proof (rem_In a k i) as R1. rewrite E1 in R2. tauto. }
    subst k2. apply (in_map fst) in Hin2. exact Hin2.
  - intros k v Hin. apply in_map_iff in Hin. destruct Hin as ([k0 v0] & E & Hf). injection E as <- <-. apply filter_In in Hf.
    destruct (Hw k0 v0 (proj1 Hf)) as [Hs Hv]. split; [apply filter_ssorted, Hs| exact Hv].
Qed.

Lemma filter_length_le {A} (f : A -> bool) (l : list A) : (length (filter f l) <= length l)%nat.
Proof. induction l as [|x l IH]; simpl; [lia|]. destruct (f x); simpl; lia. Qed.
Fixpoint weight (t : terms) : nat := match t with [] => O | (k, _) :: t' => S (length k) + weight t' end.
Lemma weight_part0 a t : (weight (part0 a t) <= weight t)%nat.
Proof. unfold part0. induction t as [|[k v] t IH]; simpl; [lia|]. destruct (mem a k); simpl; lia. Qed.
Lemma rem_length_le0 a k : (length (rem a k) <= length k)%nat.
Proof. apply filter_length_le. Qed.
Lemma rem_length_in a k : In a k -> (length (rem a k) < length k)%nat.
Proof.
  induction k as [|i k IH]; intros H; [destruct H|].
  unfold rem. cbn [filter]. fold (rem a k).
  pose proof (rem_length_le0 a k) as Hf.
  destruct (Nat.eqb_spec i a) as [->|Hne]; cbn [negb length].
  - apply Nat.lt_succ_r. exact Hf.
  - destruct H as [->|H]; [contradiction|]. specialize (IH H). apply -> Nat.succ_lt_mono. exact IH.
Qed.
Lemma rem_length_le a k : (length (rem a k) <= length k)%nat.
Proof. apply filter_length_le. Qed.
Lemma weight_part1 a t : (weight (part1 a t) <= weight t)%nat.
Proof.
  unfold part1. induction t as [|[k v] t IH]; simpl; [lia|]. destruct (mem a k); simpl; [|lia]. pose proof (rem_length_le a k). lia.
Qed.
Lemma weight_part1_lt a k v t : In (k, v) t -> In a k -> (weight (part1 a t) < weight t)%nat.
Proof.
  unfold part1. induction t as [|[k0 v0] t IH]; simpl; intros Hin Ha; [destruct Hin|].
  destruct Hin as [E|Hin].
  - injection E as -> ->. assert (Em : mem a k = true) by (apply UniqueProofs.mem_In, Ha). rewrite Em. simpl.
    pose proof (rem_length_in a k Ha). pose proof (weight_part1 a t). unfold part1 in H0. lia.
  - specialize (IH Hin Ha). destruct (mem a k0); simpl; [pose proof (rem_length_le a k0); lia| lia].
Qed.

Theorem spin_zero_poly_empty : forall n t, (weight t <= n)%nat -> swf t -> (forall z, spin_env z -> eval z t == 0) -> t = [].
Proof.
  induction n as [|n IH]; intros t Hw Hs Hz.
  - destruct t as [|[k v] t]; [reflexivity| simpl in Hw; lia].
  - destruct t as [|[k v] t'] eqn:Et; [reflexivity|]. exfalso. rewrite <- Et in *.
    assert (Hn : forall k0 v0, In (k0, v0) t -> NoDup k0) by (intros k0 v0 H; apply ssorted_NoDup, (proj2 Hs k0 v0 H)).
    (* a term with a non-empty key, if there is one *)
    destruct (existsb (fun p => match fst p with [] => false | _ => true end) t) eqn:Ex.
    + apply existsb_exists in Ex. destruct Ex as ([k1 v1] & Hin1 & Hne). simpl in Hne. destruct k1 as [|a k1]; [discriminate|].
      destruct (halves_zero a t Hn Hz) as [Z1 _].
      assert (W1 : (weight (part1 a t) < weight t)%nat) by (apply (weight_part1_lt a (a :: k1) v1 t Hin1); left; reflexivity).
      pose proof (IH (part1 a t) ltac:(lia) (swf_part1 a t Hs) Z1) as E1.
      assert (In (rem a (a :: k1), v1) (part1 a t)).
      { unfold part1. apply in_map_iff. exists (a :: k1, v1). split; [reflexivity|]. apply filter_In. split; [exact Hin1|]. simpl. rewrite Nat.eqb_refl. reflexivity. }
      rewrite E1 in H. destruct H.
    + (* every key is (): the list has one entry, a non-zero constant *)
      assert (Hk : k = []).
      { destruct k as [|a k]; [reflexivity|]. exfalso.
        assert (existsb (fun p => match fst p with [] => false | _ => true end) t = true); [|congruence].
        apply existsb_exists. exists (a :: k, v). split; [rewrite Et; left; reflexivity| reflexivity]. }
      subst k. assert (Ht' : t' = []).
      { destruct t' as [|[k2 v2] t'']; [reflexivity|]. exfalso. destruct k2 as [|a k2].
        - destruct Hs as [Hnd _]. rewrite Et in Hnd. simpl in Hnd. apply NoDup_cons_iff in Hnd. apply (proj1 Hnd). left. reflexivity.
        - assert (existsb (fun p => match fst p with [] => false | _ => true end) t = true); [|congruence].
          apply existsb_exists. exists (a :: k2, v2). split; [rewrite Et; right; left; reflexivity| reflexivity]. }
      subst t'. destruct (proj2 Hs [] v ltac:(rewrite Et; left; reflexivity)) as [_ Hv]. apply Hv.
      specialize (Hz (fun _ => 1) ltac:(intros i; left; reflexivity)). rewrite Et in Hz. simpl in Hz. lra.
Qed.

Theorem zero_poly_empty_spin kd0 t : is_spin kd0 = true -> wf kd0 t -> (forall z, spin_env z -> eval z t == 0) -> t = [].
Proof.
  intros Hsp [Hnd Hw] Hz. apply (spin_zero_poly_empty (weight t) t (Nat.le_refl _)); [|exact Hz].
  split; [exact Hnd|]. intros k v Hin. destruct (Hw k v Hin) as [Hs Hv]. split; [|exact Hv].
  apply (squash_kd_ssorted kd0 k k); [destruct kd0; simpl in Hsp; discriminate| exact Hs].
Qed.

(* two spin models with the same values: their difference, as the library computes it, is the empty model *)
Theorem equal_values_sub_empty_spin a b d : is_spin (kd a) = true -> wf (kd a) (tm a) ->
  m_sub a (OModel b) = Ok d -> (forall z, spin_env z -> eval z (tm a) == eval z (tm b)) -> tm d = [].
Proof.
  intros Hsp Hw Hd Heq.
  assert (Hg : forall z, spin_env z -> good_env (kd a) z) by (intros z Hz; unfold good_env; destruct (kd a); simpl in *; try congruence; exact Hz).
  destruct (apply_bop_eval (fun _ => 1) false OpSub a (OModel b) d Hd (Hg _ ltac:(intros i; left; reflexivity)) Hw) as (_ & K & Wd).
  rewrite K in Wd. apply (zero_poly_empty_spin (kd a) (tm d) Hsp Wd).
  intros z Hz. destruct (apply_bop_eval z false OpSub a (OModel b) d Hd (Hg z Hz) Hw) as (E & _ & _).
  rewrite E. simpl. rewrite (Heq z Hz). ring.
Qed.
